(* PipeInv5Sys.v -- invariant group 5 is preserved by the API bookkeeping and hence by every event of the two-stream
   system: every reachable state has it. *)
From Coq Require Import List Bool Arith NArith Lia.
From RecordUpdate Require Import RecordSet.
From Pipe Require Import PipeModel PipeFacts PipeTac PipeInvDefs PipeInv5Defs PipeInv5 PipeSysA PipeStep.
Import ListNotations RecordSetNotations.

Ltac open5 H1 H5 s :=
  pose proof (i_start_src s H1) as Hss; pose proof (i_start_idle s H1) as Hsi; pose proof (i_cstop s H1) as Hcs; pose proof (i_srun s H1) as Hsr;
  destruct H5 as [C1 C2 C3 C4 C5 C6 C7 C8 C9]; unfold fail_pending, sink_told in *; destruct s; unfold begin_start, begin_stop, end_stop, fail_start, workers_idle in *; cbn in *.
Ltac close5 := constructor; unfold fail_pending, sink_told; cbn; try assumption.
Ltac t5 := solve [intuition (try discriminate; try congruence)].

Lemma inv5_config s v n : Inv5 s -> Inv5 (s <| valid := v |> <| maxn := n |>).
Proof. intros [C1 C2 C3 C4 C5 C6 C7 C8 C9]. destruct s; close5. Qed.

Lemma inv5_begin_start s : Inv1 s -> Inv5 s -> workers_idle s = true -> Inv5 (begin_start s).
Proof.
  intros H1 H5 Hi. open5 H1 H5 s. destruct valid; close5; try t5.
  - intros _ Hf. rewrite Hf in Hi. rewrite andb_false_r in Hi. discriminate.
  - intros _ _ _. right. left. destruct (spc_idle s_pc); cbn in Hi; [|discriminate]. destruct (kpc_idle k_pc); [reflexivity | discriminate].
Qed.

Lemma inv5_reset_start s : Inv5 s -> (c_start s = TDone \/ c_start s = TNone) -> Inv5 (set c_start (fun _ => TNone) s).
Proof. intros H5 Ht. destruct H5 as [C1 C2 C3 C4 C5 C6 C7 C8 C9]; unfold fail_pending, sink_told in *; destruct s; cbn in *. destruct Ht; subst; close5; t5. Qed.

Lemma inv5_begin_stop ab s : Inv5 s -> c_start s <> TFailed -> Inv5 (begin_stop ab s).
Proof.
  intros H5 Ht. destruct H5 as [C1 C2 C3 C4 C5 C6 C7 C8 C9]; unfold fail_pending, sink_told in *; destruct s; unfold begin_stop; cbn in *.
  destruct valid; close5; t5.
Qed.

Lemma inv5_end_stop s : Inv5 s -> c_stop s <> CNone \/ c_start s <> TFailed -> (c_start s = TNone \/ c_start s = TDone \/ c_start s = TFailed) -> Inv5 (end_stop s).
Proof.
  intros H5 Hc Ht. destruct H5 as [C1 C2 C3 C4 C5 C6 C7 C8 C9]; unfold fail_pending, sink_told in *; destruct s; unfold end_stop; cbn in *.
  destruct Ht as [Ht|[Ht|Ht]]; subst; close5; t5.
Qed.

Lemma inv5_fail_start s : Inv1 s -> Inv5 s -> c_stop s = CNone -> Inv5 (fail_start s).
Proof.
  intros H1 H5 Hc. open5 H1 H5 s. subst c_stop. destruct valid; [|close5].
  destruct src_running eqn:Er; cbn; close5; cbn in *.
  all: try t5.
  all: destruct s_pc; cbn in *; try discriminate; try t5.
  all: destruct c_start; cbn in *; try t5.
Qed.

Record Y5 (y : sys) : Prop := { y5_0 : Inv5 (st0 y); y5_1 : Inv5 (st1 y) }.

Lemma y5_init : Y5 init_sys.
Proof. constructor; apply inv5_init. Qed.

Lemma y5_step y ev y' : YInv y -> Y5 y -> step y ev = Some y' -> Y5 y'.
Proof.
  intros Hy [F0 F1] H. pose proof Hy as [Hs0 Hs1 Hc0 Hc1]. destruct ev as [i a e | g]; cbn in H.
  - destruct (i && _ && _) eqn:Eo; [discriminate|].
    destruct i.
    + destruct (step_stream (st1 y) a e) as [s'|] eqn:Es; [|discriminate].
      pose proof (sinv_step _ _ _ _ Hs1 Es) as Hs1'. destruct Hs1 as (I1 & I12 & I13 & _). pose proof (inv5_step _ _ _ _ I1 I12 I13 F1 Es) as F1'.
      destruct (is_start_failure e) eqn:Ef; inversion H; subst; clear H.
      * pose proof (in_start_of_failure _ _ _ _ _ Hc1 Es Ef) as Hin. rewrite Hin in *. cbn in Hc0, Hc1.
        destruct Hc0 as (A0 & B0 & C0). destruct Hc1 as (A1 & B1 & C1).
        pose proof (step_cstop_none _ _ _ _ Es A1) as A1'. destruct Hs0 as (I0 & _). destruct Hs1' as (I1' & _).
        constructor; cbn; apply inv5_fail_start; assumption.
      * constructor; cbn; assumption.
    + destruct (step_stream (st0 y) a e) as [s'|] eqn:Es; [|discriminate].
      pose proof (sinv_step _ _ _ _ Hs0 Es) as Hs0'. destruct Hs0 as (I0 & I02 & I03 & _). pose proof (inv5_step _ _ _ _ I0 I02 I03 F0 Es) as F0'.
      destruct (is_start_failure e) eqn:Ef; inversion H; subst; clear H.
      * pose proof (in_start_of_failure _ _ _ _ _ Hc0 Es Ef) as Hin. rewrite Hin in *. cbn in Hc0, Hc1.
        destruct Hc0 as (A0 & B0 & C0). destruct Hc1 as (A1 & B1 & C1).
        pose proof (step_cstop_none _ _ _ _ Es A0) as A0'. destruct Hs1 as (I1 & _). destruct Hs0' as (I0' & _).
        constructor; cbn; apply inv5_fail_start; assumption.
      * constructor; cbn; assumption.
  - destruct Hs0 as (I0 & _). destruct Hs1 as (I1 & _). destruct g; cbn in H.
    + (* configure *)
      destruct (in_call y) eqn:Ec; try discriminate.
      destruct (workers_idle (st0 y) && workers_idle (st1 y)); [|discriminate]. inversion H; subst; clear H.
      constructor; cbn; apply inv5_config; assumption.
    + (* start call *)
      destruct (in_call y) eqn:Ec; try discriminate.
      destruct (valid (st0 y) || valid (st1 y)).
      * destruct (workers_idle (st0 y) && workers_idle (st1 y)) eqn:Ei.
        -- apply andb_true_iff in Ei. destruct Ei as [J0 J1]. inversion H; subst; clear H.
           constructor; cbn; apply inv5_begin_start; assumption.
        -- inversion H; subst; clear H. constructor; cbn; assumption.
      * inversion H; subst; clear H. constructor; cbn; assumption.
    + (* start returns *)
      destruct (in_call y) eqn:Ec; try discriminate.
      * destruct (ok && started_ok (st0 y) && started_ok (st1 y)) eqn:Ei; [|discriminate].
        apply andb_true_iff in Ei. destruct Ei as [Ei K1]. apply andb_true_iff in Ei. destruct Ei as [_ K0].
        inversion H; subst; clear H. cbn in Hc0, Hc1. destruct Hc0 as (A0 & B0 & C0). destruct Hc1 as (A1 & B1 & C1).
        constructor; cbn; apply inv5_reset_start; auto.
        -- destruct (started_ok_spec _ K0); auto.
        -- destruct (started_ok_spec _ K1); auto.
      * destruct (negb ok && stopped_ok (st0 y) && stopped_ok (st1 y) && devs_stopped (st0 y) && devs_stopped (st1 y)) eqn:Ei; [|discriminate].
        repeat (apply andb_true_iff in Ei; let X := fresh "X" in destruct Ei as [Ei X]).
        inversion H; subst; clear H. cbn in Hc0, Hc1. destruct Hc0 as (A0 & B0). destruct Hc1 as (A1 & B1).
        constructor; cbn; apply inv5_end_stop; auto.
        -- destruct (stopped_ok_spec _ X2) as [V|V]; [right; destruct (B0 V); congruence | left; congruence].
        -- tauto.
        -- destruct (stopped_ok_spec _ X1) as [V|V]; [right; destruct (B1 V); congruence | left; congruence].
        -- tauto.
    + (* start refused by the HAL (start while running) *)
      destruct (in_call y) eqn:Ec; try discriminate.
      cbv zeta in H. match type of H with context [if ?b then _ else _] => destruct b eqn:Eb end; [|discriminate].
      inversion H; subst; clear H. cbn in Hc0, Hc1. destruct Hc0 as [A0 B0], Hc1 as [A1 B1].
      constructor; cbn; apply inv5_fail_start; assumption.
    + (* stop call *)
      destruct (in_call y) eqn:Ec; try discriminate. inversion H; subst; clear H. cbn in Hc0, Hc1. destruct Hc0, Hc1.
      constructor; cbn; apply inv5_begin_stop; auto; congruence.
    + (* stop returns *)
      destruct (in_call y) eqn:Ec; try discriminate.
      destruct (stopped_ok (st0 y) && stopped_ok (st1 y)); [|discriminate]. inversion H; subst; clear H. cbn in Hc0, Hc1. destruct Hc0, Hc1.
      constructor; cbn; apply inv5_end_stop; auto; right; congruence.
    + (* abort call *)
      destruct (in_call y) eqn:Ec; try discriminate. inversion H; subst; clear H. cbn in Hc0, Hc1. destruct Hc0, Hc1.
      constructor; cbn; apply inv5_begin_stop; auto; congruence.
    + (* abort returns *)
      destruct (in_call y) eqn:Ec; try discriminate.
      destruct (stopped_ok (st0 y) && stopped_ok (st1 y)); [|discriminate]. inversion H; subst; clear H. cbn in Hc0, Hc1. destruct Hc0, Hc1.
      constructor; cbn; apply inv5_end_stop; auto; right; congruence.
    + (* shutdown call *)
      destruct (in_call y) eqn:Ec; try discriminate. inversion H; subst; clear H. cbn in Hc0, Hc1. destruct Hc0, Hc1.
      constructor; cbn; apply inv5_begin_stop; auto; congruence.
    + (* shutdown returns *)
      destruct (in_call y) eqn:Ec; try discriminate.
      destruct (stopped_ok (st0 y) && stopped_ok (st1 y) && workers_idle (st0 y) && workers_idle (st1 y) && all_closed (st0 y) && all_closed (st1 y)); [|discriminate].
      inversion H; subst; clear H. cbn in Hc0, Hc1. destruct Hc0, Hc1.
      constructor; cbn; apply inv5_end_stop; auto; right; congruence.
    + (* get_state *)
      destruct (api y) eqn:Ea.
      * destruct (hst_eqb st HAwait); [|discriminate]. inversion H; subst; clear H. constructor; auto.
      * destruct (hst_eqb st HArmed); [|discriminate]. inversion H; subst; clear H. constructor; auto.
      * destruct (hst_eqb st _); [|discriminate]. inversion H; subst; clear H. constructor; cbn; auto.
Qed.

Lemma accepts_inv5 tr : forall y y', YInv y -> Y5 y -> accepts y tr = Some y' -> Y5 y'.
Proof.
  induction tr as [|e tr IH]; intros y y' Hy H5 H; cbn in H.
  - inversion H; subst; exact H5.
  - destruct (step y e) as [y1|] eqn:Es; [|discriminate]. eapply IH; [eapply yinv_step; eassumption | eapply y5_step; eassumption | exact H].
Qed.

Theorem reachable_inv5 y : reachable y -> Y5 y.
Proof. intros [tr H]. eapply accepts_inv5; [apply yinv_init | apply y5_init | exact H]. Qed.
