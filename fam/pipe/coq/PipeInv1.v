(* PipeInv1.v -- preservation of invariant group 1 (program counters vs flags, registration, cursors). *)
From Coq Require Import List Bool Arith NArith Lia.
From RecordUpdate Require Import RecordSet.
From Pipe Require Import PipeModel PipeFacts PipeTac PipeInvDefs.
Import ListNotations RecordSetNotations.

Lemma inv1_init : Inv1 init_stream.
Proof. constructor; cbn; auto; try lia; try discriminate; try congruence. Qed.

Ltac fin1 := cbn in *; try congruence; try lia; auto.

Lemma inv1_step s a e s' : Inv1 s -> step_stream s a e = Some s' -> Inv1 s'.
Proof.
  intros [] H.
  step_cases s H; unfold quiet, workers_idle, sink_finish, mon_k in *; cbn in *; constructor; unfold quiet, workers_idle, mon_k; cbn;
    try reflexivity; try assumption; split_goal_ifs; fin;
    try (rewrite app_length; cbn; lia).
Qed.
