(* PipeInv1.v -- structural invariants of a stream: program counters vs flags, registration, cursors. *)
From Coq Require Import List Bool Arith NArith Lia.
From RecordUpdate Require Import RecordSet.
From Pipe Require Import PipeModel PipeFacts PipeTac.
Import ListNotations RecordSetNotations.

Definition mapped_k (p : kpc) : nat :=
  match p with
  | KMainMapped k | KMainAppended k _ | KFlushMapped k | KFlushAppended k | KErrCb k | KErrAccept k | KErrUnmap k
  | KDrainMapped k => k
  | _ => 0
  end.
Definition pending (p : kpc) : nat := match p with KMainAppended _ j => j | KFlushAppended k => k | _ => 0 end.
Definition post_read (p : kpc) : bool :=
  match p with KOff | KStop | KExiting | KDone | KFlushMapped 0 | KDrainMapped 0 => true | _ => false end.
Definition post_main (p : kpc) : bool :=
  match p with
  | KFlushMapping | KFlushMapped _ | KFlushAppended _ | KFlushAgain | KStop | KErrUnmap _ | KDrainAgain | KDrainMapping
  | KDrainMapped _ | KExiting | KDone => true
  | _ => false
  end.
Definition in_main (p : kpc) : bool :=
  match p with KTest | KMainMapping | KMainMapped _ | KMainAppended _ _ | KMainAgain => true | _ => false end.
Definition in_err (p : kpc) : bool :=
  match p with KErrCb _ | KErrAccept _ | KErrUnmap _ | KDrainAgain | KDrainMapping | KDrainMapped _ => true | _ => false end.
Definition src_quiet (p : spc) : bool := match p with SOff | SWind2 | SExiting | SDone => true | _ => false end.
Definition src_gone (p : spc) : bool := match p with SOff | SExiting | SDone => true | _ => false end.
Definition src_in_loop (p : spc) : bool := match p with SLoop | SWMap | SMapped | SGot _ => true | _ => false end.
Definition left_loop (p : spc) : bool := match p with SWind1 | SWind2 | SExiting | SDone => true | _ => false end.
Definition gotbit (p : spc) : nat := match p with SGot _ => 1 | _ => 0 end.
Definition ncommitted (s : stream) : nat := length (log s) - base s.
Definition start_pre_sink (c : cstart) : bool :=
  match c with TBegin | TStoStarted | TAccepted | TRegEnter | TRegMapped | TRegDone => true | _ => false end.
Definition start_pre_src (c : cstart) : bool := match c with TSinkUp | TFiltUp | TCamStarted => true | _ => false end.
Definition start_begun (c : cstart) : bool :=
  match c with TStoStarted | TAccepted | TRegEnter | TRegMapped | TRegDone | TSinkUp | TFiltUp | TCamStarted => true | _ => false end.
Definition mon_k (s : stream) : nat := match mon_map s with Some k => k | None => 0 end.

(* ---- group 1: flags mirror program counters; cursors stay inside the log *)
Record Inv1 (s : stream) : Prop := {
  i_base : base s <= length (log s);
  i_cur : sink_cur s + mapped_k (k_pc s) <= length (log s);
  i_pend : pending (k_pc s) <= mapped_k (k_pc s);
  i_map : sink_map s = if Nat.eqb (mapped_k (k_pc s)) 0 then None else Some (mapped_k (k_pc s));
  i_srun : src_running s = negb (src_gone (s_pc s));
  i_krun : sink_running s = negb (match k_pc s with KOff | KExiting | KDone => true | _ => false end);
  i_frun : filt_running s = match f_pc s with FRun => true | _ => false end;
  i_start_idle : start_pre_sink (c_start s) = true -> workers_idle s = true;
  i_start_src : start_pre_src (c_start s) = true -> spc_idle (s_pc s) = true;
  i_moncur : mon_cur s + mon_k s <= length (log s);
  i_monunreg : mon_reg s = false -> mon_map s = None /\ mon_cur s = 0;
  i_cstop : c_stop s <> CNone -> start_pre_sink (c_start s) = false /\ start_pre_src (c_start s) = false
}.

Lemma inv1_init : Inv1 init_stream.
Proof. constructor; cbn; auto; try lia; try discriminate; try congruence. Qed.

Ltac fin1 := cbn in *; try congruence; try lia; auto.

Lemma inv1_step s a e s' : Inv1 s -> step_stream s a e = Some s' -> Inv1 s'.
Proof.
  intros [] H.
  step_cases s H; unfold quiet, workers_idle, sink_finish, mon_k in *; cbn in *; constructor; unfold quiet, workers_idle, mon_k; cbn;
    try reflexivity; try assumption; split_goal_ifs; fin;
    try (rewrite app_length; cbn; lia).
Qed.
