(* PipeLive.v -- progress certificate for the wind-down of a stream once writes are refused and the source has been told
   to stop (acquire_abort, acquire_shutdown, the error path of acquire_start, a storage failure): a measure that every
   event of a worker thread strictly decreases -- except the sink's polls of its queue while it has not been told to stop
   (or while nothing in its mapped region is old enough to be written), and the source's join marker --, and the fact
   that while a worker is alive some worker event that decreases the measure is enabled (no deadlock, progress possible).
   Hence in every accepted trace the number of non-poll worker events between the refusal of writes and the exit of the
   last worker is at most the measure at that moment; the polls end because the source's finitely many steps raise the
   sink's stop flag (and, for the write delay, because time passes -- not modelled).  Fairness of the OS scheduler is
   the remaining assumption. *)
From Coq Require Import List Bool Arith NArith Lia.
From RecordUpdate Require Import RecordSet.
From Pipe Require Import PipeModel PipeFacts PipeTac PipeInvDefs PipeInv5Defs.
Import ListNotations RecordSetNotations.

(* the phase: acquire_stop is waiting for the workers, writes are refused, the source has been told to stop (or is gone) *)
Definition Ph (s : stream) : Prop :=
  c_stop s = CWaitJoin /\ accepting s = false /\ (src_stopping s = true \/ src_gone (s_pc s) = true).

Definition src_m (p : spc) : nat :=
  match p with
  | SOff | SDone => 0 | SExiting => 1 | SWind2 => 2 | SWind1 => 3
  | SLoop | SLeave => 4 | SWMap | SGot _ | SFailStop => 5 | SMapped => 6
  end.
Definition filt_m (p : fpc) : nat := match p with FRun => 1 | _ => 0 end.
(* the sink has been told to stop or its storage is no longer running: its next test of the loop condition fails *)
Definition told (s : stream) : bool := sink_stopping s || negb (hst_eqb (sto_st s) HRunning).
Definition sink_rank (s : stream) : nat :=
  match k_pc s with
  | KOff | KDone => 0 | KExiting => 1 | KStop => 3
  | KDrainMapped _ => 4 | KDrainMapping => 5 | KDrainAgain => 6
  | KErrUnmap _ => 7 | KErrAccept _ => 8 | KErrCb _ => 9
  | KFlushAppended _ => 11 | KFlushMapped _ => 12 | KFlushMapping => 13 | KFlushAgain => 14
  | KMainAppended _ _ => 19
  | KTest => if told s then 21 else 20
  | KMainMapped _ => if told s then 22 else 20
  | KMainMapping => if told s then 23 else 20
  | KMainAgain => if told s then 24 else 20
  end.
Definition measure (s : stream) : nat :=
  10 * src_m (s_pc s) + 10 * filt_m (f_pc s) + 10 * (length (log s) - sink_cur s) + sink_rank s.

(* the events that need not decrease the measure *)
Definition poll_event (s : stream) (a : actor) (e : sev) : bool :=
  match a, e with
  | ASrc, Joined RFilt => true                                       (* log marker of thread_join; no state change *)
  | ASrc, DGetEmpty _ => true                                        (* the camera had no frame yet: the source asks again *)
  | ASink, RMapEnter RdSink | ASink, RMap RdSink _ => in_main (k_pc s) && negb (told s)     (* polling while not told to stop *)
  | ASink, RUnmap RdSink 0 =>
      match k_pc s with
      | KMainMapped 0 => negb (told s)                                (* an empty poll, not told to stop *)
      | KMainMapped (S _) => true                                     (* nothing old enough yet (write delay): poll again *)
      | _ => false
      end
  | _, _ => false
  end.

Lemma progress_step s a e s' :
  Ph s -> Inv1 s -> Inv5 s -> step_stream s a e = Some s' -> a <> ACli ->
  measure s' < measure s \/ poll_event s a e = true.
Proof.
  intros (P1 & P2 & P3) H1 H5 H Ha.
  pose proof (i_cur s H1) as Hcur. pose proof (i_pend s H1) as Hpend. pose proof (n_pend s H5) as Hnp.
  pose proof (i_cstop s H1) as Hcs. clear H1 H5.
  unfold measure, sink_rank, poll_event; unfold told.
  step_cases s H; try (exfalso; apply Ha; reflexivity); unfold sink_finish; cbn in *; subst;
    try discriminate; try congruence;
    split_goal_ifs; cbn in *; try discriminate; try congruence; try (right; reflexivity); try (left; lia).
  all: destruct sink_stopping; destruct (hst_eqb sto_st HRunning); cbn in *; first [discriminate | right; reflexivity | left; lia].
Qed.

(* a poll costs at most the two rank points of going round the main loop once more *)
Lemma poll_bound s a e s' :
  Ph s -> Inv1 s -> step_stream s a e = Some s' -> poll_event s a e = true -> measure s' <= measure s + 2.
Proof.
  intros (P1 & P2 & P3) H1 H Hp.
  pose proof (i_cur s H1) as Hcur. clear H1.
  unfold measure, sink_rank, poll_event in *; unfold told in *.
  step_cases s H; unfold sink_finish; cbn in *; subst; try discriminate; try congruence;
    split_goal_ifs; cbn in *; try discriminate; try congruence; try lia.
  all: destruct sink_stopping; destruct (hst_eqb sto_st HRunning); cbn in *; first [discriminate | lia].
Qed.

(* the phase lasts until the client re-enables writes (which it does only after joining all three workers) *)
Lemma ph_step s a e s' :
  Ph s -> Inv1 s -> step_stream s a e = Some s' -> Ph s' \/ (a = ACli /\ e = Accept true).
Proof.
  intros (P1 & P2 & P3) H1 H. pose proof (i_cstop s H1) as Hcs. clear H1. unfold Ph.
  step_cases s H; unfold sink_finish; cbn in *; subst; try discriminate; try congruence;
    split_goal_ifs; cbn in *; try discriminate; try congruence; auto;
    try (left; repeat split; auto; tauto).
  all: try (exfalso; destruct Hcs as [X Y]; [discriminate | discriminate]).
Qed.
