(* PipeSysFailStart2.v -- the error path of acquire_start (fail_start) preserves invariant group 2 (one file per group: parallel build). *)
From Coq Require Import List Bool Arith NArith Lia.
From RecordUpdate Require Import RecordSet.
From Pipe Require Import PipeModel PipeFacts PipeTac PipeInvDefs PipeSysTac.
Import ListNotations RecordSetNotations.

Ltac inv_tac :=
  constructor; unfold quiet, workers_idle, mon_k, ncommitted in *; cbn in *; try reflexivity; try assumption; split_goal_ifs; fin.

Lemma inv2_fail_start s : SInv s -> c_stop s = CNone -> Inv2 (fail_start s).
Proof.
  intros Hs Hc. sinv_open Hs s. subst. destruct valid; [|inv_tac].
  destruct s_pc; destruct c_start; inv_tac; rewrite ?orb_false_r, ?orb_true_r in *; fin.
Qed.
