(* PipeInv4.v -- preservation of invariant group 4 (monitor reader; devices as the HAL sees them). *)
From Coq Require Import List Bool Arith NArith Lia.
From RecordUpdate Require Import RecordSet.
From Pipe Require Import PipeModel PipeFacts PipeTac PipeInvDefs.
Import ListNotations RecordSetNotations.

Lemma inv4_init : Inv4 init_stream.
Proof. constructor; cbn; auto; try discriminate; try congruence; try lia; try (intuition discriminate). Qed.

Lemma inv4_step s a e s' : Inv1 s -> Inv2 s -> Inv3 s -> Inv4 s -> step_stream s a e = Some s' -> Inv4 s'.
Proof.
  intros [] [] [] [] H.
  step_cases s H; unfold quiet, workers_idle, sink_finish, mon_k, ncommitted in *; cbn in *; constructor; unfold quiet, workers_idle, mon_k, ncommitted; cbn;
    try reflexivity; try assumption; split_goal_ifs; fin.
  all: try (intros Hm; apply andb_true_iff in Hm; destruct Hm as [_ Hm]; apply Nat.eqb_eq in Hm; lia).
  all: try (destruct m_seen as [Hs1 Hs2];
            match goal with
            | |- ?sn ++ seg ?l ?cur ?c = _ /\ _ =>
                destruct (seen_step l sn cur c Hs1 Hs2 ltac:(lia)) as (Ha & Hb & Hc); split; [exact Ha | exact Hb]
            | |- _ = true -> _ <= ?cur + ?c - length (?sn ++ seg ?l ?cur ?c) =>
                destruct (seen_step l sn cur c Hs1 Hs2 ltac:(lia)) as (Ha & Hb & Hc); rewrite Hc; exact m_fresh
            | |- ?sn = seg (?l ++ ?x) _ _ /\ _ => split; [apply seen_commit; [exact Hs1 | exact Hs2 | lia] | exact Hs2]
            end).
  all: try (specialize (m_unreg eq_refl); subst; cbn; split; [reflexivity | lia]).
  all: try (intros Hr; rewrite (m_unreg Hr); rewrite Nat.min_0_r; reflexivity).
Qed.
