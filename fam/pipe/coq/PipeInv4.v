(* PipeInv4.v -- the monitor reader and the devices as the HAL sees them. *)
From Coq Require Import List Bool Arith NArith Lia.
From RecordUpdate Require Import RecordSet.
From Pipe Require Import PipeModel PipeFacts PipeTac PipeInv1 PipeInv2 PipeInv3.
Import ListNotations RecordSetNotations.

Definition flush_idle (c : cstop) : bool :=
  match c with CFlush0 | CFlush | CFlushMapping | CFlushMapped _ | CStopped => true | _ => false end.
Definition start_cam_up (c : cstart) : bool := match c with TCamStarted | TFailed => true | _ => false end.
Definition start_sto_or_failed (c : cstart) : bool :=
  match c with TStoStarted | TAccepted | TRegEnter | TRegMapped | TRegDone | TFailed => true | _ => false end.

Record Inv4 (s : stream) : Prop := {
  m_seen : seen s = seg (log s) (mon_cur s - length (seen s)) (length (seen s)) /\ length (seen s) <= mon_cur s;
  m_unreg : mon_reg s = false -> seen s = [];
  m_fresh : mon_fresh s = true -> base s <= mon_cur s - length (seen s);
  m_idle : flush_idle (c_stop s) = true -> workers_idle s = true;
  m_flushed : match c_stop s with
              | CFlushMapped k => mon_map s = (if Nat.eqb k 0 then None else Some k) /\ (k = 0 -> mon_cur s = length (log s)) /\ mon_reg s = true
              | CStopped => mon_reg s = true -> mon_cur s = length (log s) /\ mon_map s = None
              | CFlush0 | CFlush | CFlushMapping => mon_reg s = true
              | _ => True
              end;
  d_cam : cam_st s = HRunning -> start_cam_up (c_start s) = true \/ src_has_cam (s_pc s) = true;
  d_sto : sto_st s = HRunning -> start_sto_or_failed (c_start s) = true \/ sink_has_sto (k_pc s) = true;
  d_camopen : cam s = None -> cam_st s = HAwait;
  d_stoopen : sto s = None -> sto_st s = HAwait
}.

Lemma inv4_init : Inv4 init_stream.
Proof. constructor; cbn; auto; try discriminate; try congruence; try lia; try (intuition discriminate). Qed.

Lemma inv4_step s a e s' : Inv1 s -> Inv2 s -> Inv3 s -> Inv4 s -> step_stream s a e = Some s' -> Inv4 s'.
Proof.
  intros [] [] [] [] H.
  step_cases s H; unfold quiet, workers_idle, sink_finish, mon_k, ncommitted in *; cbn in *; constructor; unfold quiet, workers_idle, mon_k, ncommitted; cbn;
    try reflexivity; try assumption; split_goal_ifs; fin.
  all: try (intros Hm; apply andb_true_iff in Hm; destruct Hm as [_ Hm]; apply Nat.eqb_eq in Hm; lia).
  all: try (destruct m_seen0 as [Hs1 Hs2];
            match goal with
            | |- ?sn ++ seg ?l ?cur ?c = _ /\ _ =>
                destruct (seen_step l sn cur c Hs1 Hs2 ltac:(lia)) as (Ha & Hb & Hc); split; [exact Ha | exact Hb]
            | |- _ = true -> _ <= ?cur + ?c - length (?sn ++ seg ?l ?cur ?c) =>
                destruct (seen_step l sn cur c Hs1 Hs2 ltac:(lia)) as (Ha & Hb & Hc); rewrite Hc; exact m_fresh0
            | |- ?sn = seg (?l ++ ?x) _ _ /\ _ => split; [apply seen_commit; [exact Hs1 | exact Hs2 | lia] | exact Hs2]
            end).
  all: try (specialize (m_unreg0 eq_refl); subst; cbn; split; [reflexivity | lia]).
  all: try (intros Hr; rewrite (m_unreg0 Hr); rewrite Nat.min_0_r; reflexivity).
Qed.
