(* Properties_C08.v -- C08: devices see a disciplined life cycle under any sequence of API calls.
   Model and reachability as in Properties_C04.v.  The discipline is stated by an independent monitor (PipeLife.lc_step):
   per device instance  new -> open -> (running -> open)* -> closed;  open once; configured, started and closed only while
   open and not running; stopped only while running (hence exactly once per successful start; a failing append counts as the
   device stopping itself); frame / append / trigger calls only while running; nothing at all after close.

   FULL STATEMENT of the property: for every client program over {configure, start, trigger, map, unmap, stop, abort,
   get_state, shutdown}, in any order and number, every schedule: the monitor never fails and after shutdown every
   instance is closed.  What is proved here (C08_discipline_partial) is that statement for grammar G1 -- the programs
   whose traces the model accepts: configure is issued while no worker thread is alive; start too, or it is refused at once
   because the first configured stream is still running (start while running).  Outside G1 the
   full statement is FALSE of the unchanged code (known findings of the check, replayed on the real runtime: configure
   while running re-arms a running storage, which is then never stopped and is closed while running; configure with other
   device identifiers while running closes a camera the source thread is using); the model does not accept such traces,
   the check runs them through the independent oracle only. *)
From Coq Require Import List Bool Arith NArith.
From Pipe Require Import PipeModel PipeInvDefs PipeStep PipeSysProps PipeLife PipeExamples.
Import ListNotations.

(* every accepted trace (any length, any schedule) in which the driver's open calls hand out pairwise different instance
   numbers drives the life-cycle monitor without error; afterwards every instance the monitor regards as open or running
   is the device currently held by one of the four slots (camera / storage of stream 0 / 1), in the matching state *)
Theorem C08_discipline_partial : forall tr y,
  accepts init_sys tr = Some y -> NoDup (opens tr) ->
  exists m, lc_run (fun _ => LNew) tr = Some m /\ SimL (slots y) m (opens tr).
Proof. exact lifecycle_respected. Qed.
Print Assumptions C08_discipline_partial.

(* every device the runtime opened is closed, exactly once, when shutdown returns at the latest *)
Theorem C08_closed_by_shutdown : forall tr y,
  accepts init_sys (tr ++ [EvG GShutdownRet]) = Some y -> NoDup (opens tr) ->
  exists m, lc_run (fun _ => LNew) (tr ++ [EvG GShutdownRet]) = Some m /\ forall n, In n (opens tr) -> m n = LClosed.
Proof. exact all_closed_after_shutdown. Qed.
Print Assumptions C08_closed_by_shutdown.

(* start while running (within the proved grammar): acquire_start on a runtime whose first configured stream is still running
   is refused before any device is touched -- the four device slots are unchanged -- and the error path then aborts the
   running acquisition (the life-cycle theorem above covers the whole trace, the abort included) *)
Theorem C08_start_while_running_touches_no_device : forall y y',
  step y (EvG GStartRefused) = Some y' -> slots y' = slots y /\ in_call y' = InStartFail /\ in_call y = InStartBusy.
Proof. exact start_refused_touches_no_device. Qed.
Print Assumptions C08_start_while_running_touches_no_device.

(* "is started only when armed": a device start (the call reaching the driver, successful or not) is enabled only in the HAL
   state Armed, on the stream's open instance ... *)
Theorem C08_started_only_when_armed : forall s n ok s',
  (step_stream s ACli (DStoStart n ok) = Some s' -> sto s = Some n /\ sto_st s = HArmed) /\
  (forall tag, step_stream s ACli (DCamStart n ok tag) = Some s' -> cam s = Some n /\ cam_st s = HArmed).
Proof. exact start_needs_armed. Qed.
Print Assumptions C08_started_only_when_armed.

(* ... and acquire_start on a device that is NOT armed (it failed -- frame call, append, start -- and has not been configured
   since) is refused before the device is touched: no device slot changes, the call continues on acquire_start's error path
   (which the life-cycle theorem covers like every other trace) *)
Theorem C08_unarmed_start_refused : forall y i w y',
  step y (EvS i ACli (StartRefused w)) = Some y' -> slots y' = slots y /\ in_call y' = InStartFail.
Proof. exact unarmed_start_refused_sys. Qed.
Print Assumptions C08_unarmed_start_refused.

Theorem C08_unarmed_start_refused_stream : forall s w s',
  step_stream s ACli (StartRefused w) = Some s' ->
  cam_slot s' = cam_slot s /\ sto_slot s' = sto_slot s /\ c_start s' = TFailed /\
  match w with RSink => sto_st s = HAwait /\ c_start s = TBegin | RSrc => cam_st s = HAwait /\ c_start s = TFiltUp | RFilt => False end.
Proof. exact unarmed_start_refused. Qed.
Print Assumptions C08_unarmed_start_refused_stream.

(* the runtime reports Running only while a worker of a configured stream is alive ... *)
Theorem C08_running_report_means_alive : forall y y',
  step y (EvG (GState HRunning)) = Some y' -> (any_running (st0 y) || any_running (st1 y)) = true.
Proof. exact running_report_means_alive. Qed.
Print Assumptions C08_running_report_means_alive.

(* ... and is Armed, with all workers gone and no device running, once stop or abort has returned *)
Theorem C08_armed_after_stop_or_abort : forall y g y',
  reachable y -> (g = GStopRet \/ g = GAbortRet) -> step y (EvG g) = Some y' ->
  api y' = HArmed /\ in_call y' = InIdle /\
  forall i, let s := stream_of y' i in
    c_stop s = CNone /\ c_start s = TNone /\
    (valid s = true -> workers_idle s = true /\ cam_st s <> HRunning /\ sto_st s <> HRunning /\
                       src_running s = false /\ sink_running s = false /\ filt_running s = false).
Proof. exact armed_after_return. Qed.
Print Assumptions C08_armed_after_stop_or_abort.

(* non-vacuity: the three traces logged from the real runtime satisfy the hypotheses (distinct instances, accepted) and
   the monitor ends with both instances closed *)
Fixpoint nodupb (l : list N) : bool :=
  match l with [] => true | x :: r => negb (existsb (N.eqb x) r) && nodupb r end.
Example C08_example :
  forallb (fun tr => nodupb (opens tr) &&
                     match accepts init_sys tr, lc_run (fun _ => LNew) tr with
                     | Some _, Some m => forallb (fun n => match m n with LClosed => true | _ => false end) (opens tr) && Nat.eqb (length (opens tr)) 2
                     | _, _ => false
                     end) [tr_two_acqs; tr_abort; tr_stofail] = true.
Proof. vm_compute. reflexivity. Qed.

Example C08_example_start_while_running :
  match after tr_restart before_start_refused, accepts init_sys tr_restart, lc_run (fun _ => LNew) tr_restart with
  | Some y, Some _, Some m =>
      match step y (EvG GStartRefused) with
      | Some y' => (match in_call y with InStartBusy => true | _ => false end) && any_running (st0 y)
                   && forallb (fun n => match m n with LClosed => true | _ => false end) (opens tr_restart)
      | None => false
      end
  | _, _, _ => false
  end = true.
Proof. vm_compute. reflexivity. Qed.

(* the hypotheses of C08_unarmed_start_refused are met by a trace logged from the REAL runtime (tr_unarmed: a camera, then a storage
   device, fails; the next acquire_start without a configure is refused before the device is touched; after a configure the
   acquisition is complete); the whole trace is accepted and the monitor ends with both instances closed *)
Example C08_example_unarmed_start :
  match after tr_unarmed before_src_refused, after tr_unarmed before_sink_refused, accepts init_sys tr_unarmed,
        lc_run (fun _ => LNew) tr_unarmed with
  | Some y1, Some y2, Some _, Some m =>
      (match step y1 (EvS false ACli (StartRefused RSrc)) with
       | Some y' => match in_call y' with InStartFail => true | _ => false end
       | None => false end)
      && (match cam_st (st0 y1) with HAwait => true | _ => false end)
      && (match step y2 (EvS false ACli (StartRefused RSink)) with Some _ => true | None => false end)
      && (match sto_st (st0 y2) with HAwait => true | _ => false end)
      && forallb (fun n => match m n with LClosed => true | _ => false end) (opens tr_unarmed)
  | _, _, _, _ => false
  end = true.
Proof. vm_compute. reflexivity. Qed.
