#!/usr/bin/env python3
"""usage: tryprog.py <prog file | replay json> <h_pipe exe>   -- run one program and print the oracle's verdicts"""
import json, os, sys
sys.path.insert(0, os.path.join(os.path.dirname(os.path.abspath(__file__)), "..", "..", "tools"))
sys.path.insert(0, os.path.dirname(os.path.abspath(__file__)))
import pipelib
f, exe = sys.argv[1], sys.argv[2]
if f.endswith(".json"):
    prog = json.load(open(f))["replay"]["program"]
    expect = []
else:
    prog, expect = pipelib.load_prog(f)
rc, lines, err = pipelib.run_prog(exe, prog)
if "-v" in sys.argv:
    print("\n".join(l[:240] for l in lines))
print("rc", rc, "expect-unfixed", expect)
for p, key, msg in pipelib.oracle(prog, lines, pipelib.meta_from_prog(prog)):
    print("  %s:%s  %s" % (p, key, msg[:200]))
