/* mockdrv.c -- see mockdrv.h.  Every driver-level call prints one line "D ..." (the device call log). */
#include "mockdrv.h"
#include "vsched.h"
#include "device/kit/driver.h"
#include "device/kit/camera.h"
#include "device/kit/storage.h"
#include "device/props/components.h"
#include <stdio.h>
#include <stdlib.h>
#include <string.h>

int vh_printf(const char* fmt, ...);   /* h_pipe.c: prefixes every line with the acting thread */
#define printf vh_printf

struct mock_cam_cfg mock_cam[MOCK_NCAM];
struct mock_sto_cfg mock_sto[MOCK_NSTO];

struct MockCam {
    struct Camera camera;
    int idx;
    int running;
    unsigned tag;          /* acquisition tag: number of successful starts of this camera object family */
    uint64_t next_id;
    long triggers;
    struct CameraProperties props;
    int serial;
    long polls;
};
struct MockSto {
    struct Storage storage;
    int idx;
    long nappend;
    struct StorageProperties props;
    int serial;
};

static struct Driver g_driver;
static unsigned g_cam_tag[MOCK_NCAM];
static int g_serial = 0;

static const char* cam_names[MOCK_NCAM] = { "camA", "camB", "camBad" };
static const char* sto_names[MOCK_NSTO] = { "stoA", "stoB", "stoBad" };

void mock_reset(void)
{
    for (int i = 0; i < MOCK_NCAM; ++i) {
        mock_cam[i] = (struct mock_cam_cfg){ .w = 4, .h = 3, .type = SampleType_u8, .trig = 0, .fail_at = -1, .start_fails = 0, .pace = 0, .empty_every = 0 };
        g_cam_tag[i] = 0;
    }
    for (int i = 0; i < MOCK_NSTO; ++i)
        mock_sto[i] = (struct mock_sto_cfg){ .fail_at = -1, .start_fails = 0, .pace = 0 };
}

/* ------------------------------------------------------------------ camera */
static enum DeviceStatusCode cam_set(struct Camera* c, struct CameraProperties* s)
{
    struct MockCam* m = (struct MockCam*)c;
    if (mock_cam[m->idx].reject_sets > 0) {
        /* a setting the device refuses (like a binning that is not a power of two): nothing changes */
        mock_cam[m->idx].reject_sets--;
        printf("D cam%d#%d set REJECTED\n", m->idx, m->serial);
        return Device_Err;
    }
    m->props = *s;
    printf("D cam%d#%d set\n", m->idx, m->serial);
    return Device_Ok;
}
static enum DeviceStatusCode cam_get(const struct Camera* c, struct CameraProperties* s)
{
    const struct MockCam* m = (const struct MockCam*)c;
    *s = m->props;
    s->shape.x = mock_cam[m->idx].w;
    s->shape.y = mock_cam[m->idx].h;
    s->pixel_type = (enum SampleType)mock_cam[m->idx].type;
    return Device_Ok;
}
static enum DeviceStatusCode cam_get_meta(const struct Camera* c, struct CameraPropertyMetadata* meta)
{
    (void)c; memset(meta, 0, sizeof *meta); return Device_Ok;
}
static enum DeviceStatusCode cam_get_shape(const struct Camera* c, struct ImageShape* shape)
{
    const struct MockCam* m = (const struct MockCam*)c;
    const struct mock_cam_cfg* g = &mock_cam[m->idx];
    *shape = (struct ImageShape){
        .dims = { .channels = 1, .width = g->w, .height = g->h, .planes = 1 },
        .strides = { .channels = 1, .width = 1, .height = g->w, .planes = (int64_t)g->w * g->h },
        .type = (enum SampleType)g->type,
    };
    return Device_Ok;
}
static enum DeviceStatusCode cam_start(struct Camera* c)
{
    struct MockCam* m = (struct MockCam*)c;
    vs_point("dev:cam.start");
    if (mock_cam[m->idx].start_fails) {
        mock_cam[m->idx].start_fails = 0;
        printf("D cam%d#%d start FAIL\n", m->idx, m->serial);
        return Device_Err;
    }
    m->running = 1;
    m->next_id = 0;
    m->triggers = 0;
    m->tag = ++g_cam_tag[m->idx];
    printf("D cam%d#%d start ok tag=%u\n", m->idx, m->serial, m->tag);
    return Device_Ok;
}
static enum DeviceStatusCode cam_stop(struct Camera* c)
{
    struct MockCam* m = (struct MockCam*)c;
    vs_point("dev:cam.stop");
    printf("D cam%d#%d stop%s\n", m->idx, m->serial, m->running ? "" : " NOTRUNNING");
    m->running = 0;
    return Device_Ok;
}
static enum DeviceStatusCode cam_trigger(struct Camera* c)
{
    struct MockCam* m = (struct MockCam*)c;
    m->triggers++;
    printf("D cam%d#%d trigger\n", m->idx, m->serial);
    return Device_Ok;
}
static int cam_can_deliver(void* p)
{
    struct MockCam* m = (struct MockCam*)p;
    return !mock_cam[m->idx].trig || m->triggers > 0 || !m->running;
}
static enum DeviceStatusCode cam_get_frame(struct Camera* c, void* im, size_t* nbytes, struct ImageInfo* info)
{
    struct MockCam* m = (struct MockCam*)c;
    struct mock_cam_cfg* g = &mock_cam[m->idx];
    for (int i = 0; i < g->pace; ++i)
        vs_point("dev:cam.pace");
    vs_block_until(cam_can_deliver, m, "dev:cam.get_frame");
    if (!m->running) {
        printf("D cam%d#%d get_frame NOTRUNNING\n", m->idx, m->serial);
        *nbytes = 0;
        return Device_Err;
    }
    if (g->trig && m->triggers > 0)
        m->triggers--;
    if (g->fail_at >= 0 && (uint64_t)g->fail_at == m->next_id) {
        g->fail_at = -1;
        printf("D cam%d#%d get_frame FAIL id=%llu\n", m->idx, m->serial, (unsigned long long)m->next_id);
        return Device_Err;
    }
    if (!g->trig && g->empty_every > 0 && (++m->polls % g->empty_every) == 0) {
        /* a poll that times out: the call succeeds and reports zero bytes (the runtime cancels the write and asks again) */
        printf("D cam%d#%d get_frame EMPTY\n", m->idx, m->serial);
        *nbytes = 0;
        return Device_Ok;
    }
    size_t bpp = bytes_of_type((enum SampleType)g->type);
    size_t n = (size_t)g->w * g->h * bpp;
    if (*nbytes < n) {
        printf("D cam%d#%d get_frame SHORTBUF have=%zu need=%zu\n", m->idx, m->serial, *nbytes, n);
        return Device_Err;
    }
    unsigned char* out = (unsigned char*)im;
    for (size_t j = 0; j < n; ++j)
        out[j] = mock_pixel(m->idx, m->tag, m->next_id, j);
    *nbytes = n;
    cam_get_shape(c, &info->shape);
    info->hardware_frame_id = m->next_id;
    info->hardware_timestamp = 1000 + m->next_id;
    printf("D cam%d#%d get_frame ok id=%llu tag=%u\n", m->idx, m->serial, (unsigned long long)m->next_id, m->tag);
    m->next_id++;
    return Device_Ok;
}

/* ------------------------------------------------------------------ storage */
static enum DeviceState sto_set(struct Storage* s, const struct StorageProperties* p)
{
    struct MockSto* m = (struct MockSto*)s;
    (void)p;
    printf("D sto%d#%d set\n", m->idx, m->serial);
    return DeviceState_Armed;
}
static void sto_get(const struct Storage* s, struct StorageProperties* p) { (void)s; (void)p; }
static void sto_get_meta(const struct Storage* s, struct StoragePropertyMetadata* meta) { (void)s; memset(meta, 0, sizeof *meta); }
static enum DeviceState sto_start(struct Storage* s)
{
    struct MockSto* m = (struct MockSto*)s;
    vs_point("dev:sto.start");
    if (mock_sto[m->idx].start_fails) {
        mock_sto[m->idx].start_fails = 0;
        printf("D sto%d#%d start FAIL\n", m->idx, m->serial);
        return DeviceState_AwaitingConfiguration;
    }
    m->nappend = 0;
    printf("D sto%d#%d start ok\n", m->idx, m->serial);
    return DeviceState_Running;
}
static enum DeviceState sto_stop(struct Storage* s)
{
    struct MockSto* m = (struct MockSto*)s;
    vs_point("dev:sto.stop");
    printf("D sto%d#%d stop\n", m->idx, m->serial);
    return DeviceState_Armed;
}
static enum DeviceState sto_append(struct Storage* s, const struct VideoFrame* frames, size_t* nbytes)
{
    struct MockSto* m = (struct MockSto*)s;
    struct mock_sto_cfg* g = &mock_sto[m->idx];
    /* a zero-copy consumer: the packet must not change while the device is working on it (C02) */
    uint32_t h0 = 2166136261u;
    for (size_t j = 0; j < *nbytes; ++j) { h0 ^= ((const unsigned char*)frames)[j]; h0 *= 16777619u; }
    for (int i = 0; i < g->pace; ++i)
        vs_point("dev:sto.pace");
    vs_point("dev:sto.append");
    {
        uint32_t h1 = 2166136261u;
        for (size_t j = 0; j < *nbytes; ++j) { h1 ^= ((const unsigned char*)frames)[j]; h1 *= 16777619u; }
        if (h1 != h0)
            printf("V s%d sink.in region-changed-while-mapped reader=storage-append nbytes=%zu\n", m->idx, *nbytes);
    }
    if (g->fail_at >= 0 && g->fail_at == m->nappend) {
        g->fail_at = -1;
        printf("D sto%d#%d append FAIL k=%ld nbytes=%zu\n", m->idx, m->serial, m->nappend, *nbytes);
        m->nappend++;
        return DeviceState_AwaitingConfiguration;
    }
    printf("D sto%d#%d append k=%ld nbytes=%zu align=%d :", m->idx, m->serial, m->nappend, *nbytes, (int)((uintptr_t)frames & 7));
    const unsigned char* p = (const unsigned char*)frames;
    const unsigned char* end = p + *nbytes;
    int guard = 0;
    while (p < end && guard++ < 100000) {
        const struct VideoFrame* f = (const struct VideoFrame*)p;
        size_t sz = f->bytes_of_frame;
        if (sz < sizeof(struct VideoFrame) || (size_t)(end - p) < sz) {
            printf(" BADFRAME(size=%zu left=%zu)", sz, (size_t)(end - p));
            break;
        }
        size_t bpp = bytes_of_type(f->shape.type);
        size_t n = (size_t)f->shape.dims.width * f->shape.dims.height * bpp;
        /* FNV-1a over the pixel bytes: the oracle recomputes it from the camera's generator */
        uint32_t hsh = 2166136261u;
        if (sizeof(struct VideoFrame) + n <= sz)
            for (size_t j = 0; j < n; ++j) { hsh ^= f->data[j]; hsh *= 16777619u; }
        printf(" [id=%llu hw=%llu sz=%zu w=%u h=%u t=%d px=%08x]", (unsigned long long)f->frame_id,
               (unsigned long long)f->hardware_frame_id, sz, f->shape.dims.width, f->shape.dims.height, (int)f->shape.type, hsh);
        p += sz;
    }
    printf("\n");
    m->nappend++;
    return DeviceState_Running;
}
static void sto_reserve(struct Storage* s, const struct ImageShape* shape)
{
    struct MockSto* m = (struct MockSto*)s;
    printf("D sto%d#%d reserve w=%u h=%u t=%d\n", m->idx, m->serial, shape->dims.width, shape->dims.height, (int)shape->type);
}
static void sto_destroy(struct Storage* s) { (void)s; }

/* ------------------------------------------------------------------ driver */
static uint32_t drv_count(struct Driver* d) { (void)d; return MOCK_NCAM + MOCK_NSTO; }
static enum DeviceStatusCode drv_describe(const struct Driver* d, struct DeviceIdentifier* id, uint64_t i)
{
    (void)d;
    if (i >= MOCK_NCAM + MOCK_NSTO) return Device_Err;
    memset(id, 0, sizeof *id);
    id->device_id = (uint8_t)i;
    id->kind = i < MOCK_NCAM ? DeviceKind_Camera : DeviceKind_Storage;
    snprintf(id->name, sizeof id->name, "%s", i < MOCK_NCAM ? cam_names[i] : sto_names[i - MOCK_NCAM]);
    return Device_Ok;
}
static enum DeviceStatusCode drv_open(struct Driver* d, uint64_t device_id, struct Device** out)
{
    (void)d;
    if (device_id == MOCK_NCAM - 1 || device_id == MOCK_NCAM + MOCK_NSTO - 1 || device_id >= MOCK_NCAM + MOCK_NSTO) {
        printf("D dev%llu open FAIL\n", (unsigned long long)device_id);
        return Device_Err;
    }
    if (device_id < MOCK_NCAM) {
        struct MockCam* m = (struct MockCam*)calloc(1, sizeof *m);
        m->idx = (int)device_id;
        m->serial = ++g_serial;
        m->camera = (struct Camera){ .state = DeviceState_AwaitingConfiguration, .set = cam_set, .get = cam_get,
                                     .get_meta = cam_get_meta, .get_shape = cam_get_shape, .start = cam_start,
                                     .stop = cam_stop, .execute_trigger = cam_trigger, .get_frame = cam_get_frame };
        drv_describe(d, &m->camera.device.identifier, device_id);
        *out = &m->camera.device;
        printf("D cam%d#%d open\n", m->idx, m->serial);
    } else {
        struct MockSto* m = (struct MockSto*)calloc(1, sizeof *m);
        m->idx = (int)device_id - MOCK_NCAM;
        m->serial = ++g_serial;
        m->storage = (struct Storage){ .state = DeviceState_AwaitingConfiguration, .set = sto_set, .get = sto_get,
                                       .get_meta = sto_get_meta, .start = sto_start, .append = sto_append,
                                       .stop = sto_stop, .destroy = sto_destroy, .reserve_image_shape = sto_reserve };
        drv_describe(d, &m->storage.device.identifier, device_id);
        *out = &m->storage.device;
        printf("D sto%d#%d open\n", m->idx, m->serial);
    }
    return Device_Ok;
}
static enum DeviceStatusCode drv_close(struct Driver* d, struct Device* in)
{
    (void)d;
    if (in->identifier.kind == DeviceKind_Camera) {
        struct MockCam* m = (struct MockCam*)in;
        printf("D cam%d#%d close%s\n", m->idx, m->serial, m->running ? " WHILE-RUNNING" : "");
    } else {
        struct MockSto* m = (struct MockSto*)in;
        printf("D sto%d#%d close\n", m->idx, m->serial);
    }
    free(in); /* any later touch by the runtime is a use-after-free (ASan) */
    return Device_Ok;
}
static enum DeviceStatusCode drv_shutdown(struct Driver* d) { (void)d; printf("D driver shutdown\n"); return Device_Ok; }

static struct Driver* mock_driver_init(void (*reporter)(int, const char*, int, const char*, const char*))
{
    (void)reporter;
    g_driver = (struct Driver){ .device_count = drv_count, .describe = drv_describe, .open = drv_open,
                                .close = drv_close, .shutdown = drv_shutdown };
    return &g_driver;
}

void* mock_lib_load(const char* symbol)
{
    if (strcmp(symbol, "acquire_driver_init_v0") == 0)
        return (void*)mock_driver_init;
    return 0;
}
