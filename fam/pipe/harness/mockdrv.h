/* mockdrv.h -- recording / fault-injecting Driver + Camera + Storage used through the real HAL and device manager. */
#ifndef MOCKDRV_H
#define MOCKDRV_H
#include <stdint.h>
#include <stddef.h>
#ifdef __cplusplus
extern "C" {
#endif

#define MOCK_NCAM 3   /* device ids 0,1 = cameras camA, camB; 2 = camBad (open fails) */
#define MOCK_NSTO 3   /* device ids 3,4 = storages stoA, stoB; 5 = stoBad (open fails) */

struct mock_cam_cfg {
    uint32_t w, h;
    int type;             /* SampleType */
    int trig;             /* software frame trigger enabled */
    long fail_at;         /* get_frame fails when asked for this hardware id (-1: never); one-shot per start */
    int start_fails;      /* next start fails */
    int pace;             /* extra scheduling points inside get_frame */
    int empty_every;      /* every k-th frame call of an ungated camera returns Device_Ok with *nbytes = 0: "no frame yet" (0: never) */
    int reject_sets;      /* the next so many set calls are refused by the device (Device_Err, nothing changes) */
};
struct mock_sto_cfg {
    long fail_at;         /* the k-th append (0-based, counted per start) returns a non-Running state (-1: never) */
    int start_fails;
    int pace;
};
extern struct mock_cam_cfg mock_cam[MOCK_NCAM];
extern struct mock_sto_cfg mock_sto[MOCK_NSTO];
void mock_reset(void);
void* mock_lib_load(const char* symbol);   /* for vs_register_lib("acquire-driver-common", mock_lib_load) */
/* payload byte j of frame (acquisition tag, hardware id) produced by camera cam */
static inline unsigned char mock_pixel(int cam, unsigned tag, uint64_t id, size_t j)
{
    return (unsigned char)(17u * (unsigned)cam + 31u * tag + 7u * (unsigned)id + (unsigned)j * 13u + 1u);
}
#ifdef __cplusplus
}
#endif
#endif
