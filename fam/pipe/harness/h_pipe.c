/* h_pipe.c -- the whole runtime (acquire.c, source/sink/filter, channel, HAL, device manager) compiled unmodified
   from /repo's working tree against harness/vplatform, with the mock driver injected through lib_open_by_name and
   small rings substituted through renamed init functions.  The client program comes from stdin:

     ring <bytes> | filtring <bytes>       capacity substituted for the 1 GiB rings (before init)
     seed <n> | sched t0 t1 ..             schedule (random from seed / explicit thread ids)
     cam <idx> w=<w> h=<h> type=<t> trig=<0|1> pace=<n>     mock camera behaviour
     camfail <idx> <hardware id> | camempty <idx> <k> (every k-th frame call returns no frame) | camstartfail <idx> | stofail <idx> <append index> | stostartfail <idx> | stopace <idx> <n> | waitidle (poll acquire_get_state until it is not Running)
     cfg <stream> cam=<A|B|Bad|none> sto=<A|B|Bad|none> n=<max frames> avg=<k> delay=<ms>
     init | configure | start | stop | abort | trigger <stream> | map <stream> | unmap <stream> all|none|half|frames <k>|bytes <n>
     state | yield <n> | shutdown
     monitor <stream> <rounds> <mode>      spawn a second client thread doing `rounds` x (map; unmap mode) with yields

   Output: "A ..." API calls and results, "D ..." driver calls (mockdrv.c), "C ..." callbacks and commits,
   "M ..." frames seen through acquire_map_read, END / DEADLOCK (from vsched). */
#include <stdio.h>
#include <stdlib.h>
#include <string.h>
#include "platform.h"
#include "vsched.h"
#include "mockdrv.h"
#include "acquire.h"
#include "device/hal/device.manager.h"
#include "device/props/components.h"
#include "runtime/channel.h"
#include "runtime/sink.h"
#include "runtime/source.h"
#include "runtime/filter.h"
#include "device/kit/camera.h"

/* every output line starts with "@<thread id> " (the acting thread; the model's transitions are per thread) */
#include <stdarg.h>
static int g_bol = 1;
int vh_printf(const char* fmt, ...)
{
    static char buf[1 << 16];
    va_list ap;
    va_start(ap, fmt);
    int n = vsnprintf(buf, sizeof buf, fmt, ap);
    va_end(ap);
    if (n < 0) return n;
    if ((size_t)n >= sizeof buf) n = (int)sizeof buf - 1;
    for (int i = 0; i < n; ++i) {
        if (g_bol) { fprintf(stdout, "@%d ", vs_self()); g_bol = 0; }
        fputc(buf[i], stdout);
        if (buf[i] == '\n') g_bol = 1;
    }
    return n;
}
#define printf vh_printf

static size_t g_ring = 1 << 12, g_filtring = 1 << 12;
static struct AcquireRuntime* rt = 0;
static struct AcquireProperties props;
static int have_props = 0;

/* ------------------------------------------------------------------ interposed init functions (acquire.c is compiled with
   -Dvideo_sink_init=vh_video_sink_init -Dvideo_filter_init=vh_video_filter_init -Dvideo_source_init=vh_video_source_init) */
static void (*real_sig_stop_source[2])(const struct video_sink_s*);
static void (*real_await_filter_reset[2])(const struct video_source_s*);
static void (*real_sig_stop_filter[2])(const struct video_source_s*);
static void (*real_sig_stop_sink[2])(const struct video_source_s*);

static void cb_sig_stop_source(const struct video_sink_s* s) { printf("C s%d sig_stop_source\n", s->stream_id); real_sig_stop_source[s->stream_id](s); }
static void cb_await_filter_reset(const struct video_source_s* s) { printf("C s%d await_filter_reset\n", s->stream_id); real_await_filter_reset[s->stream_id](s); }
static void cb_sig_stop_filter(const struct video_source_s* s) { printf("C s%d sig_stop_filter\n", s->stream_id); real_sig_stop_filter[s->stream_id](s); }
static void cb_sig_stop_sink(const struct video_source_s* s) { printf("C s%d sig_stop_sink\n", s->stream_id); real_sig_stop_sink[s->stream_id](s); }

static struct channel* g_sink_in[2];
static struct channel* g_filter_in[2];
static struct video_sink_s* g_sink[2];
static struct video_filter_s* g_filter[2];

enum DeviceStatusCode
vh_video_sink_init(struct video_sink_s* self, uint8_t stream_id, size_t cap, void (*sig_stop_source)(const struct video_sink_s*))
{
    (void)cap;
    real_sig_stop_source[stream_id & 1] = sig_stop_source;
    enum DeviceStatusCode r = video_sink_init(self, stream_id, g_ring, cb_sig_stop_source);
    g_sink_in[stream_id & 1] = &self->in;
    g_sink[stream_id & 1] = self;
    return r;
}
enum DeviceStatusCode
vh_video_filter_init(struct video_filter_s* self, uint8_t stream_id, size_t cap, struct channel* out)
{
    (void)cap;
    enum DeviceStatusCode r = video_filter_init(self, stream_id, g_filtring, out);
    g_filter_in[stream_id & 1] = &self->in;
    g_filter[stream_id & 1] = self;
    return r;
}
enum DeviceStatusCode
vh_video_source_init(struct video_source_s* self, uint8_t stream_id, uint64_t max_frame_count, struct channel* to_sink,
                     struct channel* to_filter, void (*afr)(const struct video_source_s*),
                     void (*ssf)(const struct video_source_s*), void (*sss)(const struct video_source_s*))
{
    real_await_filter_reset[stream_id & 1] = afr;
    real_sig_stop_filter[stream_id & 1] = ssf;
    real_sig_stop_sink[stream_id & 1] = sss;
    return video_source_init(self, stream_id, max_frame_count, to_sink, to_filter, cb_await_filter_reset, cb_sig_stop_filter, cb_sig_stop_sink);
}

/* ------------------------------------------------------------------ commits (linked with -Wl,--wrap=channel_write_unmap,--wrap=channel_abort_write) */
void __real_channel_write_unmap(struct channel* self);
void __real_channel_abort_write(struct channel* self);
static const char* chan_name(struct channel* c, int* stream)
{
    for (int i = 0; i < 2; ++i) {
        if (c == g_sink_in[i]) { *stream = i; return "sink.in"; }
        if (c == g_filter_in[i]) { *stream = i; return "filter.in"; }
    }
    *stream = -1;
    return "?";
}
/* outstanding write mappings, per channel (single-writer discipline) */
static struct { struct channel* c; int outstanding; int tid; } g_wm[16];
static int wm_slot(struct channel* c)
{
    for (int i = 0; i < 16; ++i) if (g_wm[i].c == c) return i;
    for (int i = 0; i < 16; ++i) if (!g_wm[i].c) { g_wm[i].c = c; return i; }
    return -1;
}
void __wrap_channel_write_unmap(struct channel* self)
{
    { int k = wm_slot(self); if (k >= 0 && g_wm[k].tid == vs_self()) g_wm[k].outstanding = 0; }
    int s;
    const char* nm = chan_name(self, &s);
    size_t head0 = self->head, mapped = self->mapped;
    /* the frame about to be committed starts at head0 (the region is [head, mapped)) */
    unsigned long long id = 0, hw = 0;
    size_t sz = 0;
    int type = -1;
    if (mapped > head0 && mapped - head0 >= sizeof(struct VideoFrame)) {
        const struct VideoFrame* f = (const struct VideoFrame*)(self->data + head0);
        id = f->frame_id; hw = f->hardware_frame_id; sz = f->bytes_of_frame; type = (int)f->shape.type;
    }
    __real_channel_write_unmap(self);
    printf("C s%d commit %s %s id=%llu hw=%llu sz=%zu t=%d off=%zu\n", s, nm, self->head != head0 ? "ok" : "DROPPED", id, hw, sz, type, head0);
}
void __wrap_channel_abort_write(struct channel* self)
{
    int s;
    const char* nm = chan_name(self, &s);
    __real_channel_abort_write(self);
    { int k = wm_slot(self); if (k >= 0 && g_wm[k].tid == vs_self()) g_wm[k].outstanding = 0; }   /* the owner cancelled its mapping */
    printf("C s%d abort_write %s\n", s, nm);
}

/* ---- the remaining channel operations (linked with --wrap): "W" lines for the writer side, "R" lines for readers */
void* __real_channel_write_map(struct channel* self, size_t nbytes);
void __real_channel_accept_writes(struct channel* self, uint32_t tf);
struct slice __real_channel_read_map(struct channel* self, struct channel_reader* reader);
void __real_channel_read_unmap(struct channel* self, struct channel_reader* reader, size_t consumed);
void* __wrap_channel_write_map(struct channel* self, size_t nbytes)
{
    int s;
    const char* nm = chan_name(self, &s);
    printf("W s%d %s wmap-enter n=%zu\n", s, nm, nbytes);
    void* p = __real_channel_write_map(self, nbytes);
    if (p) {
        /* the channel has ONE write cursor: a second thread mapping for write before the first has unmapped is handed the same
           bytes (the ring theorems C01-C03 assume one writer; this checks that the runtime keeps to it) */
        int k = wm_slot(self);
        if (k >= 0) {
            if (g_wm[k].outstanding && g_wm[k].tid != vs_self() && !vs_thread_finished(g_wm[k].tid))   /* a mapping abandoned by a thread that has exited (error path) is not a second writer */
                printf("V s%d %s two-writers off=%zu n=%zu first=t%d second=t%d\n", s, nm, (size_t)((uint8_t*)p - self->data), nbytes, g_wm[k].tid, vs_self());
            g_wm[k].outstanding = 1;
            g_wm[k].tid = vs_self();
        }
    }
    if (p) printf("W s%d %s wmap ok off=%zu n=%zu\n", s, nm, (size_t)((uint8_t*)p - self->data), nbytes);
    else printf("W s%d %s wmap null n=%zu\n", s, nm, nbytes);
    return p;
}
void __wrap_channel_accept_writes(struct channel* self, uint32_t tf)
{
    int s;
    const char* nm = chan_name(self, &s);
    __real_channel_accept_writes(self, tf);
    printf("W s%d %s accept %u\n", s, nm, tf);
}
/* video_sink_start refuses (before touching the device) when the storage is not Armed -- the stream is still running:
   make that visible in the log */
enum DeviceStatusCode __real_video_sink_start(struct video_sink_s* self);
enum DeviceStatusCode __wrap_video_sink_start(struct video_sink_s* self)
{
    const int before = (self && self->storage) ? (int)self->storage->state : -1;
    enum DeviceStatusCode r = __real_video_sink_start(self);
    if (r != Device_Ok && before != (int)DeviceState_Armed)
        printf("H s%d sink start refused state=%d\n", self ? (int)self->stream_id : -1, before);
    return r;
}
/* the same for video_source_start and a camera that is not Armed (it failed and was not configured since) */
enum DeviceStatusCode __real_video_source_start(struct video_source_s* self);
enum DeviceStatusCode __wrap_video_source_start(struct video_source_s* self)
{
    const int before = (self && self->camera) ? (int)self->camera->state : -1;
    enum DeviceStatusCode r = __real_video_source_start(self);
    if (r != Device_Ok && before != (int)DeviceState_Armed)
        printf("H s%d source start refused state=%d\n", self ? (int)self->stream_id : -1, before);
    return r;
}
static const char* reader_name(struct channel* c, struct channel_reader* r, int s)
{
    if (s >= 0 && c == g_sink_in[s]) return r == &g_sink[s]->reader ? "sink" : "mon";
    if (s >= 0 && c == g_filter_in[s]) return r == &g_filter[s]->reader ? "filt" : "other";
    return "?";
}
/* what each reader currently has mapped, as frame sizes (to turn consumed bytes into frames) */
static struct { struct channel_reader* r; int n; size_t total; size_t sz[4096]; const unsigned char* beg; uint32_t hash; } g_rm[8];
static uint32_t region_hash(const unsigned char* p, size_t n)
{
    uint32_t h = 2166136261u;
    for (size_t j = 0; j < n; ++j) { h ^= p[j]; h *= 16777619u; }
    return h;
}
static int rm_slot(struct channel_reader* r)
{
    for (int i = 0; i < 8; ++i) if (g_rm[i].r == r) return i;
    for (int i = 0; i < 8; ++i) if (!g_rm[i].r) { g_rm[i].r = r; return i; }
    return 0;
}
struct slice __wrap_channel_read_map(struct channel* self, struct channel_reader* reader)
{
    int s;
    const char* nm = chan_name(self, &s);
    const char* rn = reader_name(self, reader, s);
    printf("R s%d %s %s rmap-enter\n", s, nm, rn);
    struct slice sl = __real_channel_read_map(self, reader);
    size_t nbytes = (size_t)(sl.end - sl.beg);
    int k = rm_slot(reader);
    g_rm[k].n = 0;
    g_rm[k].total = nbytes;
    g_rm[k].beg = sl.beg;
    g_rm[k].hash = nbytes ? region_hash(sl.beg, nbytes) : 0;     /* a mapped region must not change until it is unmapped (C02) */
    printf("R s%d %s %s rmap nbytes=%zu align=%d status=%d :", s, nm, rn, nbytes, (int)((uintptr_t)sl.beg & 7), (int)reader->status);
    const unsigned char* p = sl.beg;
    const unsigned char* e = sl.end;
    int guard = 0;
    while (p && p < e && guard++ < 100000) {
        const struct VideoFrame* f = (const struct VideoFrame*)p;
        size_t sz = f->bytes_of_frame;
        if (sz < sizeof(struct VideoFrame) || (size_t)(e - p) < sz) { printf(" BADFRAME(size=%zu left=%zu)", sz, (size_t)(e - p)); break; }
        size_t n = (size_t)f->shape.dims.width * f->shape.dims.height * bytes_of_type(f->shape.type);
        uint32_t hsh = 2166136261u;
        if (sizeof(struct VideoFrame) + n <= sz)
            for (size_t j = 0; j < n; ++j) { hsh ^= f->data[j]; hsh *= 16777619u; }
        printf(" [id=%llu hw=%llu sz=%zu w=%u h=%u t=%d px=%08x]", (unsigned long long)f->frame_id, (unsigned long long)f->hardware_frame_id,
               sz, f->shape.dims.width, f->shape.dims.height, (int)f->shape.type, hsh);
        if (g_rm[k].n < 4096) g_rm[k].sz[g_rm[k].n++] = sz;
        p += sz;
    }
    printf("\n");
    return sl;
}
void __wrap_channel_read_unmap(struct channel* self, struct channel_reader* reader, size_t consumed)
{
    int s;
    const char* nm = chan_name(self, &s);
    const char* rn = reader_name(self, reader, s);
    int k = rm_slot(reader);
    int was_mapped = reader->state == ChannelState_Mapped;
    if (was_mapped && g_rm[k].total && g_rm[k].beg && region_hash(g_rm[k].beg, g_rm[k].total) != g_rm[k].hash)
        printf("V s%d %s region-changed-while-mapped reader=%s nbytes=%zu\n", s, nm, rn, g_rm[k].total);
    size_t c = consumed < g_rm[k].total ? consumed : g_rm[k].total, tot = 0;
    int frames = 0, exact = 1;
    for (int i = 0; i < g_rm[k].n && tot < c; ++i) {
        if (tot + g_rm[k].sz[i] <= c) { tot += g_rm[k].sz[i]; ++frames; }
        else { exact = 0; break; }
    }
    if (tot != c) exact = 0;
    __real_channel_read_unmap(self, reader, consumed);
    printf("R s%d %s %s runmap mapped=%d frames=%d exact=%d of=%d all=%d\n", s, nm, rn, was_mapped, was_mapped ? frames : 0, exact,
           was_mapped ? g_rm[k].n : 0, consumed >= g_rm[k].total);
    g_rm[k].n = 0;
    g_rm[k].total = 0;
}

/* ------------------------------------------------------------------ logging of the runtime's reporter */
static int g_verbose = 0;
static void reporter(int is_error, const char* file, int line, const char* function, const char* msg)
{
    if (g_verbose)
        printf("L %s %s:%d %s: %s\n", is_error ? "ERR" : "log", file, line, function, msg);
}

/* ------------------------------------------------------------------ client commands */
static const char* state_name(enum DeviceState s)
{
    switch (s) {
        case DeviceState_Closed: return "Closed";
        case DeviceState_AwaitingConfiguration: return "AwaitingConfiguration";
        case DeviceState_Armed: return "Armed";
        case DeviceState_Running: return "Running";
        default: return "?";
    }
}

static size_t g_held_bytes[2];
static size_t g_held_sizes[2][4096];
static int g_held_n[2];
static void do_map(int stream, const char* who)
{
    struct VideoFrame *beg = 0, *end = 0;
    enum AcquireStatusCode r = acquire_map_read(rt, (uint32_t)stream, &beg, &end);
    size_t nbytes = (size_t)((unsigned char*)end - (unsigned char*)beg);
    printf("M s%d %s map %s nbytes=%zu align=%d :", stream, who, r == AcquireStatus_Ok ? "ok" : "ERR", r == AcquireStatus_Ok ? nbytes : 0,
           (int)((uintptr_t)beg & 7));
    g_held_n[stream] = 0;
    if (r == AcquireStatus_Ok) {
        g_held_bytes[stream] = nbytes;
        const unsigned char* p = (const unsigned char*)beg;
        const unsigned char* e = (const unsigned char*)end;
        int guard = 0;
        while (p < e && guard++ < 100000) {
            const struct VideoFrame* f = (const struct VideoFrame*)p;
            size_t sz = f->bytes_of_frame;
            if (sz < sizeof(struct VideoFrame) || (size_t)(e - p) < sz) { printf(" BADFRAME(size=%zu left=%zu)", sz, (size_t)(e - p)); break; }
            size_t n = (size_t)f->shape.dims.width * f->shape.dims.height * bytes_of_type(f->shape.type);
            uint32_t hsh = 2166136261u;
            if (sizeof(struct VideoFrame) + n <= sz)
                for (size_t j = 0; j < n; ++j) { hsh ^= f->data[j]; hsh *= 16777619u; }
            printf(" [id=%llu hw=%llu sz=%zu w=%u h=%u t=%d px=%08x]", (unsigned long long)f->frame_id, (unsigned long long)f->hardware_frame_id,
                   sz, f->shape.dims.width, f->shape.dims.height, (int)f->shape.type, hsh);
            if (g_held_n[stream] < 4096) g_held_sizes[stream][g_held_n[stream]++] = sz;
            p += sz;
        }
    } else
        g_held_bytes[stream] = 0;
    printf("\n");
}
/* mode: all | none | half (whole frames, rounded down) | frames k | bytes n */
static void do_unmap(int stream, const char* mode, long arg, const char* who)
{
    size_t held = g_held_bytes[stream];
    size_t consumed = 0;
    struct channel_reader* rd = 0;
    (void)rd;
    if (!strcmp(mode, "all")) consumed = held;
    else if (!strcmp(mode, "none")) consumed = 0;
    else if (!strcmp(mode, "bytes")) consumed = (size_t)arg;
    else {
        long k = !strcmp(mode, "half") ? g_held_n[stream] / 2 : arg;
        for (long i = 0; i < k && i < g_held_n[stream]; ++i) consumed += g_held_sizes[stream][i];
    }
    enum AcquireStatusCode r = acquire_unmap_read(rt, (uint32_t)stream, consumed);
    printf("M s%d %s unmap %s consumed=%zu\n", stream, who, r == AcquireStatus_Ok ? "ok" : "ERR", consumed);
    g_held_bytes[stream] = 0;
}

struct monitor_args { int stream, rounds; char mode[16]; long arg; struct thread th; };
static struct monitor_args g_mon[4];
static int g_nmon = 0;
static void monitor_thread(void* p)
{
    struct monitor_args* a = (struct monitor_args*)p;
    vs_name("monitor");
    for (int i = 0; i < a->rounds; ++i) {
        vs_point("mon");
        do_map(a->stream, "mon");
        vs_point("mon");
        do_unmap(a->stream, a->mode, a->arg, "mon");
    }
}

static int kv(const char* line, const char* key, char* out, size_t n)
{
    char pat[32];
    snprintf(pat, sizeof pat, " %s=", key);
    const char* p = strstr(line, pat);
    if (!p) return 0;
    p += strlen(pat);
    size_t i = 0;
    while (*p && *p != ' ' && *p != '\n' && i + 1 < n) out[i++] = *p++;
    out[i] = 0;
    return 1;
}

static void select_dev(const char* name, enum DeviceKind kind, struct DeviceIdentifier* id)
{
    memset(id, 0, sizeof *id);
    if (!strcmp(name, "none")) { id->kind = DeviceKind_None; return; }
    char full[32];
    snprintf(full, sizeof full, "%s%s", kind == DeviceKind_Camera ? "cam" : "sto", name);
    if (device_manager_select(acquire_device_manager(rt), kind, full, strlen(full), id) != Device_Ok)
        printf("A select %s -> ERR\n", full);
}

static int on_stuck(const char* why)
{
    (void)why;
    return 0;
}

int main(void)
{
    static char prog[512][256];
    int nprog = 0;
    static int sched[1 << 16];
    size_t nsched = 0;
    long long seed = 1;
    int trace = 0, pct = 0;
    char line[256];
    mock_reset();
    while (fgets(line, sizeof line, stdin) && nprog < 512) {
        if (sscanf(line, "seed %lld", &seed) == 1) continue;
        if (sscanf(line, "trace %d", &trace) == 1) continue;
        if (sscanf(line, "pct %d", &pct) == 1) continue;
        if (sscanf(line, "verbose %d", &g_verbose) == 1) continue;
        if (!strncmp(line, "sched ", 6)) {
            char* p = line + 5;
            while (*p) { char* e; long v = strtol(p, &e, 10); if (e == p) break; sched[nsched++] = (int)v; p = e; }
            continue;
        }
        if (line[0] == '#' || line[0] == '\n') continue;
        strncpy(prog[nprog++], line, 255);
    }
    struct vs_config c = { 0 };
    c.seed = (uint64_t)seed; c.trace = trace; c.schedule = sched; c.nschedule = nsched; c.mode = 1; c.max_steps = 400000; c.pct_depth = pct; c.events = 1; c.clock_step = 20; c.pct_aging = 256;
    vs_init(&c);
    vs_on_stuck(on_stuck);
    vs_register_lib("acquire-driver-common", mock_lib_load);
    setvbuf(stdout, 0, _IOFBF, 1 << 16);

    for (int ip = 0; ip < nprog; ++ip) {
        const char* l = prog[ip];
        char a[64], b[64];
        long x = 0, y = 0;
        if (sscanf(l, "ring %ld", &x) == 1) { g_ring = (size_t)x; continue; }
        if (sscanf(l, "filtring %ld", &x) == 1) { g_filtring = (size_t)x; continue; }
        if (sscanf(l, "cam %ld", &x) == 1 && x >= 0 && x < MOCK_NCAM) {
            if (kv(l, "w", a, sizeof a)) mock_cam[x].w = (uint32_t)atoi(a);
            if (kv(l, "h", a, sizeof a)) mock_cam[x].h = (uint32_t)atoi(a);
            if (kv(l, "type", a, sizeof a)) mock_cam[x].type = atoi(a);
            if (kv(l, "trig", a, sizeof a)) mock_cam[x].trig = atoi(a);
            if (kv(l, "pace", a, sizeof a)) mock_cam[x].pace = atoi(a);
            continue;
        }
        if (sscanf(l, "camfail %ld %ld", &x, &y) == 2) { mock_cam[x].fail_at = y; continue; }
        if (sscanf(l, "camreject %ld", &x) == 1 && x >= 0 && x < MOCK_NCAM) { mock_cam[x].reject_sets = 1; continue; }
        if (sscanf(l, "camstartfail %ld", &x) == 1) { mock_cam[x].start_fails = 1; continue; }
        if (sscanf(l, "camempty %ld %ld", &x, &y) == 2 && x >= 0 && x < MOCK_NCAM) { mock_cam[x].empty_every = (int)y; continue; }
        if (sscanf(l, "stofail %ld %ld", &x, &y) == 2) { mock_sto[x].fail_at = y; continue; }
        if (sscanf(l, "stostartfail %ld", &x) == 1) { mock_sto[x].start_fails = 1; continue; }
        if (sscanf(l, "stopace %ld %ld", &x, &y) == 2) { mock_sto[x].pace = (int)y; continue; }
        if (!strncmp(l, "init", 4)) {
            rt = acquire_init(reporter);
            printf("A init -> %s\n", rt ? "ok" : "NULL");
            if (rt) { memset(&props, 0, sizeof props); acquire_get_configuration(rt, &props); have_props = 1; }
            continue;
        }
        if (!rt) { printf("A (no runtime) %s", l); continue; }
        if (sscanf(l, "cfg %ld", &x) == 1 && x >= 0 && x < 2) {
            struct aq_properties_video_s* v = &props.video[x];
            if (kv(l, "cam", a, sizeof a)) select_dev(a, DeviceKind_Camera, &v->camera.identifier);
            if (kv(l, "sto", a, sizeof a)) select_dev(a, DeviceKind_Storage, &v->storage.identifier);
            if (kv(l, "n", a, sizeof a)) v->max_frame_count = (uint64_t)atoll(a);
            if (kv(l, "avg", a, sizeof a)) v->frame_average_count = (uint32_t)atoi(a);
            if (kv(l, "delay", a, sizeof a)) v->storage.write_delay_ms = (float)atof(a);
            v->camera.settings.binning = 1;
            continue;
        }
        if (!strncmp(l, "configure", 9)) {
            printf("A configure call\n");
            fflush(stdout);
            enum AcquireStatusCode r = acquire_configure(rt, &props);
            printf("A configure -> %s state=%s\n", r == AcquireStatus_Ok ? "ok" : "ERR", state_name(acquire_get_state(rt)));
        } else if (!strncmp(l, "start", 5)) {
            printf("A start call\n");
            enum AcquireStatusCode r = acquire_start(rt);
            printf("A start -> %s\n", r == AcquireStatus_Ok ? "ok" : "ERR");
        } else if (!strncmp(l, "stop", 4)) {
            printf("A stop call\n");
            enum AcquireStatusCode r = acquire_stop(rt);
            printf("A stop -> %s\n", r == AcquireStatus_Ok ? "ok" : "ERR");
        } else if (!strncmp(l, "abort", 5)) {
            printf("A abort call\n");
            enum AcquireStatusCode r = acquire_abort(rt);
            printf("A abort -> %s\n", r == AcquireStatus_Ok ? "ok" : "ERR");
        } else if (sscanf(l, "trigger %ld", &x) == 1) {
            enum AcquireStatusCode r = acquire_execute_trigger(rt, (uint32_t)x);
            printf("A trigger s%ld -> %s\n", x, r == AcquireStatus_Ok ? "ok" : "ERR");
        } else if (sscanf(l, "map %ld", &x) == 1) {
            do_map((int)x, "cli");
        } else if (sscanf(l, "unmap %ld %63s %ld", &x, a, &y) >= 2) {
            do_unmap((int)x, a, y, "cli");
        } else if (sscanf(l, "drain %ld", &x) == 1) {
            /* the canonical polling client: consume everything until the runtime stops reporting Running */
            int guard = 0;
            for (;;) {
                do_map((int)x, "cli");
                size_t got = g_held_bytes[x];
                do_unmap((int)x, "all", 0, "cli");
                if (!got && acquire_get_state(rt) != DeviceState_Running) break;
                if (++guard > 20000) { printf("A drain GIVEUP\n"); break; }
                clock_sleep_ms(0, 1.0f); /* a polling client sleeps between polls (and so does not starve the workers under priority scheduling) */
            }
        } else if (!strncmp(l, "waitidle", 8)) {
            /* a client that does not call stop but polls the state until the runtime no longer reports Running (bounded) */
            enum DeviceState st = acquire_get_state(rt);
            for (int i = 0; i < 4000 && st == DeviceState_Running; ++i) { clock_sleep_ms(0, 1.0f); st = acquire_get_state(rt); }
            printf("A state -> %s\n", state_name(st));
        } else if (!strncmp(l, "state", 5)) {
            printf("A state -> %s\n", state_name(acquire_get_state(rt)));
        } else if (sscanf(l, "yield %ld", &x) == 1) {
            for (long i = 0; i < x; ++i) vs_point("cli.yield");
        } else if (sscanf(l, "monitor %ld %ld %15s %ld", &x, &y, b, &seed) >= 3) {
            struct monitor_args* m = &g_mon[g_nmon++ & 3];
            m->stream = (int)x; m->rounds = (int)y; snprintf(m->mode, sizeof m->mode, "%s", b); m->arg = 0;
            thread_init(&m->th);
            thread_create(&m->th, monitor_thread, m);
        } else if (!strncmp(l, "joinmon", 7)) {
            for (int i = 0; i < g_nmon && i < 4; ++i) thread_join(&g_mon[i].th);
            g_nmon = 0;
        } else if (!strncmp(l, "shutdown", 8)) {
            printf("A shutdown call\n");
            enum AcquireStatusCode r = acquire_shutdown(rt);
            printf("A shutdown -> %s\n", r == AcquireStatus_Ok ? "ok" : "ERR");
            rt = 0;
        } else {
            printf("A BADCMD %s", l);
        }
        fflush(stdout);
    }
    printf("END steps=%zu\n", vs_steps());
    fflush(stdout);
    return 0;
}
