"""Pipeline family: C04 C05 C06 C07 C08 C09 (the runtime under the deterministic scheduler + mock driver)."""
import os
import sys

import vlib

sys.path.insert(0, os.path.dirname(os.path.abspath(__file__)))
import pipelib  # noqa: E402

KINDS = {"C04": ["basic", "basic", "monitor"], "C05": ["basic", "monitor"], "C06": ["monitor"],
         "C07": ["abort"], "C08": ["abort", "fault", "monitor", "basic"], "C09": ["fault"]}


def run(ctx):
    prop = ctx.prop
    exe = pipelib.build(ctx)
    n = 20000 if ctx.tier == "thorough" else 1200
    cases = []
    for k in range(n):
        kind = ctx.rng.choice(KINDS[prop])
        cases.append(pipelib.scenario(ctx.rng, kind))

    def one(c):
        prog, meta = c
        return pipelib.run_prog(exe, prog)

    results = vlib.parallel(one, cases)
    for (prog, meta), (rc, lines, err) in zip(cases, results):
        ctx.case("\n".join(prog), nontrivial=any("append" in l for l in lines))
        ctx.count("kind:" + meta["kind"])
        if rc not in (0, 42, 43):
            ctx.violation("runtime crashed / sanitizer report: " + (err or "")[-600:], {"program": prog, "stderr": (err or "")[-3000:], "tail": lines[-10:]}, key="crash")
            continue
        for p, key, msg in pipelib.oracle(prog, lines, meta):
            ctx.count("oracle:%s:%s" % (p, key))
            if not ctx.has_violation(p + ":" + key):
                ctx.violation("[%s] %s" % (p, msg), {"program": prog, "log_tail": lines[-40:]}, key=p + ":" + key)
