"""Pipeline family: C04 C06 C07 C08 C09 -- the whole runtime (acquire.c, source.c, sink.c, filter.c, channel.c, the HAL, the device
manager) compiled unmodified from /repo's working tree against the deterministic scheduler (harness/vplatform) and a mock driver.

prove      Properties_Cxx.v (theorems about every accepted trace of Pipe.PipeModel, of any length)
correspond every trace the harness logs from the real runtime (channel operations, device calls, callbacks, thread events, API
           calls, each with the acting thread) is translated to model events and must be ACCEPTED by the extracted model: the
           implementation's behaviours are then among those the theorems quantify over.  A rejected event = broken tie.
search     an independent oracle states the properties directly over the implementation's log (pipelib.oracle); it runs on every
           case, and on a fresh larger batch when the proof or the tie is broken.
"""
import glob
import os
import sys

import vlib

sys.path.insert(0, os.path.dirname(os.path.abspath(__file__)))
import pipelib  # noqa: E402

KINDS = {"C04": ["basic", "basic", "monitor", "abort"], "C06": ["monitor", "monitor", "abort"],
         "C07": ["abort", "abort", "monitor"], "C08": ["abort", "fault", "monitor", "basic", "api", "api"], "C09": ["fault", "fault", "abort"]}
N_QUICK = {"C04": 900, "C06": 900, "C07": 900, "C08": 900, "C09": 900}
N_THOROUGH = 20000


def attribute(prop, p, key, prog):
    """Does the oracle verdict (p, key) on this program count against property `prop`?  Returns the key to report, or None."""
    if p == prop:
        return "%s:%s" % (p, key)
    if p == "LIVE":
        # the run did not finish (deadlock / step limit inside an API call): C07 (stop and abort always return), and C09 when a
        # device fault was scripted
        faulty = any(l.split()[0] in ("camfail", "stofail", "camstartfail", "stostartfail") for l in prog if l.split())
        if prop == "C09" and faulty:
            return "C09:" + key
        if prop == "C07" and not faulty:
            return "C07:" + key
    return None


def run_cases(ctx, exe, orac, cases, prop, label):
    """Run programs on the implementation, the oracle on every log, the model acceptor on every log in scope."""
    results = vlib.parallel(lambda c: pipelib.run_prog(exe, c[0]), cases)
    traces = []
    for n, ((prog, meta), (rc, lines, err)) in enumerate(zip(cases, results)):
        ctx.case("\n".join(prog), nontrivial=any(" append " in l for l in lines))
        ctx.count("kind:" + meta["kind"])
        if rc not in (0, 42, 43):
            info = [k for p, k, m in pipelib.oracle(prog, lines, meta) if p == "INFO"]
            if info:
                # the crash follows a configure issued while the stream was running (a device closed / re-armed under a worker)
                if prop == "C08":
                    ctx.violation("[C08] the runtime crashed after acquire_configure was called while a stream was running: %s" % (err or "")[-600:],
                                  {"program": prog, "stderr": (err or "")[-3000:], "tail": lines[-10:]}, key="C08:" + info[0])
                continue
            if "LeakSanitizer" in (err or "") and any(l.startswith("END") for l in lines) and "drv_open" in err:
                # the run finished; a device object the driver allocated in open was never handed back to its close
                if prop == "C08":
                    ctx.violation("[C08] a device the runtime opened was never closed (the mock driver's object is still allocated at exit: "
                                  "LeakSanitizer): %s" % " / ".join(l.strip() for l in err.split("\n") if " in " in l and ("_configure" in l or "_open" in l))[:500],
                                  {"program": prog, "stderr": (err or "")[-3000:], "tail": lines[-10:]}, key="C08:device-never-closed")
                continue
            ctx.violation("[%s] the runtime crashed or a sanitizer reported an error: %s" % (prop, (err or "")[-600:]),
                          {"program": prog, "stderr": (err or "")[-3000:], "tail": lines[-10:]}, key=prop + ":crash")
            continue
        for p, key, msg in pipelib.oracle(prog, lines, meta):
            if p == "INFO":
                ctx.count("info:" + key)
                continue
            k = attribute(prop, p, key, prog)
            ctx.count("oracle:%s:%s" % (p, key))
            if k is not None:
                ctx.violation("[%s] %s" % (p, msg), {"program": prog, "log_tail": lines[-40:],
                                                      "how": "python3 fam/pipe/tryprog.py <this file> .build/%s/h_pipe" % prop}, key=k)
        ok, why = pipelib.in_model_scope(prog)
        if not ok:
            ctx.count("model-scope-skip:" + why[:50])
            continue
        if any(l.startswith(("STEPLIMIT", "DEADLOCK")) for l in lines[-40:]):
            ctx.count("model-skip:run did not finish (judged by the oracle)")
            continue
        try:
            ev, src = pipelib.to_events(prog, lines)
        except Exception as ex:      # noqa: BLE001 -- a log the translator does not understand is a broken tie, not a crash of the check
            ctx.broken_tie("the log -> event translator failed on a trace (internal error of the correspondence machinery)",
                           {"error": "%s: %s" % (type(ex).__name__, ex), "program": prog})
            continue
        if len(ev) > 30000:
            ctx.count("model-skip:trace longer than 30000 events")
            continue
        if ev.scope is not None:
            ctx.count("model-scope-skip:" + ev.scope[:50])
            continue
        traces.append(("%s%d" % (label, n), ev, prog, lines, src))
    if traces:
        out = pipelib.model_run(orac, [(t[0], t[1]) for t in traces])
        for tid, ev, prog, lines, src in traces:
            r = out.get(tid)
            ctx.count("model:events", len(ev))
            nemp = sum(1 for e in ev if " getempty " in e)
            if nemp:
                ctx.count("model:traces-with-frame-calls-that-return-no-frame")
                ctx.count("model:empty-frame-call-events", nemp)
            nref = sum(1 for e in ev if "startrefused" in e)
            if nref:
                ctx.count("model:traces-with-a-refused-start (running / failed device)")
                ctx.count("model:refused-start-events", nref)
            if r is None:
                ctx.broken_tie("the extracted model produced no verdict for a trace", tid)
            elif r[0]:
                ctx.traces_validated += 1
            else:
                k = r[1]
                ctx.count("model:rejected")
                ctx.broken_tie("the model (Pipe.PipeModel) rejects an event of a trace logged from the implementation: the "
                               "runtime no longer behaves as the model the theorems are about",
                               {"rejected_event": r[2], "event_index": k, "log_line": lines[src[k]] if k < len(src) else "",
                                "previous_events": ev[max(0, k - 8):k], "model_state": r[3], "program": prog})
    return results


def run(ctx):
    prop = ctx.prop
    ctx.coq_prove(["Properties_" + prop])
    exe = pipelib.build(ctx)
    orac = ctx.oracle_build()
    ctx.rule = ("a case = a client program (configure/start/map/unmap/trigger/stop/abort/shutdown over 1-2 streams, 1-3 acquisitions, ring "
                "of 2-6 frames, frame sizes with every residue mod 8, device pacing, write delays, scripted device faults) + a scheduler seed "
                "(random or PCT priorities); non-trivial = storage received at least one append")
    ctx.assumptions = [
        "OS fairness: an enabled thread is eventually scheduled (the harness scheduler picks among enabled threads; a run with no enabled "
        "thread is reported as a deadlock)",
        "sequential consistency at the granularity of the blocks between scheduling points (Appendix A/B of DESIGN.md); C11 data races "
        "on the unsynchronised flags are not modelled",
        "vplatform replaces platform.c: pthread mutex/condvar/event semantics are modelled, not exercised",
        "the shipped devices are replaced by a mock driver here (they are covered by C14-C18)",
        "model scope G1: frame averaging off, the two streams never use the same device at once, configure/start issued between acquisitions; logs outside "
        "G1 are checked by the independent oracle only (counted under model-scope-skip)"]
    ctx.trusted = vlib.default_trusted() + [
        "harness/vplatform (deterministic scheduler), fam/pipe/harness/h_pipe.c + mockdrv.c, the log->event translator pipelib.to_events",
        "RecordUpdate (coq-record-update) notation library"]
    # ---- corpus: minimised former failures (all repaired in /repo: they must pass now)
    corpus = []
    for f in sorted(glob.glob(os.path.join(vlib.VERIF, "corpus", "pipe", "*.prog"))):
        prog, expect = pipelib.load_prog(f)
        meta = pipelib.meta_from_prog(prog)
        meta["kind"] = "corpus"
        corpus.append((prog, meta))
    run_cases(ctx, exe, orac, corpus, prop, "c")
    # ---- generated cases
    n = N_THOROUGH if ctx.tier == "thorough" else N_QUICK[prop]
    cases = [pipelib.scenario(ctx.rng, ctx.rng.choice(KINDS[prop])) for _ in range(n)]
    for c in cases[:2]:
        ctx.sample({"program": c[0]})
    run_cases(ctx, exe, orac, cases, prop, "g")
    # ---- search: when a proof or the tie is broken and no concrete violation of this property was seen, look harder
    if ctx.broken and not any(v["found"] for v in ctx.violations):
        extra = [pipelib.scenario(ctx.rng, ctx.rng.choice(["basic", "monitor", "abort", "fault", "api"])) for _ in range(3 * n if ctx.tier != "thorough" else n)]
        ctx.count("search:extra-cases", len(extra))
        run_cases(ctx, exe, orac, extra, prop, "x")

    # ---- thorough: independent re-check of the compiled proofs with coqchk (kernel re-check of the property file and everything it
    # depends on; lists the axioms: expected <none>)
    if ctx.tier == "thorough" and os.path.exists(os.path.join(ctx.coqdir, "Properties_%s.vo" % prop)):
        rc, o, e = vlib.sh("timeout 1500 coqchk -o -silent -Q . Pipe Pipe.Properties_%s" % prop, cwd=ctx.coqdir, timeout=1600)
        txt = o + e
        ok = rc == 0 and "Axioms: <none>" in txt and "type-in-type: <none>" in txt
        ctx.extra["coqchk"] = "ok: axioms <none>, no type-in-type, no unsafe fixpoints, no assumed positivity" if ok else txt[-800:]
        if not ok:
            ctx.broken_tie("coqchk does not accept Pipe.Properties_%s" % prop, txt[-800:])
