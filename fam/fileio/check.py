"""FileIO family: C14 (raw files are exactly the appended bytes) and C16 (storage I/O failures are contained and reported;
only owned descriptors are used).  DESIGN 6.14, 6.16; conventions fam/README.md.

Implementation side: harness/h_storage.c + sysshim.c drive the REAL raw.c, trash.c, tiff.cpp, side-by-side-tiff.cpp,
basic.storage.c, basics.driver.c, linux/platform.c, props/storage.c and the HAL storage.c/driver.c of the tree under test,
with open/flock/ftruncate/pwrite/close wrapped at link time (fault + short-write scripts, call log); every case runs in a forked
child.  Model side: oracle/main.ml around the extracted Hal.step / Hal.hal_close.
"""
import json
import os
import shutil
import struct

import vlib

CL = "acquire-core-libs/src"
DC = "acquire-driver-common/src"
REPO_SOURCES = [
    DC + "/storage/raw.c", DC + "/storage/trash.c", DC + "/storage/tiff.cpp", DC + "/storage/side-by-side-tiff.cpp",
    DC + "/storage/basic.storage.c", DC + "/basics.driver.c",
    CL + "/acquire-core-platform/linux/platform.c",
    CL + "/acquire-device-properties/device/props/storage.c",
    CL + "/acquire-device-properties/device/props/components.c",
    CL + "/acquire-device-properties/device/props/device.c",
    CL + "/acquire-device-hal/device/hal/storage.c", CL + "/acquire-device-hal/device/hal/driver.c",
    CL + "/acquire-core-logger/logger.c",
]
INCLUDES = [CL + "/acquire-core-logger", CL + "/acquire-core-platform/linux", CL + "/acquire-device-properties",
            CL + "/acquire-device-kit", CL + "/acquire-device-hal", DC]
WRAP = ("-Wl,--wrap=open,--wrap=flock,--wrap=ftruncate,--wrap=pwrite,--wrap=close,"
        "--wrap=file_create,--wrap=file_write,--wrap=file_close")
RUN_ENV = {"ASAN_OPTIONS": "detect_leaks=0:exitcode=77:allocator_may_return_null=1", "UBSAN_OPTIONS": "exitcode=78:print_stacktrace=1"}
KINDS = ["raw", "tiff", "tiffjson", "trash"]
# the error numbers a scripted pwrite / ftruncate failure reports (sysshim.c, Pwrite.errno); a bare "E" in an old corpus file = EIO
ERRNOS = ["EIO", "ENOSPC", "EAGAIN", "EINTR", "EBADF", "EINVAL"]
# create-script entries (one per open call): o = the create succeeds, f = the open fails, l = the flock after it fails, and --
# open and flock succeed, the ftruncate(fd, 0) that file_create issues third fails -- one letter per errno
TRUNC_CH = {"EIO": "t", "ENOSPC": "s", "EAGAIN": "a", "EINTR": "r", "EBADF": "b", "EINVAL": "v"}
TRUNC_ERRNO = {ch: e for e, ch in TRUNC_CH.items()}
TRUNC_LETTERS = "".join(TRUNC_CH[e] for e in ERRNOS)
CS_LEGEND = ("create script `c <tail> <entries>`: one letter per open() call, <tail> for every call after the listed ones; o = open, flock and "
             "ftruncate succeed; f = open fails (EACCES); l = the flock after a successful open fails (EWOULDBLOCK); the ftruncate after a "
             "successful open + flock fails with " + ", ".join("%s = %s" % (TRUNC_CH[e], e) for e in ERRNOS) +
             " (an entry that meets the open of a writability probe, which issues neither flock nor ftruncate, is a plain success)")
EXIT_TRUNC, EXIT_SPIN = 79, 80      # step budget of sysshim.c: one call logged > 4000 lines / the same pwrite reissued 1000 times


def is_err_tok(t):
    return t[:1] == "E"
EXT = {"raw": ".raw", "tiff": ".tif", "tiffjson": ".d", "trash": ".x"}


# ----------------------------------------------------------------------------- build
def build(ctx):
    orac = ctx.oracle_build()
    here = os.path.join(ctx.famdir, "harness")
    flags = ["-I" + os.path.join(vlib.REPO, i) for i in INCLUDES] + ["-I" + here, "-DNO_UNIT_TESTS", WRAP]
    impl = ctx.cc([os.path.join(here, "h_storage.c"), os.path.join(here, "sysshim.c")] + REPO_SOURCES, "h_storage", flags=flags)
    return orac, impl


# ----------------------------------------------------------------------------- frames and packets
def align8(n):
    return (n + 7) // 8 * 8


def make_frame(rng, npix):
    """A struct VideoFrame (96-byte header, x86-64 layout) followed by npix pixel bytes, padded to 8 bytes as the runtime
    does.  Returns (bytes, header fields)."""
    bof = align8(96 + npix)
    digits = rng.choice([1, 1, 2, 3, 5, 9, 12, 19])
    fid = rng.randrange(10 ** digits)
    hwid = rng.randrange(10 ** rng.choice([1, 2, 6]))
    t_hw = rng.randrange(10 ** rng.choice([1, 4, 13]))
    t_acq = rng.randrange(10 ** rng.choice([1, 7, 18]))
    w = max(npix, 1)
    hdr = struct.pack("<Q4I4qI4xQQQQ", bof, 1, w, 1, 1, 1, 1, w, w, 0, fid, hwid, t_hw, t_acq)
    assert len(hdr) == 96
    fill = rng.randrange(1, 256)
    body = bytes((fill + 7 * i) & 0xFF for i in range(bof - 96))
    return hdr + body, {"fid": fid, "hwid": hwid, "t_hw": t_hw, "t_acq": t_acq, "ldata": bof - 96}


def description_len(f, meta_first):
    """strlen of the ImageDescription tiff.cpp formats for a frame (+1 = size of its string section)."""
    s = '{"frame_id":%d,"hardware_frame_id":%d,"timestamps":{"runtime":%d,"hardware":%d}' % (f["fid"], f["hwid"], f["t_acq"], f["t_hw"])
    s += (',"metadata":%s}' % meta_first) if meta_first else "}"
    return len(s) + 1


def make_packet(rng, nframes, maxpix):
    data = b""
    frames = []
    for _ in range(nframes):
        r = rng.random()
        npix = rng.randrange(0, 9) if r < 0.3 else rng.randrange(0, maxpix + 1)
        b, f = make_frame(rng, npix)
        data += b
        frames.append(f)
    return data, frames


# ----------------------------------------------------------------------------- histories
def strip_uri(u):
    return u[7:] if len(u) >= 7 and u.startswith("file://") else u


def related_name(rng, names, c, ext):
    """Path of cycle c of a raw history.  Besides fresh names: an EXTENSION of an earlier path (the earlier one is a strict
    prefix of the new one: run1 -> run10, out.raw -> out.raw.1), a strict PREFIX of an earlier path (run10 -> run1), the
    same path again, and the empty name.  Returns (name, relation)."""
    prev = [n for n in names if n]
    r = rng.random()
    if prev and r < 0.24:
        return rng.choice(prev) + rng.choice(["0", "1", ".1", ".raw", "x", "_b", "0.raw"]), "extends-earlier"
    if prev and r < 0.38:
        p = rng.choice(prev)
        if len(p) > 1:
            return p[:rng.randrange(1, len(p))], "prefix-of-earlier"
    if prev and r < 0.50:
        return rng.choice(prev), "same-again"
    if 0.50 <= r < 0.53:
        return "", "empty"
    return rng.choice(["f%d%s" % (c, ext), "run%d" % (c + 1), "out%s" % ext, "r%d" % rng.randrange(4), "acq%d%s" % (rng.randrange(12), ext)]), "fresh"


def gen_history(rng, kind, thorough=False, related=False):
    """set/start/append*/stop cycles on one device, with life-cycle noise (never started, double start, stop when idle,
    append when idle, close while running, other descriptors opened and closed by the rest of the process).
    The runtime's discipline 'no set while running' (C08) is kept: a stop is inserted before such a set."""
    ext = EXT[kind]
    meta = None
    if kind == "tiffjson" and rng.random() < 0.93 or kind == "tiff" and rng.random() < 0.6:
        meta = rng.choice(['{"a":1}', '{}', '{"k":"%s"}' % ("x" * rng.randrange(0, 40))])
    ops = []
    ncycles = rng.choice([1, 1, 2, 2, 3, 4]) if not related else rng.choice([1, 2, 2, 3, 3, 4, 5])
    names = []
    reuse = False
    rel = []
    for c in range(ncycles):
        r = rng.random()
        if related and kind == "raw":
            name, how = related_name(rng, names, c, ext)
            if name in names and name:
                how = "same-again"
            reuse = reuse or how == "same-again"
            rel.append(how)
        elif names and r < 0.06:
            name = rng.choice(names)
            reuse = True
        elif r < 0.09 and kind != "tiffjson":
            name = ""
        else:
            name = "f%d%s" % (c, ext)
        names.append(name)
        uri = ("file://" if rng.random() < 0.5 else "") + name
        if related and kind == "raw" and len(name) > 1 and rng.random() < 0.15:
            # configured twice before the start: first a strict prefix of the path (or the path in the other spelling)
            first = name[:rng.randrange(1, len(name))] if rng.random() < 0.7 else name
            ops.append(["set", ("" if uri.startswith("file://") else "file://") + first])
            rel.append("set-twice")
        ops.append(["set", uri])
        if rng.random() < 0.1:
            ops.append(["set", uri if not related or rng.random() < 0.5 else ("file://" if rng.random() < 0.5 else "") + name])
        if rng.random() < 0.1:
            continue                       # configured, never started
        ops.append(["start"])
        napp = rng.choice([0, 1, 1, 2, 3, 5, 8, 12]) if not thorough else rng.randrange(0, 13)
        for _ in range(napp):
            data, frames = make_packet(rng, rng.randrange(1, 6), 64 if not thorough else 300)
            ops.append(["append", data.hex(), frames])
        if rng.random() < 0.85:
            ops.append(["stop"])
    # life-cycle noise
    for _ in range(rng.choice([0, 0, 1, 2, 4])):
        r = rng.random()
        pos = rng.randrange(0, len(ops) + 1)
        if r < 0.25:
            ops.insert(pos, ["stop"])
        elif r < 0.45:
            ops.insert(pos, ["start"])
        elif r < 0.6:
            data, frames = make_packet(rng, 1, 16)
            ops.insert(pos, ["append", data.hex(), frames])
        elif r < 0.85:
            ops.insert(pos, ["envopen"])
        else:
            ops.insert(pos, ["envclose", rng.randrange(0, 2)])
    # discipline: no set while possibly running
    out = []
    maybe_running = False
    for o in ops:
        if o[0] == "set" and maybe_running:
            out.append(["stop"])
            maybe_running = False
        if o[0] == "start":
            maybe_running = True
        if o[0] == "stop":
            maybe_running = False
        out.append(o)
    return {"kind": kind, "meta": meta, "ops": out, "cs": ["o", ""], "ws": ["F", []], "reuse": reuse, "rel": rel}


def gen_sweep_cases(rng, thorough):
    """deterministic sweeps for C14: (i) one two-acquisition history per file-name length 1..250 (both spellings of the URI; the second
    acquisition goes to a name one character longer), (ii) packets of every total size around the powers of two up to 64 KiB (quick:
    32 KiB): a boundary a change introduces at one length or size (a path buffer, a chunked write) is hit exactly, not by luck"""
    out = []
    for L in range(1, 251):
        name = ("n%d_" % L + "abcdefghij" * 25)[:L]
        ops = []
        for k, nm in enumerate([name, name + "z"]):
            ops.append(["set", ("file://" if (L + k) % 2 else "") + nm])
            ops.append(["start"])
            for _ in range(2):
                data, frames = make_packet(rng, 2, 24)
                ops.append(["append", data.hex(), frames])
            ops.append(["stop"])
        out.append({"kind": "raw", "meta": None, "ops": ops, "cs": ["o", ""], "ws": ["F", []], "reuse": False, "rel": ["name-length-sweep"]})
    p2 = 4096
    top = (1 << 16) if thorough else (1 << 15)
    while p2 <= top:
        for d in (-8, 0, 8):
            ops = [["set", "big.raw"], ["start"]]
            b0, f0 = make_frame(rng, 40)
            big, fb = make_frame(rng, p2 + d)
            ops.append(["append", (b0 + big).hex(), [f0, fb]])
            ops.append(["append", b0.hex(), [f0]])
            ops.append(["stop"])
            out.append({"kind": "raw", "meta": None, "ops": ops, "cs": ["o", ""], "ws": ["F", []], "reuse": False, "rel": ["packet-size-sweep"]})
        p2 *= 2
    return out


def flock_safe_ops(ops):
    """The ops of an undisciplined history without those starts that would create a path whose descriptor an interrupted
    acquisition may still hold (open and flock'ed: on the unchanged code a set while Running never closes it): the real,
    unscripted flock of such a create fails with EWOULDBLOCK -- behaviour of the environment, not of the code under
    test, and absent from the model.  States are tracked as if every call succeeded, which over-approximates Running."""
    out = []
    state, cur, running, leaked = "Await", None, None, set()
    for o in ops:
        if o[0] == "set":
            name = strip_uri(o[1])
            if state == "Running":
                leaked.add(running)
            state = "Armed" if name else "Await"
            cur = name if name else cur
        elif o[0] == "start" and state == "Armed":
            if cur in leaked:
                continue
            state, running = "Running", cur
        elif o[0] == "stop" and state == "Running":
            state = "Armed"
        out.append(o)
    return out


def gen_undisciplined(rng, thorough=False):
    """C14 ONLY.  A raw history in which at least one `set` is issued WHILE THE DEVICE IS RUNNING (the runtime does this:
    acquire_configure on a running runtime calls storage_set on the running storage -- known finding of C08), followed by
    start / append* / stop: 2..5 acquisitions, the stop between two of them left out with probability 0.6 (once for
    certain), so the next set meets a Running device; storage_set then overwrites the state with the driver's answer
    (Armed) without stopping it, and the next start opens the new file on the same device object.
    Every path of such a history is DISTINCT (non-empty ones) and a start that would re-create the path of an
    interrupted acquisition is dropped (flock_safe_ops): the interrupted acquisition's descriptor stays open and
    holds its flock on the unchanged code, so a later create of the SAME path would fail at the real flock -- an effect of
    the environment the model (flock fails only by script) does not have.  Names are still related (extensions / strict
    prefixes of earlier ones, both spellings).  The life-cycle noise of gen_history is added; no stop is inserted."""
    ext = EXT["raw"]
    ncycles = rng.choice([2, 2, 3, 3, 4, 5])
    forced = rng.randrange(ncycles - 1)          # after this acquisition the stop is left out for certain
    names, rel, ops = [], [], []
    for c in range(ncycles):
        for _ in range(20):
            name, how = related_name(rng, names, c, ext)
            if name == "" and c != forced and c != forced + 1 or name and name not in names:
                break
        else:
            name, how = "u%d%s" % (c, ext), "fresh"
        names.append(name)
        rel.append(how)
        uri = ("file://" if rng.random() < 0.5 else "") + name
        ops.append(["set", uri])
        if rng.random() < 0.1:
            ops.append(["set", ("file://" if rng.random() < 0.5 else "") + name])
        if c != forced and rng.random() < 0.07:
            continue                       # configured, never started
        ops.append(["start"])
        napp = rng.choice([1, 1, 2, 3, 5, 8]) if not thorough else rng.randrange(1, 10)
        if c != forced and rng.random() < 0.1:
            napp = 0
        for _ in range(napp):
            data, frames = make_packet(rng, rng.randrange(1, 6), 64 if not thorough else 300)
            ops.append(["append", data.hex(), frames])
        if c == forced or (c < ncycles - 1 and rng.random() < 0.6):
            continue                       # no stop: the next set is issued while Running
        if rng.random() < 0.85:
            ops.append(["stop"])
    for _ in range(rng.choice([0, 0, 1, 2])):
        r = rng.random()
        pos = rng.randrange(0, len(ops) + 1)
        if r < 0.15:
            ops.insert(pos, ["stop"])
        elif r < 0.40:
            ops.insert(pos, ["start"])
        elif r < 0.6:
            data, frames = make_packet(rng, 1, 16)
            ops.insert(pos, ["append", data.hex(), frames])
        elif r < 0.85:
            ops.insert(pos, ["envopen"])
        else:
            ops.insert(pos, ["envclose", rng.randrange(0, 2)])
    return {"kind": "raw", "meta": None, "ops": flock_safe_ops(ops), "cs": ["o", ""], "ws": ["F", []], "reuse": False, "rel": rel, "undisciplined": True}


def gen_structured(rng, kind, variant=0):
    """Two acquisitions on one device with the rest of the process opening a descriptor right after each start (and, in
    the odd variants, closing it again before the stop): if a start leaves the device with a number it has already
    closed -- a create that failed after its open -- the environment is given that number at once, so every later
    append / stop of the device acts on a descriptor of somebody else.  Swept by fault_sweep like the random
    reference histories (every open index x open / flock / ftruncate fault x every errno)."""
    ext = EXT[kind]
    meta = '{"a":1}' if kind == "tiffjson" or (kind == "tiff" and variant % 2) else None
    ops = []
    for c in range(2):
        name = "s%d%s" % (c, ext)
        ops.append(["set", ("file://" if (c + variant) % 2 else "") + name])
        ops.append(["start"])
        ops.append(["envopen"])
        for _ in range(rng.randrange(1, 3)):
            data, frames = make_packet(rng, rng.randrange(1, 3), 24)
            ops.append(["append", data.hex(), frames])
        if variant % 2:
            ops.append(["envclose", 0])
        if c == 0 or variant % 3 != 2:
            ops.append(["stop"])           # variant 2, 5: the second acquisition is closed while running
    return {"kind": kind, "meta": meta, "ops": ops, "cs": ["o", ""], "ws": ["F", []], "reuse": False, "rel": [], "structured": True}


def annotate_frames(case):
    """Attach to every append the section lengths of its frames as tiff.cpp will write them: pixel bytes, string-section
    bytes when the frame is the first after a start (it then carries the external metadata), and otherwise."""
    meta = case["meta"]
    for o in case["ops"]:
        if o[0] == "append":
            fr = [(f["ldata"], description_len(f, meta if meta else None), description_len(f, None)) for f in o[2]]
            o.append(";".join("%d,%d,%d" % x for x in fr) or "-")


def short_write_script(rng, case):
    """A write script aimed at the packets of a raw history: per append one of the patterns of DESIGN 6.14
    (counts 0, 1, n-1, random splits; bursts of 1..3 zero-length results; rarely an error)."""
    toks = []
    for o in case["ops"]:
        if o[0] != "append":
            continue
        n = len(o[1]) // 2
        r = rng.random()
        if r < 0.35:
            toks.append("F")
        elif r < 0.45:
            toks += ["1", "F"]
        elif r < 0.55:
            toks += [str(max(n - 1, 0)), "F"]
        elif r < 0.65:
            toks += ["0"] * rng.randrange(1, 3) + ["F"]
        elif r < 0.72:
            toks += ["0", str(rng.randrange(1, n + 1)), "0", "F"]
        elif r < 0.76:
            toks += ["0", "1", "0", "1", "0", "F"]          # third zero-length result: file_write gives up
        elif r < 0.80:
            toks += ["0", "0", "0"]
        elif r < 0.83:
            toks += [str(rng.randrange(0, n + 1)), rng.choice(ERRNOS)]
        else:
            left = n
            while left > 0 and len(toks) < 3000:
                k = rng.randrange(0, left + 1) if rng.random() < 0.8 else left
                if rng.random() < 0.05:
                    k = 0
                toks.append(str(k))
                left -= k
                if rng.random() < 0.3:
                    toks.append("F")
                    left = 0
    case["ws"] = ["F", toks]


# ----------------------------------------------------------------------------- running
def harness_lines(case, cid, cdir):
    ls = ["case %s %s %s" % (cid, case["kind"], cdir)]
    ls.append("c %s %s" % (case["cs"][0], case["cs"][1]))
    ls.append("w %s %s" % (case["ws"][0], " ".join(case["ws"][1])))
    ls.append("meta %s" % (case["meta"] or "-"))
    for o in case["ops"]:
        if o[0] == "set":
            ls.append("set %s" % (o[1] if o[1] else '""'))
        elif o[0] == "append":
            ls.append("append %s" % o[1])
        elif o[0] == "envclose":
            ls.append("envclose %d" % o[1])
        else:
            ls.append(o[0])
    ls.append("end")
    return ls


def model_lines(case, cid, init, variant="fixed"):
    ls = ["case %s %s %s" % (cid, case["kind"], variant)]
    ls.append("init " + " ".join(str(x) for x in init))
    ls.append("c %s %s" % (case["cs"][0], case["cs"][1]))
    ls.append("w %s %s" % (case["ws"][0], " ".join(case["ws"][1])))
    mlen = len(case["meta"]) if case["meta"] else 0
    for o in case["ops"]:
        if o[0] == "set":
            ls.append("set %s %d" % (o[1] if o[1] else '""', mlen))
        elif o[0] == "append":
            ls.append("append %s %s" % (o[1], o[3]))
        elif o[0] == "envclose":
            ls.append("envclose %d" % o[1])
        else:
            ls.append(o[0])
    ls.append("end")
    return ls


def parse_output(text):
    """Split the output of the harness or of the oracle into cases."""
    res = {}
    cur = None
    op = None
    for line in text.split("\n"):
        if line.startswith("CASE "):
            cur = {"init": [0, 1, 2], "ops": [], "final": None, "exit": None, "files": {}, "ledger": None, "trunc": False,
                   "diverged": False, "bad": [], "spin": None}
            res[line[5:].strip()] = cur
            op = None
            continue
        if cur is None or not line:
            continue
        w = line.split(" ")
        t = w[0]
        if t == "I":
            cur["init"] = [int(x) for x in w[1:]]
        elif t == "O":
            op = {"name": w[2], "arg": w[3:], "sys": [], "kopen": [], "api": [], "env": [], "res": None}
            cur["ops"].append(op)
        elif t == "S" and op is not None:
            # optional trailing k=<0|1> (harness only): did the kernel have the number open when the call was made
            k = None
            if w[-1].startswith("k="):
                k = w[-1] == "k=1"
                w = w[:-1]
            op["kopen"].append(k)
            if w[-1].startswith("e="):            # errno name of a failed pwrite / ftruncate (harness only; not an observable of the tie)
                op.setdefault("errno", {})[len(op["sys"])] = w[-1][2:]
                w = w[:-1]
            if w[1] == "pwrite":
                op["sys"].append(("pwrite", int(w[2]), int(w[3]), int(w[4]), int(w[5])))
            elif w[1] == "open":
                op["sys"].append(("open", w[2], int(w[3])))
            else:
                op["sys"].append((w[1], int(w[2]), int(w[3])))
        elif t == "A" and op is not None:
            op["api"].append((w[1], int(w[2]) if len(w) > 2 else None))
        elif t == "E" and op is not None:
            op["env"].append((w[1], int(w[2])))
        elif t == "R" and op is not None:
            op["res"] = (w[1], w[2])
        elif t == "F":
            cur["final"] = [int(x) for x in w[1:]]
        elif t == "FILE":
            cur["files"][w[1] if w[1] != '""' else ""] = None if w[2] == "absent" else bytes.fromhex(w[2] if len(w) > 2 else "")
        elif t == "L":
            cur["ledger"] = line[2:]
        elif t == "X":
            kv = dict(x.split("=") for x in w[2:])
            if "exit" in kv:
                cur["exit"] = (int(kv["exit"]), int(kv["sig"]))
            if kv.get("diverged") == "1":
                cur["diverged"] = True
        elif t == "TRUNC":
            cur["trunc"] = True
        elif t == "SPIN":
            cur["spin"] = w[1:]                   # fd off len res errno count
        elif t == "DIVERGES":
            cur["diverged"] = True
        elif t in ("BADOP", "FATAL"):
            cur["bad"].append(line)
    return res


def run_batch(ctx, orac, impl, cases, tag, variant="fixed"):
    """Run cases (list of dicts) on the implementation and on the model.  Returns list of (case, impl, model)."""
    root = os.path.join(ctx.bdir, "cases", tag)
    os.makedirs(root, exist_ok=True)
    for i, c in enumerate(cases):
        c["id"] = "%s-%d" % (tag, i)
        c["dir"] = os.path.join(root, str(i))
        if "frames_done" not in c:
            annotate_frames(c)
            c["frames_done"] = True
    shards = [s for s in vlib.shard(cases, vlib.NPROC) if s]

    def work(sh):
        inp = "\n".join(l for c in sh for l in harness_lines(c, c["id"], c["dir"])) + "\n"
        rc, out, err = vlib.sh([impl], inp=inp, timeout=900, env=RUN_ENV)
        io = parse_output(out)
        minp = "\n".join(l for c in sh for l in model_lines(c, c["id"], io.get(c["id"], {}).get("init", [0, 1, 2]), variant)) + "\n"
        rcm, mout, merr = vlib.sh([orac], inp=minp, timeout=900)
        mo = parse_output(mout)
        return rc, io, err, rcm, mo, merr

    res = []
    for sh, (rc, io, err, rcm, mo, merr) in zip(shards, vlib.parallel(work, shards)):
        if rcm != 0:
            ctx.broken_tie("the model oracle failed", (merr or "")[-600:])
        for c in sh:
            res.append((c, io.get(c["id"]), mo.get(c["id"]), err if (io.get(c["id"]) or {}).get("exit") != (0, 0) else ""))
    return res


def drop_cases(ctx, tag):
    """Remove the scratch directories of a batch once its files have been read back (a thorough run would otherwise
    leave > 100 000 directories for the next run to wipe)."""
    shutil.rmtree(os.path.join(ctx.bdir, "cases", tag), ignore_errors=True)


def read_file(case, path):
    p = os.path.join(case["dir"], path)
    try:
        with open(p, "rb") as f:
            return f.read()
    except (FileNotFoundError, IsADirectoryError, NotADirectoryError):
        return None


# ----------------------------------------------------------------------------- tie: model vs implementation
def canon_ops(rec, kind, prop="C16"):
    """Observables compared per call.  C16: every interposed system call with its descriptor number and result.
    C14 (file contents): which file is opened and what is written where -- descriptor numbers are canonicalised to the
    path they were opened with, and flock/ftruncate/close calls and the descriptor table are left to C16 (a stray close does
    not change what a raw file contains; what a truncation that did or did not happen does to the file is seen in its bytes)."""
    out = []
    path_of = {}
    for o in rec["ops"]:
        sysl = []
        for s in o["sys"]:
            if s[0] == "pwrite" and kind in ("tiff", "tiffjson"):
                s = ("pwrite", s[1], "-", s[3], s[4])      # offsets of tiff writes belong to C15
            if prop == "C14":
                if s[0] == "open":
                    if s[2] >= 0:
                        path_of[s[2]] = s[1]
                    s = ("open", s[1], s[2] >= 0)
                elif s[0] == "pwrite":
                    s = ("pwrite", path_of.get(s[1], "?"), s[2], s[3], s[4])
                else:
                    continue
            sysl.append(s)
        out.append((o["name"], tuple(sysl), tuple(o["env"]) if prop != "C14" else (), o["res"]))
    return out


def compare(ctx, case, impl, model):
    """Returns None when model and implementation agree on every observable, else a description."""
    if impl is None or model is None:
        return "no output for the case (impl %s, model %s)" % (impl is not None, model is not None)
    if impl["bad"] or model["bad"]:
        return "driver rejected an input line: %s" % (impl["bad"] + model["bad"])[:3]
    if impl["exit"] != (0, 0) or impl["trunc"]:
        if model["diverged"]:
            return None          # both do not terminate normally
        return "implementation ended abnormally (exit=%s) while the model terminates" % (impl["exit"],)
    if model["diverged"]:
        return "the model diverges while the implementation terminates"
    a, b = canon_ops(impl, case["kind"], ctx.prop), canon_ops(model, case["kind"], ctx.prop)
    if a != b:
        for k in range(max(len(a), len(b))):
            x = a[k] if k < len(a) else None
            y = b[k] if k < len(b) else None
            if x != y:
                return {"op_index": k, "impl": x, "model": y}
    if ctx.prop != "C14" and impl["final"] != model["final"]:
        return {"open descriptors at the end": {"impl": impl["final"], "model": model["final"]}}
    if case["kind"] == "raw":
        for p, mb in model["files"].items():
            if p == "":
                continue
            db = read_file(case, p)
            if db != mb:
                return {"file": p, "disk": None if db is None else db.hex()[:400], "model": None if mb is None else mb.hex()[:400]}
    return None


# ----------------------------------------------------------------------------- independent property oracles
def acquisitions(case, impl):
    """The acquisitions of a raw history as the CALLER sees them (HAL answers only): an acquisition begins with a start
    that answered ok/Running and goes to the path of the last set that answered ok; it collects the packets whose
    append answered ok/Running and ends at a stop, at the first append that did not answer ok (the device has stopped
    itself), at a `set` issued while it is Running (undisciplined stream: storage_set replaces the state Running by the
    driver's answer Armed / AwaitingConfiguration without stopping the device, so the caller sees the acquisition end
    there: "interrupted") or at the close."""
    cur = None               # (path, op index of the set, uri as given)
    acq = None
    done = []
    for k, (o, r) in enumerate(zip(case["ops"], impl["ops"])):
        res = r["res"]
        if o[0] == "set":
            if acq is not None and res and res[1] != "Running":
                acq["interrupted"] = k
                done.append(acq)
                acq = None
            if res and res[0] == "ok":
                cur = (strip_uri(o[1]), k, o[1])
        elif o[0] == "start":
            if res == ("ok", "Running") and acq is None and cur is not None:
                acq = {"path": cur[0], "set_op": cur[1], "uri": cur[2], "start_op": k, "pkts": [], "ok": True, "failed": None}
        elif o[0] == "append" and acq is not None:
            if res == ("ok", "Running"):
                acq["pkts"].append(bytes.fromhex(o[1]))
            else:
                acq["ok"] = False
                acq["failed"] = bytes.fromhex(o[1])
                done.append(acq)
                acq = None
        elif o[0] == "stop" and acq is not None:
            done.append(acq)
            acq = None
    if acq:
        done.append(acq)
    return done


def oracle_c14(case, impl):
    """C14 directly on the implementation's files (never through the model).  For every path P that a started
    acquisition of the history was configured for, with A = the LAST acquisition configured for P:
      (exists)     a file exists at P;
      (exact)      if every append of A answered ok: the file is exactly A's packets back to back;
                   if an append of A failed: the file begins with the packets that were accepted and the rest is a prefix
                   of the packet whose append failed (nothing foreign);
      (untouched)  follows from (exact) applied to every path: the data of an acquisition to P is still there after
                   all LATER acquisitions to OTHER paths.  Earlier acquisitions to the same P are superseded (file_create
                   truncates): counted, not judged.
    'Same path' = the same string after file:// stripping (the generator produces no ./, //, links).
    Only HAL answers and file bytes are looked at -- no descriptor, no flock / close call: a history of the undisciplined
    stream (set while Running) leaves the interrupted acquisition's descriptor open on the unchanged code (consequence
    of the C08 finding "configure while running"), which is not C14's business."""
    v = []
    stats = {"acq": 0, "superseded": 0, "checked": 0, "checked_failed_acq": 0, "interrupted_acq": 0, "acq_after_interrupted": 0}
    if case["kind"] != "raw" or impl is None or impl["exit"] != (0, 0):
        return v, stats
    done = acquisitions(case, impl)
    stats["acq"] = len(done)
    stats["interrupted_acq"] = sum(1 for a in done if "interrupted" in a)
    stats["acq_after_interrupted"] = sum(1 for i, a in enumerate(done) if i and "interrupted" in done[i - 1] and a["pkts"])
    last = {}
    for a in done:
        if a["path"] in last:
            stats["superseded"] += 1
        last[a["path"]] = a
    for path, a in last.items():
        k = a["start_op"]
        where = "the acquisition started at op %d (op %d: set %r answered ok/Armed)" % (k, a["set_op"], a["uri"])
        got = read_file(case, path)
        want = b"".join(a["pkts"])
        stats["checked" if a["ok"] else "checked_failed_acq"] += 1
        if got is None:
            v.append(("raw-file-missing", "no file exists at %r, the path configured for %s; %d bytes were appended to it"
                      % (path, where, len(want))))
            continue
        if a["ok"] and got == want:
            continue
        if not a["ok"] and got.startswith(want) and a["failed"].startswith(got[len(want):]):
            continue
        # describe the difference
        other = [b for b in done if b is not a and b["path"] != path and b["pkts"] and b"".join(b["pkts"]) == got]
        stale = [b for b in done if b is not a and b["path"] == path and b["start_op"] < k and b["ok"] and b["pkts"] and b"".join(b["pkts"]) == got]
        if a["ok"] and len(got) > len(want) and got.endswith(want) and not any(got[:len(got) - len(want)]):
            key, what = "raw-hole-at-start", ("the raw file %r of the acquisition started at op %d begins with %d zero bytes that were never "
                                              "appended; the %d appended bytes follow" % (path, k, len(got) - len(want), len(want)))
        elif a["ok"] and stale:
            b = stale[-1]
            key, what = "raw-stale-contents", (
                "the raw file %r of %s was not written by it: it still holds exactly the %d bytes of the EARLIER acquisition to the same path "
                "started at op %d; the %d bytes appended at op %d.. are not in it" % (path, where, len(got), b["start_op"], len(want), k))
        elif other:
            b = other[-1]
            key, what = "raw-written-to-other-path", (
                "the raw file %r of %s does not hold the %d bytes appended to it: it holds exactly the %d bytes appended during the %s "
                "acquisition started at op %d, which was configured (op %d: set %r answered ok/Armed) for the other path %r"
                % (path, where, len(want), len(got), "later" if b["start_op"] > k else "earlier", b["start_op"], b["set_op"], b["uri"], b["path"]))
        else:
            diff = next((i for i in range(min(len(got), len(want))) if got[i] != want[i]), min(len(got), len(want)))
            key, what = "raw-bytes-differ", ("the raw file %r of the acquisition started at op %d holds %d bytes, the %s are %d bytes; "
                                             "first difference at %d" % (path, k, len(got), "appended packets" if a["ok"] else
                                                                         "packets accepted before the failing append", len(want), diff))
        v.append((key, what))
    return v, stats


def reissued_ok(sysl, i):
    """The failed pwrite sysl[i] was issued again within the same device call and the whole range went to the file
    after all (a bounded retry of an interrupted call is not a write failure the device has to report)."""
    _, fd, off, n, _ = sysl[i]
    pos = off
    for t in sysl[i + 1:]:
        if t[0] == "pwrite" and t[1] == fd and t[2] == pos and t[4] > 0:
            pos += t[4]
            if pos >= off + n:
                return True
    return False


def oracle_c16(case, impl, stderr=""):
    """C16 directly on the implementation's outputs: exit status; descriptor ledger over the system-call log (open, flock,
    ftruncate, pwrite, close); state after an append/start inside which file_create/file_write returned 0; a start that
    answers Running although a system call of its create (open / flock / ftruncate) failed and it holds no descriptor;
    the kernel's view of the table at the end."""
    v = []
    if impl is None:
        return [("no-output", "the harness produced no output for the case")]
    if impl["exit"] != (0, 0) or impl["trunc"]:
        code, sig = impl["exit"] or (None, None)
        last = impl["ops"][-1] if impl["ops"] else {"name": "?", "sys": []}
        kcall = len(impl["ops"]) - 1
        if code == EXIT_SPIN or impl.get("spin"):
            sp = impl.get("spin") or ["?"] * 6
            v.append(("hang", "op %d (%s) never returned: the device kept reissuing the same failing call pwrite(fd=%s, off=%s, len=%s) = %s%s; "
                      "cut off by the step budget after %s identical calls in a row (exit %s) -- under a persistent %s the call spins for ever "
                      "instead of giving up and reporting the failure" % (kcall, last["name"], sp[0], sp[1], sp[2], sp[3],
                                                         " (errno %s)" % sp[4] if sp[4] != "-" else "", sp[5], code,
                                                         sp[4] if sp[4] != "-" else "zero-length result")))
        elif sig in (24, 14):
            v.append(("hang", "op %d (%s) did not return within the per-case budget (%s); its last system calls: %s"
                      % (kcall, last["name"], "CPU limit 10 s, SIGXCPU" if sig == 24 else "wall-clock limit 30 s, SIGALRM",
                         [list(x) for x in last["sys"][-4:]])))
        elif impl["trunc"] or "stack-overflow" in (stderr or ""):
            last = impl["ops"][-1] if impl["ops"] else {"name": "?", "sys": []}
            tail = [list(x) for x in last["sys"][-4:]]
            v.append(("unbounded-recursion", "the single call '%s' issued more than 4000 system calls / overflowed the stack and never returned "
                      "(cut off; exit=%s signal=%s); its last calls: %s" % (last["name"], code, sig, tail)))
        else:
            v.append(("crash", "the process died during the history (exit=%s signal=%s)" % (code, sig)))
    own = set()                        # opened by the device through an interposed open, not closed since
    foreign = set(impl["init"])        # descriptors of the rest of the process: open at the start + opened by it since
    for k, o in enumerate(impl["ops"]):
        failed_call = any(a[0] in ("file_create", "file_write") and a[1] == 0 for a in o["api"])
        for e in o["env"]:
            if e[0] == "open" and e[1] >= 0:
                foreign.add(e[1])
            elif e[0] == "close":
                foreign.discard(e[1])
        for s, kopen in zip(o["sys"], o["kopen"] + [None] * len(o["sys"])):
            if s[0] == "open":
                if s[2] >= 0:
                    own.add(s[2])
                continue
            fd = s[1]
            what = {"close": "closes", "pwrite": "writes to", "flock": "locks", "ftruncate": "truncates"}[s[0]]
            # ground truth where the harness recorded it (k=...): the number must be open and must not belong to the
            # rest of the process; otherwise (no kernel information) fall back to the opens seen
            if kopen is not None:
                bad = (not kopen) or fd in foreign
            else:
                bad = fd not in own
            if bad:
                if fd < 0:
                    why = "descriptor -1"
                elif fd in foreign:
                    why = "descriptor %d, which belongs to the rest of the process (%s)" % (
                        fd, "open before the device existed" if fd in impl["init"] else "a stale number somebody else has been given since")
                else:
                    why = "descriptor %d, which is not open (a stale number: it has already closed it)" % fd
                v.append(("%s-unowned" % s[0], "op %d (%s): the device %s %s" % (k, o["name"], what, why)))
                if s[0] == "close" and fd in foreign and s[2] == 0:
                    foreign.discard(fd)
            elif s[0] == "close":
                own.discard(fd)
        if o["name"] in ("start", "append") and failed_call and o["res"] and o["res"][1] == "Running":
            v.append(("failure-not-reported", "op %d (%s): file_create/file_write returned 0 inside the call but the device is still Running afterwards"
                      % (k, o["name"])))
        # a create that failed at any of its three system calls (whatever file_create itself returned): the device must not
        # be Running on nothing.  Judged on the kernel's view: Running after the start, a call of the create failed, and no
        # descriptor opened by the device is open any more.
        cfail = [(i, s) for i, s in enumerate(o["sys"]) if s[0] in ("open", "flock", "ftruncate") and s[-1] < 0]
        if o["name"] == "start" and cfail and o["res"] and o["res"][1] == "Running" and not own:
            i, s = cfail[-1]
            fdtxt = "of %r" % s[1] if s[0] == "open" else "on descriptor %d" % s[1]
            e = (o.get("errno") or {}).get(i)
            after = [list(t) for t in o["sys"][i + 1:i + 3]]
            v.append(("create-failure-not-reported",
                      "op %d (start): the %s %s failed%s inside the create%s, yet the start answered %s/Running: the device is Running "
                      "without holding any open descriptor (file_create returned %s)"
                      % (k, s[0], fdtxt, " (errno %s)" % e if e else "", (" and was followed by %s" % after) if after else "", o["res"][0],
                         [a[1] for a in o["api"] if a[0] == "file_create"])))
        if o["name"] in ("start", "append") and o["res"] and o["res"][1] == "Running" and any(
                s[0] == "pwrite" and s[4] < 0 and not reissued_ok(o["sys"], i) for i, s in enumerate(o["sys"])):
            v.append(("failure-not-reported", "op %d (%s): a pwrite failed inside the call but the device is still Running afterwards" % (k, o["name"])))
    if impl["exit"] == (0, 0) and not impl["trunc"]:
        if impl["final"] is not None:
            env = set(impl["init"])
            for o in impl["ops"]:
                for e in o["env"]:
                    if e[0] == "open":
                        env.add(e[1])
                    else:
                        env.discard(e[1])
            extra = sorted(set(impl["final"]) - env)
            missing = sorted(env - set(impl["final"]))
            if extra:
                v.append(("descriptor-leak", "descriptor(s) %s opened during the device's life are still open after destroy" % extra))
            if missing:
                v.append(("closed-foreign", "descriptor(s) %s of the rest of the process are no longer open after the device's life" % missing))
        elif own:
            v.append(("descriptor-leak", "descriptor(s) %s opened by the device are still open after destroy" % sorted(own)))
    # one per key
    seen = set()
    out = []
    for key, what in v:
        if key not in seen:
            seen.add(key)
            out.append((key, what))
    return out


# ----------------------------------------------------------------------------- replay / minimisation
def export_case(case):
    ops = []
    for o in case["ops"]:
        if o[0] == "append":
            ops.append(["append", o[1], o[2]])
        else:
            ops.append(list(o))
    out = {"kind": case["kind"], "meta": case["meta"], "cs": case["cs"], "ws": case["ws"], "reuse": case.get("reuse", False), "ops": ops}
    if case.get("undisciplined"):
        out["undisciplined"] = True          # C14 stream with `set` while Running: shrinking may keep such sets
    return out


def import_case(obj):
    c = {"kind": obj["kind"], "meta": obj.get("meta"), "cs": obj.get("cs", ["o", ""]), "ws": obj.get("ws", ["F", []]),
         "reuse": obj.get("reuse", False), "ops": [list(o) for o in obj["ops"]]}
    if obj.get("undisciplined"):
        c["undisciplined"] = True
    return c


def disciplined(ops):
    """no `set` while the device may be running (the runtime's discipline, C08): a shrunk history must keep it"""
    maybe_running = False
    for o in ops:
        if o[0] == "set" and maybe_running:
            return False
        if o[0] == "start":
            maybe_running = True
        if o[0] == "stop":
            maybe_running = False
    return True


def tiny_packet(i):
    """One frame without pixels (96 bytes) whose header fields identify it -- what a packet is replaced by when shrinking."""
    i = i % 250 + 1
    hdr = struct.pack("<Q4I4qI4xQQQQ", 96, 1, 1, 1, 1, 1, 1, 1, 1, 0, i, i, i, i)
    return hdr, [{"fid": i, "hwid": i, "t_hw": i, "t_acq": i, "ldata": 0}]


def shrink_case(ctx, orac, impl, case, bad, counter=[0], budget=160):
    """Minimise a failing case: ddmin on the op list (keeping 'no set while running'), then every packet replaced by a
    96-byte one, then the write and create scripts (no script at all / only the tail = 'every call' / ddmin on the
    entries), then the metadata.  bad(case, impl record, model record, stderr) decides whether a candidate still fails;
    it is evaluated on the implementation's fresh output and files."""
    cur = export_case(case)
    left = [budget]

    def test(obj):
        if left[0] <= 0 or not obj["ops"] or not (obj.get("undisciplined") or disciplined(obj["ops"])):
            return False
        if obj.get("undisciplined") and len(flock_safe_ops(obj["ops"])) != len(obj["ops"]):
            return False                   # would re-create the path of an interrupted acquisition (real flock conflict)
        left[0] -= 1
        counter[0] += 1
        tag = "min%d" % counter[0]
        try:
            r = run_batch(ctx, orac, impl, [import_case(obj)], tag)
            return bool(bad(*r[0]))
        except Exception:
            return False
        finally:
            drop_cases(ctx, tag)

    def shrink_ops():
        nonlocal cur
        ops = vlib.ddmin(cur["ops"], lambda ops: test(dict(cur, ops=ops)), max_tests=40)
        if len(ops) < len(cur["ops"]) and test(dict(cur, ops=ops)):
            cur = dict(cur, ops=ops)
            return True
        return False

    def shrink_packets():
        nonlocal cur
        napp = 0
        for i, o in enumerate(cur["ops"]):
            if o[0] == "append":
                napp += 1
                if len(o[1]) > 2 * 96:
                    data, frames = tiny_packet(napp)
                    ops2 = [list(x) for x in cur["ops"]]
                    ops2[i] = ["append", data.hex(), frames]
                    if test(dict(cur, ops=ops2)):
                        cur = dict(cur, ops=ops2)

    def shrink_scripts():
        nonlocal cur
        changed = False
        for key, plain, join in (("ws", ["F", []], list), ("cs", ["o", ""], "".join)):
            tail, ent = cur[key]
            if [tail, join(ent)] == plain:
                continue
            for cand in (plain, [tail, join([])], [plain[0], join(ent)]):
                if cand != [tail, join(ent)] and test(dict(cur, **{key: cand})):
                    cur = dict(cur, **{key: cand})
                    changed = True
                    break
            tail, ent = cur[key]
            if len(ent) >= 2:
                ent2 = vlib.ddmin(list(ent), lambda e: test(dict(cur, **{key: [tail, join(e)]})), max_tests=20)
                if len(ent2) < len(ent) and test(dict(cur, **{key: [tail, join(ent2)]})):
                    cur = dict(cur, **{key: [tail, join(ent2)]})
                    changed = True
        return changed

    try:
        shrink_scripts()
        shrink_ops()
        shrink_packets()
        if shrink_scripts():
            shrink_ops()
        if cur.get("meta") and cur["kind"] != "tiffjson" and test(dict(cur, meta=None)):
            cur = dict(cur, meta=None)
    except Exception:
        pass
    return import_case(cur)


def judge(prop, c, io, err):
    return oracle_c14(c, io)[0] if prop == "C14" else oracle_c16(c, io, err)


def minimise(ctx, orac, impl, case, prop, key):
    return shrink_case(ctx, orac, impl, case, lambda c, io, mo, err: any(k == key for k, _ in judge(prop, c, io, err)))


def replay_obj(ctx, case, impl_rec, what):
    c = export_case(case)          # complete: tools/check.py --property Cxx --replay <this file> re-runs it
    lines = harness_lines(case, "replay", "<an empty scratch directory>")
    return {"case": c, "from": case.get("src", "generated (seed %d)" % ctx.seed), "harness_stdin": lines,
            "how": "feed harness_stdin to .build/%s/h_storage (built by this check from the tree under test; env %s); "
                   "S lines are the system calls, R lines the HAL status and device state after each call; %s"
                   % (ctx.prop, json.dumps(RUN_ENV), CS_LEGEND),
            "observed": [[o["name"], [list(s) for s in o["sys"]][:12], o["res"]] + ([["env " + e[0], e[1]] for e in o["env"]] if o["env"] else [])
                         for o in (impl_rec or {}).get("ops", [])][:40],
            "exit": (impl_rec or {}).get("exit")}


# ----------------------------------------------------------------------------- the check
def fold(ctx, orac, impl, results, prop, label):
    for case, io, mo, err in results:
        nsys = sum(len(o["sys"]) for o in (io or {}).get("ops", []))
        faults = any(s[0] in ("open", "flock", "ftruncate") and s[-1] < 0 or s[0] == "pwrite" and s[4] < 0
                     for o in (io or {}).get("ops", []) for s in o["sys"])
        shorts = any(s[0] == "pwrite" and 0 <= s[4] < s[3] for o in (io or {}).get("ops", []) for s in o["sys"])
        nontriv = nsys >= 4 and (prop == "C16" and (faults or len(case["ops"]) >= 3) or prop == "C14" and any(o[0] == "append" for o in case["ops"]))
        sig = json.dumps([case["kind"], case["cs"], case["ws"], case["meta"], [o[:2] for o in case["ops"]]])
        ctx.case(sig, nontrivial=nontriv)
        ctx.count("kind:" + case["kind"])
        ctx.count("src:" + label)
        if faults:
            ctx.count("case:with-failed-syscall")
        if shorts:
            ctx.count("case:with-short-write")
        for o in case["ops"]:
            ctx.count("op:" + o[0])
        for how in set(case.get("rel", [])):
            ctx.count("paths:" + how)
        if prop == "C14":
            st_, nswr = None, 0
            for o, r in zip(case["ops"], (io or {}).get("ops", [])):
                if o[0] == "set" and st_ == "Running":
                    nswr += 1
                if r["res"] and r["res"][1] != "-":
                    st_ = r["res"][1]
            if nswr:
                ctx.count("case:with-set-while-running")
                for _ in range(nswr):
                    ctx.count("op:set-while-running")
            ctx.count("stream:" + ("undisciplined" if case.get("undisciplined") else "disciplined"))
        for e in set(t for t in case["ws"][1] + [case["ws"][0]] if is_err_tok(t)):
            ctx.count("errno:" + ("EIO" if e == "E" else e) + (":persistent" if case["ws"][0] == e else ":transient"))
        for ch in set(case["cs"][1] + case["cs"][0]):
            if ch in TRUNC_ERRNO:
                ctx.count("errno:ftruncate:" + TRUNC_ERRNO[ch] + (":persistent" if case["cs"][0] == ch else ":transient"))
            elif ch in "fl":
                ctx.count("create-fault:" + {"f": "open", "l": "flock"}[ch] + (":persistent" if case["cs"][0] == ch else ":transient"))
        if any(s[0] == "ftruncate" and s[-1] < 0 for o in (io or {}).get("ops", []) for s in o["sys"]):
            ctx.count("case:with-failed-ftruncate")
        if io and (io.get("spin") or io.get("exit") == (EXIT_SPIN, 0)):
            ctx.count("case:cut-off-spinning")
        if io and io["ops"] and io["ops"][-1]["name"] == "close":
            pre = io["ops"][-2]["res"][1] if len(io["ops"]) > 1 and io["ops"][-2]["res"] else "AwaitingConfiguration"
            ctx.count("close-in-state:" + (pre if pre != "-" else "other"))
        # property oracle, on every case
        if prop == "C14":
            vs, st = oracle_c14(case, io)
            for k2, n in st.items():
                ctx.extra["c14_" + k2] = ctx.extra.get("c14_" + k2, 0) + n
        else:
            vs = oracle_c16(case, io, err)
        for key, what in vs:
            report(ctx, orac, impl, case, prop, key, what)
        # tie
        d = compare(ctx, case, io, mo)
        if d is None:
            ctx.traces_validated += 1
        else:
            detail = {"difference": d, "case": replay_obj(ctx, case, io, "")["harness_stdin"][:60]}
            # search around the disagreement (first few only): shrink it as a disagreement and run the property oracle
            # on the implementation's files of every candidate on the way -- a smaller history may violate the property
            # where the generated one only differs from the model
            nd = ctx.extra.get("disagreements_explored", 0)
            if nd < 3:
                ctx.extra["disagreements_explored"] = nd + 1
                seen = []

                def differs(c, io2, mo2, err2):
                    for key, what in judge(prop, c, io2, err2):
                        seen.append((export_case(c), key, what))
                    return compare(ctx, c, io2, mo2) is not None

                small = shrink_case(ctx, orac, impl, case, differs, budget=60)
                r = run_batch(ctx, orac, impl, [small], "dis")
                c2, io2, mo2, err2 = r[0]
                detail = {"difference": compare(ctx, c2, io2, mo2), "shrunk_from_ops": len(case["ops"]),
                          "case": replay_obj(ctx, c2, io2, "")["harness_stdin"][:60]}
                drop_cases(ctx, "dis")
                for obj, key, what in seen:
                    if not ctx.has_violation(key):
                        c3 = import_case(obj)
                        c3["src"] = case.get("src", "generated (seed %d)" % ctx.seed) + ", variant met while shrinking a model/implementation disagreement"
                        report(ctx, orac, impl, c3, prop, key, what)
            ctx.broken_tie("model/implementation disagreement on a %s storage history" % case["kind"], detail)


def report(ctx, orac, impl, case, prop, key, what):
    """A concrete violation: minimise it (first of its key only), re-run the minimised case, record it with the replay."""
    if ctx.has_violation(key):
        ctx.violation(what, None, key=key)
        return
    small = minimise(ctx, orac, impl, case, prop, key)
    nb = lambda c: sum(len(o[1]) // 2 for o in c["ops"] if o[0] == "append")
    small["src"] = case.get("src", "generated (seed %d)" % ctx.seed) + (
        "" if len(small["ops"]) == len(case["ops"]) and nb(small) == nb(case) else
        ", shrunk from %d ops / %d packet bytes to %d ops / %d packet bytes" % (len(case["ops"]), nb(case), len(small["ops"]), nb(small)))
    r = run_batch(ctx, orac, impl, [small], "rep-" + key)
    c2, io2, mo2, err2 = r[0]
    vs2 = judge(prop, c2, io2, err2)
    drop_cases(ctx, "rep-" + key)
    if not any(k3 == key for k3, _ in vs2):          # the shrunk case does not reproduce (should not happen): keep the original
        c2, w2 = case, what
        io2 = None
    else:
        w2 = next(w for k3, w in vs2 if k3 == key)
    ctx.violation("[%s %s] %s" % (case["kind"], key, w2), replay_obj(ctx, c2, io2, w2), key=key)


def load_corpus(prop):
    cdir = os.path.join(vlib.VERIF, "corpus", prop)
    out = []
    if os.path.isdir(cdir):
        for fn in sorted(os.listdir(cdir)):
            if fn.endswith(".json"):
                obj = json.load(open(os.path.join(cdir, fn)))
                c = import_case(obj)
                c["src"] = "corpus/%s/%s" % (prop, fn)
                out.append(c)
    return out


def count_calls(orac, cases):
    """Number of open and pwrite calls of each (fault-free) case, from the model."""
    for i, c in enumerate(cases):
        c["id"] = "ref-%d" % i
        if "frames_done" not in c:
            annotate_frames(c)
            c["frames_done"] = True
    inp = "\n".join(l for c in cases for l in model_lines(c, c["id"], [0, 1, 2])) + "\n"
    rc, out, err = vlib.sh([orac], inp=inp, timeout=600)
    mo = parse_output(out)
    res = []
    for c in cases:
        m = mo.get(c["id"]) or {"ops": []}
        no = sum(1 for o in m["ops"] for s in o["sys"] if s[0] == "open")
        nw = sum(1 for o in m["ops"] for s in o["sys"] if s[0] == "pwrite")
        res.append((no, nw))
    return res


def clone(case):
    c = import_case(export_case(case))
    c["rel"] = list(case.get("rel", []))
    if len(case["ops"]) and any(o[0] == "append" and len(o) > 3 for o in case["ops"]):
        for o, o0 in zip(c["ops"], case["ops"]):
            if o[0] == "append":
                o.append(o0[3])
        c["frames_done"] = True
    return c


def fault_sweep(rng, case, nopen, nwrite, limit=None):
    """Every index of a create or write call of the reference history, transient (that one call fails) and persistent
    (every call from that index on fails); create faults as a failing open, as a failing flock and as a failing
    ftruncate (the create fails at its first / second / third system call).  Every failing pwrite and every failing
    ftruncate reports an errno of ERRNOS: the errno rotates with the index (independently for the transient and the
    persistent case, random phase per history), a history with fewer than 6 swept indices gets every errno at every
    index, and every history gets one persistent case per errno at a random index on top.  A failing ftruncate is also
    combined with a LATER fault: a pwrite error or a second create fault (open / flock / ftruncate) further on."""
    out = []
    pa, pb = rng.randrange(len(ERRNOS)), rng.randrange(len(ERRNOS))
    qa, qb = rng.randrange(len(ERRNOS)), rng.randrange(len(ERRNOS))
    idx_o = list(range(nopen))
    idx_w = list(range(nwrite))
    if limit is not None:
        if len(idx_w) > limit:
            idx_w = sorted(rng.sample(idx_w, limit))
    for k in idx_o:
        for persistent in (False, True):
            terrs = ERRNOS if len(idx_o) < 6 else [ERRNOS[(k + (qa if persistent else qb)) % len(ERRNOS)]]
            for ch in ["f", "l"] + [TRUNC_CH[e] for e in terrs]:
                c = clone(case)
                c["cs"] = [ch if persistent else "o", "o" * k + ch]
                out.append(c)
        # the ftruncate of create k fails, and something fails later as well
        e = ERRNOS[(k + qb + 1) % len(ERRNOS)]
        if nwrite:
            c = clone(case)
            c["cs"] = ["o", "o" * k + TRUNC_CH[e]]
            kw = rng.randrange(nwrite)
            ew = rng.choice(ERRNOS)
            pers = rng.random() < 0.5
            c["ws"] = [ew if pers else "F", ["F"] * kw + [ew]]
            out.append(c)
        if k + 1 < nopen:
            c = clone(case)
            k2 = rng.randrange(k + 1, nopen)
            c["cs"] = ["o", "o" * k + TRUNC_CH[e] + "o" * (k2 - k - 1) + rng.choice("fl" + TRUNC_LETTERS)]
            out.append(c)
    if nopen:
        for e in ERRNOS:
            k = rng.randrange(nopen)
            c = clone(case)
            c["cs"] = [TRUNC_CH[e], "o" * k]
            out.append(c)
    for k in idx_w:
        for persistent in (False, True):
            errs = ERRNOS if len(idx_w) < 5 else [ERRNOS[(k + (pa if persistent else pb)) % len(ERRNOS)]]
            for e in errs:
                c = clone(case)
                c["ws"] = [e if persistent else "F", ["F"] * k + [e]]
                out.append(c)
        if rng.random() < 0.3:
            c = clone(case)
            c["ws"] = ["F", ["F"] * k + ["0", "0", "0"]]      # file_write gives up after three zero-length results
            out.append(c)
    if nwrite:
        for e in ERRNOS:
            k = rng.randrange(nwrite)
            c = clone(case)
            c["ws"] = [e, ["F"] * k]
            out.append(c)
    return out


def run(ctx):
    prop = ctx.prop
    ctx.coq_prove(["Properties_" + prop])
    orac, impl = build(ctx)
    thorough = ctx.tier == "thorough"
    rng = ctx.rng
    ctx.assumptions = [
        "POSIX open/flock/ftruncate/pwrite/close are oracles: open returns the lowest free number or fails, flock and ftruncate succeed or fail, "
        "pwrite returns any count 0..n or fails, as scripted (a create can fail at each of its three system calls)",
        "std::filesystem calls of side-by-side-tiff (exists/create_directory/status) always succeed (not interposed)",
        "StorageProperties passed to set() come from storage_properties_init (non-NULL uri, valid json); malloc does not fail",
        "the runtime does not reconfigure a running device (no set while Running; C08's subject) -- stated as hypothesis `disciplined` in the C16 "
        "theorems and built into the shape of C14_exact's histories (set, start, append*, stop cycles); C14's separate UNDISCIPLINED stream of "
        "generated histories (set while Running, then start/append*/stop) lies outside that hypothesis and is covered by the model/implementation "
        "correspondence and the independent file oracle only, not by a theorem",
        "storage_close is exercised as storage_stop + driver_close_device; its final write to the freed object (D10, C11) is left out",
        "64-bit wrap of offsets is not modelled (offsets are unbounded naturals)",
        "access/unlink in file_is_writable are not interposed and are taken to succeed; an existing file is taken to be writable; a failed "
        "ftruncate leaves the file's contents alone; a successful one empties it",
    ]
    ctx.notes.append("theorems quantify over all histories, all packets, all create/write scripts (every fault index, transient or persistent, every "
                     "short-write pattern) and all descriptor tables, by induction; the correspondence samples them and sweeps every fault index "
                     "of its reference histories")
    ctx.notes.append("model = the code with fixes/01-04 applied (05 is in /repo as a3ee066) and file_create truncating (468e0c6); file_create = "
                     "open, flock, ftruncate, each of which may fail (FdTable.cresp: CFailOpen / CFailLock / CFailTrunc errno); ftruncate is interposed "
                     "and is an event of the compared system-call log")
    ctx.extra["scope_notes"] = [
        "C14 oracle: per path, the LAST started acquisition configured for it is judged (exists / exact bytes); earlier acquisitions to the same "
        "path are superseded because file_create truncates (counted in c14_superseded); 'same path' is string equality after file:// stripping",
        "C14 oracle, acquisition whose append failed: the file must begin with the accepted packets and continue with a prefix of the failing one",
        "the errno of a failing pwrite or ftruncate is part of the fault script; it is logged (e=) but is not an observable of the tie: the model "
        "(theorems Pwrite_errno_irrelevant, C16_errno_irrelevant_file_write, C16_errno_irrelevant_file_create, C16_errno_irrelevant) treats every "
        "errno alike -- an implementation that treats one errno differently therefore disagrees with the model on the system-call log",
        "C14 tie: descriptor numbers are canonicalised to paths; flock/ftruncate/close calls and the descriptor table are compared by C16 only",
        "tiff kinds: pwrite offsets and bytes are C15's subject and are not compared here; call, descriptor, length and result are",
    ]
    # ---- replay of a recorded violation:  tools/check.py --property Cxx --replay replays/Cxx-n.json
    rf = getattr(ctx, "replay_file", None)
    if rf:
        obj = json.load(open(rf))
        c = ((obj.get("replay") or {}).get("case")) if "replay" in obj else obj
        if not c or "ops" not in c:
            ctx.broken_tie("replay file holds no case (it records a proof/tie that no longer checks, not a failing input)", rf)
            return
        c = import_case(c)
        c["src"] = rf
        fold(ctx, orac, impl, run_batch(ctx, orac, impl, [c], "replay"), prop, "replay")
        drop_cases(ctx, "replay")
        return
    # ---- corpus
    corpus = load_corpus(prop)
    if corpus:
        fold(ctx, orac, impl, run_batch(ctx, orac, impl, corpus, "corpus"), prop, "corpus")
        drop_cases(ctx, "corpus")
    # ---- generated cases
    cases = []
    if prop == "C14":
        ctx.rule = ("1..5 set/start/append*/stop cycles on one raw device through the real HAL (0..12 packets of 1..5 frames, pixel sizes with every "
                    "residue mod 8, plain and file:// uris, empty names, life-cycle noise). Paths of one history are RELATED: a later path extends an "
                    "earlier one (run1 then run10, out.raw then out.raw.1), is a strict prefix of an earlier one, is the same path again (either "
                    "spelling), or is configured after a set of its own prefix without a start in between (counted as paths:*). Each history runs "
                    "under pwrite scripts aimed at each packet: full, 1, n-1, "
                    "random splits, bursts of 1..3 zero-length results, rare errors (errno drawn from EIO/ENOSPC/EAGAIN/EINTR/EBADF/EINVAL); a quarter of the cases also fail "
                    "one create at its open, its flock or its ftruncate (any of the six errnos). "
                    "Independent oracle on the files of EVERY case: a file exists at the path of every started acquisition; it holds exactly the packets of the "
                    "last acquisition configured for that path (prefix rule for an acquisition whose append failed); violations are minimised (ops, packets, scripts). "
                    "The first disagreements with the model are shrunk too, with the oracle run on every candidate. Compared with the "
                    "extracted model: every open (path, success) and pwrite (file, offset, length, result), HAL status and device state per call, final "
                    "bytes of every file read back from disk (flock/ftruncate/close calls, descriptor numbers and the descriptor table are C16's observables). Non-trivial = at least one append and >= 4 system calls; "
                    "distinct = distinct (scripts, op list).")
        ctx.rule += (" SECOND STREAM, C14 only ('undisciplined', counted as stream:undisciplined / case:with-set-while-running / op:set-while-running): raw "
                     "histories of 2..5 acquisitions in which at least one `set` is issued WHILE THE DEVICE IS RUNNING (the stop before it is left out; the "
                     "HAL's storage_set then replaces Running by the driver's answer Armed without stopping the device -- the runtime does this when "
                     "acquire_configure is called while running: known finding of C08), followed by start / append* / stop on the new path; all paths of such "
                     "a history are distinct (the interrupted acquisition's descriptor stays open and locked, so re-creating ITS path would fail at the "
                     "real flock, which the model does not have) but related (extensions / prefixes, both spellings); same short-write scripts, 15 % with one "
                     "failing create. These histories are OUTSIDE the hypothesis of the theorems (C14_exact speaks of set/start/append*/stop cycles; C16's "
                     "theorems assume `disciplined`): they are judged by the independent oracle (per path the last acquisition configured for it -- an "
                     "acquisition ends where a set meets it Running -- the file is exactly its packets; file bytes and HAL answers only, no descriptors) and "
                     "by the differential against the extracted model, which is total on them (same observables as the first stream: opens, pwrites with "
                     "offsets, status/state, file bytes; never flock/close/descriptor table). They are not fed to C16.")
        ctx.notes.append("C14 runs a second generated stream with `set` while Running (outside the theorems' hypothesis: correspondence + oracle only); on "
                         "the unchanged code such a history leaves the interrupted acquisition's descriptor open (C08 finding) -- deliberately invisible "
                         "to C14 (no descriptor observable) and never given to C16")
        n = 60000 if thorough else 6000
        for i in range(n):
            c = gen_history(rng, "raw", thorough, related=True)
            short_write_script(rng, c)
            if rng.random() < 0.25:
                k = rng.randrange(0, 8)
                c["cs"] = ["o", "o" * k + rng.choice("ffllt" + TRUNC_LETTERS)]
            cases.append(c)
        sw = gen_sweep_cases(rng, thorough)
        for c in sw[:250:3]:
            short_write_script(rng, c)
        cases += sw
        ctx.extra["c14_sweeps"] = "%d cases: file-name lengths 1..250 (two acquisitions each), packets of 2^k-8, 2^k, 2^k+8 pixel bytes up to %d" % (
            len(sw), (1 << 16) if thorough else (1 << 15))
        nu = 15000 if thorough else 1500
        for i in range(nu):
            c = gen_undisciplined(rng, thorough)
            short_write_script(rng, c)
            if rng.random() < 0.15:
                k = rng.randrange(0, 10)
                c["cs"] = ["o", "o" * k + rng.choice("ffllt" + TRUNC_LETTERS)]
            cases.append(c)
        ctx.extra["c14_undisciplined_generated"] = nu
        ctx.sample({"kind": "raw", "ops": [o[:2] if o[0] != "append" else ["append", "%d bytes" % (len(o[1]) // 2)] for o in cases[0]["ops"]],
                    "ws": cases[0]["ws"], "cs": cases[0]["cs"]})
    else:
        ctx.rule = ("reference histories (set/start/append*/stop cycles with life-cycle noise: never started, double start, stop/append when idle, "
                    "close while running, foreign descriptors opened and closed in between) for each kind raw, tiff, tiff-json, trash; for EVERY index "
                    "of an open or pwrite call of the fault-free run one case with that call failing once and one with it failing from then on "
                    "(open failure, flock failure and ftruncate failure -- the create fails at its first, second or third system call; ftruncate and pwrite "
                    "errors with an errno of EIO/ENOSPC/EAGAIN/EINTR/EBADF/EINVAL rotating over the indices, every errno "
                    "persistent at least once per history -- counted as errno:* / errno:ftruncate:*; a failing ftruncate also combined with a later pwrite or "
                    "create fault; three zero-length results), plus STRUCTURED two-acquisition histories per kind in which the rest of the process opens a file "
                    "right after each start (so a descriptor number the device has closed is re-used at once) swept the same way, plus random mixes of faults "
                    "and short writes. Each case "
                    "runs in a forked child of the harness; crash / stack overflow / a call that does not return within the budget (the same pwrite reissued "
                    "1000 times without progress -> exit 80; > 4000 system calls in one call -> exit 79; CPU 10 s; wall 30 s) are observables attributed to the case. "
                    "Compared with the extracted model: "
                    "system-call log, HAL status and state per call, final descriptor table. Non-trivial = a system call failed or >= 3 ops, and >= 4 "
                    "system calls.")
        nref = 300 if thorough else 12    # x 3 kinds (+ trash/6): quick sweeps every fault index of 38 histories, thorough of 950
                                          # (+ 6 / 18 structured ones below); 300 keeps thorough at ~15 min with the ftruncate faults
        refs = []
        for kind in KINDS:
            for i in range(nref if kind != "trash" else max(1, nref // 6)):
                refs.append(gen_history(rng, kind, False, related=True))
        nstruct = 0
        for kind in KINDS[:3]:
            for i in range(6 if thorough else 2):
                refs.append(gen_structured(rng, kind, i))
                nstruct += 1
        ctx.extra["structured_reference_histories"] = nstruct
        counts = count_calls(orac, refs)
        for c, (no, nw) in zip(refs, counts):
            cases.append(clone(c))
            cases += fault_sweep(rng, c, no, nw, limit=None if thorough else 40)
        ctx.extra["reference_histories"] = len(refs)
        # random mixes
        for i in range(30000 if thorough else 3000):
            c = gen_history(rng, rng.choice(KINDS[:3]), False, related=True)
            toks = []
            for _ in range(rng.randrange(0, 40)):
                r = rng.random()
                toks.append("F" if r < 0.7 else rng.choice(ERRNOS) if r < 0.8 else str(rng.choice([0, 0, 1, 7, 100])))
            c["ws"] = [rng.choice(["F", "F", "F", rng.choice(ERRNOS), "0"]), toks]
            c["cs"] = [rng.choice(["o", "o", "o", "o", "f", "l", rng.choice(TRUNC_LETTERS)]),
                       "".join(rng.choice("oooooofl" + rng.choice(TRUNC_LETTERS)) for _ in range(rng.randrange(0, 10)))]
            cases.append(c)
        ctx.sample({"kind": refs[0]["kind"], "ops": [o[:2] if o[0] != "append" else ["append", "%d bytes" % (len(o[1]) // 2)] for o in refs[0]["ops"]],
                    "sweep": "cs/ws scripts fail call k once / forever for every k"})
    ctx.log("%d generated cases" % len(cases))
    # run in chunks to bound memory
    chunk = 4000
    for b in range(0, len(cases), chunk):
        res = run_batch(ctx, orac, impl, cases[b:b + chunk], "g%d" % (b // chunk))
        fold(ctx, orac, impl, res, prop, "generated")
        drop_cases(ctx, "g%d" % (b // chunk))
    # ---- thorough: independent re-check of the compiled proofs with coqchk
    pf = "Properties_" + prop
    if thorough and os.path.exists(os.path.join(ctx.coqdir, pf + ".vo")):
        rc, o, e = vlib.sh("timeout 900 coqchk -o -silent -Q . FileIO FileIO." + pf, cwd=ctx.coqdir, timeout=950)
        txt = o + e
        ok = rc == 0 and "Axioms: <none>" in txt and "type-in-type: <none>" in txt
        ctx.extra["coqchk"] = "ok: axioms <none>, no type-in-type, no unsafe fixpoints" if ok else txt[-800:]
        if not ok:
            ctx.broken_tie("coqchk does not accept FileIO." + pf, txt[-800:])
