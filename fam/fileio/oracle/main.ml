(* Line-protocol driver around the extracted storage model (Fileio = Pwrite/FdTable/Raw/TiffFail/SideBySide/Hal).
   Same case format as harness/h_storage.c, plus what the model needs to be told:
     case <id> <raw|tiff|tiffjson|trash> <variant>      variant: fixed | unfixed | five 0/1 digits d3 d4 d5a d5b d6
     init <fd> <fd> ...                                 descriptors open when the device is created (harness line I)
     c <tail> <entries>          w <tail> <entries...>      (a failing pwrite: E | EIO | ENOSPC | EAGAIN | EINTR | EBADF | EINVAL)
                                 create entries: o, f = open fails, l = flock fails, ftruncate fails with
                                 t = EIO, s = ENOSPC, a = EAGAIN, r = EINTR, b = EBADF, v = EINVAL
     set <uri> <metadata length> | start | append <hex> <ld,lfirst,lother;...|-> | stop | envopen | envclose <k>
     end
   Output: O/S/E/R lines as the harness prints them, then after the close
     F <open descriptors>      FILE <path> <hex|absent>  (every path the device ever opened)
     L ledger=<ok|violated> left=<descriptors still owned> nfail=<n>
     X <id> diverged=<0|1>                                                                                        *)
open Fileio

let rec nat_of_int n = if n <= 0 then O else S (nat_of_int (n - 1))
let rec int_of_nat = function O -> 0 | S n -> 1 + int_of_nat n
let rec pos_of_int n = if n = 1 then XH else if n land 1 = 0 then XO (pos_of_int (n lsr 1)) else XI (pos_of_int (n lsr 1))
let n_of_int n = if n = 0 then N0 else Npos (pos_of_int n)
let rec int_of_pos = function XH -> 1 | XO p -> 2 * int_of_pos p | XI p -> 2 * int_of_pos p + 1
let int_of_n = function N0 -> 0 | Npos p -> int_of_pos p
let explode s = List.init (String.length s) (String.get s)
let implode l = String.init (List.length l) (List.nth l)
let implode l = let b = Buffer.create 16 in List.iter (Buffer.add_char b) l; Buffer.contents b

let hexval c = match c with
  | '0'..'9' -> Char.code c - 48 | 'a'..'f' -> Char.code c - 87 | 'A'..'F' -> Char.code c - 55 | _ -> 0
let bytes_of_hex h =
  let n = String.length h / 2 in
  List.init n (fun i -> n_of_int (hexval h.[2*i] * 16 + hexval h.[2*i+1]))
let hex_of_bytes l =
  let b = Buffer.create 64 in
  List.iter (fun x -> Buffer.add_string b (Printf.sprintf "%02x" (int_of_n x))) l; Buffer.contents b

let state_name = function
  | Closed -> "Closed" | AwaitingConfiguration -> "AwaitingConfiguration" | Armed -> "Armed" | Running -> "Running"

let fdarg = function None -> "-1" | Some n -> string_of_int (int_of_nat n)
let pname p = if p = [] then "\"\"" else implode p

let print_event paths = function
  | EOpen (p, r) ->
    if not (List.mem p !paths) then paths := p :: !paths;
    Printf.printf "S open %s %s\n" (pname p) (fdarg r)
  | ELock (fd, ok) -> Printf.printf "S flock %d %d\n" (int_of_nat fd) (if ok then 0 else -1)
  | ETrunc (fd, ok) -> Printf.printf "S ftruncate %d %d\n" (int_of_nat fd) (if ok then 0 else -1)
  | EWrite (fd, off, len, r) ->
    Printf.printf "S pwrite %s %d %d %s\n" (fdarg fd) (int_of_nat off) (int_of_nat len) (fdarg r)
  | EClose (fd, ok) -> Printf.printf "S close %s %d\n" (fdarg fd) (if ok then 0 else -1)
  | EEnvOpen fd -> Printf.printf "E open %d\n" (int_of_nat fd)
  | EEnvClose fd -> Printf.printf "E close %d 0\n" (int_of_nat fd)

let rec drop n l = if n <= 0 then l else match l with [] -> [] | _ :: t -> drop (n - 1) t

let words s = List.filter (fun w -> w <> "") (String.split_on_char ' ' (String.trim s))

let parse_frames s =
  if s = "-" || s = "" then []
  else List.map (fun f -> match String.split_on_char ',' f with
      | [a; b; c] -> (nat_of_int (int_of_string a), (nat_of_int (int_of_string b), nat_of_int (int_of_string c)))
      | _ -> (O, (O, O))) (List.filter (fun f -> f <> "") (String.split_on_char ';' s))

let () =
  let cur_id = ref "" and kind = ref KRaw and variant = ref fixed in
  let init_fds = ref [0; 1; 2] in
  let cscript = ref [||] and ctail = ref COk and wscript = ref [||] and wtail = ref WFull in
  let st : (dev * os) option ref = ref None in
  let diverged = ref false in
  let idx = ref 0 and shown = ref 0 in
  let paths = ref [] in
  let ensure () =
    match !st with
    | Some s -> s
    | None ->
      let cs = !cscript and ct = !ctail and wsc = !wscript and wt = !wtail in
      let cf k = let i = int_of_nat k in if i < Array.length cs then cs.(i) else ct in
      let wf k = let i = int_of_nat k in if i < Array.length wsc then wsc.(i) else wt in
      let o = os_init (List.map nat_of_int !init_fds) cf wf in
      let s = (dev_init !kind, o) in
      st := Some s; s in
  let flush_events o =
    let evs = drop !shown o.trace in
    List.iter (print_event paths) evs;
    shown := List.length o.trace in
  let do_op name x =
    if not !diverged then begin
      let (d, o) = ensure () in
      Printf.printf "O %d %s\n" !idx name; incr idx;
      match step fUEL !variant x d o with
      | Diverges -> diverged := true; Printf.printf "DIVERGES\n"
      | Ret ((d1, o1), s) ->
        flush_events o1;
        st := Some (d1, o1);
        (match x with
         | OEnvOpen | OEnvClose _ -> Printf.printf "R ok -\n"
         | _ -> Printf.printf "R %s %s\n" (match s with Ok -> "ok" | Err -> "err") (state_name (get_state d1)))
    end in
  let cresp_of = function
    | 'f' -> CFailOpen | 'l' -> CFailLock
    | 't' -> CFailTrunc EIO | 's' -> CFailTrunc ENOSPC | 'a' -> CFailTrunc EAGAIN | 'r' -> CFailTrunc EINTR
    | 'b' -> CFailTrunc EBADF | 'v' -> CFailTrunc EINVAL
    | _ -> COk in
  (* write-script tokens: F = everything, <n> = min n remaining bytes, E = EIO, or the errno by name *)
  let wresp_of t = match t with
    | "F" -> WFull
    | "E" | "EIO" -> WErr EIO | "ENOSPC" -> WErr ENOSPC | "EAGAIN" -> WErr EAGAIN | "EINTR" -> WErr EINTR
    | "EBADF" -> WErr EBADF | "EINVAL" -> WErr EINVAL
    | _ -> WCount (nat_of_int (int_of_string t)) in
  (try
     while true do
       let line = input_line stdin in
       match words line with
       | "case" :: id :: k :: rest ->
         cur_id := id;
         kind := (match k with "tiff" -> KTiff | "tiffjson" -> KSbs | "trash" -> KTrash | _ -> KRaw);
         variant := (match rest with
             | "unfixed" :: _ -> unfixed
             | b :: _ when String.length b = 5 && b <> "fixed" ->
               { fix_d3 = b.[0] = '1'; fix_d4 = b.[1] = '1'; fix_d5a = b.[2] = '1'; fix_d5b = b.[3] = '1'; fix_d6 = b.[4] = '1' }
             | _ -> fixed);
         init_fds := [0; 1; 2]; cscript := [||]; ctail := COk; wscript := [||]; wtail := WFull;
         st := None; diverged := false; idx := 0; shown := 0; paths := [];
         Printf.printf "CASE %s\n" id
       | "init" :: fds -> init_fds := List.map int_of_string fds
       | "c" :: tail :: rest ->
         ctail := cresp_of tail.[0];
         cscript := Array.of_list (List.map cresp_of (List.concat_map explode rest))
       | "w" :: tail :: rest -> wtail := wresp_of tail; wscript := Array.of_list (List.map wresp_of rest)
       | ["set"; uri; m] ->
         let u = if uri = "\"\"" then "" else uri in
         do_op "set" (OSet (explode u, nat_of_int (int_of_string m)))
       | ["start"] -> do_op "start" OStart
       | ["stop"] -> do_op "stop" OStop
       | "append" :: hex :: rest ->
         let fr = match rest with f :: _ -> parse_frames f | [] -> [] in
         do_op (Printf.sprintf "append %d" (String.length hex / 2)) (OAppend { p_bytes = bytes_of_hex hex; p_frames = fr })
       | ["append"] -> do_op "append 0" (OAppend { p_bytes = []; p_frames = [] })
       | ["envopen"] -> do_op "envopen" OEnvOpen
       | ["envclose"; k] -> do_op "envclose" (OEnvClose (nat_of_int (int_of_string k)))
       | ["end"] ->
         if not !diverged then begin
           let (d, o) = ensure () in
           Printf.printf "O %d close\n" !idx;
           match hal_close fUEL !variant d o with
           | Diverges -> diverged := true; Printf.printf "DIVERGES\n"
           | Ret o1 ->
             flush_events o1;
             Printf.printf "R ok closed\n";
             Printf.printf "F%s\n" (String.concat "" (List.map (fun n -> " " ^ string_of_int n)
                                                        (List.sort compare (List.map int_of_nat (fds_of o1)))));
             List.iter (fun p ->
                 match o1.fs p with
                 | None -> Printf.printf "FILE %s absent\n" (pname p)
                 | Some c -> Printf.printf "FILE %s %s\n" (pname p) (hex_of_bytes c)) (List.rev !paths);
             (match ledger [] o1.trace with
              | None -> Printf.printf "L ledger=violated left= nfail=%d\n" (int_of_nat o1.nfail)
              | Some own -> Printf.printf "L ledger=ok left=%s nfail=%d\n"
                              (String.concat "," (List.map (fun n -> string_of_int (int_of_nat n)) own)) (int_of_nat o1.nfail))
         end;
         Printf.printf "X %s diverged=%d\n" !cur_id (if !diverged then 1 else 0)
       | [] -> ()
       | w :: _ when String.length w > 0 && w.[0] = '#' -> ()
       | _ -> Printf.printf "BADOP %s\n" line
     done
   with End_of_file -> ())
