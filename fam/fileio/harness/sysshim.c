/* sysshim.c -- link-time interposition for the storage family (DESIGN 3(c)).
   Linked with  -Wl,--wrap=open,--wrap=flock,--wrap=ftruncate,--wrap=pwrite,--wrap=close   (the system calls
   linux/platform.c issues for file_create / file_write / file_close / file_is_writable; access() and unlink() are
   left alone) and
   -Wl,--wrap=file_create,--wrap=file_write,--wrap=file_close  (pure logging of the platform API boundary, so the
   property oracle sees "a file_write call returned 0" directly instead of inferring it from the script).

   Every wrapped system call is performed for real (real descriptors, real files) unless the script says it fails:
     create script  (one entry per open() call):   o = succeed, f = open fails (EACCES), l = the flock that follows fails
                    (EWOULDBLOCK); the ftruncate that follows the flock fails (open and flock succeed) with errno
                    t = EIO, s = ENOSPC, a = EAGAIN, r = EINTR, b = EBADF, v = EINVAL
                    (a descriptor that is closed without having been locked / truncated -- the writability probe of
                    file_is_writable -- forgets its pending l / t..v: there the entry is a plain success)
     write  script  (one entry per pwrite() call): F = write everything, <n> = write min(n,len) bytes,
                    E | EIO | ENOSPC | EAGAIN | EINTR | EBADF | EINVAL = return -1 with that errno (E = EIO)
   each with a tail value used once the listed entries are exhausted (persistent faults: every call from index k on).
   Every call is logged on descriptor 1 at once (no buffering: the log must survive a crash):
     S open <path> <fd|-1>      S flock <fd> <0|-1> k=<b>     S pwrite <fd> <off> <len> <res> [e=<errno name>] k=<b>
     S ftruncate <fd> <0|-1> [e=<errno name>] k=<b>           S close <fd> <0|-1> k=<b>
     A file_create <ret>        A file_write <ret>      A file_close
   k=<b>: whether the kernel had the descriptor number open when the call was made (fcntl F_GETFD) -- the ground truth
   the descriptor oracle uses, independent of which calls happen to be interposed.

   Step budget (a device call that never returns must be an observable, quickly):
     - ONE device call that logs more than MAXLOG lines is recursing or looping:  TRUNC, exit 79;
     - the SAME pwrite (descriptor, buffer, length, offset) reissued SPIN_LIMIT times in a row, each time without
       progress (result -1 or 0), is a loop that will never end by itself:  SPIN <fd> <off> <len> <res> <errno> <n>, exit 80
       (repeats beyond SPIN_QUIET are not logged).  A bounded retry (the code's own three zero-length results, or a
       few dozen reissues of an interrupted call) stays far below the limit.                                         */
#define _GNU_SOURCE
#include <errno.h>
#include <fcntl.h>
#include <stdarg.h>
#include <stdint.h>
#include <stdio.h>
#include <stdlib.h>
#include <string.h>
#include <sys/file.h>
#include <sys/types.h>
#include <unistd.h>

#include "sysshim.h"

struct file;
int __real_open(const char* path, int flags, ...);
int __real_flock(int fd, int op);
int __real_ftruncate(int fd, off_t length);
ssize_t __real_pwrite(int fd, const void* buf, size_t n, off_t off);
int __real_close(int fd);
int __real_file_create(struct file* file, const char* filename, size_t n);
int __real_file_write(const struct file* file, uint64_t offset, const uint8_t* cur, const uint8_t* end);
void __real_file_close(struct file* file);

#define MAXSCRIPT 4096
static char c_script[MAXSCRIPT];
static int c_n = 0;
static char c_tail = 'o';
static long w_script[MAXSCRIPT]; /* -1 = F, -2 - i = fail with w_errno[i], >= 0 count */
static const struct
{
    const char* name;
    int code;
} w_errno[] = { { "EIO", EIO },     { "ENOSPC", ENOSPC }, { "EAGAIN", EAGAIN },
                { "EINTR", EINTR }, { "EBADF", EBADF },   { "EINVAL", EINVAL } };
#define N_ERRNO ((int)(sizeof w_errno / sizeof w_errno[0]))
/* create-script letters of a failing ftruncate, in the order of w_errno */
static const char t_letters[] = "tsarbv";
#define SPIN_LIMIT 1000
#define SPIN_QUIET 4
static int spin_fd = -2, spin_n = 0;
static const void* spin_buf = 0;
static size_t spin_len = 0;
static off_t spin_off = 0;
static int w_n = 0;
static long w_tail = -1;
static int n_open = 0, n_pwrite = 0;
static unsigned char lock_fails[1024];
static unsigned char trunc_fails[1024]; /* 0 = no fault pending, 1 + i = the next ftruncate fails with w_errno[i] */
static int shim_on = 0;
static int n_lines = 0;
#define MAXLOG 4000 /* ONE device call that logs more than this is recursing or looping (a call of the generated
                       histories issues at most a few hundred system calls): the child reports TRUNC and exits 79 */

void
shim_log(const char* fmt, ...)
{
    char buf[8192];
    if (fmt[0] == 'O' && fmt[1] == ' ') {
        n_lines = 0; /* a new device call begins */
        spin_fd = -2;
        spin_n = 0;
    }
    if (n_lines++ >= MAXLOG) {
        ssize_t r0 = write(1, "TRUNC\n", 6);
        (void)r0;
        _exit(79);
    }
    va_list ap;
    va_start(ap, fmt);
    int n = vsnprintf(buf, sizeof buf, fmt, ap);
    va_end(ap);
    if (n < 0)
        return;
    if (n >= (int)sizeof buf)
        n = sizeof buf - 1;
    ssize_t r = write(1, buf, (size_t)n);
    (void)r;
}

void
shim_reset(void)
{
    c_n = w_n = 0;
    c_tail = 'o';
    w_tail = -1;
    n_open = n_pwrite = 0;
    n_lines = 0;
    spin_fd = -2;
    spin_n = 0;
    memset(lock_fails, 0, sizeof lock_fails);
    memset(trunc_fails, 0, sizeof trunc_fails);
}

void
shim_enable(int on)
{
    shim_on = on;
}

int
shim_set_create_script(const char* tail, const char* entries)
{
    c_tail = tail[0];
    c_n = 0;
    for (const char* p = entries; *p && c_n < MAXSCRIPT; ++p)
        if (*p == 'o' || *p == 'f' || *p == 'l' || strchr(t_letters, *p))
            c_script[c_n++] = *p;
    return c_n;
}

static long
w_tok(const char* t)
{
    if (t[0] == 'F')
        return -1;
    if (t[0] == 'E') {
        for (int i = 0; i < N_ERRNO; ++i)
            if (!strcmp(t, w_errno[i].name))
                return -2 - i;
        return -2; /* plain E: EIO */
    }
    return strtol(t, 0, 10);
}

int
shim_set_write_script(const char* tail, char* entries)
{
    w_tail = w_tok(tail);
    w_n = 0;
    for (char* t = strtok(entries, " \t\r\n"); t && w_n < MAXSCRIPT; t = strtok(0, " \t\r\n"))
        w_script[w_n++] = w_tok(t);
    return w_n;
}

int
__wrap_open(const char* path, int flags, ...)
{
    mode_t mode = 0;
    if (flags & O_CREAT) {
        va_list ap;
        va_start(ap, flags);
        mode = (mode_t)va_arg(ap, int);
        va_end(ap);
    }
    if (!shim_on)
        return __real_open(path, flags, mode);
    char r = n_open < c_n ? c_script[n_open] : c_tail;
    n_open++;
    spin_fd = -2;
    int fd;
    if (r == 'f') {
        fd = -1;
        errno = EACCES;
    } else {
        fd = __real_open(path, flags, mode);
        if (fd >= 0 && fd < (int)sizeof lock_fails) {
            const char* t = r ? strchr(t_letters, r) : 0;
            lock_fails[fd] = (r == 'l');
            trunc_fails[fd] = t ? (unsigned char)(1 + (t - t_letters)) : 0;
        }
    }
    int e = errno;
    shim_log("S open %s %d\n", path[0] ? path : "\"\"", fd);
    errno = e;
    return fd;
}

int
__wrap_flock(int fd, int op)
{
    if (!shim_on)
        return __real_flock(fd, op);
    int res;
    int was_open = fcntl(fd, F_GETFD) >= 0;
    spin_fd = -2;
    if (fd >= 0 && fd < (int)sizeof lock_fails && lock_fails[fd]) {
        lock_fails[fd] = 0;
        res = -1;
        errno = EWOULDBLOCK;
    } else {
        res = __real_flock(fd, op);
    }
    int e = errno;
    shim_log("S flock %d %d k=%d\n", fd, res, was_open);
    errno = e;
    return res;
}

int
__wrap_ftruncate(int fd, off_t length)
{
    if (!shim_on)
        return __real_ftruncate(fd, length);
    int res;
    int was_open = fcntl(fd, F_GETFD) >= 0;
    int injected = -1;
    spin_fd = -2;
    if (fd >= 0 && fd < (int)sizeof trunc_fails && trunc_fails[fd]) {
        injected = (trunc_fails[fd] - 1) % N_ERRNO;
        trunc_fails[fd] = 0;
        res = -1;
        errno = w_errno[injected].code;
    } else {
        res = __real_ftruncate(fd, length);
    }
    int e = errno;
    if (res < 0) {
        const char* ename = "?";
        for (int i = 0; i < N_ERRNO; ++i)
            if (w_errno[i].code == e)
                ename = w_errno[i].name;
        shim_log("S ftruncate %d %d e=%s k=%d\n", fd, res, ename, was_open);
    } else {
        shim_log("S ftruncate %d %d k=%d\n", fd, res, was_open);
    }
    errno = e;
    return res;
}

ssize_t
__wrap_pwrite(int fd, const void* buf, size_t n, off_t off)
{
    if (!shim_on)
        return __real_pwrite(fd, buf, n, off);
    long r = n_pwrite < w_n ? w_script[n_pwrite] : w_tail;
    n_pwrite++;
    ssize_t res;
    int was_open = fcntl(fd, F_GETFD) >= 0;
    if (r <= -2) {
        res = -1;
        errno = w_errno[(-2 - r) % N_ERRNO].code;
    } else {
        size_t want = (r == -1 || (size_t)r > n) ? n : (size_t)r;
        if (want == 0 && n > 0 && fcntl(fd, F_GETFD) >= 0) {
            res = 0; /* a zero-length result without touching the file */
        } else {
            /* a regular file takes everything in one call; loop anyway so that `want` bytes really land */
            size_t done = 0;
            res = 0;
            while (done < want) {
                ssize_t k = __real_pwrite(fd, (const char*)buf + done, want - done, off + (off_t)done);
                if (k < 0) {
                    res = -1;
                    break;
                }
                if (k == 0)
                    break;
                done += (size_t)k;
            }
            if (want == 0) { /* n == 0 or invalid descriptor: let the system decide */
                res = __real_pwrite(fd, buf, 0, off);
            } else if (res >= 0) {
                res = (ssize_t)done;
            }
        }
    }
    int e = errno;
    const char* ename = "?";
    for (int i = 0; i < N_ERRNO; ++i)
        if (w_errno[i].code == e)
            ename = w_errno[i].name;
    /* the same call again, and again nothing written? */
    if (res <= 0 && n > 0 && spin_fd == fd && spin_buf == buf && spin_len == n && spin_off == off) {
        ++spin_n;
    } else {
        spin_n = 0;
    }
    if (res <= 0 && n > 0) {
        spin_fd = fd;
        spin_buf = buf;
        spin_len = n;
        spin_off = off;
    } else {
        spin_fd = -2;
    }
    if (spin_n >= SPIN_LIMIT) {
        shim_log("SPIN %d %lld %zu %zd %s %d\n", fd, (long long)off, n, res, res < 0 ? ename : "-", spin_n);
        _exit(80);
    }
    if (spin_n <= SPIN_QUIET) {
        if (res < 0)
            shim_log("S pwrite %d %lld %zu %zd e=%s k=%d\n", fd, (long long)off, n, res, ename, was_open);
        else
            shim_log("S pwrite %d %lld %zu %zd k=%d\n", fd, (long long)off, n, res, was_open);
    }
    errno = e;
    return res;
}

int
__wrap_close(int fd)
{
    if (!shim_on)
        return __real_close(fd);
    int was_open = fcntl(fd, F_GETFD) >= 0;
    spin_fd = -2;
    int res = __real_close(fd);
    int e = errno;
    if (fd >= 0 && fd < (int)sizeof lock_fails) {
        lock_fails[fd] = 0;
        trunc_fails[fd] = 0;
    }
    shim_log("S close %d %d k=%d\n", fd, res, was_open);
    errno = e;
    return res;
}

int
__wrap_file_create(struct file* file, const char* filename, size_t n)
{
    int r = __real_file_create(file, filename, n);
    if (shim_on)
        shim_log("A file_create %d\n", r);
    return r;
}

int
__wrap_file_write(const struct file* file, uint64_t offset, const uint8_t* cur, const uint8_t* end)
{
    int r = __real_file_write(file, offset, cur, end);
    if (shim_on)
        shim_log("A file_write %d\n", r);
    return r;
}

void
__wrap_file_close(struct file* file)
{
    __real_file_close(file);
    if (shim_on)
        shim_log("A file_close\n");
}

int
shim_env_open(void)
{
    return __real_open("/dev/null", O_WRONLY, 0);
}

int
shim_env_close(int fd)
{
    return __real_close(fd);
}
