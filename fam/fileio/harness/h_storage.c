/* h_storage.c -- history driver for the basic storage devices (raw, tiff, tiff-json, trash) of acquire-driver-common,
   DESIGN 6.14 / 6.16.  Everything under test is the REAL code of the repository working tree:
     storage/raw.c trash.c tiff.cpp side-by-side-tiff.cpp basic.storage.c, basics.driver.c (device open/close),
     linux/platform.c (file_create/file_write/file_close/file_is_writable), props/storage.c, the HAL storage.c + driver.c.
   System calls are interposed by sysshim.c.  The only stubs are the two simulated-camera constructors that
   basics.driver.c references and device_manager_get_driver (hands the HAL the real basics driver).

   stdin: any number of cases
       case <id> <raw|tiff|tiffjson|trash> <directory>
       c <tail> <entries>            create script (see sysshim.c: o f l, and t s a r b v = ftruncate fails); optional
       w <tail> <entries...>         write script; optional
       meta <json|->                 external metadata used by every `set`; optional
       set <uri> | start | append <hex of the packet> | stop | envopen | envclose <k>
       end                           (the device is then closed: storage_stop + driver_close_device)
   Every case runs in a forked child (fresh descriptor table, cwd = <directory>, CPU limit 10 s, wall-clock limit 30 s,
   the step budget of sysshim.c: exit 79 = one call logged > 4000 lines, exit 80 = the same pwrite reissued 1000 times
   without progress) so a crash, unbounded recursion or a hang is an observable attributed to the case:
   X <id> exit=<code> sig=<signal>  is printed by the parent.
   Child output:  I <open descriptors at start>;  per op  O <index> <op>, the S/A lines of sysshim.c,  E open|close <fd>,
   R <ok|err> <state>.                                                                                                */
#define _GNU_SOURCE
#include <errno.h>
#include <fcntl.h>
#include <stdint.h>
#include <stdio.h>
#include <stdlib.h>
#include <string.h>
#include <sys/resource.h>
#include <sys/stat.h>
#include <sys/wait.h>
#include <unistd.h>

#include "device/hal/device.manager.h"
#include "device/hal/storage.h"
#include "device/hal/driver.h"
#include "device/kit/driver.h"
#include "device/kit/storage.h"
#include "device/props/storage.h"
#include "identifiers.h"
#include "logger.h"
#include "sysshim.h"

/* ---- stubs ---- */
struct Camera;
struct Camera*
simcam_make_camera(enum BasicDeviceKind kind)
{
    return 0;
}
enum DeviceStatusCode
simcam_close_camera(struct Camera* camera)
{
    return Device_Err;
}
static struct Driver* g_driver = 0;
struct Driver*
device_manager_get_driver(const struct DeviceManager* self, const struct DeviceIdentifier* identifier)
{
    return g_driver;
}
static int g_verbose = 0;
static void
reporter(int is_error, const char* file, int line, const char* function, const char* msg)
{
    if (g_verbose)
        fprintf(stderr, "%s %s:%d %s: %s\n", is_error ? "ERROR" : "info", file, line, function, msg);
}

/* ---- case runner ---- */
#define MAXLINES 4096
static char* lines[MAXLINES];
static int nlines = 0;

static const char*
state_name(enum DeviceState s)
{
    switch (s) {
        case DeviceState_Closed: return "Closed";
        case DeviceState_AwaitingConfiguration: return "AwaitingConfiguration";
        case DeviceState_Armed: return "Armed";
        case DeviceState_Running: return "Running";
        default: return "?";
    }
}

static int
hexval(int c)
{
    if (c >= '0' && c <= '9') return c - '0';
    if (c >= 'a' && c <= 'f') return c - 'a' + 10;
    if (c >= 'A' && c <= 'F') return c - 'A' + 10;
    return -1;
}

static void
run_case(const char* kind, const char* dir)
{
    struct rlimit rl = { 10, 12 };
    setrlimit(RLIMIT_CPU, &rl);
    alarm(30); /* a call that sleeps instead of spinning: SIGALRM ends the child */
    rl.rlim_cur = rl.rlim_max = 0;
    setrlimit(RLIMIT_CORE, &rl);
    rl.rlim_cur = rl.rlim_max = 256u << 20;
    setrlimit(RLIMIT_FSIZE, &rl);

    mkdir(dir, 0777);
    if (chdir(dir) != 0) {
        shim_log("FATAL chdir %s\n", dir);
        _exit(3);
    }
    shim_reset();
    const char* meta = 0;
    int envfd[64], nenv = 0;

    enum BasicDeviceKind k = BasicDevice_Storage_Raw;
    if (!strcmp(kind, "tiff")) k = BasicDevice_Storage_Tiff;
    else if (!strcmp(kind, "tiffjson")) k = BasicDevice_Storage_SideBySideTiffJson;
    else if (!strcmp(kind, "trash")) k = BasicDevice_Storage_Trash;

    g_driver = acquire_driver_init_v0(reporter);
    struct DeviceIdentifier id = { .driver_id = 0, .device_id = (uint8_t)k, .kind = DeviceKind_Storage };
    struct Storage* s = storage_open(0, &id);
    if (!s) {
        shim_log("FATAL storage_open\n");
        _exit(3);
    }
    {
        char buf[1024];
        int n = snprintf(buf, sizeof buf, "I");
        for (int fd = 0; fd < 256; ++fd)
            if (fcntl(fd, F_GETFD) >= 0)
                n += snprintf(buf + n, sizeof buf - n, " %d", fd);
        shim_log("%s\n", buf);
    }
    shim_enable(1);
    int idx = 0;
    for (int i = 0; i < nlines; ++i) {
        char* l = lines[i];
        size_t len = strlen(l);
        while (len && (l[len - 1] == '\n' || l[len - 1] == '\r')) l[--len] = 0;
        if (!strncmp(l, "c ", 2)) {
            char tail[8] = "o", ent[MAXLINES] = "";
            sscanf(l + 2, "%7s %4095s", tail, ent);
            shim_set_create_script(tail, ent);
        } else if (!strncmp(l, "w ", 2)) {
            char tail[32] = "F";
            int off = 0;
            sscanf(l + 2, "%31s%n", tail, &off);
            shim_set_write_script(tail, l + 2 + off);
        } else if (!strncmp(l, "meta ", 5)) {
            meta = strcmp(l + 5, "-") ? l + 5 : 0;
        } else if (!strncmp(l, "set ", 4)) {
            const char* uri = strcmp(l + 4, "\"\"") ? l + 4 : "";
            shim_log("O %d set\n", idx++);
            struct StorageProperties props = { 0 };
            const struct PixelScale px = { 1, 1 };
            shim_enable(0);
            int ok = storage_properties_init(&props, 0, uri, strlen(uri) + 1, meta, meta ? strlen(meta) + 1 : 0, px, 0);
            shim_enable(1);
            if (!ok) {
                shim_log("FATAL storage_properties_init\n");
                _exit(3);
            }
            enum DeviceStatusCode st = storage_set(s, &props);
            shim_log("R %s %s\n", st == Device_Ok ? "ok" : "err", state_name(storage_get_state(s)));
            storage_properties_destroy(&props);
        } else if (!strcmp(l, "start")) {
            shim_log("O %d start\n", idx++);
            enum DeviceStatusCode st = storage_start(s);
            shim_log("R %s %s\n", st == Device_Ok ? "ok" : "err", state_name(storage_get_state(s)));
        } else if (!strcmp(l, "stop")) {
            shim_log("O %d stop\n", idx++);
            enum DeviceStatusCode st = storage_stop(s);
            shim_log("R %s %s\n", st == Device_Ok ? "ok" : "err", state_name(storage_get_state(s)));
        } else if (!strncmp(l, "append", 6)) {
            const char* h = l + 6;
            while (*h == ' ') ++h;
            size_t nb = strlen(h) / 2;
            uint8_t* buf = 0;
            if (posix_memalign((void**)&buf, 16, nb + 16)) _exit(3);
            for (size_t j = 0; j < nb; ++j) buf[j] = (uint8_t)(hexval(h[2 * j]) * 16 + hexval(h[2 * j + 1]));
            shim_log("O %d append %zu\n", idx++, nb);
            enum DeviceStatusCode st =
              storage_append(s, (const struct VideoFrame*)buf, (const struct VideoFrame*)(buf + nb));
            shim_log("R %s %s\n", st == Device_Ok ? "ok" : "err", state_name(storage_get_state(s)));
            free(buf);
        } else if (!strcmp(l, "envopen")) {
            shim_log("O %d envopen\n", idx++);
            int fd = shim_env_open();
            if (fd >= 0 && nenv < 64) envfd[nenv++] = fd;
            shim_log("E open %d\n", fd);
            shim_log("R ok -\n");
        } else if (!strncmp(l, "envclose ", 9)) {
            int kk = atoi(l + 9);
            shim_log("O %d envclose\n", idx++);
            if (kk >= 0 && kk < nenv) {
                int fd = envfd[kk];
                for (int j = kk; j + 1 < nenv; ++j) envfd[j] = envfd[j + 1];
                nenv--;
                int r = shim_env_close(fd);
                shim_log("E close %d %d\n", fd, r);
            }
            shim_log("R ok -\n");
        } else if (l[0] == 0 || l[0] == '#') {
        } else {
            shim_log("BADOP %s\n", l);
        }
    }
    /* storage_close(s) is storage_stop(s); driver_close_device(&s->device); s->state = Closed.  The last statement
       writes into the object the driver has just freed (D10, property C11) -- it is left out here so that ASan
       reports only what belongs to C14/C16. */
    shim_log("O %d close\n", idx++);
    storage_stop(s);
    driver_close_device(&s->device);
    shim_log("R ok closed\n");
    /* which of the descriptors that are open now were not open at the start (leaks), as the kernel sees it */
    {
        char buf[1024];
        int n = snprintf(buf, sizeof buf, "F");
        for (int fd = 0; fd < 256; ++fd)
            if (fcntl(fd, F_GETFD) >= 0)
                n += snprintf(buf + n, sizeof buf - n, " %d", fd);
        shim_log("%s\n", buf);
    }
    _exit(0);
}

int
main(int argc, char** argv)
{
    g_verbose = argc > 1 && !strcmp(argv[1], "-v");
    char* line = 0;
    size_t cap = 0;
    char id[256] = "", kind[64] = "", dir[2048] = "";
    int in_case = 0;
    while (getline(&line, &cap, stdin) > 0) {
        if (!strncmp(line, "case ", 5)) {
            sscanf(line + 5, "%255s %63s %2047s", id, kind, dir);
            in_case = 1;
            nlines = 0;
        } else if (!strncmp(line, "end", 3) && in_case) {
            printf("CASE %s\n", id);
            fflush(stdout);
            fflush(stderr);
            pid_t pid = fork();
            if (pid == 0) {
                run_case(kind, dir);
                _exit(0);
            }
            int status = 0;
            waitpid(pid, &status, 0);
            printf("X %s exit=%d sig=%d\n", id, WIFEXITED(status) ? WEXITSTATUS(status) : -1,
                   WIFSIGNALED(status) ? WTERMSIG(status) : 0);
            fflush(stdout);
            for (int i = 0; i < nlines; ++i) free(lines[i]);
            nlines = 0;
            in_case = 0;
        } else if (in_case && nlines < MAXLINES) {
            lines[nlines++] = strdup(line);
        }
    }
    free(line);
    return 0;
}
