#ifndef VERIF_SYSSHIM_H
#define VERIF_SYSSHIM_H
#ifdef __cplusplus
extern "C" {
#endif
void shim_log(const char* fmt, ...);
void shim_reset(void);
void shim_enable(int on);
int shim_set_create_script(const char* tail, const char* entries);
int shim_set_write_script(const char* tail, char* entries);
int shim_env_open(void);
int shim_env_close(int fd);
#ifdef __cplusplus
}
#endif
#endif
