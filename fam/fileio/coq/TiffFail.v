(* TiffFail.v -- failure model of acquire-driver-common/src/storage/tiff.cpp at the level of file operations
   (file_create, file_write of a given length, file_close).  What the bytes are is C15's subject (fam/tiff); here a
   write_ is a file_write of [len] zero bytes at offset 0: only the sequence of calls, their lengths and results count.
   MODEL ONLY.

   Tiff::write_ -> Tiff::stop -> Tiff::terminate_ifd_list -> Tiff::write_ re-enter each other when a write fails.
   They are modelled as mutual recursion on a fuel argument; running out of fuel is the explicit outcome [Diverges].
   With fix 03 (D5a: stop() leaves Running before the final write) the depth is bounded by 4 (C16Proofs.t_write_spec /
   t_stop_spec give both functions without fuel); without it a persistent write failure exhausts any fuel tried
   (Properties_C16.D5a_unrepaired_diverges). *)
From Coq Require Import String.
From Coq Require Import List Arith NArith Bool.
From FileIO Require Import Pwrite FdTable Raw.
Import ListNotations.
Open Scope string_scope.

Inductive outcome (A : Type) : Type :=
| Ret (a : A)
| Diverges.
Arguments Ret {A} a.
Arguments Diverges {A}.

(* struct Tiff: Storage::state (written by the HAL and by Tiff::stop), filename_, file_.fid, frame_count_ *)
Record tiff := mkTiff {
  t_state : dstate;
  t_fname : string;
  t_fid : option nat;
  t_fc : nat
}.
Definition tiff_init : tiff := mkTiff AwaitingConfiguration "" (Some 0) 0.
Definition tiff_put_state (t : tiff) (s : dstate) : tiff := mkTiff s (t_fname t) (t_fid t) (t_fc t).

Definition zero_buf (n : nat) : list byte := repeat 0%N n.

Definition sizeof_header := 16.
Definition sizeof_ifd := 336.       (* ifd_t<16>, packed: 8 + 16*20 + 8 *)
Definition sizeof_link := 8.

(*  write_(offset, buf, n):  CHECK(file_write(...)); return [true];  Error: stop(); [return false;]
    stop():   if (state == Running) { [fix 03: state = Armed;] terminate_ifd_list(); file_close(&file_);
                                      state = Armed; frame_count_ = 0; }   return 1;
    terminate_ifd_list():  write_(last_ifd_next_offset_, &zero, 8)                                           *)
Fixpoint t_write_ (fuel : nat) (v : variant) (len : nat) (t : tiff) (o : os) : outcome (tiff * os * bool) :=
  match fuel with
  | 0 => Diverges
  | S f =>
    match file_write o (t_fid t) 0 (zero_buf len) with
    | (o1, true) => Ret (t, o1, true)
    | (o1, false) =>
      match t_stop f v t o1 with
      | Diverges => Diverges
      | Ret (t2, o2) => Ret (t2, o2, false)
      end
    end
  end
with t_stop (fuel : nat) (v : variant) (t : tiff) (o : os) : outcome (tiff * os) :=
  match fuel with
  | 0 => Diverges
  | S f =>
    if dstate_eqb (t_state t) Running then
      let t1 := if fix_d5a v then tiff_put_state t Armed else t in
      match t_write_ f v sizeof_link t1 o with
      | Diverges => Diverges
      | Ret (t2, o2, _) => Ret (mkTiff Armed (t_fname t2) (t_fid t2) 0, file_close o2 (t_fid t2))
      end
    else Ret (t, o)
  end.

(* Tiff::set + tiff_set.  The json check of the metadata is the caller's business (valid strings assumed). *)
Definition tiff_set (uri : string) (t : tiff) (o : os) : tiff * os * dstate :=
  let filename := strip uri in
  match file_is_writable o filename with
  | (o1, false) => (t, o1, AwaitingConfiguration)
  | (o1, true) => (mkTiff (t_state t) filename (t_fid t) (t_fc t), o1, Armed)
  end.

(* Tiff::start + tiff_start *)
Definition tiff_start (fuel : nat) (v : variant) (t : tiff) (o : os) : outcome (tiff * os * dstate) :=
  match file_create o (t_fname t) with
  | (o1, false, fid) => Ret (mkTiff (t_state t) (t_fname t) fid 0, o1, AwaitingConfiguration)
  | (o1, true, fid) =>
    match t_write_ fuel v sizeof_header (mkTiff (t_state t) (t_fname t) fid 0) o1 with
    | Diverges => Diverges
    | Ret (t2, o2, ok) =>
      if fix_d5b v && negb ok
      then Ret (t2, file_close o2 (t_fid t2), AwaitingConfiguration)     (* fix 04 *)
      else Ret (t2, o2, Running)
    end
  end.

Definition tiff_stop (fuel : nat) (v : variant) (t : tiff) (o : os) : outcome (tiff * os * dstate) :=
  match t_stop fuel v t o with
  | Diverges => Diverges
  | Ret (t1, o1) => Ret (t1, o1, Armed)
  end.

(* Tiff::append: per frame write_(ifd), write_(pixels), write_(strings), ++frame_count_.  A frame is given by the
   length of its pixel data and the two possible lengths of its string section: with the external metadata
   (frame_count_ == 0, i.e. the first frame after start) and without.  Fix 04 returns 0 at the first failed write_. *)
Definition frame := (nat * (nat * nat))%type.
Fixpoint t_append (fuel : nat) (v : variant) (frames : list frame) (t : tiff) (o : os)
  : outcome (tiff * os * bool) :=
  match frames with
  | [] => Ret (t, o, true)
  | (ldata, (lfirst, lother)) :: rest =>
    let lstr := if Nat.eqb (t_fc t) 0 then lfirst else lother in
    match t_write_ fuel v sizeof_ifd t o with
    | Diverges => Diverges
    | Ret (t1, o1, ok1) =>
      if fix_d5b v && negb ok1 then Ret (t1, o1, false) else
      match t_write_ fuel v ldata t1 o1 with
      | Diverges => Diverges
      | Ret (t2, o2, ok2) =>
        if fix_d5b v && negb ok2 then Ret (t2, o2, false) else
        match t_write_ fuel v lstr t2 o2 with
        | Diverges => Diverges
        | Ret (t3, o3, ok3) =>
          if fix_d5b v && negb ok3 then Ret (t3, o3, false)
          else t_append fuel v rest (mkTiff (t_state t3) (t_fname t3) (t_fid t3) (S (t_fc t3))) o3
        end
      end
    end
  end.

(* tiff_append:  CHECK(self->append(frames, *nbytes)); return Running;  Error: return tiff_stop(self_); *)
Definition tiff_append (fuel : nat) (v : variant) (frames : list frame) (t : tiff) (o : os)
  : outcome (tiff * os * dstate) :=
  match t_append fuel v frames t o with
  | Diverges => Diverges
  | Ret (t1, o1, true) => Ret (t1, o1, Running)
  | Ret (t1, o1, false) => tiff_stop fuel v t1 o1
  end.

(* tiff_destroy: self_->stop(self_); delete self (whose destructor calls stop() once more) *)
Definition tiff_destroy (fuel : nat) (v : variant) (t : tiff) (o : os) : outcome os :=
  match t_stop fuel v t o with
  | Diverges => Diverges
  | Ret (t1, o1) =>
    match t_stop fuel v t1 o1 with
    | Diverges => Diverges
    | Ret (_, o2) => Ret o2
    end
  end.
