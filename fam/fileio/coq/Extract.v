From Coq Require Import String.
From Coq Require Import List Arith NArith Bool.
From Coq Require Import ExtrOcamlBasic ExtrOcamlString.
From FileIO Require Import Pwrite FdTable Raw TiffFail SideBySide Hal.
Extraction Language OCaml.
Extraction "fileio.ml" step hal_close dev_init get_state os_init fds_of ledger fixed unfixed mkVariant FUEL life
  file_write1 strip.
