(* SideBySide.v -- failure model of acquire-driver-common/src/storage/side-by-side-tiff.cpp (kind "tiff-json") and of
   trash.c, at the level of file operations.  MODEL ONLY.
   std::filesystem calls (exists / create_directory / status) are not system calls the check interposes; the folder is
   taken to be creatable (parent exists, writable) unless the path is empty. *)
From Coq Require Import String.
From Coq Require Import List Arith NArith Bool.
From FileIO Require Import Pwrite FdTable Raw TiffFail.
Import ListNotations.
Open Scope string_scope.

(* struct SideBySideTiff: storage.state (HAL), props.uri, props.external_metadata_json.nbytes - 1, the inner Tiff *)
Record sbs := mkSbs {
  s_state : dstate;
  s_uri : string;
  s_meta : nat;
  s_tiff : tiff
}.
(* side_by_side_tiff_init: aggregate initialisation leaves storage.state = 0 = DeviceState_Closed *)
Definition sbs_init : sbs := mkSbs Closed "" 0 tiff_init.
Definition sbs_put_tiff (s : sbs) (t : tiff) : sbs := mkSbs (s_state s) (s_uri s) (s_meta s) t.

(* side_by_side_tiff_set: validate (json shape: at least "{}" -- an absent metadata string arrives as "" and is
   REJECTED, unlike in Tiff::set; parent folder), copy the properties, strip "file://" *)
Definition sbs_set (uri : string) (meta : nat) (s : sbs) (o : os) : sbs * os * dstate :=
  if Nat.ltb meta 2 then (s, o, AwaitingConfiguration)
  else (mkSbs (s_state s) (strip uri) meta (s_tiff s), o, Armed).

(* side_by_side_tiff_start *)
Definition sbs_start (fuel : nat) (v : variant) (s : sbs) (o : os) : outcome (sbs * os * dstate) :=
  match s_uri s with
  | EmptyString => Ret (s, o, AwaitingConfiguration)          (* create_directory("") fails *)
  | _ =>
    (* 2. metadata.json (external_metadata_json.nbytes is never 0: storage.c copy_string stores "" as 1 byte) *)
    match file_create o (s_uri s ++ "/metadata.json") with
    | (o1, false, _) => Ret (s, o1, AwaitingConfiguration)
    | (o1, true, fid) =>
      match file_write o1 fid 0 (zero_buf (s_meta s)) with
      | (o2, ok) =>
        let o3 := file_close o2 fid in
        if negb ok then Ret (s, o3, AwaitingConfiguration) else
        (* 3. set / start the tiff writer on data.tif *)
        match tiff_set (s_uri s ++ "/data.tif") (s_tiff s) o3 with
        | (t1, o4, st1) =>
          let t1' := if fix_d6 v then tiff_put_state t1 st1 else t1 in          (* fix 05 *)
          if negb (dstate_eqb st1 Armed) then Ret (sbs_put_tiff s t1', o4, AwaitingConfiguration) else
          match tiff_start fuel v t1' o4 with
          | Diverges => Diverges
          | Ret (t2, o5, st2) =>
            let t2' := if fix_d6 v then tiff_put_state t2 st2 else t2 in        (* fix 05 *)
            Ret (sbs_put_tiff s t2', o5, if dstate_eqb st2 Running then Running else AwaitingConfiguration)
          end
        end
      end
    end
  end.

(* side_by_side_tiff_stop: CHECK(tiff->stop(tiff) == Armed) -- tiff_stop always answers Armed *)
Definition sbs_stop (fuel : nat) (v : variant) (s : sbs) (o : os) : outcome (sbs * os * dstate) :=
  match tiff_stop fuel v (s_tiff s) o with
  | Diverges => Diverges
  | Ret (t1, o1, _) => Ret (sbs_put_tiff s t1, o1, Armed)
  end.

(* side_by_side_tiff_append: CHECK(tiff->append(...) == Running), otherwise side_by_side_tiff_stop *)
Definition sbs_append (fuel : nat) (v : variant) (frames : list frame) (s : sbs) (o : os)
  : outcome (sbs * os * dstate) :=
  match tiff_append fuel v frames (s_tiff s) o with
  | Diverges => Diverges
  | Ret (t1, o1, st) =>
    if dstate_eqb st Running then Ret (sbs_put_tiff s t1, o1, Running)
    else sbs_stop fuel v (sbs_put_tiff s t1) o1
  end.

(* side_by_side_tiff_destroy: self_->stop(self_); tiff->destroy(tiff) *)
Definition sbs_destroy (fuel : nat) (v : variant) (s : sbs) (o : os) : outcome os :=
  match sbs_stop fuel v s o with
  | Diverges => Diverges
  | Ret (s1, o1, _) => tiff_destroy fuel v (s_tiff s1) o1
  end.
