(* FdTableProofs.v -- facts about the descriptor table, the ledger and the platform functions of FdTable.v. *)
From Coq Require Import String.
From Coq Require Import List Arith NArith Bool Lia.
From FileIO Require Import Pwrite PwriteProofs FdTable.
Import ListNotations.

(* ------------------------------------------------------------------ small facts *)
Lemma memb_In : forall n l, memb n l = true <-> In n l.
Proof.
  intros n l. unfold memb. rewrite existsb_exists. split.
  - intros [x [H E]]. apply Nat.eqb_eq in E. now subst.
  - intros H. exists n. split; auto. apply Nat.eqb_refl.
Qed.

Lemma memb_false : forall n l, memb n l = false <-> ~ In n l.
Proof.
  intros n l. rewrite <- memb_In. destruct (memb n l); split; intros H; congruence.
Qed.

Lemma upd_same : forall f p v, upd f p v p = v.
Proof. intros. unfold upd. now rewrite String.eqb_refl. Qed.

Lemma upd_other : forall f p v q, q <> p -> upd f p v q = f q.
Proof. intros f p v q H. unfold upd. apply String.eqb_neq in H. now rewrite H. Qed.

Lemma lookup_In : forall fd t e, lookup fd t = Some e -> In fd (map fst t).
Proof.
  induction t as [|[n e'] t IH]; simpl; intros e H; [discriminate|].
  destruct (n =? fd) eqn:E. apply Nat.eqb_eq in E; auto. right; eauto.
Qed.

Lemma lookup_notin : forall fd t, ~ In fd (map fst t) -> lookup fd t = None.
Proof.
  induction t as [|[n e'] t IH]; simpl; intros H; auto.
  destruct (n =? fd) eqn:E. apply Nat.eqb_eq in E. tauto. apply IH; tauto.
Qed.

Lemma lookup_in : forall fd t, In fd (map fst t) -> exists e, lookup fd t = Some e.
Proof.
  induction t as [|[n e'] t IH]; simpl; intros H; [tauto|].
  destruct (n =? fd) eqn:E. eauto. apply Nat.eqb_neq in E. destruct H; [tauto|auto].
Qed.

Lemma fds_remove : forall fd t, map fst (remove_fd fd t) = filter (fun n => negb (n =? fd)) (map fst t).
Proof.
  induction t as [|[n e] t IH]; simpl; auto.
  destruct (n =? fd); simpl; now rewrite IH.
Qed.

Lemma lookup_remove_same : forall fd t, lookup fd (remove_fd fd t) = None.
Proof.
  intros. apply lookup_notin. rewrite fds_remove, filter_In. intros [_ H].
  now rewrite Nat.eqb_refl in H.
Qed.

Lemma lookup_remove_other : forall fd n t, n <> fd -> lookup n (remove_fd fd t) = lookup n t.
Proof.
  induction t as [|[m e] t IH]; simpl; intros H; auto.
  destruct (m =? fd) eqn:E; simpl.
  - apply Nat.eqb_eq in E; subst. replace (fd =? n) with false by (symmetry; apply Nat.eqb_neq; auto). auto.
  - destruct (m =? n); auto.
Qed.

Lemma remove_fd_fresh : forall fd t, ~ In fd (map fst t) -> remove_fd fd t = t.
Proof.
  induction t as [|[m e] t IH]; simpl; intros H; auto.
  destruct (m =? fd) eqn:E; simpl. apply Nat.eqb_eq in E; tauto. rewrite IH; tauto.
Qed.

Lemma filter_neq_notin : forall fd l, ~ In fd l -> filter (fun n => negb (n =? fd)) l = l.
Proof.
  induction l as [|m l IH]; simpl; intros H; auto.
  destruct (m =? fd) eqn:E; simpl. apply Nat.eqb_eq in E; tauto. rewrite IH; tauto.
Qed.

Lemma NoDup_app_snoc : forall (l : list nat) x, NoDup l -> ~ In x l -> NoDup (l ++ [x]).
Proof.
  induction l as [|a l IH]; simpl; intros x Hnd Hx.
  - constructor; [auto | constructor].
  - inversion Hnd; subst. constructor.
    + rewrite in_app_iff. simpl. intros [?|[?|[]]]; auto.
    + apply IH; auto.
Qed.

(* ------------------------------------------------------------------ lowest free number *)
Lemma lf_spec : forall fuel n fds,
  (forall m, m < n -> In m fds) -> length fds <= n + fuel ->
  ~ In (lf fuel n fds) fds /\ (forall m, m < lf fuel n fds -> In m fds).
Proof.
  induction fuel as [|fuel IH]; intros n fds Hlow Hlen; simpl.
  - split; auto. intros Hin.
    assert (Hincl : incl (seq 0 (S n)) fds).
    { intros m Hm. apply in_seq in Hm. destruct (Nat.eq_dec m n); subst; auto. apply Hlow; lia. }
    apply NoDup_incl_length in Hincl; [|apply seq_NoDup]. rewrite seq_length in Hincl. lia.
  - destruct (memb n fds) eqn:M.
    + apply IH; [|lia]. intros m Hm. destruct (Nat.eq_dec m n); subst. now apply memb_In. apply Hlow; lia.
    + split; auto. now apply memb_false.
Qed.

(* open never hands out a number that is in use ... *)
Lemma lowest_free_fresh : forall fds, ~ In (lowest_free fds) fds.
Proof. intros. apply (lf_spec (length fds) 0 fds); [intros; lia|lia]. Qed.

(* ... and always the lowest one that is not *)
Lemma lowest_free_lowest : forall fds m, m < lowest_free fds -> In m fds.
Proof. intros fds. apply (lf_spec (length fds) 0 fds); [intros; lia|lia]. Qed.

Lemma lowest_free_unique : forall fds n, ~ In n fds -> (forall m, m < n -> In m fds) -> lowest_free fds = n.
Proof.
  intros fds n Hn Hlow.
  destruct (lt_eq_lt_dec (lowest_free fds) n) as [[H|H]|H]; auto.
  - exfalso. apply (lowest_free_fresh fds). auto.
  - exfalso. apply Hn. now apply lowest_free_lowest.
Qed.

(* ------------------------------------------------------------------ ledger *)
Lemma ledger_app : forall t1 t2 own,
  ledger own (t1 ++ t2) = match ledger own t1 with None => None | Some own' => ledger own' t2 end.
Proof.
  induction t1 as [|e t1 IH]; intros t2 own; simpl; auto.
  destruct (ledger_step own e); auto.
Qed.

Definition is_write_to (n : nat) (e : event) : Prop := exists off len r, e = EWrite (Some n) off len r.

Lemma ledger_writes : forall n evs own, In n own -> Forall (is_write_to n) evs -> ledger own evs = Some own.
Proof.
  induction evs as [|e evs IH]; intros own Hn Hall; simpl; auto.
  inversion Hall as [|? ? He Hall']; subst. destruct He as (off & len & r & ->). simpl.
  apply memb_In in Hn. rewrite Hn. apply memb_In in Hn. auto.
Qed.

(* counting formulation: a log the ledger accepts has, for every number, as many closes as opens, plus one if the
   number is still owned *)
Lemma count_ev_app : forall f t1 t2, count_ev f (t1 ++ t2) = count_ev f t1 + count_ev f t2.
Proof. induction t1; simpl; intros; auto. rewrite IHt1. lia. Qed.

Lemma filter_neq_In : forall fd n l, In n (filter (fun m => negb (m =? fd)) l) <-> In n l /\ n <> fd.
Proof.
  intros. rewrite filter_In. split; intros [H1 H2]; split; auto.
  - intros ->. now rewrite Nat.eqb_refl in H2.
  - apply Nat.eqb_neq in H2. now rewrite H2.
Qed.

Lemma ledger_counts : forall tr own own' fd,
  NoDup own -> ledger own tr = Some own' ->
  NoDup own' /\
  count_ev (opens_of fd) tr + (if memb fd own then 1 else 0) =
  count_ev (closes_of fd) tr + (if memb fd own' then 1 else 0).
Proof.
  induction tr as [|e tr IH]; intros own own' fd Hnd H; simpl in H.
  - inversion H; subst. simpl. auto.
  - destruct (ledger_step own e) as [own1|] eqn:E; [|discriminate].
    assert (Hstep : NoDup own1 /\ opens_of fd e + (if memb fd own then 1 else 0) =
                                  closes_of fd e + (if memb fd own1 then 1 else 0)).
    { destruct e as [p [n|] | n ok | n ok | [n|] off len r | [n|] ok | n | n]; simpl in E; simpl;
        try (inversion E; subst; split; auto; lia); try discriminate.
      - destruct (memb n own) eqn:M; [discriminate|]. inversion E; subst. apply memb_false in M.
        split. now constructor. simpl. destruct (n =? fd) eqn:N.
        + apply Nat.eqb_eq in N; subst. apply memb_false in M. rewrite M. rewrite Nat.eqb_refl. simpl. lia.
        + rewrite Nat.eqb_sym in N. rewrite N. simpl. lia.
      - destruct (memb n own); inversion E; subst. split; auto.
      - destruct (memb n own); inversion E; subst. split; auto.
      - destruct (memb n own); inversion E; subst. split; auto.
      - destruct (memb n own) eqn:M; [|discriminate]. inversion E; subst. split. now apply NoDup_filter.
        destruct (n =? fd) eqn:N.
        + apply Nat.eqb_eq in N; subst. rewrite M.
          replace (memb fd (filter (fun m => negb (m =? fd)) own)) with false. lia.
          symmetry. apply memb_false. rewrite filter_neq_In. tauto.
        + apply Nat.eqb_neq in N.
          replace (memb fd (filter (fun m => negb (m =? n)) own)) with (memb fd own). lia.
          destruct (memb fd own) eqn:F; symmetry.
          * apply memb_In. apply filter_neq_In. split; auto. now apply memb_In.
          * apply memb_false. rewrite filter_neq_In. apply memb_false in F. tauto. }
    destruct Hstep as [Hnd1 Hc]. destruct (IH _ _ fd Hnd1 H) as [Hnd' Hc']. split; auto. simpl. lia.
Qed.

(* ------------------------------------------------------------------ the bookkeeping invariant *)
Definition dev_entry (o : os) (n : nat) : Prop := exists p, lookup n (tbl o) = Some (mkEnt Dev p).
Definition env_entry (o : os) (n : nat) : Prop := exists p, lookup n (tbl o) = Some (mkEnt Env p).

(* [own] = the descriptors the device holds: exactly what the ledger computes from the log and exactly the table's
   Dev entries; every descriptor of the rest of the process is still open *)
Record Led (own : list nat) (o : os) : Prop := mkLed {
  led_wf : NoDup (fds_of o);
  led_nodup : NoDup own;
  led_ledger : ledger [] (trace o) = Some own;
  led_own : forall n, In n own <-> dev_entry o n;
  led_others_nodup : NoDup (keep o ++ envs o);
  led_others : forall n, In n (keep o ++ envs o) -> env_entry o n
}.

Lemma lookup_init : forall fds n e,
  lookup n (map (fun n => (n, mkEnt Env EmptyString)) fds) = Some e -> e = mkEnt Env EmptyString.
Proof.
  induction fds as [|m fds IH]; simpl; intros n e H; [discriminate|].
  destruct (m =? n). now inversion H. eauto.
Qed.

Lemma Led_init : forall fds cs ws, NoDup fds -> Led [] (os_init fds cs ws).
Proof.
  intros fds cs ws Hnd. constructor; simpl.
  - unfold fds_of. simpl. rewrite map_map. simpl. now rewrite map_id.
  - constructor.
  - reflexivity.
  - intros n. split; [tauto|]. intros [p Hp]. apply lookup_init in Hp. discriminate.
  - now rewrite app_nil_r.
  - intros n Hn. rewrite app_nil_r in Hn.
    destruct (lookup_in n (map (fun n => (n, mkEnt Env EmptyString)) fds)) as [e He].
    { rewrite map_map. simpl. now rewrite map_id. }
    pose proof (lookup_init _ _ _ He). subst. now exists EmptyString.
Qed.

Lemma entry_excl : forall o n, dev_entry o n -> env_entry o n -> False.
Proof. intros o n [p Hp] [q Hq]. congruence. Qed.

(* -- a step that only appends events, with the table untouched -- *)
Lemma Led_same_tbl : forall own own' o o' evs,
  Led own o -> tbl o' = tbl o -> keep o' = keep o -> envs o' = envs o -> trace o' = trace o ++ evs ->
  ledger own evs = Some own' -> own' = own -> Led own' o'.
Proof.
  intros own own' o o' evs L Ht Hk He Htr Hl ->. destruct L. constructor; auto.
  - unfold fds_of. now rewrite Ht.
  - rewrite Htr, ledger_app, led_ledger0. auto.
  - intros n. unfold dev_entry. rewrite Ht. apply led_own0.
  - now rewrite Hk, He.
  - intros n. unfold env_entry. rewrite Ht, Hk, He. apply led_others0.
Qed.

(* -- open -- *)
Lemma os_open_fail : forall o p o1, os_open o p = (o1, None) ->
  tbl o1 = tbl o /\ fs o1 = fs o /\ keep o1 = keep o /\ envs o1 = envs o /\ nfail o1 = nfail o /\
  trace o1 = trace o ++ [EOpen p None].
Proof.
  intros o p o1 H. unfold os_open in H.
  destruct (match p with EmptyString => true | _ => match cscr o (nopen o) with CFailOpen => true | _ => false end end).
  - inversion H; subst; simpl; repeat split; auto.
  - cbv zeta in H. discriminate.
Qed.

Lemma os_open_ok : forall o p o1 fd, os_open o p = (o1, Some fd) ->
  fd = lowest_free (fds_of o) /\ tbl o1 = (fd, mkEnt Dev p) :: tbl o /\
  fs o1 = (match fs o p with None => upd (fs o) p (Some []) | Some _ => fs o end) /\
  keep o1 = keep o /\ envs o1 = envs o /\ nfail o1 = nfail o /\
  trace o1 = trace o ++ [EOpen p (Some fd)] /\ p <> EmptyString.
Proof.
  intros o p o1 fd H. unfold os_open in H.
  destruct (match p with EmptyString => true | _ => match cscr o (nopen o) with CFailOpen => true | _ => false end end) eqn:R;
    [discriminate|].
  cbv zeta in H. inversion H; subst. destruct (fs o p); simpl; repeat split; auto; intros ->; discriminate.
Qed.

Lemma Led_open_fail : forall own o p o1, Led own o -> os_open o p = (o1, None) -> Led own o1.
Proof.
  intros own o p o1 L H. apply os_open_fail in H. destruct H as (Ht & _ & Hk & He & _ & Htr).
  eapply Led_same_tbl; eauto.
Qed.

Lemma Led_open_ok : forall own o p o1 fd, Led own o -> os_open o p = (o1, Some fd) ->
  Led (fd :: own) o1 /\ ~ In fd own /\ ~ In fd (fds_of o) /\ lookup fd (tbl o1) = Some (mkEnt Dev p).
Proof.
  intros own o p o1 fd L H. apply os_open_ok in H. destruct H as (Hfd & Ht & _ & Hk & He & _ & Htr & _).
  assert (Hfresh : ~ In fd (fds_of o)) by (subst fd; apply lowest_free_fresh).
  assert (Hnot : ~ In fd own).
  { intros Hin. apply (led_own _ _ L) in Hin. destruct Hin as [q Hq]. apply lookup_In in Hq. auto. }
  split; [|repeat split; auto; rewrite Ht; simpl; now rewrite Nat.eqb_refl].
  destruct L. constructor.
  - unfold fds_of. rewrite Ht. simpl. constructor; auto.
  - constructor; auto.
  - rewrite Htr, ledger_app, led_ledger0. simpl. apply memb_false in Hnot. now rewrite Hnot.
  - intros n. unfold dev_entry. rewrite Ht. simpl. destruct (fd =? n) eqn:E.
    + apply Nat.eqb_eq in E. subst. split; eauto.
    + apply Nat.eqb_neq in E. rewrite <- (led_own0 n). split; [intros [?|?]; [congruence|auto]|auto].
  - now rewrite Hk, He.
  - intros n Hn. rewrite Hk, He in Hn. unfold env_entry. rewrite Ht. simpl.
    destruct (fd =? n) eqn:E; [|now apply led_others0].
    apply Nat.eqb_eq in E. subst. apply led_others0 in Hn. destruct Hn as [q Hq]. apply lookup_In in Hq. tauto.
Qed.

(* -- close of an owned descriptor -- *)
Lemma Led_close : forall own o n, Led own o -> In n own ->
  Led (filter (fun m => negb (m =? n)) own) (os_close o (Some n)).
Proof.
  intros own o n L Hn. pose proof (proj1 (led_own _ _ L n) Hn) as [p Hp].
  unfold os_close. rewrite Hp. destruct L. constructor; simpl.
  - unfold fds_of. simpl. rewrite fds_remove. now apply NoDup_filter.
  - now apply NoDup_filter.
  - rewrite ledger_app, led_ledger0. simpl. apply memb_In in Hn. now rewrite Hn.
  - intros m. rewrite filter_neq_In. unfold dev_entry. simpl. destruct (Nat.eq_dec m n) as [->|N].
    + rewrite lookup_remove_same. split; [tauto|]. intros [q Hq]. discriminate.
    + rewrite lookup_remove_other by auto. rewrite led_own0. unfold dev_entry. tauto.
  - auto.
  - intros m Hm. unfold env_entry. simpl. destruct (Nat.eq_dec m n) as [->|N].
    + exfalso. apply led_others0 in Hm. destruct Hm as [q Hq]. congruence.
    + rewrite lookup_remove_other by auto. now apply led_others0.
Qed.

Lemma os_close_frame : forall o fd,
  fs (os_close o fd) = fs o /\ nfail (os_close o fd) = nfail o /\ keep (os_close o fd) = keep o /\
  envs (os_close o fd) = envs o.
Proof. intros o [n|]; unfold os_close; [destruct (lookup n (tbl o))|]; simpl; auto. Qed.

(* -- pwrite / file_write on an owned descriptor -- *)
Definition wr_inv (o0 : os) (n : nat) (o : os) : Prop :=
  tbl o = tbl o0 /\ keep o = keep o0 /\ envs o = envs o0 /\ nfail o = nfail o0 /\
  exists evs, trace o = trace o0 ++ evs /\ Forall (is_write_to n) evs.

Lemma wr_inv_refl : forall o n, wr_inv o n o.
Proof. intros. unfold wr_inv. repeat split; auto. exists []. now rewrite app_nil_r. Qed.

Lemma os_pwrite_wr_inv : forall o0 n o off buf o' r,
  wr_inv o0 n o -> os_pwrite (Some n) o off buf = (o', r) -> wr_inv o0 n o'.
Proof.
  intros o0 n o off buf o' r (Ht & Hk & He & Hf & evs & Htr & Hall) H. unfold os_pwrite in H.
  assert (G : forall e, is_write_to n e -> exists evs', trace o ++ [e] = trace o0 ++ evs' /\ Forall (is_write_to n) evs').
  { intros e He'. exists (evs ++ [e]). rewrite Htr, app_assoc. split; auto. apply Forall_app. auto. }
  destruct (lookup n (tbl o)) as [e|].
  - destruct (deliver (wscr o (nwrite o)) (length buf)) as [w|].
    + inversion H; subst. destruct (fs o (fe_path e)); unfold wr_inv; simpl; repeat split; auto;
        apply G; unfold is_write_to; eauto.
    + inversion H; subst. unfold wr_inv; simpl; repeat split; auto. apply G; unfold is_write_to; eauto.
  - inversion H; subst. unfold wr_inv; simpl; repeat split; auto. apply G; unfold is_write_to; eauto.
Qed.

Lemma file_write_wr_inv : forall o n off buf o' ok, file_write o (Some n) off buf = (o', ok) ->
  tbl o' = tbl o /\ keep o' = keep o /\ envs o' = envs o /\
  nfail o' = (if ok then nfail o else S (nfail o)) /\
  exists evs, trace o' = trace o ++ evs /\ Forall (is_write_to n) evs.
Proof.
  intros o n off buf o' ok H. unfold file_write in H.
  destruct (file_write_gen os (os_pwrite (Some n)) o off buf) as [o1 b] eqn:E.
  apply (file_write_gen_inv os (os_pwrite (Some n)) (wr_inv o n)) in E;
    [|intros; eapply os_pwrite_wr_inv; eauto|apply wr_inv_refl].
  destruct E as (Ht & Hk & He & Hf & evs & Htr & Hall).
  destruct b; inversion H; subst; simpl; repeat split; auto; eauto.
Qed.

Lemma Led_file_write : forall own o n off buf o' ok,
  Led own o -> In n own -> file_write o (Some n) off buf = (o', ok) ->
  Led own o' /\ nfail o' = (if ok then nfail o else S (nfail o)).
Proof.
  intros own o n off buf o' ok L Hn H. apply file_write_wr_inv in H.
  destruct H as (Ht & Hk & He & Hf & evs & Htr & Hall). split; auto.
  eapply (Led_same_tbl own own o o' evs); eauto. eapply ledger_writes; eauto.
Qed.

(* Led does not look at the file system, the counters or the scripts *)
Lemma Led_ext : forall own o o',
  Led own o -> tbl o' = tbl o -> keep o' = keep o -> envs o' = envs o -> trace o' = trace o -> Led own o'.
Proof.
  intros own o o' L Ht Hk He Htr.
  eapply (Led_same_tbl own own o o' []); eauto. now rewrite app_nil_r.
Qed.

(* -- file_create -- *)
Lemma Led_file_create : forall own o p o' ok fid,
  Led own o -> file_create o p = (o', ok, fid) ->
  if ok then exists fd, fid = Some fd /\ Led (fd :: own) o' /\ ~ In fd own /\ nfail o' = nfail o /\
                        lookup fd (tbl o') = Some (mkEnt Dev p)
  else Led own o' /\ nfail o' = S (nfail o).
Proof.
  intros own o p o' ok fid L H. unfold file_create in H.
  destruct (os_open o p) as [o1 [fd|]] eqn:E.
  - pose proof (os_open_ok _ _ _ _ E) as (_ & Ht1 & _ & _ & _ & Hf1 & _).
    destruct (Led_open_ok _ _ _ _ _ L E) as (L1 & Hnot & Hfresh & Hlk).
    assert (Lok : forall b, Led (fd :: own) (log o1 (ELock fd b))).
    { intros b. eapply (Led_same_tbl (fd :: own) (fd :: own) o1 _ [ELock fd b]); eauto. simpl.
      now rewrite Nat.eqb_refl. }
    assert (Ltr : forall b, Led (fd :: own) (log (log o1 (ELock fd true)) (ETrunc fd b))).
    { intros b. eapply (Led_same_tbl (fd :: own) (fd :: own) (log o1 (ELock fd true)) _ [ETrunc fd b]); eauto. simpl.
      now rewrite Nat.eqb_refl. }
    assert (Good : Led (fd :: own) (set_fs (log (log o1 (ELock fd true)) (ETrunc fd true))
                                           (upd (fs (log (log o1 (ELock fd true)) (ETrunc fd true))) p (Some [])))).
    { eapply Led_ext; [apply (Ltr true)| | | |]; reflexivity. }
    (* a failure after the open: the descriptor is closed again, the device holds what it held before *)
    assert (Closed : forall o2, Led (fd :: own) o2 -> tbl o2 = tbl o1 ->
                                Led own (bump_fail (os_close o2 (Some fd))) /\
                                nfail (bump_fail (os_close o2 (Some fd))) = S (nfail o2)).
    { intros o2 L2 Ht2. split.
      - pose proof (Led_close _ _ fd L2 (or_introl eq_refl)) as Lc.
        simpl in Lc. rewrite Nat.eqb_refl in Lc. simpl in Lc.
        rewrite filter_neq_notin in Lc by auto.
        eapply Led_ext; [exact Lc| | | |]; reflexivity.
      - simpl. rewrite Ht2, Hlk. reflexivity. }
    destruct (cscr o (nopen o)); cbv zeta in H; inversion H; subst.
    + exists fd. split; [reflexivity|]. split; [exact Good|]. split; [exact Hnot|]. split; simpl; auto.
    + exists fd. split; [reflexivity|]. split; [exact Good|]. split; [exact Hnot|]. split; simpl; auto.
    + destruct (Closed _ (Lok false) eq_refl) as [Lc Nc]. split; [exact Lc|]. etransitivity; [exact Nc|]. simpl. lia.
    + destruct (Closed _ (Ltr false) eq_refl) as [Lc Nc]. split; [exact Lc|]. etransitivity; [exact Nc|]. simpl. lia.
  - inversion H; subst. split.
    + eapply Led_open_fail in E; eauto. eapply Led_ext; [exact E| | | |]; reflexivity.
    + apply os_open_fail in E. destruct E as (_ & _ & _ & _ & Hf & _). simpl. lia.
Qed.

(* what file_create does to the files: the created file is empty afterwards, nothing else changes *)
Lemma file_create_fs : forall o p o' fid, file_create o p = (o', true, fid) ->
  fs o' p = Some [] /\ forall q, q <> p -> fs o' q = fs o q.
Proof.
  intros o p o' fid H. unfold file_create in H.
  destruct (os_open o p) as [o1 [fd|]] eqn:E; [|inversion H].
  pose proof (os_open_ok _ _ _ _ E) as (_ & _ & Hfs & _).
  destruct (cscr o (nopen o)); cbv zeta in H; inversion H; subst; simpl.
  - split. apply upd_same. intros q Hq. rewrite upd_other by auto. rewrite Hfs.
    destruct (fs o p); auto. now rewrite upd_other.
  - split. apply upd_same. intros q Hq. rewrite upd_other by auto. rewrite Hfs.
    destruct (fs o p); auto. now rewrite upd_other.
Qed.

(* -- file_is_writable -- *)
Lemma Led_file_is_writable : forall own o p o' ok,
  Led own o -> file_is_writable o p = (o', ok) ->
  Led own o' /\ nfail o' = (if ok then nfail o else S (nfail o)).
Proof.
  intros own o p o' ok L H. unfold file_is_writable in H.
  destruct (fs o p). { inversion H; subst. auto. }
  destruct (os_open o p) as [o1 [fd|]] eqn:E.
  - destruct (Led_open_ok _ _ _ _ _ L E) as (L1 & Hnot & Hfresh & Hlk).
    pose proof (os_open_ok _ _ _ _ E) as (_ & _ & _ & _ & _ & Hf1 & _).
    pose proof (Led_close _ _ fd L1 (or_introl eq_refl)) as Lc.
    simpl in Lc. rewrite Nat.eqb_refl in Lc. simpl in Lc. rewrite filter_neq_notin in Lc by auto.
    inversion H; subst. split.
    + eapply Led_ext; [exact Lc| | | |]; reflexivity.
    + simpl. rewrite Hlk. simpl. exact Hf1.
  - inversion H; subst. split.
    + eapply Led_open_fail in E; eauto. eapply Led_ext; [exact E| | | |]; reflexivity.
    + apply os_open_fail in E. destruct E as (_ & _ & _ & _ & Hf & _). simpl. lia.
Qed.

(* what a successful writability probe does to the files: nothing, except that a file that did not exist still
   does not exist *)
Lemma file_is_writable_fs : forall o p o' ok, file_is_writable o p = (o', ok) -> forall q, fs o' q = fs o q.
Proof.
  intros o p o' ok H q. unfold file_is_writable in H.
  destruct (fs o p) eqn:F. { now inversion H; subst. }
  destruct (os_open o p) as [o1 [fd|]] eqn:E.
  - pose proof (os_open_ok _ _ _ _ E) as (_ & _ & Hfs & _). rewrite F in Hfs.
    destruct (os_close_frame o1 (Some fd)) as (Hc & _).
    remember (os_close o1 (Some fd)) as oc. inversion H; subst o' ok. simpl. rewrite Hc, Hfs.
    destruct (String.eqb q p) eqn:Q.
    + apply String.eqb_eq in Q. subst. now rewrite upd_same.
    + apply String.eqb_neq in Q. now rewrite !upd_other by auto.
  - apply os_open_fail in E. destruct E as (_ & Hfs & _). inversion H; subst. simpl. now rewrite Hfs.
Qed.

(* -- the environment -- *)
Lemma Led_env_open : forall own o, Led own o -> Led own (env_open o).
Proof.
  intros own o L. unfold env_open.
  set (fd := lowest_free (fds_of o)).
  assert (Hfresh : ~ In fd (fds_of o)) by apply lowest_free_fresh.
  assert (Hnk : ~ In fd (keep o ++ envs o)).
  { intros Hin. apply (led_others _ _ L) in Hin. destruct Hin as [q Hq]. apply lookup_In in Hq. auto. }
  destruct L. constructor; simpl.
  - unfold fds_of. simpl. constructor; auto.
  - auto.
  - rewrite ledger_app, led_ledger0. reflexivity.
  - intros n. unfold dev_entry. simpl. destruct (fd =? n) eqn:E.
    + apply Nat.eqb_eq in E. subst n. split.
      * intros Hin. apply led_own0 in Hin. destruct Hin as [q Hq]. apply lookup_In in Hq. tauto.
      * intros [q Hq]. discriminate.
    + apply led_own0.
  - rewrite app_assoc. apply NoDup_app_snoc; auto.
  - intros n Hn. unfold env_entry. simpl. destruct (fd =? n) eqn:E. eauto.
    apply led_others0. rewrite app_assoc in Hn. apply in_app_or in Hn. destruct Hn as [?|[?|[]]]; auto.
    apply Nat.eqb_neq in E. congruence.
Qed.

Lemma NoDup_app_filter : forall (a b : list nat) fd,
  NoDup (a ++ b) -> NoDup (a ++ filter (fun n => negb (n =? fd)) b).
Proof.
  induction a as [|x a IH]; simpl; intros b fd H.
  - now apply NoDup_filter.
  - inversion H; subst. constructor; auto.
    rewrite in_app_iff in *. rewrite filter_neq_In. tauto.
Qed.

(* the environment closes one of ITS descriptors (never one of [keep], never one of the device's) *)
Lemma Led_env_close : forall own o k, Led own o -> Led own (env_close o k).
Proof.
  intros own o k L. unfold env_close.
  destruct (nth_error (envs o) k) as [fd|] eqn:E; auto.
  apply nth_error_In in E.
  assert (Henv : env_entry o fd) by (apply (led_others _ _ L); rewrite in_app_iff; auto).
  assert (Hnown : ~ In fd own).
  { intros Hin. apply (led_own _ _ L) in Hin. eapply entry_excl; eauto. }
  assert (Hnkeep : ~ In fd (keep o)).
  { intros Hin. pose proof (led_others_nodup _ _ L) as Hnd.
    apply in_split in Hin. destruct Hin as (k1 & k2 & Hk). rewrite Hk in Hnd.
    rewrite <- app_assoc in Hnd. simpl in Hnd. apply NoDup_remove_2 in Hnd.
    apply Hnd. rewrite !in_app_iff. auto. }
  destruct L. constructor; simpl.
  - unfold fds_of. simpl. rewrite fds_remove. now apply NoDup_filter.
  - auto.
  - rewrite ledger_app, led_ledger0. reflexivity.
  - intros n. unfold dev_entry. simpl. destruct (Nat.eq_dec n fd) as [->|N].
    + rewrite lookup_remove_same. split; [tauto|]. intros [q Hq]. discriminate.
    + rewrite lookup_remove_other by auto. apply led_own0.
  - now apply NoDup_app_filter.
  - intros n Hn. unfold env_entry. simpl.
    assert (Hn' : In n (keep o ++ envs o) /\ n <> fd).
    { rewrite in_app_iff in *. destruct Hn as [Hn|Hn].
      - split; auto. intros ->. auto.
      - apply filter_neq_In in Hn. tauto. }
    destruct Hn' as [Hn1 Hn2]. rewrite lookup_remove_other by auto. now apply led_others0.
Qed.

(* ------------------------------------------------------------------ file_write on any descriptor argument *)
(* whatever the descriptor argument is (owned, stale, -1): the table, the bookkeeping lists and, when the call
   succeeds, the failure counter are untouched; a failing call counts one failure *)
Definition wr_frame (o0 o : os) : Prop :=
  tbl o = tbl o0 /\ keep o = keep o0 /\ envs o = envs o0 /\ nfail o = nfail o0 /\ cscr o = cscr o0 /\ wscr o = wscr o0 /\
  nopen o = nopen o0.

Lemma os_pwrite_wr_frame : forall o0 fid o off buf o' r,
  wr_frame o0 o -> os_pwrite fid o off buf = (o', r) -> wr_frame o0 o'.
Proof.
  intros o0 fid o off buf o' r (Ht & Hk & He & Hf & Hc & Hw & Hn) H. unfold os_pwrite in H.
  destruct (match fid with None => None | Some n => lookup n (tbl o) end) as [e|].
  - destruct (deliver (wscr o (nwrite o)) (length buf)) as [w|].
    + inversion H; subst. destruct (fs o (fe_path e)); unfold wr_frame; simpl; repeat split; auto.
    + inversion H; subst. unfold wr_frame; simpl; repeat split; auto.
  - inversion H; subst. unfold wr_frame; simpl; repeat split; auto.
Qed.

Lemma file_write_frame : forall o fid off buf o' ok, file_write o fid off buf = (o', ok) ->
  tbl o' = tbl o /\ keep o' = keep o /\ envs o' = envs o /\ cscr o' = cscr o /\ wscr o' = wscr o /\ nopen o' = nopen o /\
  nfail o' = (if ok then nfail o else S (nfail o)).
Proof.
  intros o fid off buf o' ok H. unfold file_write in H.
  destruct (file_write_gen os (os_pwrite fid) o off buf) as [o1 b] eqn:E.
  apply (file_write_gen_inv os (os_pwrite fid) (wr_frame o)) in E.
  - destruct E as (Ht & Hk & He & Hf & Hc & Hw & Hn).
    destruct b; inversion H; subst; simpl; repeat split; auto.
  - intros; eapply os_pwrite_wr_frame; eauto.
  - unfold wr_frame; repeat split; auto.
Qed.
