(* FdTable.v -- the operating system as the storage devices see it: the process descriptor table (open hands out the
   LOWEST free number, so a number a device has closed is re-used by whoever opens next), a flat file system, scripts
   that decide which open / flock / ftruncate / pwrite calls fail or come back short, the log of system calls, and the
   functions of acquire-core-platform/linux/platform.c on top of it.  MODEL ONLY (proofs: FdTableProofs.v). *)
From Coq Require Import String.
From Coq Require Import List Arith NArith Bool.
From FileIO Require Import Pwrite.
Import ListNotations.

Definition path := string.

Inductive owner := Dev | Env.          (* the storage device under test | anybody else in the process *)
Record fdent := mkEnt { fe_owner : owner; fe_path : path }.

(* answer to one open() call and to the two calls file_create issues on the new descriptor:
     CFailOpen    = open fails;
     CFailLock    = open succeeds, the flock that file_create issues next fails;
     CFailTrunc e = open and flock succeed, the ftruncate(fd, 0) that file_create issues third fails with errno e
   (file_is_writable issues only the open: for it CFailLock / CFailTrunc are plain successes) *)
Inductive cresp := COk | CFailOpen | CFailLock | CFailTrunc (e : errno).

(* two answers that differ at most in the error number of the failing ftruncate *)
Definition same_cshape (a b : cresp) : Prop :=
  match a, b with
  | COk, COk => True
  | CFailOpen, CFailOpen => True
  | CFailLock, CFailLock => True
  | CFailTrunc _, CFailTrunc _ => True
  | _, _ => False
  end.
(* two create scripts that fail the same calls in the same way, possibly with other error numbers *)
Definition cerrno_variant (cs cs' : nat -> cresp) : Prop := forall k, same_cshape (cs k) (cs' k).

(* system calls issued by the device (fd arguments are the C ints: None = -1), and by the environment *)
Inductive event :=
| EOpen (p : path) (r : option nat)
| ELock (fd : nat) (ok : bool)
| ETrunc (fd : nat) (ok : bool)                              (* ftruncate(fd, 0) *)
| EWrite (fd : option nat) (off len : nat) (r : option nat)
| EClose (fd : option nat) (ok : bool)
| EEnvOpen (fd : nat)
| EEnvClose (fd : nat).

Record os := mkOS {
  tbl : list (nat * fdent);        (* open descriptors *)
  fs : path -> option file;        (* existing files and their bytes *)
  cscr : nat -> cresp;             (* script: answer to the k-th open *)
  wscr : nat -> wresp;             (* script: answer to the k-th pwrite *)
  nopen : nat;                     (* open calls so far *)
  nwrite : nat;                    (* pwrite calls so far *)
  nfail : nat;                     (* ghost: file_create / file_write / writability-probe calls that returned 0 *)
  keep : list nat;                 (* ghost: descriptors that were open before the device was created (stdin, ...) *)
  envs : list nat;                 (* ghost: descriptors the environment has opened since and not closed, oldest first *)
  trace : list event               (* chronological *)
}.

Definition os_init (env_fds : list nat) (cs : nat -> cresp) (ws : nat -> wresp) : os :=
  mkOS (map (fun n => (n, mkEnt Env EmptyString)) env_fds) (fun _ => None) cs ws 0 0 0 env_fds [] [].

(* ---- descriptor table ---- *)
Fixpoint lookup (fd : nat) (t : list (nat * fdent)) : option fdent :=
  match t with
  | [] => None
  | (n, e) :: t' => if n =? fd then Some e else lookup fd t'
  end.

Definition remove_fd (fd : nat) (t : list (nat * fdent)) : list (nat * fdent) :=
  filter (fun e => negb (fst e =? fd)) t.

Definition memb (n : nat) (l : list nat) : bool := existsb (Nat.eqb n) l.

Fixpoint lf (fuel n : nat) (fds : list nat) : nat :=
  match fuel with
  | 0 => n
  | S f => if memb n fds then lf f (S n) fds else n
  end.
(* POSIX: "the lowest-numbered file descriptor not currently open for the process" *)
Definition lowest_free (fds : list nat) : nat := lf (length fds) 0 fds.

Definition fds_of (o : os) : list nat := map fst (tbl o).

(* ---- record updates ---- *)
Definition set_tbl (o : os) t := mkOS t (fs o) (cscr o) (wscr o) (nopen o) (nwrite o) (nfail o) (keep o) (envs o) (trace o).
Definition set_fs (o : os) f := mkOS (tbl o) f (cscr o) (wscr o) (nopen o) (nwrite o) (nfail o) (keep o) (envs o) (trace o).
Definition set_envs (o : os) e := mkOS (tbl o) (fs o) (cscr o) (wscr o) (nopen o) (nwrite o) (nfail o) (keep o) e (trace o).
Definition bump_open (o : os) := mkOS (tbl o) (fs o) (cscr o) (wscr o) (S (nopen o)) (nwrite o) (nfail o) (keep o) (envs o) (trace o).
Definition bump_write (o : os) := mkOS (tbl o) (fs o) (cscr o) (wscr o) (nopen o) (S (nwrite o)) (nfail o) (keep o) (envs o) (trace o).
Definition bump_fail (o : os) := mkOS (tbl o) (fs o) (cscr o) (wscr o) (nopen o) (nwrite o) (S (nfail o)) (keep o) (envs o) (trace o).
Definition log (o : os) (e : event) := mkOS (tbl o) (fs o) (cscr o) (wscr o) (nopen o) (nwrite o) (nfail o) (keep o) (envs o) (trace o ++ [e]).

Definition upd (f : path -> option file) (p : path) (v : option file) : path -> option file :=
  fun q => if String.eqb q p then v else f q.

(* ---- system calls issued by the device ---- *)
(* open(p, O_RDWR|O_CREAT|O_NONBLOCK, 0666): never truncates *)
Definition os_open (o : os) (p : path) : os * option nat :=
  let k := nopen o in
  let refuse := match p with EmptyString => true | _ => match cscr o k with CFailOpen => true | _ => false end end in
  if refuse then (log (bump_open o) (EOpen p None), None)
  else
    let fd := lowest_free (fds_of o) in
    let o1 := set_tbl (bump_open o) ((fd, mkEnt Dev p) :: tbl o) in
    let o2 := match fs o p with None => set_fs o1 (upd (fs o) p (Some [])) | Some _ => o1 end in
    (log o2 (EOpen p (Some fd)), Some fd).

Definition os_close (o : os) (fd : option nat) : os :=
  match fd with
  | None => log o (EClose None false)
  | Some n =>
    match lookup n (tbl o) with
    | None => log o (EClose (Some n) false)                       (* EBADF *)
    | Some _ => log (set_tbl o (remove_fd n (tbl o))) (EClose (Some n) true)
    end
  end.

(* pwrite(fd, buf, |buf|, off), |buf| > 0 *)
Definition os_pwrite (fd : option nat) (o : os) (off : nat) (buf : list byte) : os * option nat :=
  let k := nwrite o in
  let o1 := bump_write o in
  let ent := match fd with None => None | Some n => lookup n (tbl o) end in
  match ent with
  | None => (log o1 (EWrite fd off (length buf) None), None)    (* EBADF whatever the script says *)
  | Some e =>
    match deliver (wscr o k) (length buf) with
    | None => (log o1 (EWrite fd off (length buf) None), None)
    | Some w =>
      let o2 := match fs o (fe_path e) with
                | Some c => set_fs o1 (upd (fs o) (fe_path e) (Some (pwrite_file c off (firstn w buf))))
                | None => o1                                     (* unlinked while open: the bytes are lost *)
                end in
      (log o2 (EWrite fd off (length buf) (Some w)), Some w)
    end
  end.

(* ---- acquire-core-platform/linux/platform.c ---- *)
(* file_create: returns the new state, the return value, and the number left in file->fid.
     file->fid = open(..O_CREAT..); if (fid < 0) fail;
     if (flock(fid) < 0) { close(fid); fail }
     if (ftruncate(fid, 0) < 0) { close(fid); fail }      -- drops the old contents of an existing file
   Each of the three system calls may fail (create script); the two later failures close the descriptor they were
   given, return 0 and leave the -- now stale -- number in file->fid.  Which errno the failing ftruncate reports is
   looked at only to log it (CHECK_POSIX(tmp) with tmp = errno != 0): every error number takes the same path
   (ErrnoProofs.file_create_ev).  A failed ftruncate leaves the contents of the file alone. *)
Definition file_create (o : os) (p : path) : os * bool * option nat :=
  let k := nopen o in
  match os_open o p with
  | (o1, None) => (bump_fail o1, false, None)
  | (o1, Some fd) =>
    match cscr o k with
    | CFailLock => (bump_fail (os_close (log o1 (ELock fd false)) (Some fd)), false, Some fd)
    | CFailTrunc _ =>
      (bump_fail (os_close (log (log o1 (ELock fd true)) (ETrunc fd false)) (Some fd)), false, Some fd)
    | _ => let o2 := log (log o1 (ELock fd true)) (ETrunc fd true) in
           (set_fs o2 (upd (fs o2) p (Some [])), true, Some fd)
    end
  end.

Definition file_close (o : os) (fid : option nat) : os := os_close o fid.

Definition file_write (o : os) (fid : option nat) (off : nat) (buf : list byte) : os * bool :=
  match file_write_gen os (os_pwrite fid) o off buf with
  | (o', true) => (o', true)
  | (o', false) => (bump_fail o', false)
  end.

(* file_is_writable (raw_set, Tiff::set): an existing file is taken to be writable (permissions are not modelled);
   otherwise open(O_CREAT), close, unlink *)
Definition file_is_writable (o : os) (p : path) : os * bool :=
  match fs o p with
  | Some _ => (o, true)
  | None =>
    match os_open o p with
    | (o1, None) => (bump_fail o1, false)
    | (o1, Some fd) =>
      let o2 := os_close o1 (Some fd) in
      (set_fs o2 (upd (fs o2) p None), true)
    end
  end.

(* ---- the environment: somebody else in the process opens / closes descriptors of its own ---- *)
Definition env_open (o : os) : os :=
  let fd := lowest_free (fds_of o) in
  log (set_envs (set_tbl o ((fd, mkEnt Env EmptyString) :: tbl o)) (envs o ++ [fd])) (EEnvOpen fd).

Definition env_close (o : os) (k : nat) : os :=
  match nth_error (envs o) k with
  | None => o
  | Some fd =>
    log (set_envs (set_tbl o (remove_fd fd (tbl o))) (filter (fun n => negb (n =? fd)) (envs o))) (EEnvClose fd)
  end.

(* ---- the descriptor ledger of the device, over the system-call log ----
   own = descriptors the device has opened and not closed.  None = some call targeted a descriptor outside own
   (or open handed out a number the device still holds). *)
Definition ledger_step (own : list nat) (e : event) : option (list nat) :=
  match e with
  | EOpen _ None => Some own
  | EOpen _ (Some fd) => if memb fd own then None else Some (fd :: own)
  | ELock fd _ => if memb fd own then Some own else None
  | ETrunc fd _ => if memb fd own then Some own else None
  | EWrite None _ _ _ => None
  | EWrite (Some fd) _ _ _ => if memb fd own then Some own else None
  | EClose None _ => None
  | EClose (Some fd) _ => if memb fd own then Some (filter (fun n => negb (n =? fd)) own) else None
  | EEnvOpen _ => Some own
  | EEnvClose _ => Some own
  end.

Fixpoint ledger (own : list nat) (tr : list event) : option (list nat) :=
  match tr with
  | [] => Some own
  | e :: tr' => match ledger_step own e with None => None | Some own' => ledger own' tr' end
  end.

(* counting formulation used in the statements *)
Definition opens_of (fd : nat) (e : event) : nat :=
  match e with EOpen _ (Some n) => if n =? fd then 1 else 0 | _ => 0 end.
Definition closes_of (fd : nat) (e : event) : nat :=
  match e with EClose (Some n) _ => if n =? fd then 1 else 0 | _ => 0 end.
Fixpoint count_ev (f : event -> nat) (tr : list event) : nat :=
  match tr with [] => 0 | e :: tr' => f e + count_ev f tr' end.

(* the descriptor a device call acts on *)
Definition targets (e : event) : option (option nat) :=
  match e with
  | ELock fd _ => Some (Some fd)
  | ETrunc fd _ => Some (Some fd)
  | EWrite fd _ _ _ => Some fd
  | EClose fd _ => Some fd
  | _ => None
  end.
