(* Raw.v -- model of acquire-driver-common/src/storage/raw.c, function by function.  MODEL ONLY.
   The model describes the code WITH the fixes fam/fileio/fixes/01 (D3) and 02 (D4); the unfixed statements are kept
   behind the switches of [variant] so that the defects can be exhibited on the model too (Properties_C14.v:
   D3_unrepaired_hole; Properties_C16.v: D4_unrepaired_closes_stdin / _closes_foreign, D5a_unrepaired_diverges,
   D5b_unrepaired_not_reported, D6_unrepaired_leaks) and the oracle can be asked for either behaviour. *)
From Coq Require Import String Ascii.
From Coq Require Import List Arith NArith Bool.
From FileIO Require Import Pwrite FdTable.
Import ListNotations.
Open Scope string_scope.

(* which repairs the modelled code contains *)
Record variant := mkVariant {
  fix_d3 : bool;    (* raw_start resets the offset *)
  fix_d4 : bool;    (* raw_stop closes only an open file *)
  fix_d5a : bool;   (* Tiff::stop leaves Running before terminate_ifd_list *)
  fix_d5b : bool;   (* Tiff::write_ reports failure; start/append act on it *)
  fix_d6 : bool     (* side-by-side stores the inner writer's state *)
}.
Definition fixed := mkVariant true true true true true.
Definition unfixed := mkVariant false false false false false.

Inductive dstate := Closed | AwaitingConfiguration | Armed | Running.   (* enum DeviceState *)
Definition dstate_eqb (a b : dstate) : bool :=
  match a, b with
  | Closed, Closed | AwaitingConfiguration, AwaitingConfiguration | Armed, Armed | Running, Running => true
  | _, _ => false
  end.

(* uri handling shared by raw_set, Tiff::set, side_by_side_tiff_set:
     offset = strlen(uri) >= 7 && strncmp(uri, "file://", 7) == 0 ? 7 : 0;  filename = uri + offset *)
Fixpoint drop_prefix (pre s : string) : option string :=
  match pre with
  | EmptyString => Some s
  | String a pre' =>
    match s with
    | EmptyString => None
    | String b s' => if Ascii.eqb a b then drop_prefix pre' s' else None
    end
  end.
Definition strip (uri : string) : string :=
  match drop_prefix "file://" uri with Some r => r | None => uri end.

(* struct Raw: writer.state (written by the HAL only), properties.uri, file.fid, is_open (fix 02), offset *)
Record raw := mkRaw {
  r_state : dstate;
  r_uri : string;
  r_fid : option nat;
  r_open : bool;
  r_off : nat
}.

(* raw_init: memset 0 (so file.fid = 0), uri "out.raw" *)
Definition raw_init : raw := mkRaw AwaitingConfiguration "out.raw" (Some 0) false 0.

(* raw_set.  uri.str is non-NULL and nbytes > 0 (the caller's StorageProperties come from storage_properties_init);
   allocation failure in storage_properties_copy is not modelled. *)
Definition raw_set (uri : string) (d : raw) (o : os) : raw * os * dstate :=
  let filename := strip uri in
  match file_is_writable o filename with
  | (o1, false) => (d, o1, AwaitingConfiguration)
  | (o1, true) => (mkRaw (r_state d) filename (r_fid d) (r_open d) (r_off d), o1, Armed)
  end.

Definition raw_start (v : variant) (d : raw) (o : os) : raw * os * dstate :=
  match file_create o (r_uri d) with
  | (o1, false, fid) => (mkRaw (r_state d) (r_uri d) fid (r_open d) (r_off d), o1, AwaitingConfiguration)
  | (o1, true, fid) =>
    (mkRaw (r_state d) (r_uri d) fid (if fix_d4 v then true else r_open d) (if fix_d3 v then 0 else r_off d),
     o1, Running)
  end.

Definition raw_stop (v : variant) (d : raw) (o : os) : raw * os * dstate :=
  if fix_d4 v then
    if r_open d then (mkRaw (r_state d) (r_uri d) (r_fid d) false (r_off d), file_close o (r_fid d), Armed)
    else (d, o, Armed)
  else (d, file_close o (r_fid d), Armed).

Definition raw_append (v : variant) (pkt : list byte) (d : raw) (o : os) : raw * os * dstate :=
  match file_write o (r_fid d) (r_off d) pkt with
  | (o1, true) => (mkRaw (r_state d) (r_uri d) (r_fid d) (r_open d) (r_off d + length pkt), o1, Running)
  | (o1, false) => raw_stop v d o1
  end.

(* raw_destroy: raw_stop, then the object is freed *)
Definition raw_destroy (v : variant) (d : raw) (o : os) : os :=
  let '(_, o1, _) := raw_stop v d o in o1.
