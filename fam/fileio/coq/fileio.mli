
val negb : bool -> bool

type nat =
| O
| S of nat

val fst : ('a1 * 'a2) -> 'a1

val length : 'a1 list -> nat

val app : 'a1 list -> 'a1 list -> 'a1 list

val add : nat -> nat -> nat

module Nat :
 sig
  val eqb : nat -> nat -> bool

  val leb : nat -> nat -> bool

  val ltb : nat -> nat -> bool

  val min : nat -> nat -> nat
 end

type positive =
| XI of positive
| XO of positive
| XH

type n =
| N0
| Npos of positive

val nth_error : 'a1 list -> nat -> 'a1 option

val map : ('a1 -> 'a2) -> 'a1 list -> 'a2 list

val existsb : ('a1 -> bool) -> 'a1 list -> bool

val filter : ('a1 -> bool) -> 'a1 list -> 'a1 list

val firstn : nat -> 'a1 list -> 'a1 list

val skipn : nat -> 'a1 list -> 'a1 list

val repeat : 'a1 -> nat -> 'a1 list

val eqb0 : char list -> char list -> bool

val append : char list -> char list -> char list

type byte = n

type file = byte list

val write_at : file -> nat -> byte list -> file

val pwrite_file : file -> nat -> byte list -> file

type errno =
| EIO
| ENOSPC
| EAGAIN
| EINTR
| EBADF
| EINVAL

type wresp =
| WFull
| WCount of nat
| WErr of errno

val deliver : wresp -> nat -> nat option

val fw_loop :
  ('a1 -> nat -> byte list -> 'a1 * nat option) -> nat -> nat -> 'a1 -> nat
  -> byte list -> ('a1 * bool) option

val file_write_gen :
  ('a1 -> nat -> byte list -> 'a1 * nat option) -> 'a1 -> nat -> byte list ->
  'a1 * bool

type st1 = nat * file

val prim1 : (nat -> wresp) -> st1 -> nat -> byte list -> st1 * nat option

val file_write1 : (nat -> wresp) -> st1 -> nat -> byte list -> st1 * bool

type path = char list

type owner =
| Dev
| Env

type fdent = { fe_owner : owner; fe_path : path }

type cresp =
| COk
| CFailOpen
| CFailLock
| CFailTrunc of errno

type event =
| EOpen of path * nat option
| ELock of nat * bool
| ETrunc of nat * bool
| EWrite of nat option * nat * nat * nat option
| EClose of nat option * bool
| EEnvOpen of nat
| EEnvClose of nat

type os = { tbl : (nat * fdent) list; fs : (path -> file option);
            cscr : (nat -> cresp); wscr : (nat -> wresp); nopen : nat;
            nwrite : nat; nfail : nat; keep : nat list; envs : nat list;
            trace : event list }

val os_init : nat list -> (nat -> cresp) -> (nat -> wresp) -> os

val lookup : nat -> (nat * fdent) list -> fdent option

val remove_fd : nat -> (nat * fdent) list -> (nat * fdent) list

val memb : nat -> nat list -> bool

val lf : nat -> nat -> nat list -> nat

val lowest_free : nat list -> nat

val fds_of : os -> nat list

val set_tbl : os -> (nat * fdent) list -> os

val set_fs : os -> (path -> file option) -> os

val set_envs : os -> nat list -> os

val bump_open : os -> os

val bump_write : os -> os

val bump_fail : os -> os

val log : os -> event -> os

val upd : (path -> file option) -> path -> file option -> path -> file option

val os_open : os -> path -> os * nat option

val os_close : os -> nat option -> os

val os_pwrite : nat option -> os -> nat -> byte list -> os * nat option

val file_create : os -> path -> (os * bool) * nat option

val file_close : os -> nat option -> os

val file_write : os -> nat option -> nat -> byte list -> os * bool

val file_is_writable : os -> path -> os * bool

val env_open : os -> os

val env_close : os -> nat -> os

val ledger_step : nat list -> event -> nat list option

val ledger : nat list -> event list -> nat list option

type variant = { fix_d3 : bool; fix_d4 : bool; fix_d5a : bool;
                 fix_d5b : bool; fix_d6 : bool }

val fixed : variant

val unfixed : variant

type dstate =
| Closed
| AwaitingConfiguration
| Armed
| Running

val dstate_eqb : dstate -> dstate -> bool

val drop_prefix : char list -> char list -> char list option

val strip : char list -> char list

type raw = { r_state : dstate; r_uri : char list; r_fid : nat option;
             r_open : bool; r_off : nat }

val raw_init : raw

val raw_set : char list -> raw -> os -> (raw * os) * dstate

val raw_start : variant -> raw -> os -> (raw * os) * dstate

val raw_stop : variant -> raw -> os -> (raw * os) * dstate

val raw_append : variant -> byte list -> raw -> os -> (raw * os) * dstate

val raw_destroy : variant -> raw -> os -> os

type 'a outcome =
| Ret of 'a
| Diverges

type tiff = { t_state : dstate; t_fname : char list; t_fid : nat option;
              t_fc : nat }

val tiff_init : tiff

val tiff_put_state : tiff -> dstate -> tiff

val zero_buf : nat -> byte list

val sizeof_header : nat

val sizeof_ifd : nat

val sizeof_link : nat

val t_write_ :
  nat -> variant -> nat -> tiff -> os -> ((tiff * os) * bool) outcome

val t_stop : nat -> variant -> tiff -> os -> (tiff * os) outcome

val tiff_set : char list -> tiff -> os -> (tiff * os) * dstate

val tiff_start :
  nat -> variant -> tiff -> os -> ((tiff * os) * dstate) outcome

val tiff_stop : nat -> variant -> tiff -> os -> ((tiff * os) * dstate) outcome

type frame = nat * (nat * nat)

val t_append :
  nat -> variant -> frame list -> tiff -> os -> ((tiff * os) * bool) outcome

val tiff_append :
  nat -> variant -> frame list -> tiff -> os -> ((tiff * os) * dstate) outcome

val tiff_destroy : nat -> variant -> tiff -> os -> os outcome

type sbs = { s_state : dstate; s_uri : char list; s_meta : nat; s_tiff : tiff }

val sbs_init : sbs

val sbs_put_tiff : sbs -> tiff -> sbs

val sbs_set : char list -> nat -> sbs -> os -> (sbs * os) * dstate

val sbs_start : nat -> variant -> sbs -> os -> ((sbs * os) * dstate) outcome

val sbs_stop : nat -> variant -> sbs -> os -> ((sbs * os) * dstate) outcome

val sbs_append :
  nat -> variant -> frame list -> sbs -> os -> ((sbs * os) * dstate) outcome

val sbs_destroy : nat -> variant -> sbs -> os -> os outcome

type kind =
| KRaw
| KTiff
| KSbs
| KTrash

type dev =
| DRaw of raw
| DTiff of tiff
| DSbs of sbs
| DTrash of dstate

val dev_init : kind -> dev

val get_state : dev -> dstate

val put_state : dev -> dstate -> dev

type packet = { p_bytes : byte list; p_frames : frame list }

val dev_set : char list -> nat -> dev -> os -> (dev * os) * dstate

val dev_start : nat -> variant -> dev -> os -> ((dev * os) * dstate) outcome

val dev_append :
  nat -> variant -> packet -> dev -> os -> ((dev * os) * dstate) outcome

val dev_stop : nat -> variant -> dev -> os -> ((dev * os) * dstate) outcome

val dev_destroy : nat -> variant -> dev -> os -> os outcome

type status =
| Ok
| Err

val hal_set : char list -> nat -> dev -> os -> (dev * os) * status

val hal_start : nat -> variant -> dev -> os -> ((dev * os) * status) outcome

val hal_append :
  nat -> variant -> packet -> dev -> os -> ((dev * os) * status) outcome

val hal_stop : nat -> variant -> dev -> os -> ((dev * os) * status) outcome

val hal_close : nat -> variant -> dev -> os -> os outcome

type op =
| OSet of char list * nat
| OStart
| OAppend of packet
| OStop
| OEnvOpen
| OEnvClose of nat

val step : nat -> variant -> op -> dev -> os -> ((dev * os) * status) outcome

val allowed : op -> dev -> bool

val run :
  nat -> variant -> op list -> dev -> os -> ((((bool * status) * dstate)
  list * dev) * os) outcome

val life :
  nat -> variant -> kind -> op list -> os -> (((bool * status) * dstate)
  list * os) outcome

val fUEL : nat
