From FileIO Require Import Pwrite FdTable Raw TiffFail SideBySide Hal.
