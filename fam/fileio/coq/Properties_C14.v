(* Properties_C14.v -- C14: raw files contain exactly the appended frames, byte for byte.

   "The file written by the raw storage device during an acquisition consists of precisely the frames appended during
    that acquisition, headers and pixel bytes, back to back and in order, whatever the packet boundaries, frame sizes,
    short writes by the operating system, plain or file:// form of the URI, or earlier acquisitions made with the same
    device to other paths."

   Models (statement by statement, of the code WITH the repairs fixes/01 and fixes/02 and with file_create truncating
   the file it has locked, as /repo does since 468e0c6):
     Pwrite.v   file_write of linux/platform.c as a loop over an operating system that answers every pwrite with any
                count 0..remaining or an error;
     FdTable.v  the descriptor table (lowest free number), a flat file system, create / write scripts, the system-call
                log, file_create (open, flock, ftruncate -- each may fail) / file_close / file_write / file_is_writable;
     Raw.v      raw_set / raw_start / raw_append / raw_stop / raw_destroy;   Hal.v  the HAL storage_* wrappers, histories.
   A packet is an arbitrary byte string: frame headers and pixel bytes are not interpreted by raw.c, so "every frame-size
   sequence and every grouping of frames into packets" is "every list of byte strings".

   This file contains statements only; every proof is [exact <lemma of PwriteProofs.v / C14Proofs.v>]. *)
From Coq Require Import String.
From Coq Require Import List Arith NArith Bool.
From FileIO Require Import Pwrite FdTable Raw TiffFail SideBySide Hal Spec PwriteProofs C14Proofs ErrnoProofs.
Import ListNotations.
Local Open Scope nat_scope.
Local Open Scope list_scope.

(* ---------------------------------------------------------------------------------------------------------------
   Pwrite_all.  [ws] is the operating system's answer to the k-th pwrite call (any count, or an error), [pat] the
   counts delivered to this file_write call.  For EVERY short-write pattern that delivers all bytes with fewer than
   three zero-length results and no error, the loop returns 1, the file holds the buffer at [off, off+n), and every
   other byte is what it was (a byte beyond the old end of file reads as zero: the hole POSIX leaves). *)
Theorem Pwrite_all :
  forall ws pat k f off buf,
    delivers ws k (length buf) pat -> list_sum pat = length buf -> zeros pat < 3 ->
    exists k' f', file_write1 ws (k, f) off buf = ((k', f'), true) /\ k' <= k + length pat /\
      f' = pwrite_file f off buf /\
      (forall i, i < length buf -> nth (off + i) f' 0%N = nth i buf 0%N) /\
      (forall i, i < off \/ off + length buf <= i -> nth i f' 0%N = nth i f 0%N).
Proof. exact pwrite_all. Qed.
Print Assumptions Pwrite_all.

(* Pwrite_fail.  Otherwise (an error, three zero-length results, or a script that never delivers everything) it
   returns 0 ... *)
Theorem Pwrite_fail :
  forall ws k f off buf k' f' b,
    file_write1 ws (k, f) off buf = ((k', f'), b) ->
    (forall pat, delivers ws k (length buf) pat -> list_sum pat = length buf -> zeros pat < 3 -> False) ->
    b = false.
Proof. exact pwrite_fail. Qed.
Print Assumptions Pwrite_fail.

(* ... and whatever it returns, what it has written is a prefix of the buffer, in place, and nothing else. *)
Theorem Pwrite_frame :
  forall ws k f off buf k' f' b,
    file_write1 ws (k, f) off buf = ((k', f'), b) ->
    exists m, m <= length buf /\ f' = pwrite_file f off (firstn m buf) /\ (b = true -> m = length buf).
Proof. exact file_write1_frame. Qed.
Print Assumptions Pwrite_frame.

(* the converse of Pwrite_all: a return value of 1 was produced by such a pattern *)
Theorem Pwrite_true :
  forall ws k f off buf k' f',
    file_write1 ws (k, f) off buf = ((k', f'), true) ->
    exists pat, delivers ws k (length buf) pat /\ list_sum pat = length buf /\ zeros pat < 3 /\ k' = k + length pat.
Proof. exact file_write1_true. Qed.
Print Assumptions Pwrite_true.

(* the error NUMBER of a failing pwrite (EIO, ENOSPC, EAGAIN, EINTR, EBADF, EINVAL) does not matter: two scripts that fail the
   same calls with different numbers leave the same file, consume the same calls and give the same return value *)
Theorem Pwrite_errno_irrelevant :
  forall ws ws', errno_variant ws ws' ->
    forall s off buf, file_write1 ws s off buf = file_write1 ws' s off buf.
Proof. exact file_write1_errno. Qed.
Print Assumptions Pwrite_errno_irrelevant.

(* ---------------------------------------------------------------------------------------------------------------
   C14_exact.  [cycles] is ANY list of acquisitions (uri, packets) run through the HAL on one raw device as
   set, start, append*, stop; [o] is ANY state of the operating system (descriptor table, existing files, create and
   write scripts: every short-write pattern, every fault); the device is a fresh one (raw_init).  If every call of the
   history answered Device_Ok -- for the appends this is, by Pwrite_all / Pwrite_fail / Pwrite_true, exactly the case
   that every packet met an admissible short-write pattern -- then the file of each acquisition consists of precisely
   the bytes appended during that acquisition, back to back and in order, provided no LATER acquisition of the history
   went to the same path.  Earlier acquisitions to any path (the same one included, since file_create now truncates)
   and later ones to other paths do not matter. *)
Theorem C14_exact :
  forall fuel cycles o rs d' o',
    run fuel fixed (history cycles) (dev_init KRaw) o = Ret (rs, d', o') -> all_ok rs ->
    forall pre c post, cycles = pre ++ c :: post -> (forall c', In c' post -> c_path c' <> c_path c) ->
    fs o' (c_path c) = Some (c_bytes c).
Proof. exact c14_exact. Qed.
Print Assumptions C14_exact.

(* the same for a device that is not fresh: any raw device that is idle (not running, no file open) *)
Theorem C14_exact_any_idle_device :
  forall fuel cycles r o rs d' o',
    r_open r = false -> r_state r <> Running ->
    run fuel fixed (history cycles) (DRaw r) o = Ret (rs, d', o') -> all_ok rs ->
    forall pre c post, cycles = pre ++ c :: post -> (forall c', In c' post -> c_path c' <> c_path c) ->
    fs o' (c_path c) = Some (c_bytes c).
Proof. exact raw_files_exact. Qed.
Print Assumptions C14_exact_any_idle_device.

(* C14_exact_scripts.  The same with the premise on the operating system's SCRIPTS instead of on the answers of the
   calls: every open succeeds, every path is non-empty, and the write script [ws] is admissible for the packets of all
   acquisitions in order (Spec.admissible: each packet meets SOME short-write pattern without error, with fewer than
   three zero-length results, delivering all its bytes; the next packet continues where this one's calls end).  Then
   every call of the history answers Device_Ok and every file is exact.  [env_fds]: any descriptors already open. *)
Theorem C14_exact_scripts :
  forall fuel cycles env_fds ws, 4 <= fuel ->
    (forall c, In c cycles -> c_path c <> EmptyString) ->
    admissible ws 0 (flat_map c_pkts cycles) ->
    exists rs d' o',
      run fuel fixed (history cycles) (dev_init KRaw) (os_init env_fds (fun _ => COk) ws) = Ret (rs, d', o') /\
      all_ok rs /\
      forall pre c post, cycles = pre ++ c :: post -> (forall c', In c' post -> c_path c' <> c_path c) ->
      fs o' (c_path c) = Some (c_bytes c).
Proof. exact c14_exact_scripts_total. Qed.
Print Assumptions C14_exact_scripts.

(* ---------------------------------------------------------------------------------------------------------------
   C14_uri.  "file://p" and "p" name the same file: the prefix is stripped before anything else happens, in raw_set
   and in the set functions of the other kinds alike; a name that does not itself begin with file:// is untouched. *)
Theorem C14_uri :
  forall p,
    strip ("file://" ++ p) = p /\
    (drop_prefix "file://" p = None -> strip p = p) /\
    (drop_prefix "file://" p = None -> forall meta d o, hal_set ("file://" ++ p) meta d o = hal_set p meta d o).
Proof. exact c14_uri. Qed.
Print Assumptions C14_uri.

(* ===============================================================================================================
   Non-vacuity: the hypotheses are met by reachable, non-trivial histories. *)
Definition bytes_of (l : list nat) : list byte := map N.of_nat l.

(* first call: 1 byte, then a zero-length result, then the rest; ... ; two zero-length results before the last packet *)
Definition ws_ex (k : nat) : wresp :=
  nth k [WCount 1; WCount 0; WFull; WCount 2; WCount 0; WCount 0; WFull] WFull.
Definition os_ex : os := os_init [0; 1; 2] (fun _ => COk) ws_ex.
Definition cyc_a := mkCycle "file://a.raw" [bytes_of [1; 2; 3]; bytes_of []; bytes_of [4; 5]].
Definition cyc_b := mkCycle "b.raw" [bytes_of [6; 7]].
Definition cyc_a' := mkCycle "a.raw" [bytes_of [9]].

Example Pwrite_all_example :
  delivers ws_ex 0 3 [1; 0; 2] /\ list_sum [1; 0; 2] = 3 /\ zeros [1; 0; 2] < 3 /\
  file_write1 ws_ex (0, bytes_of [8; 8]) 4 (bytes_of [1; 2; 3]) = ((3, bytes_of [8; 8; 0; 0; 1; 2; 3]), true).
Proof. vm_compute. repeat split; auto. Qed.

Example Pwrite_fail_example :     (* three zero-length results *)
  file_write1 (fun _ => WCount 0) (0, []) 0 (bytes_of [1]) = ((3, []), false) /\
  file_write1 (fun k => if k =? 1 then WErr EIO else WCount 1) (0, []) 0 (bytes_of [1; 2]) = ((2, bytes_of [1]), false).
Proof. vm_compute. auto. Qed.

(* the hypothesis of Pwrite_errno_irrelevant met by two different scripts: the second call fails with EIO / with EAGAIN *)
Example errno_variant_example :
  errno_variant (fun k => if k =? 1 then WErr EIO else WCount 1) (fun k => if k =? 1 then WErr EAGAIN else WCount 1) /\
  file_write1 (fun k => if k =? 1 then WErr EAGAIN else WCount 1) (0, []) 0 (bytes_of [1; 2]) = ((2, bytes_of [1]), false).
Proof. split; [intros k; destruct (k =? 1); simpl; auto|vm_compute; auto]. Qed.

(* the write script of the examples is admissible for the four packets of cyc_a, cyc_b: patterns [1;0;2], [], [2], [0;0;2] *)
Example admissible_example :
  admissible ws_ex 0 (flat_map c_pkts [cyc_a; cyc_b]).
Proof.
  exists [1; 0; 2]. repeat (split; [vm_compute; auto; congruence|]).
  exists []. repeat (split; [vm_compute; auto; congruence|]).
  exists [2]. repeat (split; [vm_compute; auto; congruence|]).
  exists [0; 0; 2]. repeat (split; [vm_compute; auto; congruence|]). exact I.
Qed.

(* two acquisitions to different paths, short writes in both, both uri spellings, an empty packet *)
Example C14_exact_example :
  exists rs d' o',
    run FUEL fixed (history [cyc_a; cyc_b]) (dev_init KRaw) os_ex = Ret (rs, d', o') /\ all_ok rs /\
    length rs = 10 /\
    fs o' "a.raw" = Some (bytes_of [1; 2; 3; 4; 5]) /\ fs o' "b.raw" = Some (bytes_of [6; 7]) /\
    trace o' =
      [EOpen "a.raw" (Some 3); EClose (Some 3) true;                       (* set: writability probe *)
       EOpen "a.raw" (Some 3); ELock 3 true; ETrunc 3 true;                               (* start *)
       EWrite (Some 3) 0 3 (Some 1); EWrite (Some 3) 1 2 (Some 0); EWrite (Some 3) 1 2 (Some 2);
       EWrite (Some 3) 3 2 (Some 2);
       EClose (Some 3) true;                                               (* stop *)
       EOpen "b.raw" (Some 3); EClose (Some 3) true; EOpen "b.raw" (Some 3); ELock 3 true; ETrunc 3 true;
       EWrite (Some 3) 0 2 (Some 0); EWrite (Some 3) 0 2 (Some 0); EWrite (Some 3) 0 2 (Some 2);
       EClose (Some 3) true].
Proof.
  eexists _, _, _. split; [vm_compute; reflexivity|]. split; [repeat constructor|]. vm_compute. auto.
Qed.

(* a later acquisition to the SAME path replaces the file (outside the property's "other paths", covered anyway) *)
Example C14_same_path_example :
  exists rs d' o',
    run FUEL fixed (history [cyc_a; cyc_a']) (dev_init KRaw) os_ex = Ret (rs, d', o') /\ all_ok rs /\
    fs o' "a.raw" = Some (bytes_of [9]).
Proof.
  eexists _, _, _. split; [vm_compute; reflexivity|]. split; [repeat constructor|]. vm_compute. auto.
Qed.

(* ===============================================================================================================
   Sensitivity: without repair 01 (D3: raw_start does not reset the offset) the model produces exactly the file the
   theorem excludes -- the second acquisition's file begins with a hole as long as the first file.  This is the defect
   confirmed on the unrepaired /repo; corpus/C14/d3_offset_not_reset.json replays it on the real code. *)
Definition without_d3 : variant := mkVariant false true true true true.

Example D3_unrepaired_hole :
  exists rs d' o',
    run FUEL without_d3 (history [cyc_a; cyc_b]) (dev_init KRaw) os_ex = Ret (rs, d', o') /\ all_ok rs /\
    fs o' "b.raw" = Some (bytes_of [0; 0; 0; 0; 0; 6; 7]).
Proof.
  eexists _, _, _. split; [vm_compute; reflexivity|]. split; [repeat constructor|]. vm_compute. auto.
Qed.

(* ===============================================================================================================
   OUTSIDE the hypothesis of C14_exact (its histories are set / start / append* / stop cycles): a `set` issued while
   the device is Running -- the runtime does this when acquire_configure is called on a running runtime (known finding
   of C08); storage_set replaces Running by the driver's answer Armed without stopping the device -- followed by
   start / append / stop on the new path.  No theorem covers such histories; the check runs a separate generated stream
   of them against this model (which is total on every history) and against the independent file oracle.  On the
   minimal one the model says: both files are exact (raw_start resets the offset), the first file's descriptor 3 is
   never closed (the C08 finding's consequence; C16's theorems exclude it by `disciplined`) ... *)
Definition h_set_while_running : list op :=
  [OSet "a.raw" 0; OStart; OAppend (mkPkt (bytes_of [1; 2; 3]) []);
   OSet "file://b.raw" 0;                                                  (* while Running *)
   OStart; OAppend (mkPkt (bytes_of [6; 7]) []); OStop].

Example set_while_running_model :
  exists rs d' o',
    run FUEL fixed h_set_while_running (dev_init KRaw) (os_init [0; 1; 2] (fun _ => COk) (fun _ => WFull)) = Ret (rs, d', o') /\
    all_ok rs /\ disciplined rs = false /\
    fs o' "a.raw" = Some (bytes_of [1; 2; 3]) /\ fs o' "b.raw" = Some (bytes_of [6; 7]) /\
    fds_of o' = [3; 0; 1; 2].
Proof.
  eexists _, _, _. split; [vm_compute; reflexivity|]. split; [repeat constructor|]. vm_compute. auto.
Qed.

(* ... and a raw_start that does not reset the offset (variant without repair 01; a reset moved to raw_stop behaves the
   same on this history, since no stop lies between the two starts) leaves a hole as long as the first file *)
Example set_while_running_offset_not_reset :
  exists rs d' o',
    run FUEL without_d3 h_set_while_running (dev_init KRaw) (os_init [0; 1; 2] (fun _ => COk) (fun _ => WFull)) = Ret (rs, d', o') /\
    all_ok rs /\ fs o' "b.raw" = Some (bytes_of [0; 0; 0; 6; 7]).
Proof.
  eexists _, _, _. split; [vm_compute; reflexivity|]. split; [repeat constructor|]. vm_compute. auto.
Qed.
