(* Hal.v -- the four basic storage devices behind the HAL wrappers of
   acquire-core-libs/src/acquire-device-hal/device/hal/storage.c, and histories of HAL calls.  MODEL ONLY. *)
From Coq Require Import String.
From Coq Require Import List Arith NArith Bool.
From FileIO Require Import Pwrite FdTable Raw TiffFail SideBySide.
Import ListNotations.
Open Scope string_scope.

Inductive kind := KRaw | KTiff | KSbs | KTrash.
Inductive dev := DRaw (r : raw) | DTiff (t : tiff) | DSbs (s : sbs) | DTrash (st : dstate).

Definition dev_init (k : kind) : dev :=
  match k with
  | KRaw => DRaw raw_init
  | KTiff => DTiff tiff_init
  | KSbs => DSbs sbs_init
  | KTrash => DTrash AwaitingConfiguration
  end.

(* struct Storage::state *)
Definition get_state (d : dev) : dstate :=
  match d with
  | DRaw r => r_state r
  | DTiff t => t_state t
  | DSbs s => s_state s
  | DTrash st => st
  end.
Definition put_state (d : dev) (st : dstate) : dev :=
  match d with
  | DRaw r => DRaw (mkRaw st (r_uri r) (r_fid r) (r_open r) (r_off r))
  | DTiff t => DTiff (tiff_put_state t st)
  | DSbs s => DSbs (mkSbs st (s_uri s) (s_meta s) (s_tiff s))
  | DTrash _ => DTrash st
  end.

(* one append: the bytes [beg,end) and, for the tiff kinds, the section lengths of the frames in it (TiffFail.frame) *)
Record packet := mkPkt { p_bytes : list byte; p_frames : list frame }.

(* ---- the driver functions (struct Storage function pointers) ---- *)
Definition dev_set (uri : string) (meta : nat) (d : dev) (o : os) : dev * os * dstate :=
  match d with
  | DRaw r => let '(r1, o1, st) := raw_set uri r o in (DRaw r1, o1, st)
  | DTiff t => let '(t1, o1, st) := tiff_set uri t o in (DTiff t1, o1, st)
  | DSbs s => let '(s1, o1, st) := sbs_set uri meta s o in (DSbs s1, o1, st)
  | DTrash st => (DTrash st, o, Armed)
  end.

Definition dev_start (fuel : nat) (v : variant) (d : dev) (o : os) : outcome (dev * os * dstate) :=
  match d with
  | DRaw r => let '(r1, o1, st) := raw_start v r o in Ret (DRaw r1, o1, st)
  | DTiff t => match tiff_start fuel v t o with Diverges => Diverges | Ret (t1, o1, st) => Ret (DTiff t1, o1, st) end
  | DSbs s => match sbs_start fuel v s o with Diverges => Diverges | Ret (s1, o1, st) => Ret (DSbs s1, o1, st) end
  | DTrash st => Ret (DTrash st, o, Running)
  end.

Definition dev_append (fuel : nat) (v : variant) (p : packet) (d : dev) (o : os) : outcome (dev * os * dstate) :=
  match d with
  | DRaw r => let '(r1, o1, st) := raw_append v (p_bytes p) r o in Ret (DRaw r1, o1, st)
  | DTiff t => match tiff_append fuel v (p_frames p) t o with
               | Diverges => Diverges | Ret (t1, o1, st) => Ret (DTiff t1, o1, st) end
  | DSbs s => match sbs_append fuel v (p_frames p) s o with
              | Diverges => Diverges | Ret (s1, o1, st) => Ret (DSbs s1, o1, st) end
  | DTrash st => Ret (DTrash st, o, Running)
  end.

Definition dev_stop (fuel : nat) (v : variant) (d : dev) (o : os) : outcome (dev * os * dstate) :=
  match d with
  | DRaw r => let '(r1, o1, st) := raw_stop v r o in Ret (DRaw r1, o1, st)
  | DTiff t => match tiff_stop fuel v t o with Diverges => Diverges | Ret (t1, o1, st) => Ret (DTiff t1, o1, st) end
  | DSbs s => match sbs_stop fuel v s o with Diverges => Diverges | Ret (s1, o1, st) => Ret (DSbs s1, o1, st) end
  | DTrash st => Ret (DTrash st, o, Armed)
  end.

Definition dev_destroy (fuel : nat) (v : variant) (d : dev) (o : os) : outcome os :=
  match d with
  | DRaw r => Ret (raw_destroy v r o)
  | DTiff t => tiff_destroy fuel v t o
  | DSbs s => sbs_destroy fuel v s o
  | DTrash _ => Ret o
  end.

(* ---- hal/storage.c ---- *)
Inductive status := Ok | Err.     (* Device_Ok | Device_Err *)

(* storage_set: self->state = self->set(self, settings); EXPECT(Armed == self->state) *)
Definition hal_set (uri : string) (meta : nat) (d : dev) (o : os) : dev * os * status :=
  let '(d1, o1, st) := dev_set uri meta d o in
  (put_state d1 st, o1, if dstate_eqb st Armed then Ok else Err).

(* storage_start: CHECK(self->state == Armed); switch (self->state = self->start(self)) *)
Definition hal_start (fuel : nat) (v : variant) (d : dev) (o : os) : outcome (dev * os * status) :=
  if dstate_eqb (get_state d) Armed then
    match dev_start fuel v d o with
    | Diverges => Diverges
    | Ret (d1, o1, st) => Ret (put_state d1 st, o1, if dstate_eqb st Running then Ok else Err)
    end
  else Ret (d, o, Err).

(* storage_append: CHECK(self->state == Running); if (beg < end) { self->state = self->append(...);
   CHECK(self->state == Running); } *)
Definition hal_append (fuel : nat) (v : variant) (p : packet) (d : dev) (o : os) : outcome (dev * os * status) :=
  if dstate_eqb (get_state d) Running then
    match p_bytes p with
    | [] => Ret (d, o, Ok)
    | _ :: _ =>
      match dev_append fuel v p d o with
      | Diverges => Diverges
      | Ret (d1, o1, st) => Ret (put_state d1 st, o1, if dstate_eqb st Running then Ok else Err)
      end
    end
  else Ret (d, o, Err).

(* storage_stop: if (self->state == Running) EXPECT((self->state = self->stop(self)) == Armed || == AwaitingConfiguration) *)
Definition hal_stop (fuel : nat) (v : variant) (d : dev) (o : os) : outcome (dev * os * status) :=
  if dstate_eqb (get_state d) Running then
    match dev_stop fuel v d o with
    | Diverges => Diverges
    | Ret (d1, o1, st) =>
      Ret (put_state d1 st, o1,
           if dstate_eqb st Armed || dstate_eqb st AwaitingConfiguration then Ok else Err)
    end
  else Ret (d, o, Ok).

(* storage_close: storage_stop(self); driver_close_device(&self->device) -> destroy *)
Definition hal_close (fuel : nat) (v : variant) (d : dev) (o : os) : outcome os :=
  match hal_stop fuel v d o with
  | Diverges => Diverges
  | Ret (d1, o1, _) => dev_destroy fuel v d1 o1
  end.

(* ---- histories ---- *)
Inductive op :=
| OSet (uri : string) (meta : nat)
| OStart
| OAppend (p : packet)
| OStop
| OEnvOpen                 (* somebody else in the process opens a file *)
| OEnvClose (k : nat).     (* ... closes the k-th descriptor it holds *)

Definition step (fuel : nat) (v : variant) (x : op) (d : dev) (o : os) : outcome (dev * os * status) :=
  match x with
  | OSet uri meta => Ret (hal_set uri meta d o)
  | OStart => hal_start fuel v d o
  | OAppend p => hal_append fuel v p d o
  | OStop => hal_stop fuel v d o
  | OEnvOpen => Ret (d, env_open o, Ok)
  | OEnvClose k => Ret (d, env_close o k, Ok)
  end.

(* the life-cycle discipline the runtime is responsible for (C08): no reconfiguration of a running device *)
Definition allowed (x : op) (d : dev) : bool :=
  match x with
  | OSet _ _ => negb (dstate_eqb (get_state d) Running)
  | _ => true
  end.

(* results: per op (was it allowed, status, state after) *)
Fixpoint run (fuel : nat) (v : variant) (h : list op) (d : dev) (o : os)
  : outcome (list (bool * status * dstate) * dev * os) :=
  match h with
  | [] => Ret ([], d, o)
  | x :: h' =>
    match step fuel v x d o with
    | Diverges => Diverges
    | Ret (d1, o1, st) =>
      match run fuel v h' d1 o1 with
      | Diverges => Diverges
      | Ret (rs, d2, o2) => Ret ((allowed x d, st, get_state d1) :: rs, d2, o2)
      end
    end
  end.

(* a whole device life: open, the history, close *)
Definition life (fuel : nat) (v : variant) (k : kind) (h : list op) (o : os)
  : outcome (list (bool * status * dstate) * os) :=
  match run fuel v h (dev_init k) o with
  | Diverges => Diverges
  | Ret (rs, d1, o1) =>
    match hal_close fuel v d1 o1 with
    | Diverges => Diverges
    | Ret o2 => Ret (rs, o2)
    end
  end.

Definition disciplined (rs : list (bool * status * dstate)) : bool :=
  forallb (fun r => fst (fst r)) rs.

(* the fuel the oracle runs with; any fuel >= 4 gives the same results on the fixed code *)
Definition FUEL := 64.
