(* C16Proofs.v -- proofs for property C16 over the models Raw / TiffFail / SideBySide / Hal (fixed variant):
     1. fuel-free characterisation of the re-entrant functions Tiff::write_ / Tiff::stop; termination of every call;
     2. a failed create / write inside start / append is reported (the call does not return Running);
     3. the descriptor invariant: the device's descriptors are exactly what the ledger over the system-call log says,
        they are the only ones it locks, writes to and closes, and none is left after destroy. *)
From Coq Require Import String.
From Coq Require Import List Arith NArith Bool Lia.
From FileIO Require Import Pwrite PwriteProofs FdTable FdTableProofs Raw TiffFail SideBySide Hal Spec.
Import ListNotations.
Local Open Scope nat_scope.
Local Open Scope list_scope.

(* ------------------------------------------------------------------ device states *)
Lemma dstate_eqb_eq : forall a b, dstate_eqb a b = true <-> a = b.
Proof. intros [] []; simpl; split; intros H; try reflexivity; discriminate. Qed.

Lemma dstate_eqb_neq : forall a b, dstate_eqb a b = false <-> a <> b.
Proof.
  intros a b. rewrite <- dstate_eqb_eq. destruct (dstate_eqb a b); split; intros H; congruence.
Qed.

Lemma dstate_eqb_refl : forall a, dstate_eqb a a = true.
Proof. intros a. now apply dstate_eqb_eq. Qed.

(* ------------------------------------------------------------------ 1. Tiff::write_ / Tiff::stop without fuel *)
Lemma t_write_S : forall f v len t o,
  t_write_ (S f) v len t o =
  match file_write o (t_fid t) 0 (zero_buf len) with
  | (o1, true) => Ret (t, o1, true)
  | (o1, false) => match t_stop f v t o1 with Diverges => Diverges | Ret (t2, o2) => Ret (t2, o2, false) end
  end.
Proof. reflexivity. Qed.

Lemma t_stop_S : forall f v t o,
  t_stop (S f) v t o =
  if dstate_eqb (t_state t) Running then
    match t_write_ f v sizeof_link (if fix_d5a v then tiff_put_state t Armed else t) o with
    | Diverges => Diverges
    | Ret (t2, o2, _) => Ret (mkTiff Armed (t_fname t2) (t_fid t2) 0, file_close o2 (t_fid t2))
    end
  else Ret (t, o).
Proof. reflexivity. Qed.

(* what stop() does in the repaired code: the nested stop() (reached when the final write fails) finds the state Armed *)
Definition tstop_spec (t : tiff) (o : os) : tiff * os :=
  if dstate_eqb (t_state t) Running then
    let '(o2, _) := file_write o (t_fid t) 0 (zero_buf sizeof_link) in
    (mkTiff Armed (t_fname t) (t_fid t) 0, file_close o2 (t_fid t))
  else (t, o).

Definition twrite_spec (len : nat) (t : tiff) (o : os) : tiff * os * bool :=
  match file_write o (t_fid t) 0 (zero_buf len) with
  | (o1, true) => (t, o1, true)
  | (o1, false) => let '(t2, o2) := tstop_spec t o1 in (t2, o2, false)
  end.

Lemma t_stop_idle : forall f v t o, dstate_eqb (t_state t) Running = false -> t_stop (S f) v t o = Ret (t, o).
Proof. intros. rewrite t_stop_S, H. reflexivity. Qed.

Lemma t_write_idle : forall f len t o, dstate_eqb (t_state t) Running = false ->
  t_write_ (S (S f)) fixed len t o = Ret (twrite_spec len t o).
Proof.
  intros f len t o H. rewrite t_write_S. unfold twrite_spec, tstop_spec. rewrite H.
  destruct (file_write o (t_fid t) 0 (zero_buf len)) as [o1 [|]]; auto.
  now rewrite t_stop_idle.
Qed.

Lemma t_stop_spec : forall fuel t o, 3 <= fuel -> t_stop fuel fixed t o = Ret (tstop_spec t o).
Proof.
  intros fuel t o Hf. destruct fuel as [|[|[|f]]]; try lia.
  rewrite t_stop_S. unfold tstop_spec. destruct (dstate_eqb (t_state t) Running) eqn:R; auto.
  cbn [fix_d5a fixed]. rewrite t_write_idle by reflexivity. unfold twrite_spec, tstop_spec.
  cbn [tiff_put_state t_state t_fid t_fname dstate_eqb].
  destruct (file_write o (t_fid t) 0 (zero_buf sizeof_link)) as [o2 [|]]; reflexivity.
Qed.

Lemma t_write_spec : forall fuel len t o, 4 <= fuel -> t_write_ fuel fixed len t o = Ret (twrite_spec len t o).
Proof.
  intros fuel len t o Hf. destruct fuel as [|f]; try lia.
  rewrite t_write_S. unfold twrite_spec.
  destruct (file_write o (t_fid t) 0 (zero_buf len)) as [o1 [|]]; auto.
  rewrite t_stop_spec by lia. destruct (tstop_spec t o1); reflexivity.
Qed.

(* ------------------------------------------------------------------ termination of every device and HAL call *)
Definition terminates {A : Type} (x : outcome A) : Prop := exists r, x = Ret r.

Lemma t_append_total : forall fuel frames t o, 4 <= fuel -> terminates (t_append fuel fixed frames t o).
Proof.
  intros fuel frames. induction frames as [|[ld [lf lo]] rest IH]; intros t o Hf; cbn [t_append].
  - eexists; reflexivity.
  - rewrite t_write_spec by auto. destruct (twrite_spec sizeof_ifd t o) as [[t1 o1] ok1].
    destruct (fix_d5b fixed && negb ok1). { eexists; reflexivity. }
    rewrite t_write_spec by auto. destruct (twrite_spec ld t1 o1) as [[t2 o2] ok2].
    destruct (fix_d5b fixed && negb ok2). { eexists; reflexivity. }
    rewrite t_write_spec by auto.
    destruct (twrite_spec _ t2 o2) as [[t3 o3] ok3].
    destruct (fix_d5b fixed && negb ok3). { eexists; reflexivity. }
    apply IH; auto.
Qed.

Lemma tiff_stop_eq : forall fuel t o, 3 <= fuel ->
  tiff_stop fuel fixed t o = Ret (fst (tstop_spec t o), snd (tstop_spec t o), Armed).
Proof. intros. unfold tiff_stop. rewrite t_stop_spec by auto. destruct (tstop_spec t o); reflexivity. Qed.

Lemma tiff_start_total : forall fuel t o, 4 <= fuel -> terminates (tiff_start fuel fixed t o).
Proof.
  intros fuel t o Hf. unfold tiff_start. destruct (file_create o (t_fname t)) as [[o1 [|]] fid].
  - rewrite t_write_spec by auto. destruct (twrite_spec _ _ _) as [[t2 o2] ok].
    destruct (fix_d5b fixed && negb ok); eexists; reflexivity.
  - eexists; reflexivity.
Qed.

Lemma tiff_append_total : forall fuel frames t o, 4 <= fuel -> terminates (tiff_append fuel fixed frames t o).
Proof.
  intros fuel frames t o Hf. unfold tiff_append.
  destruct (t_append_total fuel frames t o Hf) as [[[t1 o1] [|]] E]; rewrite E.
  - eexists; reflexivity.
  - rewrite tiff_stop_eq by lia. eexists; reflexivity.
Qed.

Lemma tiff_destroy_total : forall fuel t o, 4 <= fuel -> terminates (tiff_destroy fuel fixed t o).
Proof.
  intros fuel t o Hf. unfold tiff_destroy. rewrite t_stop_spec by lia. destruct (tstop_spec t o) as [t1 o1].
  rewrite t_stop_spec by lia. destruct (tstop_spec t1 o1). eexists; reflexivity.
Qed.

Lemma sbs_stop_eq : forall fuel s o, 3 <= fuel ->
  sbs_stop fuel fixed s o = Ret (sbs_put_tiff s (fst (tstop_spec (s_tiff s) o)), snd (tstop_spec (s_tiff s) o), Armed).
Proof. intros. unfold sbs_stop. rewrite tiff_stop_eq by auto. reflexivity. Qed.

Lemma sbs_start_total : forall fuel s o, 4 <= fuel -> terminates (sbs_start fuel fixed s o).
Proof.
  intros fuel s o Hf. unfold sbs_start. destruct (s_uri s). { eexists; reflexivity. }
  destruct (file_create o _) as [[o1 [|]] fid]; [|eexists; reflexivity].
  destruct (file_write o1 fid 0 _) as [o2 ok].
  destruct (negb ok). { eexists; reflexivity. }
  destruct (tiff_set _ _ _) as [[t1 o4] st1].
  destruct (negb (dstate_eqb st1 Armed)). { eexists; reflexivity. }
  destruct (tiff_start_total fuel (if fix_d6 fixed then tiff_put_state t1 st1 else t1) o4 Hf) as [[[t2 o5] st2] E].
  rewrite E. eexists; reflexivity.
Qed.

Lemma sbs_append_total : forall fuel frames s o, 4 <= fuel -> terminates (sbs_append fuel fixed frames s o).
Proof.
  intros fuel frames s o Hf. unfold sbs_append.
  destruct (tiff_append_total fuel frames (s_tiff s) o Hf) as [[[t1 o1] st] E]. rewrite E.
  destruct (dstate_eqb st Running). { eexists; reflexivity. }
  rewrite sbs_stop_eq by lia. eexists; reflexivity.
Qed.

Lemma sbs_destroy_total : forall fuel s o, 4 <= fuel -> terminates (sbs_destroy fuel fixed s o).
Proof.
  intros fuel s o Hf. unfold sbs_destroy. rewrite sbs_stop_eq by lia. now apply tiff_destroy_total.
Qed.

Lemma dev_start_total : forall fuel d o, 4 <= fuel -> terminates (dev_start fuel fixed d o).
Proof.
  intros fuel [r|t|s|st] o Hf; unfold dev_start.
  - destruct (raw_start fixed r o) as [[r1 o1] st]. eexists; reflexivity.
  - destruct (tiff_start_total fuel t o Hf) as [[[t1 o1] st] E]. rewrite E. eexists; reflexivity.
  - destruct (sbs_start_total fuel s o Hf) as [[[s1 o1] st1] E]. rewrite E. eexists; reflexivity.
  - eexists; reflexivity.
Qed.

Lemma dev_append_total : forall fuel p d o, 4 <= fuel -> terminates (dev_append fuel fixed p d o).
Proof.
  intros fuel p [r|t|s|st] o Hf; unfold dev_append.
  - destruct (raw_append fixed (p_bytes p) r o) as [[r1 o1] st]. eexists; reflexivity.
  - destruct (tiff_append_total fuel (p_frames p) t o Hf) as [[[t1 o1] st] E]. rewrite E. eexists; reflexivity.
  - destruct (sbs_append_total fuel (p_frames p) s o Hf) as [[[s1 o1] st1] E]. rewrite E. eexists; reflexivity.
  - eexists; reflexivity.
Qed.

Lemma dev_stop_total : forall fuel d o, 4 <= fuel -> terminates (dev_stop fuel fixed d o).
Proof.
  intros fuel [r|t|s|st] o Hf; unfold dev_stop.
  - destruct (raw_stop fixed r o) as [[r1 o1] st]. eexists; reflexivity.
  - rewrite tiff_stop_eq by lia. eexists; reflexivity.
  - rewrite sbs_stop_eq by lia. eexists; reflexivity.
  - eexists; reflexivity.
Qed.

Lemma dev_destroy_total : forall fuel d o, 4 <= fuel -> terminates (dev_destroy fuel fixed d o).
Proof.
  intros fuel [r|t|s|st] o Hf; unfold dev_destroy.
  - eexists; reflexivity.
  - now apply tiff_destroy_total.
  - now apply sbs_destroy_total.
  - eexists; reflexivity.
Qed.

Lemma hal_stop_total : forall fuel d o, 4 <= fuel -> terminates (hal_stop fuel fixed d o).
Proof.
  intros fuel d o Hf. unfold hal_stop. destruct (dstate_eqb (get_state d) Running); [|eexists; reflexivity].
  destruct (dev_stop_total fuel d o Hf) as [[[d1 o1] st] E]. rewrite E. eexists; reflexivity.
Qed.

Lemma step_total : forall fuel x d o, 4 <= fuel -> terminates (step fuel fixed x d o).
Proof.
  intros fuel x d o Hf. destruct x as [uri meta| |p| | |k]; cbn [step]; try (eexists; reflexivity).
  - unfold hal_start. destruct (dstate_eqb (get_state d) Armed); [|eexists; reflexivity].
    destruct (dev_start_total fuel d o Hf) as [[[d1 o1] st] E]. rewrite E. eexists; reflexivity.
  - unfold hal_append. destruct (dstate_eqb (get_state d) Running); [|eexists; reflexivity].
    destruct (p_bytes p); [eexists; reflexivity|].
    destruct (dev_append_total fuel p d o Hf) as [[[d1 o1] st] E]. rewrite E. eexists; reflexivity.
  - now apply hal_stop_total.
Qed.

Lemma run_total : forall fuel h d o, 4 <= fuel -> terminates (run fuel fixed h d o).
Proof.
  intros fuel h. induction h as [|x h IH]; intros d o Hf; cbn [run].
  - eexists; reflexivity.
  - destruct (step_total fuel x d o Hf) as [[[d1 o1] st] E]. rewrite E.
    destruct (IH d1 o1 Hf) as [[[rs d2] o2] E2]. rewrite E2. eexists; reflexivity.
Qed.

Lemma hal_close_total : forall fuel d o, 4 <= fuel -> terminates (hal_close fuel fixed d o).
Proof.
  intros fuel d o Hf. unfold hal_close. destruct (hal_stop_total fuel d o Hf) as [[[d1 o1] st] E]. rewrite E.
  now apply dev_destroy_total.
Qed.

Lemma life_total : forall fuel k h o, 4 <= fuel -> terminates (life fuel fixed k h o).
Proof.
  intros fuel k h o Hf. unfold life. destruct (run_total fuel h (dev_init k) o Hf) as [[[rs d1] o1] E]. rewrite E.
  destruct (hal_close_total fuel d1 o1 Hf) as [o2 E2]. rewrite E2. eexists; reflexivity.
Qed.

(* C16_terminates *)
Lemma life_never_diverges : forall fuel k h o, 4 <= fuel -> life fuel fixed k h o <> Diverges.
Proof. intros fuel k h o Hf. destruct (life_total fuel k h o Hf) as [r E]. rewrite E. discriminate. Qed.

Lemma step_never_diverges : forall fuel x d o, 4 <= fuel -> step fuel fixed x d o <> Diverges.
Proof. intros fuel x d o Hf. destruct (step_total fuel x d o Hf) as [r E]. rewrite E. discriminate. Qed.

(* ------------------------------------------------------------------ 2. failures are reported *)
(* [nfail] counts the file_create / file_write / writability-probe calls that returned 0 *)
Lemma file_create_nfail : forall o p o' ok fid, file_create o p = (o', ok, fid) ->
  nfail o' = (if ok then nfail o else S (nfail o)).
Proof.
  intros o p o' ok fid H. unfold file_create in H.
  destruct (os_open o p) as [o1 [fd|]] eqn:E.
  - pose proof (os_open_ok _ _ _ _ E) as (_ & _ & _ & _ & _ & Hf1 & _).
    assert (C : forall o2, nfail (bump_fail (os_close o2 (Some fd))) = S (nfail o2)).
    { intros o2. destruct (os_close_frame o2 (Some fd)) as (_ & Hn & _). unfold bump_fail. cbn [nfail]. now rewrite Hn. }
    destruct (cscr o (nopen o)); cbv zeta in H; injection H as <- <- <-.
    + simpl. exact Hf1.
    + simpl. exact Hf1.
    + etransitivity; [exact (C (log o1 (ELock fd false)))|]. simpl. now rewrite Hf1.                          (* flock failed *)
    + etransitivity; [exact (C (log (log o1 (ELock fd true)) (ETrunc fd false)))|]. simpl. now rewrite Hf1.    (* ftruncate failed *)
  - apply os_open_fail in E. destruct E as (_ & _ & _ & _ & Hf & _). inversion H; subst. simpl. now rewrite Hf.
Qed.

Lemma file_is_writable_nfail : forall o p o' ok, file_is_writable o p = (o', ok) ->
  nfail o' = (if ok then nfail o else S (nfail o)).
Proof.
  intros o p o' ok H. unfold file_is_writable in H.
  destruct (fs o p). { now inversion H; subst. }
  destruct (os_open o p) as [o1 [fd|]] eqn:E.
  - pose proof (os_open_ok _ _ _ _ E) as (_ & _ & _ & _ & _ & Hf1 & _).
    destruct (os_close_frame o1 (Some fd)) as (_ & Hn & _).
    remember (os_close o1 (Some fd)) as oc. inversion H; subst o' ok. simpl. congruence.
  - apply os_open_fail in E. destruct E as (_ & _ & _ & _ & Hf & _). inversion H; subst. simpl. now rewrite Hf.
Qed.

Lemma file_close_nfail : forall o fid, nfail (file_close o fid) = nfail o.
Proof. intros. unfold file_close. now destruct (os_close_frame o fid) as (_ & H & _). Qed.

Lemma file_write_nfail : forall o fid off buf o' ok, file_write o fid off buf = (o', ok) ->
  nfail o' = (if ok then nfail o else S (nfail o)).
Proof. intros. now apply file_write_frame in H. Qed.

Lemma tstop_spec_nfail : forall t o, nfail o <= nfail (snd (tstop_spec t o)).
Proof.
  intros t o. unfold tstop_spec. destruct (dstate_eqb (t_state t) Running); simpl; auto.
  destruct (file_write o (t_fid t) 0 (zero_buf sizeof_link)) as [o2 ok] eqn:E. simpl.
  rewrite file_close_nfail. apply file_write_nfail in E. destruct ok; lia.
Qed.

Lemma twrite_spec_nfail : forall len t o t' o' ok, twrite_spec len t o = (t', o', ok) ->
  if ok then t' = t /\ nfail o' = nfail o else nfail o < nfail o'.
Proof.
  intros len t o t' o' ok H. unfold twrite_spec in H.
  destruct (file_write o (t_fid t) 0 (zero_buf len)) as [o1 [|]] eqn:E; apply file_write_nfail in E.
  - inversion H; subst. auto.
  - pose proof (tstop_spec_nfail t o1) as M. destruct (tstop_spec t o1) as [t2 o2]. inversion H; subst.
    simpl in M. lia.
Qed.

Lemma t_append_true_nfail : forall fuel frames t o t' o', 4 <= fuel ->
  t_append fuel fixed frames t o = Ret (t', o', true) -> nfail o' = nfail o.
Proof.
  intros fuel frames. induction frames as [|[ld [lf lo]] rest IH]; intros t o t' o' Hf H; cbn [t_append] in H.
  - now inversion H; subst.
  - rewrite t_write_spec in H by auto. destruct (twrite_spec sizeof_ifd t o) as [[t1 o1] ok1] eqn:E1.
    apply twrite_spec_nfail in E1. destruct ok1; cbn [fix_d5b fixed andb negb] in H; [|discriminate].
    rewrite t_write_spec in H by auto. destruct (twrite_spec ld t1 o1) as [[t2 o2] ok2] eqn:E2.
    apply twrite_spec_nfail in E2. destruct ok2; cbn [andb negb] in H; [|discriminate].
    rewrite t_write_spec in H by auto. destruct (twrite_spec _ t2 o2) as [[t3 o3] ok3] eqn:E3.
    apply twrite_spec_nfail in E3. destruct ok3; cbn [andb negb] in H; [|discriminate].
    apply IH in H; auto. destruct E1, E2, E3. congruence.
Qed.

Lemma tiff_append_running_nfail : forall fuel frames t o t' o', 4 <= fuel ->
  tiff_append fuel fixed frames t o = Ret (t', o', Running) -> nfail o' = nfail o.
Proof.
  intros fuel frames t o t' o' Hf H. unfold tiff_append in H.
  destruct (t_append fuel fixed frames t o) as [[[t1 o1] [|]]|] eqn:E; try discriminate.
  - inversion H; subst. eapply t_append_true_nfail; eauto.
  - rewrite tiff_stop_eq in H by lia. discriminate.
Qed.

Lemma tiff_start_running_nfail : forall fuel t o t' o', 4 <= fuel ->
  tiff_start fuel fixed t o = Ret (t', o', Running) -> nfail o' = nfail o.
Proof.
  intros fuel t o t' o' Hf H. unfold tiff_start in H.
  destruct (file_create o (t_fname t)) as [[o1 [|]] fid] eqn:E; [|discriminate].
  apply file_create_nfail in E.
  rewrite t_write_spec in H by auto. destruct (twrite_spec _ _ o1) as [[t2 o2] ok] eqn:E2.
  apply twrite_spec_nfail in E2. destruct ok; cbn [fix_d5b fixed andb negb] in H; [|discriminate].
  inversion H; subst. destruct E2. congruence.
Qed.

Lemma dev_append_running_nfail : forall fuel p d o d' o', 4 <= fuel ->
  dev_append fuel fixed p d o = Ret (d', o', Running) -> nfail o' = nfail o.
Proof.
  intros fuel p [r|t|s|st0] o d' o' Hf H; unfold dev_append in H.
  - unfold raw_append in H. destruct (file_write o (r_fid r) (r_off r) (p_bytes p)) as [o1 [|]] eqn:E.
    + inversion H; subst. now apply file_write_nfail in E.
    + unfold raw_stop in H. cbn [fix_d4 fixed] in H. destruct (r_open r); discriminate.
  - destruct (tiff_append fuel fixed (p_frames p) t o) as [[[t1 o1] st]|] eqn:E; [|discriminate].
    inversion H; subst. eapply tiff_append_running_nfail; eauto.
  - destruct (sbs_append fuel fixed (p_frames p) s o) as [[[s1 o1] st]|] eqn:E; [|discriminate].
    inversion H; subst. unfold sbs_append in E.
    destruct (tiff_append fuel fixed (p_frames p) (s_tiff s) o) as [[[t1 o2] st2]|] eqn:E2; [|discriminate].
    destruct (dstate_eqb st2 Running) eqn:R.
    + apply dstate_eqb_eq in R. subst st2. inversion E; subst. eapply tiff_append_running_nfail; eauto.
    + rewrite sbs_stop_eq in E by lia. discriminate.
  - now inversion H; subst.
Qed.

Lemma dev_start_running_nfail : forall fuel d o d' o', 4 <= fuel ->
  dev_start fuel fixed d o = Ret (d', o', Running) -> nfail o' = nfail o.
Proof.
  intros fuel [r|t|s|st0] o d' o' Hf H; unfold dev_start in H.
  - unfold raw_start in H. destruct (file_create o (r_uri r)) as [[o1 [|]] fid] eqn:E; [|discriminate].
    inversion H; subst. now apply file_create_nfail in E.
  - destruct (tiff_start fuel fixed t o) as [[[t1 o1] st]|] eqn:E; [|discriminate].
    inversion H; subst. eapply tiff_start_running_nfail; eauto.
  - destruct (sbs_start fuel fixed s o) as [[[s1 o1] st]|] eqn:E; [|discriminate].
    inversion H; subst. unfold sbs_start in E. destruct (s_uri s) eqn:U; [discriminate|].
    destruct (file_create o _) as [[o2 [|]] fid] eqn:E1; [|discriminate]. apply file_create_nfail in E1.
    destruct (file_write o2 fid 0 _) as [o3 ok] eqn:E2. apply file_write_nfail in E2.
    destruct ok; cbn [negb] in E; [|discriminate].
    destruct (tiff_set _ (s_tiff s) _) as [[t1 o4] st1] eqn:E3.
    assert (N4 : nfail o4 = (if dstate_eqb st1 Armed then nfail (file_close o3 fid) else S (nfail (file_close o3 fid)))).
    { unfold tiff_set in E3. destruct (file_is_writable (file_close o3 fid) _) as [o5 [|]] eqn:E4;
        apply file_is_writable_nfail in E4; inversion E3; subst; simpl; auto. }
    destruct (dstate_eqb st1 Armed); cbn [negb] in E; [|discriminate].
    destruct (tiff_start fuel fixed _ o4) as [[[t2 o5] st2]|] eqn:E5; [|discriminate].
    destruct (dstate_eqb st2 Running) eqn:R; [|discriminate].
    apply dstate_eqb_eq in R. subst st2. inversion E; subst.
    apply tiff_start_running_nfail in E5; auto. rewrite file_close_nfail in N4. congruence.
  - now inversion H; subst.
Qed.

Lemma get_put_state : forall d st, get_state (put_state d st) = st.
Proof. intros [r|t|s|st0] st; reflexivity. Qed.

(* C16_reports: a start or an append inside which a create or a write failed answers Device_Err and leaves the
   device in a state other than Running -- from ANY device and operating-system state *)
Lemma failure_is_reported : forall fuel x d o d1 o1 st, 4 <= fuel ->
  step fuel fixed x d o = Ret (d1, o1, st) ->
  x = OStart \/ (exists p, x = OAppend p) ->
  nfail o1 <> nfail o ->
  st = Err /\ get_state d1 <> Running.
Proof.
  intros fuel x d o d1 o1 st Hf H Hx Hn. destruct Hx as [->|[p ->]]; cbn [step] in H.
  - unfold hal_start in H. destruct (dstate_eqb (get_state d) Armed); [|inversion H; subst; congruence].
    destruct (dev_start fuel fixed d o) as [[[d' o'] st']|] eqn:E; [|discriminate].
    inversion H; subst. rewrite get_put_state. destruct (dstate_eqb st' Running) eqn:R.
    + apply dstate_eqb_eq in R. subst. apply dev_start_running_nfail in E; auto. congruence.
    + apply dstate_eqb_neq in R. auto.
  - unfold hal_append in H. destruct (dstate_eqb (get_state d) Running); [|inversion H; subst; congruence].
    destruct (p_bytes p) eqn:B; [inversion H; subst; congruence|].
    destruct (dev_append fuel fixed p d o) as [[[d' o'] st']|] eqn:E; [|discriminate].
    inversion H; subst. rewrite get_put_state. destruct (dstate_eqb st' Running) eqn:R.
    + apply dstate_eqb_eq in R. subst. apply dev_append_running_nfail in E; auto. congruence.
    + apply dstate_eqb_neq in R. auto.
Qed.

(* ------------------------------------------------------------------ 3. the descriptor invariant *)
(* the tiff writer holds a descriptor exactly while its state is Running *)
Definition tiff_inv (t : tiff) (own : list nat) : Prop :=
  if dstate_eqb (t_state t) Running then exists fd, t_fid t = Some fd /\ own = [fd] else own = [].

Definition dev_inv (d : dev) (own : list nat) : Prop :=
  match d with
  | DRaw r => if r_open r then (exists fd, r_fid r = Some fd /\ own = [fd]) /\ r_state r = Running
              else own = [] /\ r_state r <> Running
  | DTiff t => tiff_inv t own
  | DSbs s => tiff_inv (s_tiff s) own /\ (s_state s = Running <-> t_state (s_tiff s) = Running)
  | DTrash _ => own = []
  end.

(* [Led own o] (FdTableProofs): the ledger over the log so far accepts every call and leaves [own]; [own] is exactly
   the set of table entries that belong to the device; every descriptor of the rest of the process is still open *)
Definition Inv (d : dev) (o : os) : Prop := exists own, Led own o /\ dev_inv d own.

Lemma Led_close1 : forall fd o, Led [fd] o -> Led [] (file_close o (Some fd)).
Proof.
  intros fd o L. pose proof (Led_close _ _ fd L (or_introl eq_refl)) as Lc.
  simpl in Lc. rewrite Nat.eqb_refl in Lc. exact Lc.
Qed.

Lemma Led_write1 : forall fd o off buf o' ok, Led [fd] o -> file_write o (Some fd) off buf = (o', ok) -> Led [fd] o'.
Proof. intros fd o off buf o' ok L H. eapply Led_file_write in H; eauto. tauto. simpl; auto. Qed.

Lemma tstop_idle : forall t o, dstate_eqb (t_state t) Running = false -> tstop_spec t o = (t, o).
Proof. intros t o H. unfold tstop_spec. now rewrite H. Qed.

Lemma tstop_run : forall t o fd t' o', t_state t = Running -> t_fid t = Some fd -> Led [fd] o ->
  tstop_spec t o = (t', o') -> t' = mkTiff Armed (t_fname t) (Some fd) 0 /\ Led [] o'.
Proof.
  intros t o fd t' o' R F L H. unfold tstop_spec in H. rewrite R, F in H. cbn [dstate_eqb] in H.
  destruct (file_write o (Some fd) 0 (zero_buf sizeof_link)) as [o2 ok] eqn:E.
  inversion H; subst. split; auto. apply Led_close1. eapply Led_write1; eauto.
Qed.

Lemma twrite_own : forall len t o fd t' o' ok, t_fid t = Some fd -> Led [fd] o ->
  twrite_spec len t o = (t', o', ok) ->
  if ok then t' = t /\ Led [fd] o'
  else if dstate_eqb (t_state t) Running then t' = mkTiff Armed (t_fname t) (Some fd) 0 /\ Led [] o'
       else t' = t /\ Led [fd] o'.
Proof.
  intros len t o fd t' o' ok F L H. unfold twrite_spec in H. rewrite F in H.
  destruct (file_write o (Some fd) 0 (zero_buf len)) as [o1 [|]] eqn:E; pose proof (Led_write1 _ _ _ _ _ _ L E) as L1.
  - inversion H; subst. auto.
  - destruct (tstop_spec t o1) as [t2 o2] eqn:E2. inversion H; subst.
    destruct (dstate_eqb (t_state t) Running) eqn:R.
    + apply dstate_eqb_eq in R. eapply tstop_run; eauto.
    + rewrite tstop_idle in E2 by auto. inversion E2; subst. auto.
Qed.

Lemma t_append_inv : forall fuel fd frames t o t' o' ok, 4 <= fuel ->
  t_state t = Running -> t_fid t = Some fd -> Led [fd] o ->
  t_append fuel fixed frames t o = Ret (t', o', ok) ->
  if ok then t_state t' = Running /\ t_fid t' = Some fd /\ Led [fd] o' else t_state t' = Armed /\ Led [] o'.
Proof.
  intros fuel fd frames. induction frames as [|[ld [lf lo]] rest IH]; intros t o t' o' ok Hf R F L H; cbn [t_append] in H.
  - inversion H; subst. auto.
  - assert (RB : dstate_eqb (t_state t) Running = true) by now apply dstate_eqb_eq.
    rewrite t_write_spec in H by auto. destruct (twrite_spec sizeof_ifd t o) as [[t1 o1] ok1] eqn:E1.
    apply (twrite_own _ _ _ fd) in E1; auto. rewrite RB in E1.
    destruct ok1; cbn [fix_d5b fixed andb negb] in H; [|inversion H; subst; destruct E1 as [-> ?]; auto].
    destruct E1 as [-> L1].
    rewrite t_write_spec in H by auto. destruct (twrite_spec ld t o1) as [[t2 o2] ok2] eqn:E2.
    apply (twrite_own _ _ _ fd) in E2; auto. rewrite RB in E2.
    destruct ok2; cbn [andb negb] in H; [|inversion H; subst; destruct E2 as [-> ?]; auto].
    destruct E2 as [-> L2].
    rewrite t_write_spec in H by auto. destruct (twrite_spec _ t o2) as [[t3 o3] ok3] eqn:E3.
    apply (twrite_own _ _ _ fd) in E3; auto. rewrite RB in E3.
    destruct ok3; cbn [andb negb] in H; [|inversion H; subst; destruct E3 as [-> ?]; auto].
    destruct E3 as [-> L3].
    apply IH in H; auto.
Qed.

Lemma tiff_start_inv : forall fuel t o t' o' st, 4 <= fuel ->
  dstate_eqb (t_state t) Running = false -> Led [] o ->
  tiff_start fuel fixed t o = Ret (t', o', st) ->
  (st = Running /\ exists fd, t_fid t' = Some fd /\ Led [fd] o') \/ (st = AwaitingConfiguration /\ Led [] o').
Proof.
  intros fuel t o t' o' st Hf NR L H. unfold tiff_start in H.
  destruct (file_create o (t_fname t)) as [[o1 ok] fid] eqn:E. apply (Led_file_create _ _ _ _ _ _ L) in E.
  destruct ok.
  - destruct E as (fd & -> & L1 & _).
    rewrite t_write_spec in H by auto.
    destruct (twrite_spec sizeof_header (mkTiff (t_state t) (t_fname t) (Some fd) 0) o1) as [[t2 o2] ok2] eqn:E2.
    apply (twrite_own _ _ _ fd) in E2; auto. cbn [t_state] in E2. rewrite NR in E2.
    destruct ok2; cbn [fix_d5b fixed andb negb] in H; destruct E2 as [-> L2]; inversion H; subst.
    + left. split; auto. exists fd. auto.
    + right. split; auto. cbn [t_fid]. now apply Led_close1.
  - destruct E as [L1 _]. inversion H; subst. auto.
Qed.

Lemma tiff_stop_run : forall fuel t o fd t' o' st, 3 <= fuel -> t_state t = Running -> t_fid t = Some fd -> Led [fd] o ->
  tiff_stop fuel fixed t o = Ret (t', o', st) -> st = Armed /\ t_state t' = Armed /\ Led [] o'.
Proof.
  intros fuel t o fd t' o' st Hf R F L H. rewrite tiff_stop_eq in H by auto.
  destruct (tstop_spec t o) as [t2 o2] eqn:E. eapply tstop_run in E; eauto. destruct E as [-> L2].
  inversion H; subst. auto.
Qed.

Lemma tiff_stop_idle : forall fuel t o, 3 <= fuel -> dstate_eqb (t_state t) Running = false ->
  tiff_stop fuel fixed t o = Ret (t, o, Armed).
Proof. intros. rewrite tiff_stop_eq by auto. now rewrite tstop_idle. Qed.

Lemma tiff_append_inv : forall fuel fd frames t o t' o' st, 4 <= fuel ->
  t_state t = Running -> t_fid t = Some fd -> Led [fd] o ->
  tiff_append fuel fixed frames t o = Ret (t', o', st) ->
  (st = Running /\ t_state t' = Running /\ t_fid t' = Some fd /\ Led [fd] o') \/
  (st = Armed /\ t_state t' = Armed /\ Led [] o').
Proof.
  intros fuel fd frames t o t' o' st Hf R F L H. unfold tiff_append in H.
  destruct (t_append fuel fixed frames t o) as [[[t1 o1] ok]|] eqn:E; [|discriminate].
  eapply t_append_inv in E; eauto. destruct ok.
  - inversion H; subst. left. tauto.
  - destruct E as [A L1]. rewrite tiff_stop_idle in H by (try lia; now rewrite A). inversion H; subst. right. auto.
Qed.

(* -- the HAL calls preserve the invariant -- *)
Lemma tiff_inv_idle : forall t own, dstate_eqb (t_state t) Running = false -> tiff_inv t own -> own = [].
Proof. intros t own H D. unfold tiff_inv in D. now rewrite H in D. Qed.

Lemma tiff_inv_run : forall t own, t_state t = Running -> tiff_inv t own -> exists fd, t_fid t = Some fd /\ own = [fd].
Proof. intros t own H D. unfold tiff_inv in D. rewrite H in D. exact D. Qed.

Lemma hal_set_inv : forall uri meta d o d1 o1 st,
  Inv d o -> dstate_eqb (get_state d) Running = false -> hal_set uri meta d o = (d1, o1, st) -> Inv d1 o1.
Proof.
  intros uri meta d o d1 o1 st (own & L & D) NR H. unfold hal_set in H.
  destruct d as [r|t|s|st0]; cbn [dev_set get_state dev_inv] in *.
  - unfold raw_set in H. destruct (file_is_writable o (strip uri)) as [o2 ok] eqn:E.
    destruct (Led_file_is_writable _ _ _ _ _ L E) as [L2 _].
    apply dstate_eqb_neq in NR.
    destruct (r_open r) eqn:RO. { destruct D as [_ D]. congruence. }
    destruct D as [-> _].
    destruct ok; inversion H; subst; exists []; (split; [exact L2|]); cbn [dev_inv put_state r_open r_state];
      rewrite ?RO; split; auto; discriminate.
  - unfold tiff_set in H. destruct (file_is_writable o (strip uri)) as [o2 ok] eqn:E.
    destruct (Led_file_is_writable _ _ _ _ _ L E) as [L2 _].
    apply tiff_inv_idle in D; auto. subst own.
    destruct ok; inversion H; subst; exists []; (split; [exact L2|]); cbn [dev_inv put_state]; reflexivity.
  - destruct D as [D I]. apply dstate_eqb_neq in NR.
    assert (NT : dstate_eqb (t_state (s_tiff s)) Running = false) by (apply dstate_eqb_neq; tauto).
    unfold sbs_set in H. destruct (Nat.ltb meta 2); inversion H; subst; exists own; (split; [exact L|]);
      cbn [dev_inv put_state s_tiff s_state]; (split; [exact D|]); apply dstate_eqb_neq in NT;
      split; intros; congruence.
  - inversion H; subst. eexists. split; [exact L|]. reflexivity.
Qed.

Lemma hal_start_inv : forall fuel d o d1 o1 st, 4 <= fuel ->
  Inv d o -> hal_start fuel fixed d o = Ret (d1, o1, st) -> Inv d1 o1.
Proof.
  intros fuel d o d1 o1 st Hf (own & L & D) H. unfold hal_start in H.
  destruct (dstate_eqb (get_state d) Armed) eqn:A; [|inversion H; subst; exists own; auto].
  apply dstate_eqb_eq in A.
  destruct d as [r|t|s|st0]; cbn [dev_start get_state dev_inv] in *.
  - destruct (r_open r) eqn:RO. { destruct D as [_ D]. congruence. }
    destruct D as [-> _]. unfold raw_start in H.
    destruct (file_create o (r_uri r)) as [[o2 ok] fid] eqn:E. apply (Led_file_create _ _ _ _ _ _ L) in E.
    destruct ok.
    + destruct E as (fd & -> & L2 & _). inversion H; subst. exists [fd]. split; auto.
      cbn [dev_inv put_state r_open r_state r_fid fix_d4 fixed]. split; eauto.
    + destruct E as [L2 _]. inversion H; subst. exists []. split; auto.
      cbn [dev_inv put_state r_open r_state]. rewrite RO. split; auto. discriminate.
  - assert (NR : dstate_eqb (t_state t) Running = false) by now rewrite A.
    apply tiff_inv_idle in D; auto. subst own.
    destruct (tiff_start fuel fixed t o) as [[[t1 o2] st1]|] eqn:E; [|discriminate].
    apply tiff_start_inv in E; auto. inversion H; subst.
    destruct E as [(-> & fd & F & L2)|(-> & L2)].
    + exists [fd]. split; auto. cbn [dev_inv put_state]. unfold tiff_inv. cbn [tiff_put_state t_state t_fid dstate_eqb]. eauto.
    + exists []. split; auto. reflexivity.
  - destruct D as [D I].
    assert (NT : dstate_eqb (t_state (s_tiff s)) Running = false).
    { apply dstate_eqb_neq. intros T. apply I in T. congruence. }
    apply tiff_inv_idle in D; auto. subst own.
    destruct (sbs_start fuel fixed s o) as [[[s1 o2] st1]|] eqn:E; [|discriminate].
    inversion H; subst. clear H. unfold sbs_start in E.
    assert (Keep : Inv (put_state (DSbs s) AwaitingConfiguration) o -> True) by auto.
    assert (Idle : forall o', Led [] o' -> Inv (put_state (DSbs s) AwaitingConfiguration) o').
    { intros o' L'. exists []. split; auto. cbn [dev_inv put_state s_tiff s_state]. split.
      - unfold tiff_inv. now rewrite NT.
      - apply dstate_eqb_neq in NT. split; intros; congruence. }
    destruct (s_uri s) eqn:U. { inversion E; subst. auto. }
    destruct (file_create o _) as [[o3 ok] fid] eqn:E1. apply (Led_file_create _ _ _ _ _ _ L) in E1.
    destruct ok; [|destruct E1 as [L3 _]; inversion E; subst; auto].
    destruct E1 as (fdm & -> & L3 & _).
    destruct (file_write o3 (Some fdm) 0 _) as [o4 okw] eqn:E2. apply (Led_write1 _ _ _ _ _ _ L3) in E2.
    apply Led_close1 in E2.
    destruct okw; cbn [negb] in E; [|inversion E; subst; auto].
    destruct (tiff_set _ (s_tiff s) _) as [[t1 o5] stt] eqn:E3.
    assert (L5 : Led [] o5 /\ t_state t1 = t_state (s_tiff s)).
    { unfold tiff_set in E3. destruct (file_is_writable _ _) as [o6 okp] eqn:E4.
      destruct (Led_file_is_writable _ _ _ _ _ E2 E4) as [L6 _]. destruct okp; inversion E3; subst; auto. }
    destruct L5 as [L5 S1]. cbn [fix_d6 fixed] in E.
    destruct (dstate_eqb stt Armed) eqn:SA; cbn [negb] in E.
    + apply dstate_eqb_eq in SA. subst stt.
      destruct (tiff_start fuel fixed (tiff_put_state t1 Armed) o5) as [[[t2 o6] st2]|] eqn:E5; [|discriminate].
      apply tiff_start_inv in E5; auto. inversion E; subst.
      destruct E5 as [(-> & fd & F & L6)|(-> & L6)].
      * exists [fd]. split; auto. cbn [dev_inv put_state sbs_put_tiff s_tiff s_state dstate_eqb]. split.
        -- unfold tiff_inv. cbn [tiff_put_state t_state t_fid dstate_eqb]. eauto.
        -- cbn [tiff_put_state t_state]. tauto.
      * exists []. split; auto. cbn [dev_inv put_state sbs_put_tiff s_tiff s_state dstate_eqb]. split.
        -- reflexivity.
        -- cbn [tiff_put_state t_state]. split; intros; discriminate.
    + inversion E; subst. exists []. split; auto.
      cbn [dev_inv put_state sbs_put_tiff s_tiff s_state]. apply dstate_eqb_neq in SA. split.
      * unfold tiff_inv. cbn [tiff_put_state t_state].
        destruct (dstate_eqb stt Running) eqn:SR; auto. apply dstate_eqb_eq in SR. subst.
        unfold tiff_set in E3. destruct (file_is_writable _ _) as [? []]; inversion E3; subst; congruence.
      * cbn [tiff_put_state t_state]. split; intros; try discriminate.
        subst. unfold tiff_set in E3. destruct (file_is_writable _ _) as [? []]; inversion E3; subst; congruence.
  - inversion H; subst. eexists. split; [exact L|]. reflexivity.
Qed.

Lemma hal_append_inv : forall fuel p d o d1 o1 st, 4 <= fuel ->
  Inv d o -> hal_append fuel fixed p d o = Ret (d1, o1, st) -> Inv d1 o1.
Proof.
  intros fuel p d o d1 o1 st Hf (own & L & D) H. unfold hal_append in H.
  destruct (dstate_eqb (get_state d) Running) eqn:A; [|inversion H; subst; exists own; auto].
  apply dstate_eqb_eq in A.
  destruct (p_bytes p) eqn:B; [inversion H; subst; exists own; auto|]. clear B.
  destruct d as [r|t|s|st0]; cbn [dev_append get_state dev_inv] in *.
  - destruct (r_open r) eqn:RO; [|destruct D as [_ D]; congruence].
    destruct D as [(fd & F & ->) _]. unfold raw_append in H. rewrite F in H.
    destruct (file_write o (Some fd) (r_off r) (p_bytes p)) as [o2 ok] eqn:E.
    apply (Led_write1 _ _ _ _ _ _ L) in E. destruct ok.
    + inversion H; subst. exists [fd]. split; auto.
      cbn [dev_inv put_state r_open r_state r_fid]. rewrite RO. split; eauto.
    + unfold raw_stop in H. cbn [fix_d4 fixed] in H. rewrite RO, F in H. inversion H; subst.
      exists []. split. now apply Led_close1.
      cbn [dev_inv put_state r_open r_state]. split; auto. discriminate.
  - apply tiff_inv_run in D; auto. destruct D as (fd & F & ->).
    destruct (tiff_append fuel fixed (p_frames p) t o) as [[[t1 o2] st1]|] eqn:E; [|discriminate].
    eapply tiff_append_inv in E; eauto. inversion H; subst.
    destruct E as [(-> & R1 & F1 & L2)|(-> & R1 & L2)].
    + exists [fd]. split; auto. cbn [dev_inv put_state]. unfold tiff_inv. cbn [tiff_put_state t_state t_fid dstate_eqb]. eauto.
    + exists []. split; auto. reflexivity.
  - destruct D as [D I]. assert (RT : t_state (s_tiff s) = Running) by tauto.
    apply tiff_inv_run in D; auto. destruct D as (fd & F & ->).
    destruct (sbs_append fuel fixed (p_frames p) s o) as [[[s1 o2] st1]|] eqn:E; [|discriminate].
    inversion H; subst. clear H. unfold sbs_append in E.
    destruct (tiff_append fuel fixed (p_frames p) (s_tiff s) o) as [[[t1 o3] st2]|] eqn:E2; [|discriminate].
    eapply tiff_append_inv in E2; eauto.
    destruct E2 as [(-> & R1 & F1 & L2)|(-> & R1 & L2)]; cbn [dstate_eqb] in E.
    + inversion E; subst. exists [fd]. split; auto.
      cbn [dev_inv put_state sbs_put_tiff s_tiff s_state]. split.
      * unfold tiff_inv. rewrite R1. cbn [dstate_eqb]. eauto.
      * tauto.
    + rewrite sbs_stop_eq in E by lia. cbn [sbs_put_tiff s_tiff] in E.
      rewrite tstop_idle in E by now rewrite R1. cbn [fst snd] in E. inversion E; subst.
      exists []. split; auto. cbn [dev_inv put_state sbs_put_tiff s_tiff s_state]. split.
      * unfold tiff_inv. now rewrite R1.
      * rewrite R1. split; intros; discriminate.
  - inversion H; subst. eexists. split; [exact L|]. reflexivity.
Qed.

Lemma hal_stop_inv : forall fuel d o d1 o1 st, 4 <= fuel ->
  Inv d o -> hal_stop fuel fixed d o = Ret (d1, o1, st) ->
  Inv d1 o1 /\ get_state d1 <> Running.
Proof.
  intros fuel d o d1 o1 st Hf (own & L & D) H. unfold hal_stop in H.
  destruct (dstate_eqb (get_state d) Running) eqn:A.
  2:{ inversion H; subst. split. exists own; auto. now apply dstate_eqb_neq. }
  apply dstate_eqb_eq in A.
  destruct d as [r|t|s|st0]; cbn [dev_stop get_state dev_inv] in *.
  - destruct (r_open r) eqn:RO; [|destruct D as [_ D]; congruence].
    destruct D as [(fd & F & ->) _]. unfold raw_stop in H. cbn [fix_d4 fixed] in H. rewrite RO, F in H.
    inversion H; subst. split; [|cbn [get_state put_state r_state]; discriminate].
    exists []. split. now apply Led_close1.
    cbn [dev_inv put_state r_open r_state]. split; auto. discriminate.
  - apply tiff_inv_run in D; auto. destruct D as (fd & F & ->).
    destruct (tiff_stop fuel fixed t o) as [[[t1 o2] st1]|] eqn:E; [|discriminate].
    eapply tiff_stop_run in E; eauto; try lia. destruct E as (-> & R1 & L2). inversion H; subst.
    split; [|cbn [get_state put_state tiff_put_state t_state]; discriminate].
    exists []. split; auto. reflexivity.
  - destruct D as [D I]. assert (RT : t_state (s_tiff s) = Running) by tauto.
    apply tiff_inv_run in D; auto. destruct D as (fd & F & ->).
    rewrite sbs_stop_eq in H by lia.
    destruct (tstop_spec (s_tiff s) o) as [t2 o2] eqn:E. eapply tstop_run in E; eauto. destruct E as [-> L2].
    cbn [fst snd] in H. inversion H; subst.
    split; [|cbn [get_state put_state s_state]; discriminate].
    exists []. split; auto. cbn [dev_inv put_state sbs_put_tiff s_tiff s_state]. split.
    + reflexivity.
    + cbn [t_state]. split; intros; discriminate.
  - inversion H; subst. split; [|cbn [get_state put_state]; discriminate].
    eexists. split; [exact L|]. reflexivity.
Qed.

Lemma step_inv : forall fuel x d o d1 o1 st, 4 <= fuel ->
  Inv d o -> allowed x d = true -> step fuel fixed x d o = Ret (d1, o1, st) -> Inv d1 o1.
Proof.
  intros fuel x d o d1 o1 st Hf I A H. destruct x as [uri meta| |p| | |k]; cbn [step allowed] in *.
  - inversion H. eapply hal_set_inv; eauto. now apply negb_true_iff in A.
  - eapply hal_start_inv; eauto.
  - eapply hal_append_inv; eauto.
  - eapply hal_stop_inv; eauto.
  - inversion H; subst. destruct I as (own & L & D). exists own. split; auto. now apply Led_env_open.
  - inversion H; subst. destruct I as (own & L & D). exists own. split; auto. now apply Led_env_close.
Qed.

Lemma run_inv : forall fuel h d o rs d' o', 4 <= fuel ->
  Inv d o -> run fuel fixed h d o = Ret (rs, d', o') -> disciplined rs = true -> Inv d' o'.
Proof.
  intros fuel h. induction h as [|x h IH]; intros d o rs d' o' Hf I H Dis; cbn [run] in H.
  - now inversion H; subst.
  - destruct (step fuel fixed x d o) as [[[d1 o1] st]|] eqn:E; [|discriminate].
    destruct (run fuel fixed h d1 o1) as [[[rs1 d2] o2]|] eqn:E2; [|discriminate].
    inversion H; subst. unfold disciplined in Dis. cbn [forallb fst] in Dis. apply andb_true_iff in Dis.
    destruct Dis as [A Dis]. eapply (IH d1 o1 rs1); eauto. eapply step_inv; eauto.
Qed.

Lemma init_inv : forall k env_fds cs ws, NoDup env_fds -> Inv (dev_init k) (os_init env_fds cs ws).
Proof.
  intros k env_fds cs ws Hnd. exists []. split. now apply Led_init.
  destruct k; cbn [dev_init dev_inv raw_init r_open r_state]; try reflexivity.
  - split; auto. discriminate.
  - split. reflexivity. cbn [sbs_init s_state s_tiff tiff_init t_state]. split; intros; discriminate.
Qed.

(* destroy after the HAL's stop: nothing is left to close, and nothing is closed *)
Lemma hal_close_inv : forall fuel d o o', 4 <= fuel ->
  Inv d o -> hal_close fuel fixed d o = Ret o' -> Led [] o'.
Proof.
  intros fuel d o o' Hf I H. unfold hal_close in H.
  destruct (hal_stop fuel fixed d o) as [[[d1 o1] st]|] eqn:E; [|discriminate].
  eapply hal_stop_inv in E; eauto. destruct E as [(own & L & D) NR].
  destruct d1 as [r|t|s|st0]; cbn [dev_destroy get_state dev_inv] in *.
  - destruct (r_open r) eqn:RO. { destruct D as [_ D]. congruence. }
    destruct D as [-> _]. unfold raw_destroy, raw_stop in H. cbn [fix_d4 fixed] in H. rewrite RO in H.
    now inversion H; subst.
  - apply dstate_eqb_neq in NR. apply tiff_inv_idle in D; auto. subst own.
    unfold tiff_destroy in H. rewrite t_stop_spec in H by lia. rewrite tstop_idle in H by auto.
    rewrite t_stop_spec in H by lia. rewrite tstop_idle in H by auto. now inversion H; subst.
  - destruct D as [D I2].
    assert (NT : dstate_eqb (t_state (s_tiff s)) Running = false) by (apply dstate_eqb_neq; tauto).
    apply tiff_inv_idle in D; auto. subst own.
    unfold sbs_destroy in H. rewrite sbs_stop_eq in H by lia. rewrite tstop_idle in H by auto.
    cbn [fst snd sbs_put_tiff s_tiff] in H.
    unfold tiff_destroy in H. rewrite t_stop_spec in H by lia. rewrite tstop_idle in H by auto.
    rewrite t_stop_spec in H by lia. rewrite tstop_idle in H by auto. now inversion H; subst.
  - subst own. now inversion H; subst.
Qed.

Lemma life_led : forall fuel k h env_fds cs ws rs o', 4 <= fuel -> NoDup env_fds ->
  life fuel fixed k h (os_init env_fds cs ws) = Ret (rs, o') -> disciplined rs = true -> Led [] o'.
Proof.
  intros fuel k h env_fds cs ws rs o' Hf Hnd H Dis. unfold life in H.
  destruct (run fuel fixed h (dev_init k) (os_init env_fds cs ws)) as [[[rs1 d1] o1]|] eqn:E; [|discriminate].
  destruct (hal_close fuel fixed d1 o1) as [o2|] eqn:E2; [|discriminate].
  inversion H; subst. eapply hal_close_inv; eauto. eapply run_inv; eauto. now apply init_inv.
Qed.

(* ------------------------------------------------------------------ the statements in terms of the log alone *)
Lemma ledger_prefix : forall t1 t2 own own', ledger own (t1 ++ t2) = Some own' -> exists own1, ledger own t1 = Some own1 /\ ledger own1 t2 = Some own'.
Proof.
  intros t1 t2 own own' H. rewrite ledger_app in H. destruct (ledger own t1) as [own1|]; [|discriminate]. eauto.
Qed.

Lemma accepted_log_targets_held : forall tr t1 e t2 fdarg,
  ledger [] tr = Some [] -> tr = t1 ++ e :: t2 -> targets e = Some fdarg ->
  exists fd, fdarg = Some fd /\ held fd t1.
Proof.
  intros tr t1 e t2 fdarg HL -> HT.
  apply ledger_prefix in HL. destruct HL as (own1 & H1 & H2). cbn [ledger] in H2.
  destruct (ledger_step own1 e) as [own2|] eqn:E; [|discriminate].
  assert (G : exists fd, fdarg = Some fd /\ memb fd own1 = true).
  { destruct e as [p r | n ok | n ok | [n|] off len r | [n|] ok | n | n]; cbn [targets ledger_step] in *; try discriminate;
      inversion HT; subst; try discriminate; destruct (memb n own1) eqn:M; try discriminate; eauto. }
  destruct G as (fd & -> & M). exists fd. split; auto.
  destruct (ledger_counts t1 [] own1 fd (NoDup_nil _) H1) as [_ C]. rewrite M in C. cbn [memb existsb] in C.
  unfold held. lia.
Qed.

Lemma accepted_log_balanced : forall tr fd, ledger [] tr = Some [] ->
  count_ev (opens_of fd) tr = count_ev (closes_of fd) tr.
Proof.
  intros tr fd H. destruct (ledger_counts tr [] [] fd (NoDup_nil _) H) as [_ C]. cbn [memb existsb] in C. lia.
Qed.

(* C16_owned_fds *)
Lemma owned_fds : forall fuel k h env_fds cs ws rs o', 4 <= fuel -> NoDup env_fds ->
  life fuel fixed k h (os_init env_fds cs ws) = Ret (rs, o') -> disciplined rs = true ->
  forall t1 e t2 fdarg, trace o' = t1 ++ e :: t2 -> targets e = Some fdarg ->
  exists fd, fdarg = Some fd /\ held fd t1.
Proof.
  intros fuel k h env_fds cs ws rs o' Hf Hnd H Dis t1 e t2 fdarg Ht HT.
  pose proof (life_led _ _ _ _ _ _ _ _ Hf Hnd H Dis) as L.
  eapply accepted_log_targets_held; eauto. apply (led_ledger _ _ L).
Qed.

(* C16_closed_once *)
Lemma closed_once : forall fuel k h env_fds cs ws rs o', 4 <= fuel -> NoDup env_fds ->
  life fuel fixed k h (os_init env_fds cs ws) = Ret (rs, o') -> disciplined rs = true ->
  (forall fd, count_ev (opens_of fd) (trace o') = count_ev (closes_of fd) (trace o')) /\
  (forall fd p, lookup fd (tbl o') <> Some (mkEnt Dev p)) /\
  (forall fd, In fd (keep o' ++ envs o') -> exists p, lookup fd (tbl o') = Some (mkEnt Env p)).
Proof.
  intros fuel k h env_fds cs ws rs o' Hf Hnd H Dis.
  pose proof (life_led _ _ _ _ _ _ _ _ Hf Hnd H Dis) as L. split; [|split].
  - intros fd. apply accepted_log_balanced. apply (led_ledger _ _ L).
  - intros fd p E. apply (proj2 (led_own _ _ L fd)). now exists p.
  - intros fd Hin. apply (led_others _ _ L fd Hin).
Qed.

(* the same ledger, run on the log: what the extracted oracle prints and the check compares *)
Lemma life_ledger : forall fuel k h env_fds cs ws rs o', 4 <= fuel -> NoDup env_fds ->
  life fuel fixed k h (os_init env_fds cs ws) = Ret (rs, o') -> disciplined rs = true ->
  ledger [] (trace o') = Some [].
Proof. intros. eapply led_ledger. eapply life_led; eauto. Qed.

Lemma write_error_path : forall fuel len t o, 4 <= fuel ->
  t_write_ fuel fixed len t o = Ret (twrite_spec len t o) /\ t_stop fuel fixed t o = Ret (tstop_spec t o).
Proof. intros fuel len t o H. split. now apply t_write_spec. apply t_stop_spec. lia. Qed.
