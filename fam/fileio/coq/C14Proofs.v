(* C14Proofs.v -- the raw device writes exactly the appended bytes (fixed variant of Raw.v over FdTable.v). *)
From Coq Require Import String.
From Coq Require Import List Arith NArith Bool Lia.
From FileIO Require Import Pwrite PwriteProofs FdTable FdTableProofs Raw TiffFail SideBySide Hal Spec.
Import ListNotations.
Local Open Scope nat_scope.
Local Open Scope list_scope.

(* ------------------------------------------------------------------ Pwrite_all / Pwrite_fail, spelled out *)
(* the file after a successful file_write: the range holds the buffer, every other byte is what it was (bytes beyond
   the old end of file read as zero), and the length is what it has to be *)
Lemma pwrite_file_spec : forall f off buf,
  (forall i, i < length buf -> nth (off + i) (pwrite_file f off buf) 0%N = nth i buf 0%N) /\
  (forall i, i < off \/ off + length buf <= i -> nth i (pwrite_file f off buf) 0%N = nth i f 0%N) /\
  (buf <> [] -> length (pwrite_file f off buf) = Nat.max (length f) (off + length buf)).
Proof.
  intros f off buf. destruct buf as [|b buf].
  - simpl. split; [intros; lia|]. split; auto. congruence.
  - unfold pwrite_file. split; [|split].
    + intros i Hi. now apply write_at_inside.
    + intros i [Hi|Hi]. now apply write_at_before. now apply write_at_after.
    + intros _. apply write_at_length.
Qed.

Lemma pwrite_all : forall ws pat k f off buf,
  delivers ws k (length buf) pat -> list_sum pat = length buf -> zeros pat < 3 ->
  exists k' f', file_write1 ws (k, f) off buf = ((k', f'), true) /\ k' <= k + length pat /\
    f' = pwrite_file f off buf /\
    (forall i, i < length buf -> nth (off + i) f' 0%N = nth i buf 0%N) /\
    (forall i, i < off \/ off + length buf <= i -> nth i f' 0%N = nth i f 0%N).
Proof.
  intros ws pat k f off buf Hd Hs Hz.
  destruct (file_write1_all ws pat k f off buf Hd Hs Hz) as (k' & Hk & E).
  exists k', (pwrite_file f off buf). destruct (pwrite_file_spec f off buf) as (A & B & _). auto.
Qed.

(* ------------------------------------------------------------------ file_write on the operating-system model *)
Section WriteView.
  Variable o0 : os.
  Variable fd : nat.
  Variable p : path.
  Hypothesis Hlk : lookup fd (tbl o0) = Some (mkEnt Dev p).

  Definition wv_P (s : os) : Prop :=
    tbl s = tbl o0 /\ (exists c, fs s p = Some c) /\ (forall q, q <> p -> fs s q = fs o0 q).
  Definition wv_view (s : os) : file := match fs s p with Some c => c | None => [] end.

  Lemma wv_prim_P : forall s off buf s' r, wv_P s -> os_pwrite (Some fd) s off buf = (s', r) -> wv_P s'.
  Proof.
    intros s off buf s' r (Ht & (c & Hc) & Hq) H. unfold os_pwrite in H. rewrite Ht, Hlk in H. cbn [fe_path] in H.
    rewrite Hc in H.
    destruct (deliver (wscr s (nwrite s)) (length buf)) as [w|]; inversion H; subst; unfold wv_P; simpl.
    - split; auto. split. { rewrite upd_same. eauto. } intros q Hn. rewrite upd_other by auto. auto.
    - split; auto. split; eauto.
  Qed.

  Lemma wv_prim_view : forall s off buf s' r, wv_P s -> os_pwrite (Some fd) s off buf = (s', r) ->
    match r with
    | Some w => w <= length buf /\ wv_view s' = pwrite_file (wv_view s) off (firstn w buf)
    | None => wv_view s' = wv_view s
    end.
  Proof.
    intros s off buf s' r (Ht & (c & Hc) & Hq) H. unfold os_pwrite in H. rewrite Ht, Hlk in H. cbn [fe_path] in H.
    rewrite Hc in H.
    destruct (deliver (wscr s (nwrite s)) (length buf)) as [w|] eqn:D; inversion H; subst; unfold wv_view; simpl.
    - split. eapply deliver_le; eauto. now rewrite upd_same, Hc.
    - reflexivity.
  Qed.

  Lemma file_write_ok_fs : forall c off buf o',
    fs o0 p = Some c -> file_write o0 (Some fd) off buf = (o', true) ->
    fs o' p = Some (pwrite_file c off buf) /\ (forall q, q <> p -> fs o' q = fs o0 q) /\ tbl o' = tbl o0.
  Proof.
    intros c off buf o' Hc H. unfold file_write in H.
    destruct (file_write_gen os (os_pwrite (Some fd)) o0 off buf) as [o1 b] eqn:E.
    destruct b; inversion H; subst o1. clear H.
    assert (P0 : wv_P o0) by (unfold wv_P; eauto).
    pose proof (file_write_gen_inv os (os_pwrite (Some fd)) wv_P wv_prim_P _ _ _ _ _ P0 E) as (Ht & (c' & Hc') & Hq).
    destruct (file_write_gen_view os (os_pwrite (Some fd)) wv_P wv_prim_P wv_view wv_prim_view _ _ _ _ _ P0 E)
      as (m & Hm & Hv & Hb).
    rewrite (Hb eq_refl), firstn_all in Hv. unfold wv_view in Hv. rewrite Hc, Hc' in Hv. subst c'. auto.
  Qed.
End WriteView.

(* ------------------------------------------------------------------ the raw device, call by call *)
Definition ok_of (r : bool * status * dstate) : status := snd (fst r).

Lemma all_ok_cons : forall r rs, all_ok (r :: rs) <-> ok_of r = Ok /\ all_ok rs.
Proof. intros. unfold all_ok. split; intros H. inversion H; subst; auto. destruct H; constructor; auto. Qed.

Lemma all_ok_app : forall a b, all_ok (a ++ b) <-> all_ok a /\ all_ok b.
Proof. intros. unfold all_ok. apply Forall_app. Qed.

Lemma run_cons : forall fuel v x h d o,
  run fuel v (x :: h) d o =
  match step fuel v x d o with
  | Diverges => Diverges
  | Ret (d1, o1, st) =>
    match run fuel v h d1 o1 with
    | Diverges => Diverges
    | Ret (rs, d2, o2) => Ret ((allowed x d, st, get_state d1) :: rs, d2, o2)
    end
  end.
Proof. reflexivity. Qed.

Lemma run_app : forall fuel v h1 h2 d o rs d' o',
  run fuel v (h1 ++ h2) d o = Ret (rs, d', o') ->
  exists rs1 d1 o1 rs2, run fuel v h1 d o = Ret (rs1, d1, o1) /\ run fuel v h2 d1 o1 = Ret (rs2, d', o') /\ rs = rs1 ++ rs2.
Proof.
  intros fuel v h1. induction h1 as [|x h1 IH]; intros h2 d o rs d' o' H.
  - exists [], d, o, rs. auto.
  - cbn [app] in H. rewrite run_cons in *. destruct (step fuel v x d o) as [[[da oa] st]|]; [|discriminate].
    destruct (run fuel v (h1 ++ h2) da oa) as [[[rsa db] ob]|] eqn:E; [|discriminate].
    inversion H; subst. apply IH in E. destruct E as (rs1 & d1 & o1 & rs2 & E1 & E2 & ->).
    exists ((allowed x d, st, get_state da) :: rs1), d1, o1, rs2. rewrite E1. auto.
Qed.

(* a running raw device: its file is open under [fd], holds [c], and the next append goes to its end *)
Definition raw_at (r : raw) (o : os) (fd : nat) (c : file) : Prop :=
  r_open r = true /\ r_state r = Running /\ r_fid r = Some fd /\
  lookup fd (tbl o) = Some (mkEnt Dev (r_uri r)) /\ fs o (r_uri r) = Some c /\ r_off r = length c.

Lemma append_ok : forall fuel b r o fd c d1 o1 st,
  raw_at r o fd c -> step fuel fixed (OAppend (mkPkt b [])) (DRaw r) o = Ret (d1, o1, st) -> st = Ok ->
  exists r1, d1 = DRaw r1 /\ r_uri r1 = r_uri r /\ raw_at r1 o1 fd (c ++ b) /\
             forall q, q <> r_uri r -> fs o1 q = fs o q.
Proof.
  intros fuel b r o fd c d1 o1 st (RO & RS & RF & LK & FS & OFF) H ->. cbn [step] in H. unfold hal_append in H.
  cbn [get_state] in H. rewrite RS in H. cbn [dstate_eqb p_bytes] in H.
  destruct b as [|x b].
  - inversion H; subst. exists r. rewrite app_nil_r. unfold raw_at. auto 10.
  - cbn [dev_append p_bytes] in H. unfold raw_append in H. rewrite RF, OFF in H.
    destruct (file_write o (Some fd) (length c) (x :: b)) as [o2 [|]] eqn:E.
    + inversion H; subst.
      destruct (file_write_ok_fs o fd (r_uri r) LK c (length c) (x :: b) o1 FS E) as (F1 & F2 & F3).
      rewrite pwrite_file_end in F1.
      eexists. split; [reflexivity|]. cbn [put_state r_uri]. split; auto. split; auto.
      unfold raw_at. cbn [r_open r_state r_fid r_uri r_off]. rewrite F3, app_length. auto 10.
    + unfold raw_stop in H. cbn [fix_d4 fixed] in H. rewrite RO in H. inversion H.
Qed.

Lemma appends_ok : forall fuel pkts r o fd c rs d' o',
  raw_at r o fd c ->
  run fuel fixed (map (fun b => OAppend (mkPkt b [])) pkts) (DRaw r) o = Ret (rs, d', o') -> all_ok rs ->
  exists r', d' = DRaw r' /\ r_uri r' = r_uri r /\ raw_at r' o' fd (c ++ concat pkts) /\
             forall q, q <> r_uri r -> fs o' q = fs o q.
Proof.
  intros fuel pkts. induction pkts as [|b pkts IH]; intros r o fd c rs d' o' A H OK.
  - cbn [map run] in H. inversion H; subst. exists r. cbn [concat]. rewrite app_nil_r. auto.
  - cbn [map] in H. rewrite run_cons in H.
    destruct (step fuel fixed (OAppend (mkPkt b [])) (DRaw r) o) as [[[d1 o1] st]|] eqn:E; [|discriminate].
    destruct (run fuel fixed _ d1 o1) as [[[rs1 d2] o2]|] eqn:E2; [|discriminate].
    inversion H; subst. apply all_ok_cons in OK. destruct OK as [K1 K2]. cbn [ok_of fst snd] in K1.
    destruct (append_ok _ _ _ _ _ _ _ _ _ A E K1) as (r1 & -> & U1 & A1 & Q1).
    destruct (IH _ _ _ _ _ _ _ A1 E2 K2) as (r' & -> & U' & A' & Q').
    exists r'. split; auto. split. congruence. cbn [concat]. rewrite app_assoc. split; auto.
    intros q Hq. rewrite Q' by congruence. auto.
Qed.

(* one acquisition, from an idle device *)
Lemma cycle_ok : forall fuel c r o rs d' o',
  r_open r = false -> r_state r <> Running ->
  run fuel fixed (cycle_ops c) (DRaw r) o = Ret (rs, d', o') -> all_ok rs ->
  exists r', d' = DRaw r' /\ r_open r' = false /\ r_state r' <> Running /\
             fs o' (c_path c) = Some (c_bytes c) /\ forall q, q <> c_path c -> fs o' q = fs o q.
Proof.
  intros fuel c r o rs d' o' RO RS H OK. unfold cycle_ops in H.
  (* set *)
  rewrite run_cons in H. cbn [step] in H. unfold hal_set in H. cbn [dev_set] in H. unfold raw_set in H.
  destruct (file_is_writable o (strip (c_uri c))) as [o1 okw] eqn:E1.
  pose proof (file_is_writable_fs _ _ _ _ E1) as F1.
  destruct okw.
  2:{ exfalso. destruct (run fuel fixed _ _ o1) as [[[rs1 d2] o2]|]; [|discriminate]. inversion H; subst.
      apply all_ok_cons in OK. destruct OK as [K _]. cbn in K. discriminate. }
  cbn [put_state r_uri r_fid r_open r_off dstate_eqb] in H.
  (* start *)
  rewrite run_cons in H. cbn [step] in H. unfold hal_start in H. cbn [get_state r_state dstate_eqb dev_start] in H.
  unfold raw_start in H. cbn [r_uri r_state r_open r_off fix_d3 fix_d4 fixed] in H.
  destruct (file_create o1 (strip (c_uri c))) as [[o2 okc] fid] eqn:E2.
  destruct okc.
  2:{ exfalso. cbn [put_state dstate_eqb] in H.
      destruct (run fuel fixed _ _ o2) as [[[rs1 d2] o3]|]; [|discriminate]. inversion H; subst.
      apply all_ok_cons in OK. destruct OK as [_ OK]. apply all_ok_cons in OK. destruct OK as [K _]. cbn in K. discriminate. }
  pose proof (file_create_fs _ _ _ _ E2) as (F2 & F2').
  assert (LK : exists fd, fid = Some fd /\ lookup fd (tbl o2) = Some (mkEnt Dev (strip (c_uri c)))).
  { unfold file_create in E2. destruct (os_open o1 (strip (c_uri c))) as [o3 [fd|]] eqn:E3; [|inversion E2].
    apply os_open_ok in E3. destruct E3 as (_ & T3 & _).
    exists fd. destruct (cscr o1 (nopen o1)); cbv zeta in E2; inversion E2; subst; split; auto; simpl; rewrite T3;
      simpl; now rewrite Nat.eqb_refl. }
  destruct LK as (fd & -> & LK).
  cbn [put_state dstate_eqb r_uri r_fid r_open r_off] in H.
  (* appends and stop *)
  match type of H with
  | match (match run _ _ _ ?D _ with _ => _ end) with _ => _ end = _ => set (r0 := D) in *
  end.
  destruct (run fuel fixed (map (fun b => OAppend (mkPkt b [])) (c_pkts c) ++ [OStop]) r0 o2) as [[[rs2 d2] o3]|] eqn:E3;
    [|discriminate].
  inversion H; subst rs d' o'. clear H.
  apply all_ok_cons in OK. destruct OK as [_ OK]. apply all_ok_cons in OK. destruct OK as [_ OK].
  apply run_app in E3. destruct E3 as (rsa & da & oa & rsb & Ea & Eb & ->).
  apply all_ok_app in OK. destruct OK as [OKa _].
  subst r0.
  match type of Ea with run _ _ _ (DRaw ?R) _ = _ => set (r0 := R) in * end.
  assert (A0 : raw_at r0 o2 fd []).
  { unfold raw_at, r0. cbn [r_open r_state r_fid r_uri r_off]. auto 10. }
  destruct (appends_ok _ _ _ _ _ _ _ _ _ A0 Ea OKa) as (ra & -> & Ua & (RO' & RS' & RF' & LK' & FS' & OFF') & Qa).
  cbn [app] in FS'.
  (* stop *)
  rewrite run_cons in Eb. cbn [step run] in Eb. unfold hal_stop in Eb. cbn [get_state] in Eb. rewrite RS' in Eb.
  cbn [dstate_eqb dev_stop] in Eb. unfold raw_stop in Eb. cbn [fix_d4 fixed] in Eb. rewrite RO' in Eb.
  cbn [dstate_eqb orb put_state] in Eb. inversion Eb; subst. clear Eb.
  eexists. split; [reflexivity|]. cbn [r_open r_state]. split; auto. split; [discriminate|].
  unfold file_close. destruct (os_close_frame oa (r_fid ra)) as (Fc & _). rewrite Fc.
  assert (U : r_uri ra = c_path c) by (rewrite Ua; reflexivity).
  rewrite U in *. split.
  - exact FS'.
  - intros q Hq. rewrite Qa by (subst r0; cbn [r_uri]; exact Hq). rewrite F2' by exact Hq. apply F1.
Qed.

(* acquisitions to other paths leave a file alone *)
Lemma later_cycles_keep : forall fuel post r1 o1 rs2 d' o' q,
  r_open r1 = false -> r_state r1 <> Running ->
  run fuel fixed (history post) (DRaw r1) o1 = Ret (rs2, d', o') -> all_ok rs2 ->
  (forall c', In c' post -> c_path c' <> q) -> fs o' q = fs o1 q.
Proof.
  intros fuel post. induction post as [|c2 post IH]; intros r1 o1 rs2 d' o' q RO1 RS1 E2 OK2 Hlater.
  - cbn in E2. now inversion E2; subst.
  - unfold history in E2. cbn [flat_map] in E2. apply run_app in E2.
    destruct E2 as (rsa & da & oa & rsb & Ea & Eb & ->). apply all_ok_app in OK2. destruct OK2 as [OKa OKb].
    destruct (cycle_ok _ _ _ _ _ _ _ RO1 RS1 Ea OKa) as (ra & -> & ROa & RSa & Fa & Qa).
    rewrite (IH ra oa rsb d' o' q); auto.
    + apply Qa. intros E. symmetry in E. revert E. apply Hlater. now left.
    + intros c' Hin. apply Hlater. now right.
Qed.

(* C14_exact: every acquisition of the history leaves exactly its appended bytes in its file; a file is only changed
   again by a later acquisition to the same path *)
Lemma raw_files_exact : forall fuel cycles r o rs d' o',
  r_open r = false -> r_state r <> Running ->
  run fuel fixed (history cycles) (DRaw r) o = Ret (rs, d', o') -> all_ok rs ->
  forall pre c post, cycles = pre ++ c :: post -> (forall c', In c' post -> c_path c' <> c_path c) ->
  fs o' (c_path c) = Some (c_bytes c).
Proof.
  intros fuel cycles. induction cycles as [|c0 cycles IH]; intros r o rs d' o' RO RS H OK pre c post Hc Hlater.
  - destruct pre; discriminate.
  - unfold history in H. cbn [flat_map] in H. apply run_app in H.
    destruct H as (rs1 & d1 & o1 & rs2 & E1 & E2 & ->). apply all_ok_app in OK. destruct OK as [OK1 OK2].
    destruct (cycle_ok _ _ _ _ _ _ _ RO RS E1 OK1) as (r1 & -> & RO1 & RS1 & F1 & Q1).
    destruct pre as [|c1 pre]; cbn [app] in Hc; inversion Hc; subst.
    + rewrite (later_cycles_keep _ _ _ _ _ _ _ (c_path c) RO1 RS1 E2 OK2); auto.
    + eapply IH; eauto.
Qed.

Lemma raw_init_idle : r_open raw_init = false /\ r_state raw_init <> Running.
Proof. split. reflexivity. discriminate. Qed.

(* ------------------------------------------------------------------ C14_uri *)
Lemma drop_prefix_app : forall pre s, drop_prefix pre (pre ++ s) = Some s.
Proof.
  induction pre as [|a pre IH]; intros s; simpl; auto. now rewrite Ascii.eqb_refl.
Qed.

Lemma strip_file_uri : forall p, strip ("file://" ++ p) = p.
Proof. intros p. unfold strip. now rewrite drop_prefix_app. Qed.

Lemma strip_plain : forall p, drop_prefix "file://" p = None -> strip p = p.
Proof. intros p H. unfold strip. now rewrite H. Qed.

(* both spellings configure every kind of device identically (all three set functions strip the prefix first) *)
Lemma hal_set_uri : forall p meta d o, drop_prefix "file://" p = None ->
  hal_set ("file://" ++ p) meta d o = hal_set p meta d o.
Proof.
  intros p meta d o H. unfold hal_set, dev_set, raw_set, tiff_set, sbs_set.
  rewrite strip_file_uri, (strip_plain p H). reflexivity.
Qed.

(* ------------------------------------------------------------------ final forms *)
Lemma pwrite_fail : forall ws k f off buf k' f' b,
  file_write1 ws (k, f) off buf = ((k', f'), b) ->
  (forall pat, delivers ws k (length buf) pat -> list_sum pat = length buf -> zeros pat < 3 -> False) ->
  b = false.
Proof.
  intros ws k f off buf k' f' b H N. destruct b; auto. exfalso.
  apply file_write1_true in H. destruct H as (pat & A & B & C & _). eauto.
Qed.

Lemma c14_exact : forall fuel cycles o rs d' o',
  run fuel fixed (history cycles) (dev_init KRaw) o = Ret (rs, d', o') -> all_ok rs ->
  forall pre c post, cycles = pre ++ c :: post -> (forall c', In c' post -> c_path c' <> c_path c) ->
  fs o' (c_path c) = Some (c_bytes c).
Proof.
  intros fuel cycles o rs d' o' H OK. destruct raw_init_idle as [A B].
  eapply raw_files_exact; eauto.
Qed.

Lemma c14_uri : forall p,
  strip ("file://" ++ p) = p /\
  (drop_prefix "file://" p = None -> strip p = p) /\
  (drop_prefix "file://" p = None -> forall meta d o, hal_set ("file://" ++ p) meta d o = hal_set p meta d o).
Proof.
  intros p. split. apply strip_file_uri. split. apply strip_plain. intros H meta d o. now apply hal_set_uri.
Qed.

(* ================================================================== the premise on the SCRIPTS ================ *)
(* ------------------------------------------------------------------ scripts and counters are left alone *)
Definition scr_frame (o o' : os) : Prop := cscr o' = cscr o /\ wscr o' = wscr o /\ nwrite o' = nwrite o.

Lemma os_open_scr : forall o p o1 r, os_open o p = (o1, r) -> scr_frame o o1.
Proof.
  intros o p o1 r H. unfold os_open in H.
  destruct (match p with EmptyString => true | _ => match cscr o (nopen o) with CFailOpen => true | _ => false end end).
  - inversion H; subst. unfold scr_frame. auto.
  - cbv zeta in H. inversion H; subst. destruct (fs o p); unfold scr_frame; auto.
Qed.

Lemma os_close_scr : forall o fd, scr_frame o (os_close o fd).
Proof. intros o [n|]; unfold os_close; [destruct (lookup n (tbl o))|]; unfold scr_frame; auto. Qed.

Lemma scr_frame_trans : forall a b c, scr_frame a b -> scr_frame b c -> scr_frame a c.
Proof. unfold scr_frame. intros a b c (A1 & A2 & A3) (B1 & B2 & B3). repeat split; congruence. Qed.

Lemma file_is_writable_scr : forall o p o' ok, file_is_writable o p = (o', ok) -> scr_frame o o'.
Proof.
  intros o p o' ok H. unfold file_is_writable in H. destruct (fs o p). { inversion H; subst. unfold scr_frame; auto. }
  destruct (os_open o p) as [o1 [fd|]] eqn:E; apply os_open_scr in E.
  - pose proof (os_close_scr o1 (Some fd)) as C. remember (os_close o1 (Some fd)) as oc.
    inversion H; subst o' ok. apply (scr_frame_trans o o1); [exact E|]. apply (scr_frame_trans o1 oc); [exact C|].
    unfold scr_frame; auto.
  - inversion H; subst. apply (scr_frame_trans o o1); [exact E|]. unfold scr_frame; auto.
Qed.

Lemma file_create_scr : forall o p o' ok fid, file_create o p = (o', ok, fid) -> scr_frame o o'.
Proof.
  intros o p o' ok fid H. unfold file_create in H.
  destruct (os_open o p) as [o1 [fd|]] eqn:E; apply os_open_scr in E.
  - assert (C : forall o2, scr_frame o1 o2 -> scr_frame o (bump_fail (os_close o2 (Some fd)))).
    { intros o2 F. apply (scr_frame_trans o o1); [exact E|]. apply (scr_frame_trans o1 o2); [exact F|].
      apply (scr_frame_trans o2 (os_close o2 (Some fd))); [apply os_close_scr|].
      unfold scr_frame, bump_fail; cbn [cscr wscr nwrite]; auto. }
    destruct (cscr o (nopen o)); cbv zeta in H; injection H as <- <- <-.
    + apply (scr_frame_trans o o1); [exact E|]. unfold scr_frame; simpl; auto.
    + apply (scr_frame_trans o o1); [exact E|]. unfold scr_frame; simpl; auto.
    + apply (C (log o1 (ELock fd false))). unfold scr_frame; simpl; auto.                              (* flock failed *)
    + apply (C (log (log o1 (ELock fd true)) (ETrunc fd false))). unfold scr_frame; simpl; auto.        (* ftruncate failed *)
  - inversion H; subst. apply (scr_frame_trans o o1); [exact E|]. unfold scr_frame; auto.
Qed.

(* with a create script that lets every open succeed, a non-empty path can be probed and created *)
Lemma os_open_ok_script : forall o p, (forall k, cscr o k = COk) -> p <> EmptyString -> exists o1 fd, os_open o p = (o1, Some fd).
Proof.
  intros o p C P. unfold os_open. rewrite C. destruct p; [congruence|]. cbv zeta. eauto.
Qed.

Lemma file_is_writable_ok : forall o p o' ok, (forall k, cscr o k = COk) -> p <> EmptyString ->
  file_is_writable o p = (o', ok) -> ok = true.
Proof.
  intros o p o' ok C P H. unfold file_is_writable in H. destruct (fs o p). { now inversion H. }
  destruct (os_open_ok_script o p C P) as (o1 & fd & E). rewrite E in H. now inversion H.
Qed.

Lemma file_create_ok : forall o p o' ok fid, (forall k, cscr o k = COk) -> p <> EmptyString ->
  file_create o p = (o', ok, fid) -> ok = true.
Proof.
  intros o p o' ok fid C P H. unfold file_create in H.
  destruct (os_open_ok_script o p C P) as (o1 & fd & E). rewrite E, C in H. cbv zeta in H. now inversion H.
Qed.

(* ------------------------------------------------------------------ file_write on the OS model = Pwrite.file_write1 *)
Section SimOS.
  Variable o0 : os.
  Variable fd : nat.
  Variable p : path.

  Definition simR (o : os) (s : st1) : Prop :=
    lookup fd (tbl o) = Some (mkEnt Dev p) /\ fs o p = Some (snd s) /\ nwrite o = fst s /\
    wscr o = wscr o0 /\ cscr o = cscr o0.

  Lemma os_prim_sim : forall o s off buf, simR o s ->
    simR (fst (os_pwrite (Some fd) o off buf)) (fst (prim1 (wscr o0) s off buf)) /\
    snd (os_pwrite (Some fd) o off buf) = snd (prim1 (wscr o0) s off buf).
  Proof.
    intros o [k f] off buf (LK & FS & NW & WS & CS). cbn [fst snd] in *.
    unfold os_pwrite, prim1. rewrite LK. cbn [fe_path]. rewrite FS, WS, NW.
    destruct (deliver (wscr o0 k) (length buf)) as [w|]; cbn [fst snd]; split; auto; unfold simR; simpl;
      rewrite ?upd_same; auto 10.
  Qed.

  Lemma file_write_sim : forall o c off buf, simR o (nwrite o, c) ->
    let r1 := file_write1 (wscr o0) (nwrite o, c) off buf in
    exists o', file_write o (Some fd) off buf = (o', snd r1) /\ wscr o' = wscr o0 /\ cscr o' = cscr o0 /\
               (snd r1 = true -> nwrite o' = fst (fst r1)).
  Proof.
    intros o c off buf HR r1.
    destruct (file_write_gen_sim os st1 (os_pwrite (Some fd)) (prim1 (wscr o0)) simR os_prim_sim o (nwrite o, c) off buf HR)
      as [HR' Hb].
    unfold file_write. subst r1. unfold file_write1.
    destruct (file_write_gen os (os_pwrite (Some fd)) o off buf) as [o1 b1].
    destruct (file_write_gen st1 (prim1 (wscr o0)) (nwrite o, c) off buf) as [[k1 f1] b2].
    cbn [fst snd] in *. subst b2. destruct HR' as (_ & _ & NW & WS & CS). cbn [fst] in NW.
    destruct b1.
    - exists o1. split; [reflexivity|]. split; [exact WS|]. split; [exact CS|]. intros _. exact NW.
    - exists (bump_fail o1). split; [reflexivity|]. split; [exact WS|]. split; [exact CS|]. discriminate.
  Qed.
End SimOS.

Lemma sum_zero_tight_nil : forall pat, list_sum pat = 0 -> last pat 1 <> 0 -> pat = [].
Proof. intros [|a pat] Hs Ht; auto. exfalso. apply Ht. apply sum_zero_last; auto. discriminate. Qed.

(* one append under an admissible script: it answers Ok and consumes exactly the pattern's calls *)
Lemma append_adm : forall fuel b r o fd c pat d1 o1 st,
  raw_at r o fd c ->
  delivers (wscr o) (nwrite o) (length b) pat -> list_sum pat = length b -> zeros pat < 3 -> last pat 1 <> 0 ->
  step fuel fixed (OAppend (mkPkt b [])) (DRaw r) o = Ret (d1, o1, st) ->
  st = Ok /\ nwrite o1 = nwrite o + length pat /\ wscr o1 = wscr o /\ cscr o1 = cscr o.
Proof.
  intros fuel b r o fd c pat d1 o1 st (RO & RS & RF & LK & FS & OFF) Hd Hs Hz Ht H. cbn [step] in H.
  unfold hal_append in H. cbn [get_state] in H. rewrite RS in H. cbn [dstate_eqb p_bytes] in H.
  destruct b as [|x b].
  - inversion H; subst. rewrite (sum_zero_tight_nil pat Hs Ht). simpl. auto.
  - cbn [dev_append p_bytes] in H. unfold raw_append in H. rewrite RF, OFF in H.
    assert (HR : simR o fd (r_uri r) o (nwrite o, c)) by (unfold simR; cbn [fst snd]; auto 10).
    destruct (file_write_sim o fd (r_uri r) o c (length c) (x :: b) HR) as (o2 & E & WS & CS & NW).
    rewrite (file_write1_exact (wscr o) pat (nwrite o) c (length c) (x :: b) Hd Hs Hz Ht) in E, NW.
    cbn [fst snd] in E, NW. rewrite E in H. inversion H; subst. cbn [dstate_eqb]. auto.
Qed.

Lemma appends_adm : forall fuel pkts rest r o fd c rs d' o',
  raw_at r o fd c -> admissible (wscr o) (nwrite o) (pkts ++ rest) ->
  run fuel fixed (map (fun b => OAppend (mkPkt b [])) pkts) (DRaw r) o = Ret (rs, d', o') ->
  all_ok rs /\ wscr o' = wscr o /\ cscr o' = cscr o /\ admissible (wscr o) (nwrite o') rest.
Proof.
  intros fuel pkts. induction pkts as [|b pkts IH]; intros rest r o fd c rs d' o' A Adm H.
  - cbn [map run] in H. inversion H; subst. split. constructor. auto.
  - cbn [map] in H. rewrite run_cons in H. cbn [app admissible] in Adm.
    destruct Adm as (pat & Hd & Hs & Hz & Ht & Adm).
    destruct (step fuel fixed (OAppend (mkPkt b [])) (DRaw r) o) as [[[d1 o1] st]|] eqn:E; [|discriminate].
    destruct (run fuel fixed _ d1 o1) as [[[rs1 d2] o2]|] eqn:E2; [|discriminate].
    inversion H; subst.
    destruct (append_adm _ _ _ _ _ _ _ _ _ _ A Hd Hs Hz Ht E) as (-> & NW & WS & CS).
    destruct (append_ok _ _ _ _ _ _ _ _ _ A E eq_refl) as (r1 & -> & U1 & A1 & Q1).
    rewrite <- NW, <- WS in Adm.
    destruct (IH _ _ _ _ _ _ _ _ A1 Adm E2) as (K & WS' & CS' & Adm').
    split. { apply all_ok_cons. split; auto. }
    rewrite WS in *. split; [congruence|]. split; [congruence|]. exact Adm'.
Qed.

(* one acquisition under an admissible script *)
Lemma cycle_adm : forall fuel c rest r o rs d' o',
  r_open r = false -> r_state r <> Running ->
  (forall k, cscr o k = COk) -> c_path c <> EmptyString -> admissible (wscr o) (nwrite o) (c_pkts c ++ rest) ->
  run fuel fixed (cycle_ops c) (DRaw r) o = Ret (rs, d', o') ->
  all_ok rs /\ (forall k, cscr o' k = COk) /\ wscr o' = wscr o /\ admissible (wscr o) (nwrite o') rest.
Proof.
  intros fuel c rest r o rs d' o' RO RS CS P Adm H. unfold cycle_ops in H. unfold c_path in P.
  (* set *)
  rewrite run_cons in H. cbn [step] in H. unfold hal_set in H. cbn [dev_set] in H. unfold raw_set in H.
  destruct (file_is_writable o (strip (c_uri c))) as [o1 okw] eqn:E1.
  pose proof (file_is_writable_ok _ _ _ _ CS P E1). subst okw.
  apply file_is_writable_scr in E1. destruct E1 as (C1 & W1 & N1).
  cbn [put_state r_uri r_fid r_open r_off dstate_eqb] in H.
  (* start *)
  rewrite run_cons in H. cbn [step] in H. unfold hal_start in H. cbn [get_state r_state dstate_eqb dev_start] in H.
  unfold raw_start in H. cbn [r_uri r_state r_open r_off fix_d3 fix_d4 fixed] in H.
  destruct (file_create o1 (strip (c_uri c))) as [[o2 okc] fid] eqn:E2.
  assert (CS1 : forall k, cscr o1 k = COk) by (intros; rewrite C1; auto).
  pose proof (file_create_ok _ _ _ _ _ CS1 P E2). subst okc.
  pose proof (file_create_fs _ _ _ _ E2) as (F2 & F2').
  assert (LK : exists fd, fid = Some fd /\ lookup fd (tbl o2) = Some (mkEnt Dev (strip (c_uri c)))).
  { unfold file_create in E2. destruct (os_open o1 (strip (c_uri c))) as [o3 [fd|]] eqn:E3; [|inversion E2].
    apply os_open_ok in E3. destruct E3 as (_ & T3 & _).
    exists fd. destruct (cscr o1 (nopen o1)); cbv zeta in E2; inversion E2; subst; split; auto; simpl; rewrite T3;
      simpl; now rewrite Nat.eqb_refl. }
  destruct LK as (fd & -> & LK).
  apply file_create_scr in E2. destruct E2 as (C2 & W2 & N2).
  cbn [put_state dstate_eqb r_uri r_fid r_open r_off] in H.
  match type of H with
  | match (match run _ _ _ ?D _ with _ => _ end) with _ => _ end = _ => set (r0 := D) in *
  end.
  destruct (run fuel fixed (map (fun b => OAppend (mkPkt b [])) (c_pkts c) ++ [OStop]) r0 o2) as [[[rs2 d2] o3]|] eqn:E3;
    [|discriminate].
  inversion H; subst rs d' o'. clear H.
  apply run_app in E3. destruct E3 as (rsa & da & oa & rsb & Ea & Eb & ->).
  subst r0.
  match type of Ea with run _ _ _ (DRaw ?R) _ = _ => set (r0 := R) in * end.
  assert (A0 : raw_at r0 o2 fd []).
  { unfold raw_at, r0. cbn [r_open r_state r_fid r_uri r_off]. auto 10. }
  assert (Adm2 : admissible (wscr o2) (nwrite o2) (c_pkts c ++ rest)) by (rewrite W2, W1, N2, N1; exact Adm).
  destruct (appends_adm _ _ _ _ _ _ _ _ _ _ A0 Adm2 Ea) as (OKa & WSa & CSa & Adma).
  destruct (appends_ok _ _ _ _ _ _ _ _ _ A0 Ea OKa) as (ra & -> & Ua & (RO' & RS' & RF' & LK' & FS' & OFF') & Qa).
  (* stop *)
  rewrite run_cons in Eb. cbn [step run] in Eb. unfold hal_stop in Eb. cbn [get_state] in Eb. rewrite RS' in Eb.
  cbn [dstate_eqb dev_stop] in Eb. unfold raw_stop in Eb. cbn [fix_d4 fixed] in Eb. rewrite RO' in Eb.
  cbn [dstate_eqb orb put_state] in Eb. inversion Eb; subst. clear Eb.
  destruct (os_close_scr oa (r_fid ra)) as (C4 & W4 & N4). unfold file_close.
  split.
  { apply all_ok_cons. split; [reflexivity|]. apply all_ok_cons. split; [reflexivity|].
    apply all_ok_app. split; auto. apply all_ok_cons. split; [reflexivity|]. constructor. }
  split. { intros k. rewrite C4, CSa, C2, C1. auto. }
  split. { rewrite W4, WSa, W2, W1. auto. }
  rewrite N4. rewrite W2, W1 in Adma. exact Adma.
Qed.

Lemma history_adm : forall fuel cycles r o rs d' o',
  r_open r = false -> r_state r <> Running ->
  (forall k, cscr o k = COk) -> (forall c, In c cycles -> c_path c <> EmptyString) ->
  admissible (wscr o) (nwrite o) (flat_map c_pkts cycles) ->
  run fuel fixed (history cycles) (DRaw r) o = Ret (rs, d', o') -> all_ok rs.
Proof.
  intros fuel cycles. induction cycles as [|c cycles IH]; intros r o rs d' o' RO RS CS P Adm H.
  - cbn in H. inversion H; subst. constructor.
  - unfold history in H. cbn [flat_map] in H, Adm. apply run_app in H.
    destruct H as (rs1 & d1 & o1 & rs2 & E1 & E2 & ->).
    destruct (cycle_adm _ _ _ _ _ _ _ _ RO RS CS (P c (or_introl eq_refl)) Adm E1) as (OK1 & CS1 & WS1 & Adm1).
    destruct (cycle_ok _ _ _ _ _ _ _ RO RS E1 OK1) as (r1 & -> & RO1 & RS1 & _).
    apply all_ok_app. split; auto.
    eapply (IH r1 o1); eauto.
    + intros c' Hin. apply P. now right.
    + rewrite WS1. exact Adm1.
Qed.

(* C14_exact with the premise on the scripts: every open succeeds, the write script is admissible for the packets *)
Lemma c14_exact_scripts : forall fuel cycles env_fds ws rs d' o',
  (forall c, In c cycles -> c_path c <> EmptyString) ->
  admissible ws 0 (flat_map c_pkts cycles) ->
  run fuel fixed (history cycles) (dev_init KRaw) (os_init env_fds (fun _ => COk) ws) = Ret (rs, d', o') ->
  all_ok rs /\
  forall pre c post, cycles = pre ++ c :: post -> (forall c', In c' post -> c_path c' <> c_path c) ->
  fs o' (c_path c) = Some (c_bytes c).
Proof.
  intros fuel cycles env_fds ws rs d' o' P Adm H. destruct raw_init_idle as [A B].
  assert (OK : all_ok rs).
  { apply (history_adm fuel cycles raw_init (os_init env_fds (fun _ => COk) ws) rs d' o'); auto. }
  split; auto. eapply c14_exact; eauto.
Qed.

(* ... and the run exists (no call of the repaired code diverges: C16Proofs.run_total) *)
From FileIO Require Import C16Proofs.
Lemma c14_exact_scripts_total : forall fuel cycles env_fds ws, 4 <= fuel ->
  (forall c, In c cycles -> c_path c <> EmptyString) ->
  admissible ws 0 (flat_map c_pkts cycles) ->
  exists rs d' o',
    run fuel fixed (history cycles) (dev_init KRaw) (os_init env_fds (fun _ => COk) ws) = Ret (rs, d', o') /\
    all_ok rs /\
    forall pre c post, cycles = pre ++ c :: post -> (forall c', In c' post -> c_path c' <> c_path c) ->
    fs o' (c_path c) = Some (c_bytes c).
Proof.
  intros fuel cycles env_fds ws Hf P Adm.
  destruct (run_total fuel (history cycles) (dev_init KRaw) (os_init env_fds (fun _ => COk) ws) Hf) as [[[rs d'] o'] E].
  exists rs, d', o'. split; auto. eapply c14_exact_scripts; eauto.
Qed.
