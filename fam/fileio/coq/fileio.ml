
(** val negb : bool -> bool **)

let negb = function
| true -> false
| false -> true

type nat =
| O
| S of nat

(** val fst : ('a1 * 'a2) -> 'a1 **)

let fst = function
| (x, _) -> x

(** val length : 'a1 list -> nat **)

let rec length = function
| [] -> O
| _ :: l' -> S (length l')

(** val app : 'a1 list -> 'a1 list -> 'a1 list **)

let rec app l m =
  match l with
  | [] -> m
  | a :: l1 -> a :: (app l1 m)

(** val add : nat -> nat -> nat **)

let rec add n0 m =
  match n0 with
  | O -> m
  | S p -> S (add p m)

module Nat =
 struct
  (** val eqb : nat -> nat -> bool **)

  let rec eqb n0 m =
    match n0 with
    | O -> (match m with
            | O -> true
            | S _ -> false)
    | S n' -> (match m with
               | O -> false
               | S m' -> eqb n' m')

  (** val leb : nat -> nat -> bool **)

  let rec leb n0 m =
    match n0 with
    | O -> true
    | S n' -> (match m with
               | O -> false
               | S m' -> leb n' m')

  (** val ltb : nat -> nat -> bool **)

  let ltb n0 m =
    leb (S n0) m

  (** val min : nat -> nat -> nat **)

  let rec min n0 m =
    match n0 with
    | O -> O
    | S n' -> (match m with
               | O -> O
               | S m' -> S (min n' m'))
 end

type positive =
| XI of positive
| XO of positive
| XH

type n =
| N0
| Npos of positive

(** val nth_error : 'a1 list -> nat -> 'a1 option **)

let rec nth_error l = function
| O -> (match l with
        | [] -> None
        | x :: _ -> Some x)
| S n1 -> (match l with
           | [] -> None
           | _ :: l0 -> nth_error l0 n1)

(** val map : ('a1 -> 'a2) -> 'a1 list -> 'a2 list **)

let rec map f = function
| [] -> []
| a :: t -> (f a) :: (map f t)

(** val existsb : ('a1 -> bool) -> 'a1 list -> bool **)

let rec existsb f = function
| [] -> false
| a :: l0 -> (||) (f a) (existsb f l0)

(** val filter : ('a1 -> bool) -> 'a1 list -> 'a1 list **)

let rec filter f = function
| [] -> []
| x :: l0 -> if f x then x :: (filter f l0) else filter f l0

(** val firstn : nat -> 'a1 list -> 'a1 list **)

let rec firstn n0 l =
  match n0 with
  | O -> []
  | S n1 -> (match l with
             | [] -> []
             | a :: l0 -> a :: (firstn n1 l0))

(** val skipn : nat -> 'a1 list -> 'a1 list **)

let rec skipn n0 l =
  match n0 with
  | O -> l
  | S n1 -> (match l with
             | [] -> []
             | _ :: l0 -> skipn n1 l0)

(** val repeat : 'a1 -> nat -> 'a1 list **)

let rec repeat x = function
| O -> []
| S k -> x :: (repeat x k)

(** val eqb0 : char list -> char list -> bool **)

let rec eqb0 s1 s2 =
  match s1 with
  | [] -> (match s2 with
           | [] -> true
           | _::_ -> false)
  | c1::s1' ->
    (match s2 with
     | [] -> false
     | c2::s2' -> if (=) c1 c2 then eqb0 s1' s2' else false)

(** val append : char list -> char list -> char list **)

let rec append s1 s2 =
  match s1 with
  | [] -> s2
  | c::s1' -> c::(append s1' s2)

type byte = n

type file = byte list

(** val write_at : file -> nat -> byte list -> file **)

let rec write_at f off d =
  match off with
  | O -> app d (skipn (length d) f)
  | S o ->
    (match f with
     | [] -> N0 :: (write_at [] o d)
     | b :: f' -> b :: (write_at f' o d))

(** val pwrite_file : file -> nat -> byte list -> file **)

let pwrite_file f off d = match d with
| [] -> f
| _ :: _ -> write_at f off d

type errno =
| EIO
| ENOSPC
| EAGAIN
| EINTR
| EBADF
| EINVAL

type wresp =
| WFull
| WCount of nat
| WErr of errno

(** val deliver : wresp -> nat -> nat option **)

let deliver r remaining =
  match r with
  | WFull -> Some remaining
  | WCount c -> Some (Nat.min c remaining)
  | WErr _ -> None

(** val fw_loop :
    ('a1 -> nat -> byte list -> 'a1 * nat option) -> nat -> nat -> 'a1 -> nat
    -> byte list -> ('a1 * bool) option **)

let rec fw_loop prim fuel retries s off buf = match buf with
| [] -> Some (s, (Nat.ltb retries (S (S (S O)))))
| _ :: _ ->
  if Nat.leb (S (S (S O))) retries
  then Some (s, false)
  else (match fuel with
        | O -> None
        | S fuel' ->
          let (s', o) = prim s off buf in
          (match o with
           | Some w ->
             fw_loop prim fuel'
               (add retries (if Nat.eqb w O then S O else O)) s' (add off w)
               (skipn w buf)
           | None -> Some (s', false)))

(** val file_write_gen :
    ('a1 -> nat -> byte list -> 'a1 * nat option) -> 'a1 -> nat -> byte list
    -> 'a1 * bool **)

let file_write_gen prim s off buf =
  match fw_loop prim (add (length buf) (S (S (S O)))) O s off buf with
  | Some r -> r
  | None -> (s, false)

type st1 = nat * file

(** val prim1 :
    (nat -> wresp) -> st1 -> nat -> byte list -> st1 * nat option **)

let prim1 ws s off buf =
  let (k, f) = s in
  (match deliver (ws k) (length buf) with
   | Some w -> (((S k), (pwrite_file f off (firstn w buf))), (Some w))
   | None -> (((S k), f), None))

(** val file_write1 :
    (nat -> wresp) -> st1 -> nat -> byte list -> st1 * bool **)

let file_write1 ws s off buf =
  file_write_gen (prim1 ws) s off buf

type path = char list

type owner =
| Dev
| Env

type fdent = { fe_owner : owner; fe_path : path }

type cresp =
| COk
| CFailOpen
| CFailLock
| CFailTrunc of errno

type event =
| EOpen of path * nat option
| ELock of nat * bool
| ETrunc of nat * bool
| EWrite of nat option * nat * nat * nat option
| EClose of nat option * bool
| EEnvOpen of nat
| EEnvClose of nat

type os = { tbl : (nat * fdent) list; fs : (path -> file option);
            cscr : (nat -> cresp); wscr : (nat -> wresp); nopen : nat;
            nwrite : nat; nfail : nat; keep : nat list; envs : nat list;
            trace : event list }

(** val os_init : nat list -> (nat -> cresp) -> (nat -> wresp) -> os **)

let os_init env_fds cs ws =
  { tbl = (map (fun n0 -> (n0, { fe_owner = Env; fe_path = [] })) env_fds);
    fs = (fun _ -> None); cscr = cs; wscr = ws; nopen = O; nwrite = O;
    nfail = O; keep = env_fds; envs = []; trace = [] }

(** val lookup : nat -> (nat * fdent) list -> fdent option **)

let rec lookup fd = function
| [] -> None
| p :: t' -> let (n0, e) = p in if Nat.eqb n0 fd then Some e else lookup fd t'

(** val remove_fd : nat -> (nat * fdent) list -> (nat * fdent) list **)

let remove_fd fd t =
  filter (fun e -> negb (Nat.eqb (fst e) fd)) t

(** val memb : nat -> nat list -> bool **)

let memb n0 l =
  existsb (Nat.eqb n0) l

(** val lf : nat -> nat -> nat list -> nat **)

let rec lf fuel n0 fds =
  match fuel with
  | O -> n0
  | S f -> if memb n0 fds then lf f (S n0) fds else n0

(** val lowest_free : nat list -> nat **)

let lowest_free fds =
  lf (length fds) O fds

(** val fds_of : os -> nat list **)

let fds_of o =
  map fst o.tbl

(** val set_tbl : os -> (nat * fdent) list -> os **)

let set_tbl o t =
  { tbl = t; fs = o.fs; cscr = o.cscr; wscr = o.wscr; nopen = o.nopen;
    nwrite = o.nwrite; nfail = o.nfail; keep = o.keep; envs = o.envs; trace =
    o.trace }

(** val set_fs : os -> (path -> file option) -> os **)

let set_fs o f =
  { tbl = o.tbl; fs = f; cscr = o.cscr; wscr = o.wscr; nopen = o.nopen;
    nwrite = o.nwrite; nfail = o.nfail; keep = o.keep; envs = o.envs; trace =
    o.trace }

(** val set_envs : os -> nat list -> os **)

let set_envs o e =
  { tbl = o.tbl; fs = o.fs; cscr = o.cscr; wscr = o.wscr; nopen = o.nopen;
    nwrite = o.nwrite; nfail = o.nfail; keep = o.keep; envs = e; trace =
    o.trace }

(** val bump_open : os -> os **)

let bump_open o =
  { tbl = o.tbl; fs = o.fs; cscr = o.cscr; wscr = o.wscr; nopen = (S
    o.nopen); nwrite = o.nwrite; nfail = o.nfail; keep = o.keep; envs =
    o.envs; trace = o.trace }

(** val bump_write : os -> os **)

let bump_write o =
  { tbl = o.tbl; fs = o.fs; cscr = o.cscr; wscr = o.wscr; nopen = o.nopen;
    nwrite = (S o.nwrite); nfail = o.nfail; keep = o.keep; envs = o.envs;
    trace = o.trace }

(** val bump_fail : os -> os **)

let bump_fail o =
  { tbl = o.tbl; fs = o.fs; cscr = o.cscr; wscr = o.wscr; nopen = o.nopen;
    nwrite = o.nwrite; nfail = (S o.nfail); keep = o.keep; envs = o.envs;
    trace = o.trace }

(** val log : os -> event -> os **)

let log o e =
  { tbl = o.tbl; fs = o.fs; cscr = o.cscr; wscr = o.wscr; nopen = o.nopen;
    nwrite = o.nwrite; nfail = o.nfail; keep = o.keep; envs = o.envs; trace =
    (app o.trace (e :: [])) }

(** val upd :
    (path -> file option) -> path -> file option -> path -> file option **)

let upd f p v q =
  if eqb0 q p then v else f q

(** val os_open : os -> path -> os * nat option **)

let os_open o p =
  let k = o.nopen in
  let refuse =
    match p with
    | [] -> true
    | _::_ -> (match o.cscr k with
               | CFailOpen -> true
               | _ -> false)
  in
  if refuse
  then ((log (bump_open o) (EOpen (p, None))), None)
  else let fd = lowest_free (fds_of o) in
       let o1 =
         set_tbl (bump_open o) ((fd, { fe_owner = Dev; fe_path =
           p }) :: o.tbl)
       in
       let o2 =
         match o.fs p with
         | Some _ -> o1
         | None -> set_fs o1 (upd o.fs p (Some []))
       in
       ((log o2 (EOpen (p, (Some fd)))), (Some fd))

(** val os_close : os -> nat option -> os **)

let os_close o = function
| Some n0 ->
  (match lookup n0 o.tbl with
   | Some _ -> log (set_tbl o (remove_fd n0 o.tbl)) (EClose ((Some n0), true))
   | None -> log o (EClose ((Some n0), false)))
| None -> log o (EClose (None, false))

(** val os_pwrite :
    nat option -> os -> nat -> byte list -> os * nat option **)

let os_pwrite fd o off buf =
  let k = o.nwrite in
  let o1 = bump_write o in
  let ent = match fd with
            | Some n0 -> lookup n0 o.tbl
            | None -> None in
  (match ent with
   | Some e ->
     (match deliver (o.wscr k) (length buf) with
      | Some w ->
        let o2 =
          match o.fs e.fe_path with
          | Some c ->
            set_fs o1
              (upd o.fs e.fe_path (Some (pwrite_file c off (firstn w buf))))
          | None -> o1
        in
        ((log o2 (EWrite (fd, off, (length buf), (Some w)))), (Some w))
      | None -> ((log o1 (EWrite (fd, off, (length buf), None))), None))
   | None -> ((log o1 (EWrite (fd, off, (length buf), None))), None))

(** val file_create : os -> path -> (os * bool) * nat option **)

let file_create o p =
  let k = o.nopen in
  let (o1, o0) = os_open o p in
  (match o0 with
   | Some fd ->
     (match o.cscr k with
      | CFailLock ->
        (((bump_fail (os_close (log o1 (ELock (fd, false))) (Some fd))),
          false), (Some fd))
      | CFailTrunc _ ->
        (((bump_fail
            (os_close (log (log o1 (ELock (fd, true))) (ETrunc (fd, false)))
              (Some fd))), false), (Some fd))
      | _ ->
        let o2 = log (log o1 (ELock (fd, true))) (ETrunc (fd, true)) in
        (((set_fs o2 (upd o2.fs p (Some []))), true), (Some fd)))
   | None -> (((bump_fail o1), false), None))

(** val file_close : os -> nat option -> os **)

let file_close =
  os_close

(** val file_write : os -> nat option -> nat -> byte list -> os * bool **)

let file_write o fid off buf =
  let (o', b) = file_write_gen (os_pwrite fid) o off buf in
  if b then (o', true) else ((bump_fail o'), false)

(** val file_is_writable : os -> path -> os * bool **)

let file_is_writable o p =
  match o.fs p with
  | Some _ -> (o, true)
  | None ->
    let (o1, o0) = os_open o p in
    (match o0 with
     | Some fd ->
       let o2 = os_close o1 (Some fd) in
       ((set_fs o2 (upd o2.fs p None)), true)
     | None -> ((bump_fail o1), false))

(** val env_open : os -> os **)

let env_open o =
  let fd = lowest_free (fds_of o) in
  log
    (set_envs (set_tbl o ((fd, { fe_owner = Env; fe_path = [] }) :: o.tbl))
      (app o.envs (fd :: []))) (EEnvOpen fd)

(** val env_close : os -> nat -> os **)

let env_close o k =
  match nth_error o.envs k with
  | Some fd ->
    log
      (set_envs (set_tbl o (remove_fd fd o.tbl))
        (filter (fun n0 -> negb (Nat.eqb n0 fd)) o.envs)) (EEnvClose fd)
  | None -> o

(** val ledger_step : nat list -> event -> nat list option **)

let ledger_step own = function
| EOpen (_, r) ->
  (match r with
   | Some fd -> if memb fd own then None else Some (fd :: own)
   | None -> Some own)
| ELock (fd, _) -> if memb fd own then Some own else None
| ETrunc (fd, _) -> if memb fd own then Some own else None
| EWrite (fd0, _, _, _) ->
  (match fd0 with
   | Some fd -> if memb fd own then Some own else None
   | None -> None)
| EClose (fd0, _) ->
  (match fd0 with
   | Some fd ->
     if memb fd own
     then Some (filter (fun n0 -> negb (Nat.eqb n0 fd)) own)
     else None
   | None -> None)
| _ -> Some own

(** val ledger : nat list -> event list -> nat list option **)

let rec ledger own = function
| [] -> Some own
| e :: tr' ->
  (match ledger_step own e with
   | Some own' -> ledger own' tr'
   | None -> None)

type variant = { fix_d3 : bool; fix_d4 : bool; fix_d5a : bool;
                 fix_d5b : bool; fix_d6 : bool }

(** val fixed : variant **)

let fixed =
  { fix_d3 = true; fix_d4 = true; fix_d5a = true; fix_d5b = true; fix_d6 =
    true }

(** val unfixed : variant **)

let unfixed =
  { fix_d3 = false; fix_d4 = false; fix_d5a = false; fix_d5b = false;
    fix_d6 = false }

type dstate =
| Closed
| AwaitingConfiguration
| Armed
| Running

(** val dstate_eqb : dstate -> dstate -> bool **)

let dstate_eqb a b =
  match a with
  | Closed -> (match b with
               | Closed -> true
               | _ -> false)
  | AwaitingConfiguration ->
    (match b with
     | AwaitingConfiguration -> true
     | _ -> false)
  | Armed -> (match b with
              | Armed -> true
              | _ -> false)
  | Running -> (match b with
                | Running -> true
                | _ -> false)

(** val drop_prefix : char list -> char list -> char list option **)

let rec drop_prefix pre s =
  match pre with
  | [] -> Some s
  | a::pre' ->
    (match s with
     | [] -> None
     | b::s' -> if (=) a b then drop_prefix pre' s' else None)

(** val strip : char list -> char list **)

let strip uri =
  match drop_prefix ('f'::('i'::('l'::('e'::(':'::('/'::('/'::[]))))))) uri with
  | Some r -> r
  | None -> uri

type raw = { r_state : dstate; r_uri : char list; r_fid : nat option;
             r_open : bool; r_off : nat }

(** val raw_init : raw **)

let raw_init =
  { r_state = AwaitingConfiguration; r_uri =
    ('o'::('u'::('t'::('.'::('r'::('a'::('w'::[]))))))); r_fid = (Some O);
    r_open = false; r_off = O }

(** val raw_set : char list -> raw -> os -> (raw * os) * dstate **)

let raw_set uri d o =
  let filename = strip uri in
  let (o1, b) = file_is_writable o filename in
  if b
  then (({ r_state = d.r_state; r_uri = filename; r_fid = d.r_fid; r_open =
         d.r_open; r_off = d.r_off }, o1), Armed)
  else ((d, o1), AwaitingConfiguration)

(** val raw_start : variant -> raw -> os -> (raw * os) * dstate **)

let raw_start v d o =
  let (p, fid) = file_create o d.r_uri in
  let (o1, b) = p in
  if b
  then (({ r_state = d.r_state; r_uri = d.r_uri; r_fid = fid; r_open =
         (if v.fix_d4 then true else d.r_open); r_off =
         (if v.fix_d3 then O else d.r_off) }, o1), Running)
  else (({ r_state = d.r_state; r_uri = d.r_uri; r_fid = fid; r_open =
         d.r_open; r_off = d.r_off }, o1), AwaitingConfiguration)

(** val raw_stop : variant -> raw -> os -> (raw * os) * dstate **)

let raw_stop v d o =
  if v.fix_d4
  then if d.r_open
       then (({ r_state = d.r_state; r_uri = d.r_uri; r_fid = d.r_fid;
              r_open = false; r_off = d.r_off }, (file_close o d.r_fid)),
              Armed)
       else ((d, o), Armed)
  else ((d, (file_close o d.r_fid)), Armed)

(** val raw_append :
    variant -> byte list -> raw -> os -> (raw * os) * dstate **)

let raw_append v pkt d o =
  let (o1, b) = file_write o d.r_fid d.r_off pkt in
  if b
  then (({ r_state = d.r_state; r_uri = d.r_uri; r_fid = d.r_fid; r_open =
         d.r_open; r_off = (add d.r_off (length pkt)) }, o1), Running)
  else raw_stop v d o1

(** val raw_destroy : variant -> raw -> os -> os **)

let raw_destroy v d o =
  let (p, _) = raw_stop v d o in let (_, o1) = p in o1

type 'a outcome =
| Ret of 'a
| Diverges

type tiff = { t_state : dstate; t_fname : char list; t_fid : nat option;
              t_fc : nat }

(** val tiff_init : tiff **)

let tiff_init =
  { t_state = AwaitingConfiguration; t_fname = []; t_fid = (Some O); t_fc =
    O }

(** val tiff_put_state : tiff -> dstate -> tiff **)

let tiff_put_state t s =
  { t_state = s; t_fname = t.t_fname; t_fid = t.t_fid; t_fc = t.t_fc }

(** val zero_buf : nat -> byte list **)

let zero_buf n0 =
  repeat N0 n0

(** val sizeof_header : nat **)

let sizeof_header =
  S (S (S (S (S (S (S (S (S (S (S (S (S (S (S (S O)))))))))))))))

(** val sizeof_ifd : nat **)

let sizeof_ifd =
  S (S (S (S (S (S (S (S (S (S (S (S (S (S (S (S (S (S (S (S (S (S (S (S (S
    (S (S (S (S (S (S (S (S (S (S (S (S (S (S (S (S (S (S (S (S (S (S (S (S
    (S (S (S (S (S (S (S (S (S (S (S (S (S (S (S (S (S (S (S (S (S (S (S (S
    (S (S (S (S (S (S (S (S (S (S (S (S (S (S (S (S (S (S (S (S (S (S (S (S
    (S (S (S (S (S (S (S (S (S (S (S (S (S (S (S (S (S (S (S (S (S (S (S (S
    (S (S (S (S (S (S (S (S (S (S (S (S (S (S (S (S (S (S (S (S (S (S (S (S
    (S (S (S (S (S (S (S (S (S (S (S (S (S (S (S (S (S (S (S (S (S (S (S (S
    (S (S (S (S (S (S (S (S (S (S (S (S (S (S (S (S (S (S (S (S (S (S (S (S
    (S (S (S (S (S (S (S (S (S (S (S (S (S (S (S (S (S (S (S (S (S (S (S (S
    (S (S (S (S (S (S (S (S (S (S (S (S (S (S (S (S (S (S (S (S (S (S (S (S
    (S (S (S (S (S (S (S (S (S (S (S (S (S (S (S (S (S (S (S (S (S (S (S (S
    (S (S (S (S (S (S (S (S (S (S (S (S (S (S (S (S (S (S (S (S (S (S (S (S
    (S (S (S (S (S (S (S (S (S (S (S (S (S (S (S (S (S (S (S (S (S (S (S (S
    (S (S (S (S (S (S (S (S (S (S (S (S (S (S (S (S (S (S (S (S (S (S (S
    O)))))))))))))))))))))))))))))))))))))))))))))))))))))))))))))))))))))))))))))))))))))))))))))))))))))))))))))))))))))))))))))))))))))))))))))))))))))))))))))))))))))))))))))))))))))))))))))))))))))))))))))))))))))))))))))))))))))))))))))))))))))))))))))))))))))))))))))))))))))))))))))))))))))))))))))))))))))))))))))))))))))))))))))))

(** val sizeof_link : nat **)

let sizeof_link =
  S (S (S (S (S (S (S (S O)))))))

(** val t_write_ :
    nat -> variant -> nat -> tiff -> os -> ((tiff * os) * bool) outcome **)

let rec t_write_ fuel v len t o =
  match fuel with
  | O -> Diverges
  | S f ->
    let (o1, b) = file_write o t.t_fid O (zero_buf len) in
    if b
    then Ret ((t, o1), true)
    else (match t_stop f v t o1 with
          | Ret a -> Ret (a, false)
          | Diverges -> Diverges)

(** val t_stop : nat -> variant -> tiff -> os -> (tiff * os) outcome **)

and t_stop fuel v t o =
  match fuel with
  | O -> Diverges
  | S f ->
    if dstate_eqb t.t_state Running
    then let t1 = if v.fix_d5a then tiff_put_state t Armed else t in
         (match t_write_ f v sizeof_link t1 o with
          | Ret a ->
            let (p, _) = a in
            let (t2, o2) = p in
            Ret ({ t_state = Armed; t_fname = t2.t_fname; t_fid = t2.t_fid;
            t_fc = O }, (file_close o2 t2.t_fid))
          | Diverges -> Diverges)
    else Ret (t, o)

(** val tiff_set : char list -> tiff -> os -> (tiff * os) * dstate **)

let tiff_set uri t o =
  let filename = strip uri in
  let (o1, b) = file_is_writable o filename in
  if b
  then (({ t_state = t.t_state; t_fname = filename; t_fid = t.t_fid; t_fc =
         t.t_fc }, o1), Armed)
  else ((t, o1), AwaitingConfiguration)

(** val tiff_start :
    nat -> variant -> tiff -> os -> ((tiff * os) * dstate) outcome **)

let tiff_start fuel v t o =
  let (p, fid) = file_create o t.t_fname in
  let (o1, b) = p in
  if b
  then (match t_write_ fuel v sizeof_header { t_state = t.t_state; t_fname =
                t.t_fname; t_fid = fid; t_fc = O } o1 with
        | Ret a ->
          let (p0, ok) = a in
          let (t2, o2) = p0 in
          if (&&) v.fix_d5b (negb ok)
          then Ret ((t2, (file_close o2 t2.t_fid)), AwaitingConfiguration)
          else Ret ((t2, o2), Running)
        | Diverges -> Diverges)
  else Ret (({ t_state = t.t_state; t_fname = t.t_fname; t_fid = fid; t_fc =
         O }, o1), AwaitingConfiguration)

(** val tiff_stop :
    nat -> variant -> tiff -> os -> ((tiff * os) * dstate) outcome **)

let tiff_stop fuel v t o =
  match t_stop fuel v t o with
  | Ret a -> Ret (a, Armed)
  | Diverges -> Diverges

type frame = nat * (nat * nat)

(** val t_append :
    nat -> variant -> frame list -> tiff -> os -> ((tiff * os) * bool) outcome **)

let rec t_append fuel v frames t o =
  match frames with
  | [] -> Ret ((t, o), true)
  | f :: rest ->
    let (ldata, p) = f in
    let (lfirst, lother) = p in
    let lstr = if Nat.eqb t.t_fc O then lfirst else lother in
    (match t_write_ fuel v sizeof_ifd t o with
     | Ret a ->
       let (p0, ok1) = a in
       let (t1, o1) = p0 in
       if (&&) v.fix_d5b (negb ok1)
       then Ret ((t1, o1), false)
       else (match t_write_ fuel v ldata t1 o1 with
             | Ret a0 ->
               let (p1, ok2) = a0 in
               let (t2, o2) = p1 in
               if (&&) v.fix_d5b (negb ok2)
               then Ret ((t2, o2), false)
               else (match t_write_ fuel v lstr t2 o2 with
                     | Ret a1 ->
                       let (p2, ok3) = a1 in
                       let (t3, o3) = p2 in
                       if (&&) v.fix_d5b (negb ok3)
                       then Ret ((t3, o3), false)
                       else t_append fuel v rest { t_state = t3.t_state;
                              t_fname = t3.t_fname; t_fid = t3.t_fid; t_fc =
                              (S t3.t_fc) } o3
                     | Diverges -> Diverges)
             | Diverges -> Diverges)
     | Diverges -> Diverges)

(** val tiff_append :
    nat -> variant -> frame list -> tiff -> os -> ((tiff * os) * dstate)
    outcome **)

let tiff_append fuel v frames t o =
  match t_append fuel v frames t o with
  | Ret a ->
    let (p, b) = a in
    let (t1, o1) = p in
    if b then Ret ((t1, o1), Running) else tiff_stop fuel v t1 o1
  | Diverges -> Diverges

(** val tiff_destroy : nat -> variant -> tiff -> os -> os outcome **)

let tiff_destroy fuel v t o =
  match t_stop fuel v t o with
  | Ret a ->
    let (t1, o1) = a in
    (match t_stop fuel v t1 o1 with
     | Ret a0 -> let (_, o2) = a0 in Ret o2
     | Diverges -> Diverges)
  | Diverges -> Diverges

type sbs = { s_state : dstate; s_uri : char list; s_meta : nat; s_tiff : tiff }

(** val sbs_init : sbs **)

let sbs_init =
  { s_state = Closed; s_uri = []; s_meta = O; s_tiff = tiff_init }

(** val sbs_put_tiff : sbs -> tiff -> sbs **)

let sbs_put_tiff s t =
  { s_state = s.s_state; s_uri = s.s_uri; s_meta = s.s_meta; s_tiff = t }

(** val sbs_set : char list -> nat -> sbs -> os -> (sbs * os) * dstate **)

let sbs_set uri meta s o =
  if Nat.ltb meta (S (S O))
  then ((s, o), AwaitingConfiguration)
  else (({ s_state = s.s_state; s_uri = (strip uri); s_meta = meta; s_tiff =
         s.s_tiff }, o), Armed)

(** val sbs_start :
    nat -> variant -> sbs -> os -> ((sbs * os) * dstate) outcome **)

let sbs_start fuel v s o =
  match s.s_uri with
  | [] -> Ret ((s, o), AwaitingConfiguration)
  | _::_ ->
    let (p, fid) =
      file_create o
        (append s.s_uri
          ('/'::('m'::('e'::('t'::('a'::('d'::('a'::('t'::('a'::('.'::('j'::('s'::('o'::('n'::[])))))))))))))))
    in
    let (o1, b) = p in
    if b
    then let (o2, ok) = file_write o1 fid O (zero_buf s.s_meta) in
         let o3 = file_close o2 fid in
         if negb ok
         then Ret ((s, o3), AwaitingConfiguration)
         else let (p0, st2) =
                tiff_set
                  (append s.s_uri
                    ('/'::('d'::('a'::('t'::('a'::('.'::('t'::('i'::('f'::[]))))))))))
                  s.s_tiff o3
              in
              let (t1, o4) = p0 in
              let t1' = if v.fix_d6 then tiff_put_state t1 st2 else t1 in
              if negb (dstate_eqb st2 Armed)
              then Ret (((sbs_put_tiff s t1'), o4), AwaitingConfiguration)
              else (match tiff_start fuel v t1' o4 with
                    | Ret a ->
                      let (p1, st3) = a in
                      let (t2, o5) = p1 in
                      let t2' = if v.fix_d6 then tiff_put_state t2 st3 else t2
                      in
                      Ret (((sbs_put_tiff s t2'), o5),
                      (if dstate_eqb st3 Running
                       then Running
                       else AwaitingConfiguration))
                    | Diverges -> Diverges)
    else Ret ((s, o1), AwaitingConfiguration)

(** val sbs_stop :
    nat -> variant -> sbs -> os -> ((sbs * os) * dstate) outcome **)

let sbs_stop fuel v s o =
  match tiff_stop fuel v s.s_tiff o with
  | Ret a ->
    let (p, _) = a in
    let (t1, o1) = p in Ret (((sbs_put_tiff s t1), o1), Armed)
  | Diverges -> Diverges

(** val sbs_append :
    nat -> variant -> frame list -> sbs -> os -> ((sbs * os) * dstate) outcome **)

let sbs_append fuel v frames s o =
  match tiff_append fuel v frames s.s_tiff o with
  | Ret a ->
    let (p, st) = a in
    let (t1, o1) = p in
    if dstate_eqb st Running
    then Ret (((sbs_put_tiff s t1), o1), Running)
    else sbs_stop fuel v (sbs_put_tiff s t1) o1
  | Diverges -> Diverges

(** val sbs_destroy : nat -> variant -> sbs -> os -> os outcome **)

let sbs_destroy fuel v s o =
  match sbs_stop fuel v s o with
  | Ret a ->
    let (p, _) = a in let (s1, o1) = p in tiff_destroy fuel v s1.s_tiff o1
  | Diverges -> Diverges

type kind =
| KRaw
| KTiff
| KSbs
| KTrash

type dev =
| DRaw of raw
| DTiff of tiff
| DSbs of sbs
| DTrash of dstate

(** val dev_init : kind -> dev **)

let dev_init = function
| KRaw -> DRaw raw_init
| KTiff -> DTiff tiff_init
| KSbs -> DSbs sbs_init
| KTrash -> DTrash AwaitingConfiguration

(** val get_state : dev -> dstate **)

let get_state = function
| DRaw r -> r.r_state
| DTiff t -> t.t_state
| DSbs s -> s.s_state
| DTrash st -> st

(** val put_state : dev -> dstate -> dev **)

let put_state d st =
  match d with
  | DRaw r ->
    DRaw { r_state = st; r_uri = r.r_uri; r_fid = r.r_fid; r_open = r.r_open;
      r_off = r.r_off }
  | DTiff t -> DTiff (tiff_put_state t st)
  | DSbs s ->
    DSbs { s_state = st; s_uri = s.s_uri; s_meta = s.s_meta; s_tiff =
      s.s_tiff }
  | DTrash _ -> DTrash st

type packet = { p_bytes : byte list; p_frames : frame list }

(** val dev_set : char list -> nat -> dev -> os -> (dev * os) * dstate **)

let dev_set uri meta d o =
  match d with
  | DRaw r ->
    let (p, st) = raw_set uri r o in let (r1, o1) = p in (((DRaw r1), o1), st)
  | DTiff t ->
    let (p, st) = tiff_set uri t o in
    let (t1, o1) = p in (((DTiff t1), o1), st)
  | DSbs s ->
    let (p, st) = sbs_set uri meta s o in
    let (s1, o1) = p in (((DSbs s1), o1), st)
  | DTrash st -> (((DTrash st), o), Armed)

(** val dev_start :
    nat -> variant -> dev -> os -> ((dev * os) * dstate) outcome **)

let dev_start fuel v d o =
  match d with
  | DRaw r ->
    let (p, st) = raw_start v r o in
    let (r1, o1) = p in Ret (((DRaw r1), o1), st)
  | DTiff t ->
    (match tiff_start fuel v t o with
     | Ret a ->
       let (p, st) = a in let (t1, o1) = p in Ret (((DTiff t1), o1), st)
     | Diverges -> Diverges)
  | DSbs s ->
    (match sbs_start fuel v s o with
     | Ret a ->
       let (p, st) = a in let (s1, o1) = p in Ret (((DSbs s1), o1), st)
     | Diverges -> Diverges)
  | DTrash st -> Ret (((DTrash st), o), Running)

(** val dev_append :
    nat -> variant -> packet -> dev -> os -> ((dev * os) * dstate) outcome **)

let dev_append fuel v p d o =
  match d with
  | DRaw r ->
    let (p0, st) = raw_append v p.p_bytes r o in
    let (r1, o1) = p0 in Ret (((DRaw r1), o1), st)
  | DTiff t ->
    (match tiff_append fuel v p.p_frames t o with
     | Ret a ->
       let (p0, st) = a in let (t1, o1) = p0 in Ret (((DTiff t1), o1), st)
     | Diverges -> Diverges)
  | DSbs s ->
    (match sbs_append fuel v p.p_frames s o with
     | Ret a ->
       let (p0, st) = a in let (s1, o1) = p0 in Ret (((DSbs s1), o1), st)
     | Diverges -> Diverges)
  | DTrash st -> Ret (((DTrash st), o), Running)

(** val dev_stop :
    nat -> variant -> dev -> os -> ((dev * os) * dstate) outcome **)

let dev_stop fuel v d o =
  match d with
  | DRaw r ->
    let (p, st) = raw_stop v r o in
    let (r1, o1) = p in Ret (((DRaw r1), o1), st)
  | DTiff t ->
    (match tiff_stop fuel v t o with
     | Ret a ->
       let (p, st) = a in let (t1, o1) = p in Ret (((DTiff t1), o1), st)
     | Diverges -> Diverges)
  | DSbs s ->
    (match sbs_stop fuel v s o with
     | Ret a ->
       let (p, st) = a in let (s1, o1) = p in Ret (((DSbs s1), o1), st)
     | Diverges -> Diverges)
  | DTrash st -> Ret (((DTrash st), o), Armed)

(** val dev_destroy : nat -> variant -> dev -> os -> os outcome **)

let dev_destroy fuel v d o =
  match d with
  | DRaw r -> Ret (raw_destroy v r o)
  | DTiff t -> tiff_destroy fuel v t o
  | DSbs s -> sbs_destroy fuel v s o
  | DTrash _ -> Ret o

type status =
| Ok
| Err

(** val hal_set : char list -> nat -> dev -> os -> (dev * os) * status **)

let hal_set uri meta d o =
  let (p, st) = dev_set uri meta d o in
  let (d1, o1) = p in
  (((put_state d1 st), o1), (if dstate_eqb st Armed then Ok else Err))

(** val hal_start :
    nat -> variant -> dev -> os -> ((dev * os) * status) outcome **)

let hal_start fuel v d o =
  if dstate_eqb (get_state d) Armed
  then (match dev_start fuel v d o with
        | Ret a ->
          let (p, st) = a in
          let (d1, o1) = p in
          Ret (((put_state d1 st), o1),
          (if dstate_eqb st Running then Ok else Err))
        | Diverges -> Diverges)
  else Ret ((d, o), Err)

(** val hal_append :
    nat -> variant -> packet -> dev -> os -> ((dev * os) * status) outcome **)

let hal_append fuel v p d o =
  if dstate_eqb (get_state d) Running
  then (match p.p_bytes with
        | [] -> Ret ((d, o), Ok)
        | _ :: _ ->
          (match dev_append fuel v p d o with
           | Ret a ->
             let (p0, st) = a in
             let (d1, o1) = p0 in
             Ret (((put_state d1 st), o1),
             (if dstate_eqb st Running then Ok else Err))
           | Diverges -> Diverges))
  else Ret ((d, o), Err)

(** val hal_stop :
    nat -> variant -> dev -> os -> ((dev * os) * status) outcome **)

let hal_stop fuel v d o =
  if dstate_eqb (get_state d) Running
  then (match dev_stop fuel v d o with
        | Ret a ->
          let (p, st) = a in
          let (d1, o1) = p in
          Ret (((put_state d1 st), o1),
          (if (||) (dstate_eqb st Armed) (dstate_eqb st AwaitingConfiguration)
           then Ok
           else Err))
        | Diverges -> Diverges)
  else Ret ((d, o), Ok)

(** val hal_close : nat -> variant -> dev -> os -> os outcome **)

let hal_close fuel v d o =
  match hal_stop fuel v d o with
  | Ret a -> let (p, _) = a in let (d1, o1) = p in dev_destroy fuel v d1 o1
  | Diverges -> Diverges

type op =
| OSet of char list * nat
| OStart
| OAppend of packet
| OStop
| OEnvOpen
| OEnvClose of nat

(** val step :
    nat -> variant -> op -> dev -> os -> ((dev * os) * status) outcome **)

let step fuel v x d o =
  match x with
  | OSet (uri, meta) -> Ret (hal_set uri meta d o)
  | OStart -> hal_start fuel v d o
  | OAppend p -> hal_append fuel v p d o
  | OStop -> hal_stop fuel v d o
  | OEnvOpen -> Ret ((d, (env_open o)), Ok)
  | OEnvClose k -> Ret ((d, (env_close o k)), Ok)

(** val allowed : op -> dev -> bool **)

let allowed x d =
  match x with
  | OSet (_, _) -> negb (dstate_eqb (get_state d) Running)
  | _ -> true

(** val run :
    nat -> variant -> op list -> dev -> os -> ((((bool * status) * dstate)
    list * dev) * os) outcome **)

let rec run fuel v h d o =
  match h with
  | [] -> Ret (([], d), o)
  | x :: h' ->
    (match step fuel v x d o with
     | Ret a ->
       let (p, st) = a in
       let (d1, o1) = p in
       (match run fuel v h' d1 o1 with
        | Ret a0 ->
          let (p0, o2) = a0 in
          let (rs, d2) = p0 in
          Ret ((((((allowed x d), st), (get_state d1)) :: rs), d2), o2)
        | Diverges -> Diverges)
     | Diverges -> Diverges)

(** val life :
    nat -> variant -> kind -> op list -> os -> (((bool * status) * dstate)
    list * os) outcome **)

let life fuel v k h o =
  match run fuel v h (dev_init k) o with
  | Ret a ->
    let (p, o1) = a in
    let (rs, d1) = p in
    (match hal_close fuel v d1 o1 with
     | Ret o2 -> Ret (rs, o2)
     | Diverges -> Diverges)
  | Diverges -> Diverges

(** val fUEL : nat **)

let fUEL =
  S (S (S (S (S (S (S (S (S (S (S (S (S (S (S (S (S (S (S (S (S (S (S (S (S
    (S (S (S (S (S (S (S (S (S (S (S (S (S (S (S (S (S (S (S (S (S (S (S (S
    (S (S (S (S (S (S (S (S (S (S (S (S (S (S (S
    O)))))))))))))))))))))))))))))))))))))))))))))))))))))))))))))))
