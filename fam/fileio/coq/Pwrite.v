(* Pwrite.v -- model of file_write (acquire-core-platform/linux/platform.c:66-86) over an operating system that may
   answer each pwrite call with any count 0..remaining or with an error.  MODEL ONLY (proofs: PwriteProofs.v).

     int retries = 0;
     while (cur < end && retries < 3) {
         size_t remaining = end - cur;
         ssize_t written = pwrite(file->fid, cur, remaining, offset);
         if (written < 0) { CHECK_POSIX(errno); }          -> return 0   (whatever the value of errno: EIO, ENOSPC,
                                                                             EAGAIN, EINTR, EBADF, EINVAL are all treated alike)
         retries += (written == 0);
         offset += written;  cur += written;
     }
     return (retries < 3);

   Files are byte lists; a write beyond the end of file fills the gap with zero bytes (POSIX hole). *)
From Coq Require Import List Arith NArith Bool.
Import ListNotations.

Definition byte := N.
Definition file := list byte.

(* the bytes of [f] after writing [d] at offset [off] (d non-empty; see [pwrite_file]) *)
Fixpoint write_at (f : file) (off : nat) (d : list byte) : file :=
  match off with
  | 0 => d ++ skipn (length d) f
  | S o => match f with
           | [] => 0%N :: write_at [] o d
           | b :: f' => b :: write_at f' o d
           end
  end.

(* pwrite of zero bytes leaves the file alone (it does not extend it) *)
Definition pwrite_file (f : file) (off : nat) (d : list byte) : file :=
  match d with [] => f | _ => write_at f off d end.

(* the error numbers a failing pwrite -- and a failing ftruncate (FdTable.CFailTrunc) -- may report (the fault model of
   the check draws from exactly these) *)
Inductive errno := EIO | ENOSPC | EAGAIN | EINTR | EBADF | EINVAL.

(* what the operating system answers to one pwrite call *)
Inductive wresp :=
| WFull                 (* everything that was asked for *)
| WCount (c : nat)      (* min c remaining bytes (0 = a zero-length result) *)
| WErr (e : errno).     (* -1, errno = e *)

Definition deliver (r : wresp) (remaining : nat) : option nat :=
  match r with
  | WFull => Some remaining
  | WCount c => Some (Nat.min c remaining)
  | WErr _ => None          (* the code looks at errno only to log it: every failure ends the loop *)
  end.

Section Loop.
  Variable S : Type.
  (* one pwrite(fd, cur, remaining, offset) call: new state, Some written | None (= -1) *)
  Variable prim : S -> nat -> list byte -> S * option nat.

  (* [buf] is the not yet written part cur..end.  None = the recursion ran out of fuel (never happens with the fuel
     given by [file_write_gen]: PwriteProofs.fw_loop_total). *)
  Fixpoint fw_loop (fuel retries : nat) (s : S) (off : nat) (buf : list byte) : option (S * bool) :=
    match buf with
    | [] => Some (s, retries <? 3)
    | _ :: _ =>
      if 3 <=? retries then Some (s, false)
      else match fuel with
           | 0 => None
           | Datatypes.S fuel' =>
             match prim s off buf with
             | (s', None) => Some (s', false)
             | (s', Some w) =>
               fw_loop fuel' (retries + (if w =? 0 then 1 else 0)) s' (off + w) (skipn w buf)
             end
           end
    end.

  Definition file_write_gen (s : S) (off : nat) (buf : list byte) : S * bool :=
    match fw_loop (length buf + 3) 0 s off buf with
    | Some r => r
    | None => (s, false)
    end.
End Loop.

(* ---- the loop over ONE file and a script of pwrite results: state = (index of the next pwrite call, file) ---- *)
Definition st1 := (nat * file)%type.

Definition prim1 (ws : nat -> wresp) (s : st1) (off : nat) (buf : list byte) : st1 * option nat :=
  let '(k, f) := s in
  match deliver (ws k) (length buf) with
  | None => ((Datatypes.S k, f), None)
  | Some w => ((Datatypes.S k, pwrite_file f off (firstn w buf)), Some w)
  end.

Definition file_write1 (ws : nat -> wresp) (s : st1) (off : nat) (buf : list byte) : st1 * bool :=
  file_write_gen st1 (prim1 ws) s off buf.

(* the counts delivered to one call, as a list *)
Fixpoint delivers (ws : nat -> wresp) (k remaining : nat) (pat : list nat) : Prop :=
  match pat with
  | [] => True
  | w :: pat' => deliver (ws k) remaining = Some w /\ delivers ws (Datatypes.S k) (remaining - w) pat'
  end.

Definition zeros (pat : list nat) : nat := count_occ Nat.eq_dec pat 0.

(* two answers that differ at most in the error number of a failure *)
Definition same_shape (a b : wresp) : Prop :=
  match a, b with
  | WFull, WFull => True
  | WCount c, WCount c' => c = c'
  | WErr _, WErr _ => True
  | _, _ => False
  end.
(* two write scripts that fail the same calls (transiently or persistently), possibly with other error numbers *)
Definition errno_variant (ws ws' : nat -> wresp) : Prop := forall k, same_shape (ws k) (ws' k).
