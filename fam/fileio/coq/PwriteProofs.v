(* PwriteProofs.v -- facts about write_at / pwrite_file and the file_write loop. *)
From Coq Require Import List Arith NArith Bool Lia.
From FileIO Require Import Pwrite.
Import ListNotations.

(* ------------------------------------------------------------------ lists *)
Lemma skipn_skipn' : forall (A : Type) (x y : nat) (l : list A), skipn x (skipn y l) = skipn (y + x) l.
Proof.
  intros A x y; revert x. induction y as [|y IH]; intros x l; simpl; auto.
  destruct l; simpl; auto. now rewrite skipn_nil.
Qed.

Lemma firstn_plus : forall (A : Type) (m w : nat) (b : list A),
  firstn (m + w) b = firstn m b ++ firstn w (skipn m b).
Proof.
  intros A m; induction m as [|m IH]; intros w b; simpl; auto.
  destruct b; simpl. now rewrite firstn_nil. now rewrite IH.
Qed.

(* ------------------------------------------------------------------ write_at *)
Lemma write_at_nil_l : forall off d, write_at [] off d = repeat 0%N off ++ d.
Proof.
  induction off as [|off IH]; intros d; simpl.
  - now rewrite skipn_nil, app_nil_r.
  - now rewrite IH.
Qed.

Lemma write_at_app_l : forall d1 g k d2, write_at (d1 ++ g) (length d1 + k) d2 = d1 ++ write_at g k d2.
Proof. induction d1 as [|a d1 IH]; intros; simpl; auto. now rewrite IH. Qed.

Lemma write_at_split : forall off f d1 d2,
  write_at (write_at f off d1) (off + length d1) d2 = write_at f off (d1 ++ d2).
Proof.
  induction off as [|off IH]; intros f d1 d2.
  - cbn [write_at Nat.add].
    pose proof (write_at_app_l d1 (skipn (length d1) f) 0 d2) as E. rewrite Nat.add_0_r in E. rewrite E.
    cbn [write_at]. rewrite <- app_assoc. do 2 f_equal.
    rewrite skipn_skipn', app_length. reflexivity.
  - cbn [Nat.add]. destruct f as [|b f]; cbn [write_at]; f_equal; apply IH.
Qed.

Lemma write_at_end : forall f d, write_at f (length f) d = f ++ d.
Proof.
  induction f as [|b f IH]; intros d; simpl.
  - now rewrite skipn_nil, app_nil_r.
  - now rewrite IH.
Qed.

Lemma write_at_length : forall off f d, length (write_at f off d) = Nat.max (length f) (off + length d).
Proof.
  induction off as [|off IH]; intros f d; simpl.
  - rewrite app_length, skipn_length. lia.
  - destruct f as [|b f]; simpl; rewrite IH; simpl; lia.
Qed.

(* the written range holds the data *)
Lemma write_at_inside : forall off f d i, i < length d -> nth (off + i) (write_at f off d) 0%N = nth i d 0%N.
Proof.
  induction off as [|off IH]; intros f d i Hi; simpl.
  - now rewrite app_nth1.
  - destruct f; simpl; now apply IH.
Qed.

(* nothing else changed: bytes before the range (a gap reads as zero) and after it *)
Lemma write_at_before : forall off f d i, i < off -> nth i (write_at f off d) 0%N = nth i f 0%N.
Proof.
  induction off as [|off IH]; intros f d i Hi; [lia|].
  destruct f as [|b f]; simpl; destruct i as [|i]; auto.
  - rewrite IH by lia. now destruct i.
  - apply IH; lia.
Qed.

Lemma write_at_after : forall off f d i, off + length d <= i -> nth i (write_at f off d) 0%N = nth i f 0%N.
Proof.
  induction off as [|off IH]; intros f d i Hi.
  - simpl in *. rewrite app_nth2 by lia.
    rewrite <- (firstn_skipn (length d) f) at 2.
    destruct (le_lt_dec (length d) (length f)) as [H|H].
    + rewrite app_nth2; rewrite firstn_length_le by lia; auto.
    + rewrite skipn_all2 by lia. rewrite nth_overflow with (l := firstn _ f ++ []).
      now destruct (i - length d). rewrite app_nil_r, firstn_length. lia.
  - destruct i as [|i]; [simpl in Hi; lia|].
    destruct f as [|b f]; simpl.
    + rewrite IH by (simpl in Hi; lia). now destruct i.
    + apply IH. simpl in Hi; lia.
Qed.

(* ------------------------------------------------------------------ pwrite_file *)
Lemma pwrite_file_nil : forall f off, pwrite_file f off [] = f.
Proof. reflexivity. Qed.

Lemma pwrite_file_app : forall f off d1 d2,
  pwrite_file (pwrite_file f off d1) (off + length d1) d2 = pwrite_file f off (d1 ++ d2).
Proof.
  intros f off d1 d2. destruct d1 as [|a d1].
  - simpl. now rewrite Nat.add_0_r.
  - destruct d2 as [|b d2].
    + now rewrite app_nil_r.
    + unfold pwrite_file at 1 2. cbn [app]. unfold pwrite_file.
      change (a :: d1 ++ b :: d2) with ((a :: d1) ++ b :: d2).
      now rewrite <- write_at_split.
Qed.

Lemma pwrite_file_step : forall f off b m w, m <= length b ->
  pwrite_file (pwrite_file f off (firstn m b)) (off + m) (firstn w (skipn m b)) = pwrite_file f off (firstn (m + w) b).
Proof.
  intros. rewrite firstn_plus, <- pwrite_file_app. now rewrite firstn_length_le.
Qed.

Lemma pwrite_file_end : forall f d, pwrite_file f (length f) d = f ++ d.
Proof. intros f [|a d]; simpl. now rewrite app_nil_r. apply write_at_end. Qed.

(* ------------------------------------------------------------------ the loop, for any pwrite primitive *)
Section LoopFacts.
  Variable S : Type.
  Variable prim : S -> nat -> list byte -> S * option nat.

  (* the recursion never runs out of the fuel file_write_gen gives it *)
  Lemma fw_loop_total : forall fuel retries s off buf,
    length buf + (3 - retries) <= fuel -> exists r, fw_loop S prim fuel retries s off buf = Some r.
  Proof.
    induction fuel as [|fuel IH]; intros retries s off buf Hf.
    - destruct buf as [|b buf]; cbn [fw_loop]. { eexists; reflexivity. }
      destruct (3 <=? retries) eqn:E. { eexists; reflexivity. }
      apply Nat.leb_gt in E. simpl in Hf. lia.
    - destruct buf as [|b buf]; cbn [fw_loop]. { eexists; reflexivity. }
      destruct (3 <=? retries) eqn:E. { eexists; reflexivity. }
      apply Nat.leb_gt in E.
      destruct (prim s off (b :: buf)) as [s' [w|]]; [|eexists; reflexivity].
      apply IH. rewrite skipn_length. destruct (w =? 0) eqn:W.
      + apply Nat.eqb_eq in W. subst. cbn [length] in *. lia.
      + apply Nat.eqb_neq in W. cbn [length] in *. lia.
  Qed.

  Lemma file_write_gen_loop : forall s off buf,
    fw_loop S prim (length buf + 3) 0 s off buf = Some (file_write_gen S prim s off buf).
  Proof.
    intros. unfold file_write_gen.
    destruct (fw_loop_total (length buf + 3) 0 s off buf) as [r Hr]. lia. now rewrite Hr.
  Qed.

  (* invariant rule *)
  Variable P : S -> Prop.
  Hypothesis prim_P : forall s off buf s' r, P s -> prim s off buf = (s', r) -> P s'.

  Lemma fw_loop_inv : forall fuel retries s off buf s' b,
    P s -> fw_loop S prim fuel retries s off buf = Some (s', b) -> P s'.
  Proof.
    induction fuel as [|fuel IH]; intros retries s off buf s' b Hs H.
    - destruct buf; cbn [fw_loop] in H. now inversion H; subst.
      destruct (3 <=? retries); inversion H; now subst.
    - destruct buf as [|x buf]; cbn [fw_loop] in H. now inversion H; subst.
      destruct (3 <=? retries). now inversion H; subst.
      destruct (prim s off (x :: buf)) as [s1 [w|]] eqn:E.
      + eapply IH; [|exact H]. eapply prim_P; eauto.
      + inversion H; subst. eapply prim_P; eauto.
  Qed.

  Lemma file_write_gen_inv : forall s off buf s' b, P s -> file_write_gen S prim s off buf = (s', b) -> P s'.
  Proof.
    intros s off buf s' b Hs H. pose proof (file_write_gen_loop s off buf) as L. rewrite H in L.
    eapply fw_loop_inv; eauto.
  Qed.

  (* what the loop does to the file the descriptor refers to *)
  Variable view : S -> file.
  Hypothesis prim_view : forall s off buf s' r, P s -> prim s off buf = (s', r) ->
    match r with
    | Some w => w <= length buf /\ view s' = pwrite_file (view s) off (firstn w buf)
    | None => view s' = view s
    end.

  Lemma fw_loop_view : forall fuel retries s off buf s' b,
    P s -> fw_loop S prim fuel retries s off buf = Some (s', b) ->
    exists m, m <= length buf /\ view s' = pwrite_file (view s) off (firstn m buf) /\ (b = true -> m = length buf).
  Proof.
    induction fuel as [|fuel IH]; intros retries s off buf s' b Hs H.
    - destruct buf as [|x buf]; cbn [fw_loop] in H.
      + inversion H; subst. exists 0. simpl. auto.
      + destruct (3 <=? retries); inversion H; subst. exists 0. simpl. repeat split; auto. lia. discriminate.
    - destruct buf as [|x buf]; cbn [fw_loop] in H.
      + inversion H; subst. exists 0. simpl. auto.
      + destruct (3 <=? retries).
        { inversion H; subst. exists 0. simpl. repeat split; auto. lia. discriminate. }
        destruct (prim s off (x :: buf)) as [s1 [w|]] eqn:E.
        * pose proof (prim_view _ _ _ _ _ Hs E) as [Hw Hv].
          pose proof (prim_P _ _ _ _ _ Hs E) as Hs1.
          destruct (IH _ _ _ _ _ _ Hs1 H) as (m & Hm & Hv' & Hb).
          rewrite skipn_length in Hm.
          exists (w + m). split; [lia|]. split.
          -- rewrite Hv', Hv. rewrite <- (firstn_skipn 0 (x :: buf)) at 1. cbn [firstn skipn app].
             replace (firstn w (x :: buf)) with (firstn w (skipn 0 (x :: buf))) by reflexivity.
             change (view s) with (pwrite_file (view s) off (firstn 0 (x :: buf))) at 1.
             replace off with (off + 0) at 2 by lia.
             rewrite pwrite_file_step by (simpl; lia). cbn [Nat.add].
             rewrite pwrite_file_step by lia. reflexivity.
          -- intros Hb'. specialize (Hb Hb'). rewrite skipn_length in Hb. lia.
        * inversion H; subst. exists 0. simpl. repeat split; auto. lia.
          apply (prim_view _ _ _ _ _ Hs E). discriminate.
  Qed.

  Lemma file_write_gen_view : forall s off buf s' b, P s -> file_write_gen S prim s off buf = (s', b) ->
    exists m, m <= length buf /\ view s' = pwrite_file (view s) off (firstn m buf) /\ (b = true -> m = length buf).
  Proof.
    intros s off buf s' b Hs H. pose proof (file_write_gen_loop s off buf) as L. rewrite H in L.
    eapply fw_loop_view; eauto.
  Qed.
End LoopFacts.

(* ------------------------------------------------------------------ one file, one script *)
Lemma deliver_le : forall r n w, deliver r n = Some w -> w <= n.
Proof. intros [| c |] n w H; simpl in H; inversion H; subst; auto. apply Nat.le_min_r. Qed.

Lemma zeros_cons : forall w pat, zeros (w :: pat) = (if w =? 0 then 1 else 0) + zeros pat.
Proof.
  intros. unfold zeros. simpl. destruct (Nat.eq_dec w 0) as [->|N]; simpl; auto.
  apply Nat.eqb_neq in N. now rewrite N.
Qed.

Lemma loop1_all : forall ws pat fuel retries k f off buf,
  delivers ws k (length buf) pat -> list_sum pat = length buf -> retries + zeros pat < 3 ->
  length buf + (3 - retries) <= fuel ->
  exists k', k' <= k + length pat /\
    fw_loop st1 (prim1 ws) fuel retries (k, f) off buf = Some ((k', pwrite_file f off buf), true).
Proof.
  intros ws pat; induction pat as [|w pat IH]; intros fuel retries k f off buf Hd Hs Hz Hf.
  - simpl in Hs. destruct buf; [|discriminate]. exists k. split. lia.
    destruct fuel; cbn [fw_loop]; replace (retries <? 3) with true; auto; symmetry; apply Nat.ltb_lt; lia.
  - destruct buf as [|x buf].
    + exists k. split. lia.
      destruct fuel; cbn [fw_loop]; replace (retries <? 3) with true; auto; symmetry; apply Nat.ltb_lt; lia.
    + destruct Hd as [Hd1 Hd2]. pose proof (deliver_le _ _ _ Hd1) as Hw.
      rewrite zeros_cons in Hz.
      destruct fuel as [|fuel]. { simpl in Hf. lia. }
      cbn [fw_loop]. replace (3 <=? retries) with false by (symmetry; apply Nat.leb_gt; lia).
      unfold prim1 at 1. rewrite Hd1.
      destruct (IH fuel (retries + (if w =? 0 then 1 else 0)) (Datatypes.S k)
                  (pwrite_file f off (firstn w (x :: buf))) (off + w) (skipn w (x :: buf))) as (k' & Hk & HL).
      * now rewrite skipn_length.
      * rewrite skipn_length. unfold list_sum in *. cbn [length fold_right] in *. lia.
      * lia.
      * rewrite skipn_length. destruct (w =? 0) eqn:W.
        -- apply Nat.eqb_eq in W; subst. cbn [length] in *. lia.
        -- apply Nat.eqb_neq in W. cbn [length] in *. lia.
      * exists k'. split. simpl. lia. rewrite HL. do 3 f_equal.
        rewrite <- (firstn_length_le (x :: buf) Hw) at 2.
        rewrite pwrite_file_app, firstn_skipn. reflexivity.
Qed.

Lemma loop1_true : forall ws fuel retries k f off buf k' f',
  fw_loop st1 (prim1 ws) fuel retries (k, f) off buf = Some ((k', f'), true) ->
  exists pat, delivers ws k (length buf) pat /\ list_sum pat = length buf /\ retries + zeros pat < 3 /\
              k' = k + length pat.
Proof.
  intros ws; induction fuel as [|fuel IH]; intros retries k f off buf k' f' H.
  - destruct buf; cbn [fw_loop] in H.
    + inversion H; subst. exists []. simpl. repeat split; auto. apply Nat.ltb_lt in H3. unfold zeros; simpl; lia.
    + destruct (3 <=? retries); inversion H.
  - destruct buf as [|x buf]; cbn [fw_loop] in H.
    + inversion H; subst. exists []. simpl. repeat split; auto. apply Nat.ltb_lt in H3. unfold zeros; simpl; lia.
    + destruct (3 <=? retries) eqn:R; [inversion H|].
      unfold prim1 at 1 in H. destruct (deliver (ws k) (length (x :: buf))) as [w|] eqn:D; [|inversion H].
      pose proof (deliver_le _ _ _ D) as Hw.
      apply IH in H. destruct H as (pat & Hd & Hs & Hz & Hk).
      rewrite skipn_length in Hd, Hs.
      exists (w :: pat). cbn [delivers]. rewrite zeros_cons. unfold list_sum in *. cbn [fold_right].
      cbn [length] in *. repeat split; auto; lia.
Qed.

(* Pwrite_all: every short-write pattern that delivers all the bytes with fewer than three zero-length results and no
   error makes file_write return 1 with the buffer in place. *)
Lemma file_write1_all : forall ws pat k f off buf,
  delivers ws k (length buf) pat -> list_sum pat = length buf -> zeros pat < 3 ->
  exists k', k' <= k + length pat /\ file_write1 ws (k, f) off buf = ((k', pwrite_file f off buf), true).
Proof.
  intros ws pat k f off buf Hd Hs Hz.
  destruct (loop1_all ws pat (length buf + 3) 0 k f off buf Hd Hs) as (k' & Hk & HL); [lia|lia|].
  exists k'. split; auto. unfold file_write1, file_write_gen. now rewrite HL.
Qed.

(* Pwrite_fail: in every other case it returns 0 -- stated as the converse: a return value of 1 implies such a pattern. *)
Lemma file_write1_true : forall ws k f off buf k' f',
  file_write1 ws (k, f) off buf = ((k', f'), true) ->
  exists pat, delivers ws k (length buf) pat /\ list_sum pat = length buf /\ zeros pat < 3 /\ k' = k + length pat.
Proof.
  intros ws k f off buf k' f' H. unfold file_write1 in H.
  pose proof (file_write_gen_loop st1 (prim1 ws) (k, f) off buf) as L. rewrite H in L.
  apply loop1_true in L. destruct L as (pat & ? & ? & ? & ?). exists pat. repeat split; auto.
Qed.

(* whatever the pattern, only the range [off, off+n) is touched, and what was written is a prefix of the buffer in place *)
Lemma file_write1_frame : forall ws k f off buf k' f' b,
  file_write1 ws (k, f) off buf = ((k', f'), b) ->
  exists m, m <= length buf /\ f' = pwrite_file f off (firstn m buf) /\ (b = true -> m = length buf).
Proof.
  intros ws k f off buf k' f' b H. unfold file_write1 in H.
  apply (file_write_gen_view st1 (prim1 ws) (fun _ => True) (fun _ _ _ _ _ _ _ => I) snd) with (b := b) (s' := (k', f')) in H; auto.
  intros [k0 f0] off0 buf0 s1 r _ E. unfold prim1 in E.
  destruct (deliver (ws k0) (length buf0)) as [w|] eqn:D; inversion E; subst; simpl; auto.
  split; auto. eapply deliver_le; eauto.
Qed.

(* ------------------------------------------------------------------ exact number of pwrite calls *)
(* a pattern is tight when it does not end in a zero-length result: the loop stops as soon as the buffer is
   exhausted, so the calls it makes are exactly the entries of a tight pattern *)
Definition tight (pat : list nat) : Prop := last pat 1 <> 0.

Lemma sum_zero_last : forall l, list_sum l = 0 -> l <> [] -> last l 1 = 0.
Proof.
  induction l as [|a l IH]; intros Hs Hn; [congruence|].
  unfold list_sum in *. cbn [fold_right] in Hs. destruct l as [|b l].
  - simpl. lia.
  - change (last (a :: b :: l) 1) with (last (b :: l) 1). apply IH. lia. discriminate.
Qed.

Lemma tight_tail : forall w pat, tight (w :: pat) -> tight pat.
Proof. intros w [|a pat] H; unfold tight in *. simpl. lia. exact H. Qed.

Lemma loop1_exact : forall ws pat fuel retries k f off buf,
  delivers ws k (length buf) pat -> list_sum pat = length buf -> retries + zeros pat < 3 -> tight pat ->
  length buf + (3 - retries) <= fuel ->
  fw_loop st1 (prim1 ws) fuel retries (k, f) off buf = Some ((k + length pat, pwrite_file f off buf), true).
Proof.
  intros ws pat; induction pat as [|w pat IH]; intros fuel retries k f off buf Hd Hs Hz Ht Hf.
  - simpl in Hs. destruct buf; [|discriminate]. simpl. rewrite Nat.add_0_r.
    destruct fuel; cbn [fw_loop]; replace (retries <? 3) with true; auto; symmetry; apply Nat.ltb_lt; unfold zeros in Hz; simpl in Hz; lia.
  - destruct buf as [|x buf].
    + exfalso. apply Ht. apply sum_zero_last. exact Hs. discriminate.
    + destruct Hd as [Hd1 Hd2]. pose proof (deliver_le _ _ _ Hd1) as Hw.
      rewrite zeros_cons in Hz.
      destruct fuel as [|fuel]. { simpl in Hf. lia. }
      cbn [fw_loop]. replace (3 <=? retries) with false by (symmetry; apply Nat.leb_gt; lia).
      unfold prim1 at 1. rewrite Hd1.
      rewrite (IH fuel (retries + (if w =? 0 then 1 else 0)) (Datatypes.S k)
                  (pwrite_file f off (firstn w (x :: buf))) (off + w) (skipn w (x :: buf))).
      * cbn [length]. do 3 f_equal. lia.
        rewrite <- (firstn_length_le (x :: buf) Hw) at 2.
        rewrite pwrite_file_app, firstn_skipn. reflexivity.
      * now rewrite skipn_length.
      * rewrite skipn_length. unfold list_sum in *. cbn [length fold_right] in *. lia.
      * lia.
      * eapply tight_tail; eauto.
      * rewrite skipn_length. destruct (w =? 0) eqn:W.
        -- apply Nat.eqb_eq in W; subst. cbn [length] in *. lia.
        -- apply Nat.eqb_neq in W. cbn [length] in *. lia.
Qed.

Lemma file_write1_exact : forall ws pat k f off buf,
  delivers ws k (length buf) pat -> list_sum pat = length buf -> zeros pat < 3 -> tight pat ->
  file_write1 ws (k, f) off buf = ((k + length pat, pwrite_file f off buf), true).
Proof.
  intros ws pat k f off buf Hd Hs Hz Ht. unfold file_write1, file_write_gen.
  rewrite (loop1_exact ws pat (length buf + 3) 0 k f off buf); auto; lia.
Qed.

(* ------------------------------------------------------------------ the loop over two primitives that simulate each other *)
Section Simulation.
  Variables S1 S2 : Type.
  Variable prim_a : S1 -> nat -> list byte -> S1 * option nat.
  Variable prim_b : S2 -> nat -> list byte -> S2 * option nat.
  Variable R : S1 -> S2 -> Prop.
  Hypothesis prim_sim : forall s1 s2 off buf, R s1 s2 ->
    R (fst (prim_a s1 off buf)) (fst (prim_b s2 off buf)) /\ snd (prim_a s1 off buf) = snd (prim_b s2 off buf).

  Lemma fw_loop_sim : forall fuel retries s1 s2 off buf, R s1 s2 ->
    match fw_loop S1 prim_a fuel retries s1 off buf, fw_loop S2 prim_b fuel retries s2 off buf with
    | Some (s1', b1), Some (s2', b2) => R s1' s2' /\ b1 = b2
    | None, None => True
    | _, _ => False
    end.
  Proof.
    induction fuel as [|fuel IH]; intros retries s1 s2 off buf HR.
    - destruct buf; cbn [fw_loop]; auto. destruct (3 <=? retries); auto.
    - destruct buf as [|x buf]; cbn [fw_loop]; auto. destruct (3 <=? retries); auto.
      destruct (prim_sim s1 s2 off (x :: buf) HR) as [HR' Hr].
      destruct (prim_a s1 off (x :: buf)) as [s1' r1]. destruct (prim_b s2 off (x :: buf)) as [s2' r2].
      cbn [fst snd] in *. subst r2. destruct r1 as [w|]; auto. apply IH; auto.
  Qed.

  Lemma file_write_gen_sim : forall s1 s2 off buf, R s1 s2 ->
    R (fst (file_write_gen S1 prim_a s1 off buf)) (fst (file_write_gen S2 prim_b s2 off buf)) /\
    snd (file_write_gen S1 prim_a s1 off buf) = snd (file_write_gen S2 prim_b s2 off buf).
  Proof.
    intros s1 s2 off buf HR. pose proof (fw_loop_sim (length buf + 3) 0 s1 s2 off buf HR) as H.
    rewrite (file_write_gen_loop S1 prim_a), (file_write_gen_loop S2 prim_b) in H.
    destruct (file_write_gen S1 prim_a s1 off buf), (file_write_gen S2 prim_b s2 off buf). exact H.
  Qed.
End Simulation.
