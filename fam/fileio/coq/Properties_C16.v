(* Properties_C16.v -- C16: storage I/O failures are contained and reported; only owned descriptors are used.

   "If creating or writing a file fails at any point, or the device is configured but never started, a storage device
    neither crashes, recurses without bound nor hangs; it reports a write failure by leaving the running state no later
    than the end of the failing append, so the runtime stops the stream.  Over its whole life it writes to and closes
    only descriptors it opened itself, and closes each exactly once."

   Quantification.  [k] ranges over the four storage kinds (KRaw, KTiff, KSbs = tiff-json, KTrash); [h] over ALL finite
   histories of HAL calls on one device (Hal.op: set with any uri / metadata length, start, append of any packet, stop,
   in any order and any number: open/close without start, repeated start/stop, start twice, append or stop when idle,
   close while running) interleaved with the rest of the process opening and closing descriptors of its own
   (OEnvOpen / OEnvClose); the create script [cs] and the write script [ws] give the operating system's answer to the
   n-th open and the two calls file_create issues on the new descriptor (all succeed / open fails / the flock that
   follows fails / the ftruncate that follows the flock fails, with any error number -- a create can fail at EACH of
   its three system calls) and to the n-th pwrite (any count, or an error), so
   EVERY fault index, transient or persistent, and every short-write pattern is covered; [env_fds] is any set of
   descriptors already open in the process.  [life] = device open, the history, storage_close (stop + destroy).
   Induction over histories and over packets: no bound on any length.

   The model is the code WITH the repairs fixes/02 (raw), 03, 04 (tiff) and 05 (tiff-json; in /repo since a3ee066).
   Tiff::write_ -> stop -> terminate_ifd_list -> write_ is recursion on a fuel argument whose exhaustion is the explicit
   outcome [Diverges]; the theorems hold for EVERY fuel >= 4 (the depth actually reached is at most 4:
   write_, stop, write_, stop-that-returns-at-once), the extracted oracle runs with FUEL = 64.
   [disciplined rs]: the runtime never reconfigures a RUNNING device (no `set` between a successful start and the stop;
   property C08's subject).  Without it `start` after `set` while running opens a second file over the first for every
   kind -- the device protocol, not an I/O failure.  Only C16_owned_fds / C16_closed_once need it.

   This file contains statements only; every proof is [exact <lemma of C16Proofs.v>]. *)
From Coq Require Import String.
From Coq Require Import List Arith NArith Bool.
From FileIO Require Import Pwrite FdTable Raw TiffFail SideBySide Hal Spec C16Proofs ErrnoProofs.
Import ListNotations.
Local Open Scope nat_scope.
Local Open Scope list_scope.

(* ---------------------------------------------------------------------------------------------------------------
   C16_terminates.  No life of a device -- any kind, any history (disciplined or not), any operating-system state and
   scripts -- reaches Diverges: every call returns, the write-error path is re-entered at most once. *)
Theorem C16_terminates :
  forall fuel k h o, 4 <= fuel -> life fuel fixed k h o <> Diverges.
Proof. exact life_never_diverges. Qed.
Print Assumptions C16_terminates.

(* ... and so does every single HAL call, from ANY device state (reachable or not) *)
Theorem C16_terminates_every_call :
  forall fuel x d o, 4 <= fuel -> step fuel fixed x d o <> Diverges.
Proof. exact step_never_diverges. Qed.
Print Assumptions C16_terminates_every_call.

(* ---------------------------------------------------------------------------------------------------------------
   C16_reports.  [nfail] counts the file_create / file_write / writability-probe calls that returned 0.  A start or an
   append inside which one of them failed answers Device_Err, and the state of the device after that very call is not
   Running (storage.c:189-207 then makes the runtime stop the stream) -- from ANY device and operating-system state. *)
Theorem C16_reports :
  forall fuel x d o d1 o1 st, 4 <= fuel ->
    step fuel fixed x d o = Ret (d1, o1, st) ->
    x = OStart \/ (exists p, x = OAppend p) ->
    nfail o1 <> nfail o ->
    st = Err /\ get_state d1 <> Running.
Proof. exact failure_is_reported. Qed.
Print Assumptions C16_reports.

(* ---------------------------------------------------------------------------------------------------------------
   C16_owned_fds.  Every flock, ftruncate, pwrite and close the device issues during its whole life targets a descriptor number
   that the device holds at that moment: it has opened it (an EOpen event of the device's own) once more often than it
   has closed it.  In particular never -1, never a descriptor of the rest of the process (0, 1, 2, ...), never a number
   it has already closed and somebody else may have been given since. *)
Theorem C16_owned_fds :
  forall fuel k h env_fds cs ws rs o', 4 <= fuel -> NoDup env_fds ->
    life fuel fixed k h (os_init env_fds cs ws) = Ret (rs, o') -> disciplined rs = true ->
    forall t1 e t2 fdarg, trace o' = t1 ++ e :: t2 -> targets e = Some fdarg ->
    exists fd, fdarg = Some fd /\ held fd t1.
Proof. exact owned_fds. Qed.
Print Assumptions C16_owned_fds.

(* ---------------------------------------------------------------------------------------------------------------
   C16_closed_once.  After destroy every descriptor number has been closed as often as it was opened -- with
   C16_owned_fds (each close happens while the number is held) each opened descriptor is closed exactly once --,
   no table entry belongs to the device any more (nothing leaks), and every descriptor of the rest of the process
   (those open at the start and those opened since and not closed by their owner) is still open. *)
Theorem C16_closed_once :
  forall fuel k h env_fds cs ws rs o', 4 <= fuel -> NoDup env_fds ->
    life fuel fixed k h (os_init env_fds cs ws) = Ret (rs, o') -> disciplined rs = true ->
    (forall fd, count_ev (opens_of fd) (trace o') = count_ev (closes_of fd) (trace o')) /\
    (forall fd p, lookup fd (tbl o') <> Some (mkEnt Dev p)) /\
    (forall fd, In fd (keep o' ++ envs o') -> exists p, lookup fd (tbl o') = Some (mkEnt Env p)).
Proof. exact closed_once. Qed.
Print Assumptions C16_closed_once.

(* the executable form of the two: the descriptor ledger (FdTable.ledger; it is what the extracted oracle prints and
   the check compares with its own ledger over the real system-call log) accepts the whole log and ends empty *)
Theorem C16_ledger :
  forall fuel k h env_fds cs ws rs o', 4 <= fuel -> NoDup env_fds ->
    life fuel fixed k h (os_init env_fds cs ws) = Ret (rs, o') -> disciplined rs = true ->
    ledger [] (trace o') = Some [].
Proof. exact life_ledger. Qed.
Print Assumptions C16_ledger.

(* the fuel-free description of the two re-entrant functions the termination argument rests on *)
Theorem C16_write_error_path :
  forall fuel len t o, 4 <= fuel ->
    t_write_ fuel fixed len t o = Ret (twrite_spec len t o) /\ t_stop fuel fixed t o = Ret (tstop_spec t o).
Proof. exact write_error_path. Qed.
Print Assumptions C16_write_error_path.

(* ---------------------------------------------------------------------------------------------------------------
   C16_errno_irrelevant.  A failing pwrite reports one of EIO, ENOSPC, EAGAIN, EINTR, EBADF, EINVAL ([WErr e]).  file_write
   (platform.c:66-86: `if (written < 0) CHECK_POSIX(errno);`) leaves its loop with return value 0 whatever the number
   is: under two write scripts that fail the same calls with different error numbers ([errno_variant], [os_ev]) it
   returns the same value, issues the same system calls and leaves the same files and descriptor table -- a failing
   call is NEVER reissued, so no error number can make the loop spin. *)
Theorem C16_errno_irrelevant_file_write :
  forall o o' fid off buf, os_ev o o' ->
    snd (file_write o fid off buf) = snd (file_write o' fid off buf) /\
    os_ev (fst (file_write o fid off buf)) (fst (file_write o' fid off buf)).
Proof. exact file_write_errno_irrelevant. Qed.
Print Assumptions C16_errno_irrelevant_file_write.

(* The same for the ftruncate of a create: a failing ftruncate reports one of the same error numbers
   ([CFailTrunc e]).  file_create (platform.c:38-63: `if (ftruncate(fid, 0) < 0) { tmp = errno; close(fid);
   CHECK_POSIX(tmp); }`) closes the descriptor and returns 0 whatever the number is: under two create scripts that fail
   the same calls at the same of the three system calls with different error numbers ([cerrno_variant], [os_ev]) it
   returns the same value, leaves the same number in file->fid, issues the same system calls and leaves the same files
   and descriptor table -- there is no error number for which a create whose descriptor has been closed reports
   success. *)
Theorem C16_errno_irrelevant_file_create :
  forall o o' p, os_ev o o' ->
    snd (fst (file_create o p)) = snd (fst (file_create o' p)) /\
    snd (file_create o p) = snd (file_create o' p) /\
    os_ev (fst (fst (file_create o p))) (fst (fst (file_create o' p))).
Proof. exact file_create_errno_irrelevant. Qed.
Print Assumptions C16_errno_irrelevant_file_create.

(* ... and therefore whole device lives: every kind, every history, every variant of the code and every fuel; the HAL
   status and device state after each call, the system-call log, the descriptor table, the files and the number of
   failed platform calls are the same (and one life diverges iff the other does) under any two create scripts and any
   two write scripts that differ only in the error numbers their failing ftruncate / pwrite calls report. *)
Theorem C16_errno_irrelevant :
  forall fuel v k h env_fds cs cs' ws ws', cerrno_variant cs cs' -> errno_variant ws ws' ->
    match life fuel v k h (os_init env_fds cs ws), life fuel v k h (os_init env_fds cs' ws') with
    | Ret (rs, o1), Ret (rs', o1') =>
        rs = rs' /\ trace o1 = trace o1' /\ tbl o1 = tbl o1' /\ fs o1 = fs o1' /\ nfail o1 = nfail o1'
    | Diverges, Diverges => True
    | _, _ => False
    end.
Proof. exact life_errno_irrelevant. Qed.
Print Assumptions C16_errno_irrelevant.

(* ===============================================================================================================
   Non-vacuity: reachable, non-trivial lives that meet the hypotheses (faults included). *)
Definition pk (n : nat) (fr : list frame) : packet := mkPkt (repeat 1%N n) fr.
Definition persistent_from (n : nat) (k : nat) : wresp := if k <? n then WFull else WErr ENOSPC.   (* disk full from call n on *)
Definition once_at (n : nat) (k : nat) : wresp := if k =? n then WErr EIO else WFull.           (* transient *)
Definition os0 (ws : nat -> wresp) : os := os_init [0; 1; 2] (fun _ => COk) ws.

Definition h_tiff : list op :=
  [OSet "file://x.tif" 0; OStart; OAppend (pk 8 [(16, (60, 50)); (8, (60, 50))]); OAppend (pk 4 [(8, (60, 50))]); OStop].

(* tiff, every write fails from the 5th on: the append reports Err / Armed, the file is closed once, the final write of
   stop() fails too and does not re-enter; the next append is refused by the HAL *)
Example tiff_persistent_failure :
  exists o', life FUEL fixed KTiff h_tiff (os0 (persistent_from 4)) =
               Ret ([(true, Ok, Armed); (true, Ok, Running); (true, Err, Armed); (true, Err, Armed); (true, Ok, Armed)], o') /\
    trace o' = [EOpen "x.tif" (Some 3); EClose (Some 3) true; EOpen "x.tif" (Some 3); ELock 3 true; ETrunc 3 true;
                EWrite (Some 3) 0 16 (Some 16); EWrite (Some 3) 0 336 (Some 336); EWrite (Some 3) 0 16 (Some 16);
                EWrite (Some 3) 0 60 (Some 60); EWrite (Some 3) 0 336 None; EWrite (Some 3) 0 8 None;
                EClose (Some 3) true] /\
    nfail o' = 2 /\ ledger [] (trace o') = Some [].
Proof. eexists. split; [vm_compute; reflexivity|]. vm_compute. auto. Qed.

(* the hypotheses of C16_reports at a reachable state: the third call of h_tiff is an append inside which a write fails *)
Example reports_reachable :
  exists rs d o d1 o1,
    run FUEL fixed (firstn 2 h_tiff) (dev_init KTiff) (os0 (persistent_from 4)) = Ret (rs, d, o) /\
    get_state d = Running /\
    step FUEL fixed (nth 2 h_tiff OStop) d o = Ret (d1, o1, Err) /\ nfail o = 0 /\ nfail o1 = 2 /\ get_state d1 = Armed.
Proof. eexists _, _, _, _, _. split; [vm_compute; reflexivity|]. split; [reflexivity|]. split; [vm_compute; reflexivity|]. vm_compute. auto. Qed.

(* raw: configured, never started; and a failed append followed by somebody else opening a file before the stop *)
Definition h_raw : list op := [OSet "a.raw" 0; OStart; OAppend (pk 3 []); OEnvOpen; OStop].
Example raw_lives :
  (exists o', life FUEL fixed KRaw [OSet "a.raw" 0] (os0 (fun _ => WFull)) = Ret ([(true, Ok, Armed)], o') /\
              trace o' = [EOpen "a.raw" (Some 3); EClose (Some 3) true]) /\
  (exists o', life FUEL fixed KRaw h_raw (os0 (persistent_from 0)) =
                Ret ([(true, Ok, Armed); (true, Ok, Running); (true, Err, Armed); (true, Ok, Armed); (true, Ok, Armed)], o') /\
              trace o' = [EOpen "a.raw" (Some 3); EClose (Some 3) true; EOpen "a.raw" (Some 3); ELock 3 true; ETrunc 3 true;
                          EWrite (Some 3) 0 3 None; EClose (Some 3) true; EEnvOpen 3] /\
              fds_of o' = [3; 0; 1; 2]).
Proof. split; eexists; (split; [vm_compute; reflexivity|]); vm_compute; auto. Qed.

(* tiff-json: metadata.json is written and closed, data.tif is terminated and closed by stop *)
Definition h_sbs : list op := [OSet "d" 7; OStart; OAppend (pk 8 [(16, (60, 50))]); OStop].
Example sbs_life :
  exists rs o', life FUEL fixed KSbs h_sbs (os0 (fun _ => WFull)) = Ret (rs, o') /\ disciplined rs = true /\
    trace o' = [EOpen "d/metadata.json" (Some 3); ELock 3 true; ETrunc 3 true; EWrite (Some 3) 0 7 (Some 7); EClose (Some 3) true;
                EOpen "d/data.tif" (Some 3); EClose (Some 3) true; EOpen "d/data.tif" (Some 3); ELock 3 true; ETrunc 3 true;
                EWrite (Some 3) 0 16 (Some 16); EWrite (Some 3) 0 336 (Some 336); EWrite (Some 3) 0 16 (Some 16);
                EWrite (Some 3) 0 60 (Some 60); EWrite (Some 3) 0 8 (Some 8); EClose (Some 3) true].
Proof. eexists _, _. split; [vm_compute; reflexivity|]. vm_compute. auto. Qed.

(* [held]: at the moment of the first pwrite of tiff_persistent_failure the device holds descriptor 3 *)
Example held_example :
  held 3 [EOpen "x.tif" (Some 3); EClose (Some 3) true; EOpen "x.tif" (Some 3); ELock 3 true; ETrunc 3 true].
Proof. vm_compute. reflexivity. Qed.

(* [errno_variant]: the disk-full script of tiff_persistent_failure and the same faults reported as EAGAIN (the case a
   retry-on-EAGAIN loop would spin on) and as EINTR then EBADF; the three lives are identical *)
Definition persistent_eagain_from (n : nat) (k : nat) : wresp := if k <? n then WFull else WErr EAGAIN.
Definition persistent_mixed_from (n : nat) (k : nat) : wresp := if k <? n then WFull else if k =? n then WErr EINTR else WErr EBADF.
Example errno_variant_example :
  errno_variant (persistent_from 4) (persistent_eagain_from 4) /\
  errno_variant (persistent_from 4) (persistent_mixed_from 4) /\
  (exists rs o1 o2 o3,
     life FUEL fixed KTiff h_tiff (os0 (persistent_from 4)) = Ret (rs, o1) /\
     life FUEL fixed KTiff h_tiff (os0 (persistent_eagain_from 4)) = Ret (rs, o2) /\
     life FUEL fixed KTiff h_tiff (os0 (persistent_mixed_from 4)) = Ret (rs, o3) /\
     trace o1 = trace o2 /\ trace o2 = trace o3 /\ nfail o1 = 2 /\
     nth 2 rs (true, Ok, Running) = (true, Err, Armed)).
Proof.
  split; [|split].
  - intros k. unfold persistent_from, persistent_eagain_from. destruct (k <? 4); exact I.
  - intros k. unfold persistent_from, persistent_mixed_from. destruct (k <? 4); [exact I|]. destruct (k =? 4); exact I.
  - eexists _, _, _, _. split; [vm_compute; reflexivity|]. split; [vm_compute; reflexivity|].
    split; [vm_compute; reflexivity|]. vm_compute. auto.
Qed.

(* a create that fails at its THIRD system call (open and flock succeeded, ftruncate fails): the descriptor is closed
   at once, the start answers Err / AwaitingConfiguration, nothing is written to or closed again afterwards -- although
   somebody else is given the same number 3 right after; the later append and stop are refused / do nothing.
   raw, tiff (2nd open of the life = the create; the 1st is the writability probe of set) and tiff-json (the create of
   metadata.json, and the create of data.tif = 3rd open) *)
Definition trunc_fails_at (n : nat) (e : errno) (k : nat) : cresp := if k =? n then CFailTrunc e else COk.
Definition os1 (cs : nat -> cresp) : os := os_init [0; 1; 2] cs (fun _ => WFull).
Definition h_raw2 : list op := [OSet "a.raw" 0; OStart; OEnvOpen; OAppend (pk 3 []); OStop].
Example raw_ftruncate_fails :
  exists o', life FUEL fixed KRaw h_raw2 (os1 (trunc_fails_at 1 EINVAL)) =
               Ret ([(true, Ok, Armed); (true, Err, AwaitingConfiguration); (true, Ok, AwaitingConfiguration);
                     (true, Err, AwaitingConfiguration); (true, Ok, AwaitingConfiguration)], o') /\
    trace o' = [EOpen "a.raw" (Some 3); EClose (Some 3) true;
                EOpen "a.raw" (Some 3); ELock 3 true; ETrunc 3 false; EClose (Some 3) true; EEnvOpen 3] /\
    nfail o' = 1 /\ ledger [] (trace o') = Some [] /\ fds_of o' = [3; 0; 1; 2].
Proof. eexists. split; [vm_compute; reflexivity|]. vm_compute. auto. Qed.

Example tiff_ftruncate_fails :
  exists o', life FUEL fixed KTiff [OSet "x.tif" 0; OStart; OEnvOpen; OAppend (pk 8 [(16, (60, 50))]); OStop]
                  (os1 (trunc_fails_at 1 EIO)) =
               Ret ([(true, Ok, Armed); (true, Err, AwaitingConfiguration); (true, Ok, AwaitingConfiguration);
                     (true, Err, AwaitingConfiguration); (true, Ok, AwaitingConfiguration)], o') /\
    trace o' = [EOpen "x.tif" (Some 3); EClose (Some 3) true;
                EOpen "x.tif" (Some 3); ELock 3 true; ETrunc 3 false; EClose (Some 3) true; EEnvOpen 3] /\
    nfail o' = 1 /\ ledger [] (trace o') = Some [].
Proof. eexists. split; [vm_compute; reflexivity|]. vm_compute. auto. Qed.

Example sbs_ftruncate_fails :
  (exists rs o', life FUEL fixed KSbs h_sbs (os1 (trunc_fails_at 0 ENOSPC)) = Ret (rs, o') /\
     nth 1 rs (true, Ok, Running) = (true, Err, AwaitingConfiguration) /\
     trace o' = [EOpen "d/metadata.json" (Some 3); ELock 3 true; ETrunc 3 false; EClose (Some 3) true] /\
     ledger [] (trace o') = Some []) /\
  (exists rs o', life FUEL fixed KSbs h_sbs (os1 (trunc_fails_at 2 EINVAL)) = Ret (rs, o') /\
     nth 1 rs (true, Ok, Running) = (true, Err, AwaitingConfiguration) /\
     trace o' = [EOpen "d/metadata.json" (Some 3); ELock 3 true; ETrunc 3 true; EWrite (Some 3) 0 7 (Some 7);
                 EClose (Some 3) true;
                 EOpen "d/data.tif" (Some 3); EClose (Some 3) true;
                 EOpen "d/data.tif" (Some 3); ELock 3 true; ETrunc 3 false; EClose (Some 3) true] /\
     nfail o' = 1 /\ ledger [] (trace o') = Some []).
Proof. split; eexists _, _; (split; [vm_compute; reflexivity|]); vm_compute; auto. Qed.

(* the hypotheses of C16_reports at a reachable state: the start inside which the ftruncate of the create fails *)
Example reports_reachable_ftruncate :
  exists rs d o d1 o1,
    run FUEL fixed [OSet "a.raw" 0] (dev_init KRaw) (os1 (trunc_fails_at 1 EINVAL)) = Ret (rs, d, o) /\
    get_state d = Armed /\
    step FUEL fixed OStart d o = Ret (d1, o1, Err) /\ nfail o = 0 /\ nfail o1 = 1 /\ get_state d1 = AwaitingConfiguration.
Proof. eexists _, _, _, _, _. split; [vm_compute; reflexivity|]. split; [reflexivity|]. split; [vm_compute; reflexivity|]. vm_compute. auto. Qed.

(* [cerrno_variant]: the same create fault reported as EINVAL (what ftruncate answers on a pipe or a device node), as EIO
   and as EINTR; the three lives are identical -- in particular the start answers Err for EINVAL too *)
Example cerrno_variant_example :
  cerrno_variant (trunc_fails_at 1 EINVAL) (trunc_fails_at 1 EIO) /\
  cerrno_variant (trunc_fails_at 1 EINVAL) (trunc_fails_at 1 EINTR) /\
  ~ cerrno_variant (trunc_fails_at 1 EINVAL) (fun _ => COk) /\
  (exists rs o1 o2 o3,
     life FUEL fixed KRaw h_raw2 (os1 (trunc_fails_at 1 EINVAL)) = Ret (rs, o1) /\
     life FUEL fixed KRaw h_raw2 (os1 (trunc_fails_at 1 EIO)) = Ret (rs, o2) /\
     life FUEL fixed KRaw h_raw2 (os1 (trunc_fails_at 1 EINTR)) = Ret (rs, o3) /\
     trace o1 = trace o2 /\ trace o2 = trace o3 /\ nfail o1 = 1 /\
     nth 1 rs (true, Ok, Running) = (true, Err, AwaitingConfiguration)).
Proof.
  split; [|split; [|split]].
  - intros k. unfold trunc_fails_at. destruct (k =? 1); exact I.
  - intros k. unfold trunc_fails_at. destruct (k =? 1); exact I.
  - intros H. exact (H 1).
  - eexists _, _, _, _. split; [vm_compute; reflexivity|]. split; [vm_compute; reflexivity|].
    split; [vm_compute; reflexivity|]. vm_compute. auto.
Qed.

(* ===============================================================================================================
   Sensitivity: with a repair switched off the model produces exactly the behaviour the theorems exclude.  These are
   the defects confirmed on the unrepaired code; corpus/C16/*.json replays them on the real code. *)
Definition without_d4 : variant := mkVariant true false true true true.
Definition without_d5a : variant := mkVariant true true false true true.
Definition without_d5b : variant := mkVariant true true true false true.
Definition without_d6 : variant := mkVariant true true true true false.

(* D4: raw_stop closes whatever number is in file.fid -- descriptor 0 of a device that was never started ... *)
Example D4_unrepaired_closes_stdin :
  exists rs o', life FUEL without_d4 KRaw [OSet "a.raw" 0] (os0 (fun _ => WFull)) = Ret (rs, o') /\
    trace o' = [EOpen "a.raw" (Some 3); EClose (Some 3) true; EClose (Some 0) true] /\
    ledger [] (trace o') = None /\ fds_of o' = [1; 2].
Proof. eexists _, _. split; [vm_compute; reflexivity|]. vm_compute. auto. Qed.

(* ... and, after a failed append, the stale number 3 that another part of the process has been given in between *)
Example D4_unrepaired_closes_foreign :
  exists rs o', life FUEL without_d4 KRaw h_raw (os0 (persistent_from 0)) = Ret (rs, o') /\
    trace o' = [EOpen "a.raw" (Some 3); EClose (Some 3) true; EOpen "a.raw" (Some 3); ELock 3 true; ETrunc 3 true;
                EWrite (Some 3) 0 3 None; EClose (Some 3) true; EEnvOpen 3; EClose (Some 3) true] /\
    ledger [] (trace o') = None /\ fds_of o' = [0; 1; 2].
Proof. eexists _, _. split; [vm_compute; reflexivity|]. vm_compute. auto. Qed.

(* D5a: a persistent write failure makes write_ / stop / terminate_ifd_list call each other until the fuel (the stack)
   is gone *)
Example D5a_unrepaired_diverges :
  life FUEL without_d5a KTiff h_tiff (os0 (persistent_from 4)) = Diverges /\
  life 1000 without_d5a KTiff h_tiff (os0 (persistent_from 4)) = Diverges.
Proof. split; vm_compute; reflexivity. Qed.

(* D5b: a transient write failure closes the file, yet the append answers Ok / Running and the following calls write
   to and close the stale descriptor *)
Example D5b_unrepaired_not_reported :
  exists o', life FUEL without_d5b KTiff h_tiff (os0 (once_at 4)) =
               Ret ([(true, Ok, Armed); (true, Ok, Running); (true, Ok, Running); (true, Ok, Running); (true, Ok, Armed)], o') /\
    nfail o' = 8 /\ ledger [] (trace o') = None.
Proof. eexists. split; [vm_compute; reflexivity|]. vm_compute. auto. Qed.

(* D6: the inner tiff writer never becomes Running, so its stop does nothing: data.tif is never terminated nor closed *)
Example D6_unrepaired_leaks :
  exists rs o', life FUEL without_d6 KSbs h_sbs (os0 (fun _ => WFull)) = Ret (rs, o') /\
    ledger [] (trace o') = Some [3] /\ fds_of o' = [3; 0; 1; 2].
Proof. eexists _, _. split; [vm_compute; reflexivity|]. vm_compute. auto. Qed.
