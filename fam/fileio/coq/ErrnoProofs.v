(* ErrnoProofs.v -- the error NUMBER a failing pwrite or a failing ftruncate reports is irrelevant to the modelled code.

   The OS oracle answers a failing pwrite with [WErr e], e in {EIO, ENOSPC, EAGAIN, EINTR, EBADF, EINVAL}.  file_write
   (platform.c:66-86) does `if (written < 0) CHECK_POSIX(errno);` -- every errno leaves the loop with return value 0.
   It answers the ftruncate of a create with [CFailTrunc e], same e.  file_create (platform.c:38-63) does
   `if (ftruncate(fid, 0) < 0) { int tmp = errno; close(fid); CHECK_POSIX(tmp); }` -- every errno closes the
   descriptor and returns 0.
   Two write scripts that fail the same calls with possibly different error numbers ([errno_variant]), and two create
   scripts that fail the same calls in the same way with possibly different error numbers ([cerrno_variant]),
   therefore drive
     - the loop over one file ([file_write1]) to the same result,
     - file_write and file_create over the OS model to the same return value, the same number left in file->fid
       and the same OS (table, files, counters, log),
     - every function of the raw / tiff / tiff-json / trash models, every HAL call, every history and every whole
       device life to the same statuses, states and system-call log, for every variant and every fuel.
   The relation [os_ev o o'] says: o and o' agree on every field except the two scripts, where they are
   errno-variants of each other. *)
From Coq Require Import String.
From Coq Require Import List Arith NArith Bool Lia.
From FileIO Require Import Pwrite PwriteProofs FdTable Raw TiffFail SideBySide Hal Spec.
Import ListNotations.
Local Open Scope nat_scope.
Local Open Scope list_scope.

(* ------------------------------------------------------------------ scripts *)
Lemma same_shape_deliver : forall a b n, same_shape a b -> deliver a n = deliver b n.
Proof. intros [|c|e] [|c'|e'] n H; simpl in *; try contradiction; subst; auto. Qed.

Lemma same_shape_refl : forall a, same_shape a a.
Proof. intros [|c|e]; simpl; auto. Qed.

Lemma same_shape_sym : forall a b, same_shape a b -> same_shape b a.
Proof. intros [|c|e] [|c'|e'] H; simpl in *; auto. Qed.

Lemma same_shape_trans : forall a b c, same_shape a b -> same_shape b c -> same_shape a c.
Proof. intros [|x|e] [|y|e'] [|z|e'']; simpl; intros; try contradiction; auto. congruence. Qed.

Lemma errno_variant_refl : forall ws, errno_variant ws ws.
Proof. intros ws k. apply same_shape_refl. Qed.

Lemma errno_variant_sym : forall ws ws', errno_variant ws ws' -> errno_variant ws' ws.
Proof. intros ws ws' H k. apply same_shape_sym, H. Qed.

Lemma errno_variant_trans : forall a b c, errno_variant a b -> errno_variant b c -> errno_variant a c.
Proof. intros a b c H1 H2 k. eapply same_shape_trans; eauto. Qed.

(* the canonical representative: every failure reports EIO *)
Definition erase_errno (ws : nat -> wresp) : nat -> wresp :=
  fun k => match ws k with WErr _ => WErr EIO | r => r end.

Lemma erase_errno_variant : forall ws, errno_variant ws (erase_errno ws).
Proof. intros ws k. unfold erase_errno. destruct (ws k); simpl; auto. Qed.

(* create scripts *)
Lemma same_cshape_refl : forall a, same_cshape a a.
Proof. intros [| | |e]; simpl; auto. Qed.

Lemma same_cshape_sym : forall a b, same_cshape a b -> same_cshape b a.
Proof. intros [| | |e] [| | |e'] H; simpl in *; auto. Qed.

Lemma same_cshape_trans : forall a b c, same_cshape a b -> same_cshape b c -> same_cshape a c.
Proof. intros [| | |x] [| | |y] [| | |z]; simpl; intros; try contradiction; auto. Qed.

Lemma cerrno_variant_refl : forall cs, cerrno_variant cs cs.
Proof. intros cs k. apply same_cshape_refl. Qed.

Lemma cerrno_variant_sym : forall cs cs', cerrno_variant cs cs' -> cerrno_variant cs' cs.
Proof. intros cs cs' H k. apply same_cshape_sym, H. Qed.

Lemma cerrno_variant_trans : forall a b c, cerrno_variant a b -> cerrno_variant b c -> cerrno_variant a c.
Proof. intros a b c H1 H2 k. eapply same_cshape_trans; eauto. Qed.

(* the canonical representative: every failing ftruncate reports EIO *)
Definition erase_cerrno (cs : nat -> cresp) : nat -> cresp :=
  fun k => match cs k with CFailTrunc _ => CFailTrunc EIO | r => r end.

Lemma erase_cerrno_variant : forall cs, cerrno_variant cs (erase_cerrno cs).
Proof. intros cs k. unfold erase_cerrno. destruct (cs k); simpl; auto. Qed.

(* ------------------------------------------------------------------ the loop over one file *)
Lemma prim1_errno : forall ws ws', errno_variant ws ws' ->
  forall s off buf, prim1 ws s off buf = prim1 ws' s off buf.
Proof. intros ws ws' V [k f] off buf. unfold prim1. now rewrite (same_shape_deliver _ _ (length buf) (V k)). Qed.

Lemma file_write1_errno : forall ws ws', errno_variant ws ws' ->
  forall s off buf, file_write1 ws s off buf = file_write1 ws' s off buf.
Proof.
  intros ws ws' V s off buf. unfold file_write1.
  assert (PS : forall s1 s2 o b, s1 = s2 ->
               fst (prim1 ws s1 o b) = fst (prim1 ws' s2 o b) /\ snd (prim1 ws s1 o b) = snd (prim1 ws' s2 o b)).
  { intros s1 s2 o b ->. rewrite (prim1_errno ws ws' V). auto. }
  destruct (file_write_gen_sim st1 st1 (prim1 ws) (prim1 ws') eq PS s s off buf eq_refl) as [H1 H2].
  destruct (file_write_gen st1 (prim1 ws) s off buf), (file_write_gen st1 (prim1 ws') s off buf).
  cbn [fst snd] in *. congruence.
Qed.

(* ------------------------------------------------------------------ the operating-system model *)
Lemma os_ev_refl : forall o, os_ev o o.
Proof. intros o. unfold os_ev. repeat split; auto. apply cerrno_variant_refl. apply errno_variant_refl. Qed.

Lemma os_ev_init : forall env_fds cs cs' ws ws', cerrno_variant cs cs' -> errno_variant ws ws' ->
  os_ev (os_init env_fds cs ws) (os_init env_fds cs' ws').
Proof. intros. unfold os_ev, os_init; cbn. repeat split; auto. Qed.

(* results that carry an OS *)
Definition ev1 {X : Type} (r r' : os * X) : Prop := os_ev (fst r) (fst r') /\ snd r = snd r'.
Definition ev2 {X Y : Type} (r r' : os * X * Y) : Prop :=
  os_ev (fst (fst r)) (fst (fst r')) /\ snd (fst r) = snd (fst r') /\ snd r = snd r'.
Definition evd {D X : Type} (r r' : D * os * X) : Prop :=
  fst (fst r) = fst (fst r') /\ os_ev (snd (fst r)) (snd (fst r')) /\ snd r = snd r'.
Definition evp {D : Type} (r r' : D * os) : Prop := fst r = fst r' /\ os_ev (snd r) (snd r').
Definition evo {A : Type} (R : A -> A -> Prop) (x y : outcome A) : Prop :=
  match x, y with
  | Ret a, Ret b => R a b
  | Diverges, Diverges => True
  | _, _ => False
  end.

Ltac ev_open H :=
  match type of H with
  | os_ev ?o ?o' =>
    destruct o as [xt xf xc xw xno xnw xnf xk xe xtr], o' as [yt yf yc yw yno ynw ynf yk ye ytr]; unfold os_ev in H; cbn [tbl fs cscr wscr nopen nwrite nfail keep envs trace] in H;
    destruct H as (? & ? & ? & ? & ? & ? & ? & ? & ? & ?); subst
  end.
Ltac ev_done :=
  unfold ev1, ev2, evd, evp, os_ev; cbn; repeat split; auto.
Ltac esplit := repeat match goal with |- _ /\ _ => split end.

Lemma log_ev : forall o o' e, os_ev o o' -> os_ev (log o e) (log o' e).
Proof. intros o o' e H. ev_open H. ev_done. Qed.

Lemma bump_fail_ev : forall o o', os_ev o o' -> os_ev (bump_fail o) (bump_fail o').
Proof. intros o o' H. ev_open H. ev_done. Qed.

Lemma set_fs_ev : forall o o' f, os_ev o o' -> os_ev (set_fs o f) (set_fs o' f).
Proof. intros o o' f H. ev_open H. ev_done. Qed.

Lemma os_ev_fs : forall o o', os_ev o o' -> fs o' = fs o.
Proof. intros o o' H. apply H. Qed.
Lemma os_ev_cscr : forall o o', os_ev o o' -> cerrno_variant (cscr o) (cscr o').
Proof. intros o o' H. apply H. Qed.
Lemma os_ev_nopen : forall o o', os_ev o o' -> nopen o' = nopen o.
Proof. intros o o' H. apply H. Qed.

Lemma os_open_ev : forall o o' p, os_ev o o' -> ev1 (os_open o p) (os_open o' p).
Proof.
  intros o o' p H. ev_open H. unfold os_open, fds_of, bump_open, set_tbl, set_fs, log.
  cbn [tbl fs cscr wscr nopen nwrite nfail keep envs trace].
  destruct p; [ev_done|].
  match goal with V : cerrno_variant _ _ |- _ => pose proof (V xno) as SC end.
  destruct (xc xno), (yc xno); cbn in SC; try contradiction; try solve [ev_done].
  all: destruct (xf (String a p)); ev_done.
Qed.

Lemma os_close_ev : forall o o' fd, os_ev o o' -> os_ev (os_close o fd) (os_close o' fd).
Proof.
  intros o o' fd H. ev_open H. unfold os_close, set_tbl, log.
  cbn [tbl fs cscr wscr nopen nwrite nfail keep envs trace].
  destruct fd as [n|]; [|ev_done]. destruct (lookup n xt); ev_done.
Qed.

Lemma os_pwrite_ev : forall fd o o' off buf, os_ev o o' -> ev1 (os_pwrite fd o off buf) (os_pwrite fd o' off buf).
Proof.
  intros fd o o' off buf H. ev_open H. unfold os_pwrite, bump_write, set_fs, log.
  cbn [tbl fs cscr wscr nopen nwrite nfail keep envs trace].
  match goal with V : errno_variant _ _ |- _ => rewrite (same_shape_deliver _ _ (length buf) (V xnw)) end.
  destruct (match fd with Some n => lookup n xt | None => None end) as [e|]; [|ev_done].
  destruct (deliver (yw xnw) (length buf)) as [w|]; [|ev_done].
  destruct (xf (fe_path e)); ev_done.
Qed.

Lemma file_create_ev : forall o o' p, os_ev o o' -> ev2 (file_create o p) (file_create o' p).
Proof.
  intros o o' p H. unfold file_create.
  pose proof (os_open_ev o o' p H) as [E1 E2].
  pose proof (os_ev_cscr _ _ H (nopen o)) as SC. rewrite (os_ev_nopen _ _ H).
  destruct (os_open o p) as [o1 r], (os_open o' p) as [o1' r']. cbn [fst snd] in *. subst r'.
  destruct r as [fd|].
  - pose proof (log_ev _ _ (ELock fd true) E1) as E3.
    destruct (cscr o (nopen o)) as [| | |e], (cscr o' (nopen o)) as [| | |e']; cbn in SC; try contradiction.
    + unfold ev2; cbn [fst snd]. esplit; auto.
      rewrite (os_ev_fs _ _ (log_ev _ _ (ETrunc fd true) E3)). apply set_fs_ev, log_ev, E3.
    + unfold ev2; cbn [fst snd]. esplit; auto.
      rewrite (os_ev_fs _ _ (log_ev _ _ (ETrunc fd true) E3)). apply set_fs_ev, log_ev, E3.
    + unfold ev2; cbn [fst snd]. esplit; auto. apply bump_fail_ev, os_close_ev, log_ev, E1.
    + (* ftruncate fails with e in one run, with e' in the other: close(fd), return 0, either way *)
      unfold ev2; cbn [fst snd]. esplit; auto. apply bump_fail_ev, os_close_ev, log_ev, E3.
  - unfold ev2; cbn [fst snd]. esplit; auto. apply bump_fail_ev, E1.
Qed.

Lemma file_close_ev : forall o o' fid, os_ev o o' -> os_ev (file_close o fid) (file_close o' fid).
Proof. intros. apply os_close_ev; auto. Qed.

(* file_write: same return value, same OS -- whatever error numbers the failing calls report *)
Lemma file_write_ev : forall o o' fid off buf, os_ev o o' -> ev1 (file_write o fid off buf) (file_write o' fid off buf).
Proof.
  intros o o' fid off buf H. unfold file_write.
  assert (PS : forall s1 s2 f b, os_ev s1 s2 ->
               os_ev (fst (os_pwrite fid s1 f b)) (fst (os_pwrite fid s2 f b)) /\
               snd (os_pwrite fid s1 f b) = snd (os_pwrite fid s2 f b)).
  { intros. apply os_pwrite_ev; auto. }
  destruct (file_write_gen_sim os os (os_pwrite fid) (os_pwrite fid) os_ev PS o o' off buf H) as [E1 E2].
  destruct (file_write_gen os (os_pwrite fid) o off buf) as [o1 b],
           (file_write_gen os (os_pwrite fid) o' off buf) as [o1' b'].
  cbn [fst snd] in *. subst b'. destruct b; unfold ev1; cbn [fst snd]; split; auto. apply bump_fail_ev; auto.
Qed.

Lemma file_is_writable_ev : forall o o' p, os_ev o o' -> ev1 (file_is_writable o p) (file_is_writable o' p).
Proof.
  intros o o' p H. unfold file_is_writable. rewrite (os_ev_fs _ _ H).
  destruct (fs o p); [unfold ev1; cbn [fst snd]; auto|].
  pose proof (os_open_ev o o' p H) as [E1 E2].
  destruct (os_open o p) as [o1 r], (os_open o' p) as [o1' r']. cbn [fst snd] in *. subst r'.
  destruct r as [fd|]; unfold ev1; cbn [fst snd]; split; auto.
  - pose proof (os_close_ev o1 o1' (Some fd) E1) as E3. rewrite (os_ev_fs _ _ E3). apply set_fs_ev; auto.
  - apply bump_fail_ev; auto.
Qed.

Lemma env_open_ev : forall o o', os_ev o o' -> os_ev (env_open o) (env_open o').
Proof. intros o o' H. ev_open H. unfold env_open, fds_of, set_envs, set_tbl, log. ev_done. Qed.

Lemma env_close_ev : forall o o' k, os_ev o o' -> os_ev (env_close o k) (env_close o' k).
Proof.
  intros o o' k H. ev_open H. unfold env_close, set_envs, set_tbl, log.
  cbn [tbl fs cscr wscr nopen nwrite nfail keep envs trace].
  destruct (nth_error xe k); ev_done.
Qed.

(* ------------------------------------------------------------------ raw *)
Lemma raw_set_ev : forall uri d o o', os_ev o o' -> evd (raw_set uri d o) (raw_set uri d o').
Proof.
  intros uri d o o' H. unfold raw_set. pose proof (file_is_writable_ev o o' (strip uri) H) as [E1 E2].
  destruct (file_is_writable o (strip uri)) as [o1 b], (file_is_writable o' (strip uri)) as [o1' b'].
  cbn [fst snd] in *. subst b'. destruct b; unfold evd; cbn [fst snd]; auto.
Qed.

Lemma raw_start_ev : forall v d o o', os_ev o o' -> evd (raw_start v d o) (raw_start v d o').
Proof.
  intros v d o o' H. unfold raw_start. pose proof (file_create_ev o o' (r_uri d) H) as (E1 & E2 & E3).
  destruct (file_create o (r_uri d)) as [[o1 b] f], (file_create o' (r_uri d)) as [[o1' b'] f'].
  cbn [fst snd] in *. subst b' f'. destruct b; unfold evd; cbn [fst snd]; auto.
Qed.

Lemma raw_stop_ev : forall v d o o', os_ev o o' -> evd (raw_stop v d o) (raw_stop v d o').
Proof.
  intros v d o o' H. unfold raw_stop.
  destruct (fix_d4 v); [destruct (r_open d)|]; unfold evd; cbn [fst snd]; esplit; auto;
    apply file_close_ev; auto.
Qed.

Lemma raw_append_ev : forall v pkt d o o', os_ev o o' -> evd (raw_append v pkt d o) (raw_append v pkt d o').
Proof.
  intros v pkt d o o' H. unfold raw_append.
  pose proof (file_write_ev o o' (r_fid d) (r_off d) pkt H) as [E1 E2].
  destruct (file_write o (r_fid d) (r_off d) pkt) as [o1 b], (file_write o' (r_fid d) (r_off d) pkt) as [o1' b'].
  cbn [fst snd] in *. subst b'. destruct b; [unfold evd; cbn [fst snd]; auto|]. apply raw_stop_ev; auto.
Qed.

Lemma raw_destroy_ev : forall v d o o', os_ev o o' -> os_ev (raw_destroy v d o) (raw_destroy v d o').
Proof.
  intros v d o o' H. unfold raw_destroy. pose proof (raw_stop_ev v d o o' H) as (E1 & E2 & E3).
  destruct (raw_stop v d o) as [[d1 o1] s], (raw_stop v d o') as [[d1' o1'] s']. exact E2.
Qed.

(* ------------------------------------------------------------------ tiff *)
Definition Rtb (a b : tiff * os * bool) : Prop := evd a b.
Definition Rtp (a b : tiff * os) : Prop := evp a b.

Lemma t_write_stop_ev : forall fuel v,
  (forall len t o o', os_ev o o' -> evo evd (t_write_ fuel v len t o) (t_write_ fuel v len t o')) /\
  (forall t o o', os_ev o o' -> evo evp (t_stop fuel v t o) (t_stop fuel v t o')).
Proof.
  induction fuel as [|f IH]; intros v; [split; intros; exact I|].
  destruct (IH v) as [IHw IHs]. split.
  - intros len t o o' H. cbn [t_write_].
    pose proof (file_write_ev o o' (t_fid t) 0 (zero_buf len) H) as [E1 E2].
    destruct (file_write o (t_fid t) 0 (zero_buf len)) as [o1 b], (file_write o' (t_fid t) 0 (zero_buf len)) as [o1' b'].
    cbn [fst snd] in *. subst b'. destruct b; [unfold evo, evd; cbn [fst snd]; auto|].
    pose proof (IHs t o1 o1' E1) as E3.
    destruct (t_stop f v t o1) as [[t2 o2]|], (t_stop f v t o1') as [[t2' o2']|]; cbn in E3; try contradiction; auto.
    destruct E3 as [E3 E4]. cbn [fst snd] in *. subst t2'. unfold evo, evd; cbn [fst snd]; auto.
  - intros t o o' H. cbn [t_stop]. destruct (dstate_eqb (t_state t) Running); [|unfold evo, evp; cbn [fst snd]; auto].
    pose proof (IHw sizeof_link (if fix_d5a v then tiff_put_state t Armed else t) o o' H) as E3.
    destruct (t_write_ f v sizeof_link (if fix_d5a v then tiff_put_state t Armed else t) o) as [[[t2 o2] b2]|],
             (t_write_ f v sizeof_link (if fix_d5a v then tiff_put_state t Armed else t) o') as [[[t2' o2'] b2']|];
      cbn in E3; try contradiction; auto.
    destruct E3 as (E3 & E4 & E5). cbn [fst snd] in *. subst t2' b2'.
    unfold evo, evp; cbn [fst snd]; split; auto. apply file_close_ev; auto.
Qed.

Lemma t_write_ev : forall fuel v len t o o', os_ev o o' -> evo evd (t_write_ fuel v len t o) (t_write_ fuel v len t o').
Proof. intros fuel v. apply (t_write_stop_ev fuel v). Qed.
Lemma t_stop_ev : forall fuel v t o o', os_ev o o' -> evo evp (t_stop fuel v t o) (t_stop fuel v t o').
Proof. intros fuel v. apply (t_write_stop_ev fuel v). Qed.

(* use a relation between two outcomes: name the components, discharge the impossible combinations *)
Ltac split_evo E x y :=
  destruct x, y; cbn in E; try contradiction; try exact I.

Lemma tiff_set_ev : forall uri t o o', os_ev o o' -> evd (tiff_set uri t o) (tiff_set uri t o').
Proof.
  intros uri t o o' H. unfold tiff_set. pose proof (file_is_writable_ev o o' (strip uri) H) as [E1 E2].
  destruct (file_is_writable o (strip uri)) as [o1 b], (file_is_writable o' (strip uri)) as [o1' b'].
  cbn [fst snd] in *. subst b'. destruct b; unfold evd; cbn [fst snd]; auto.
Qed.

Lemma tiff_start_ev : forall fuel v t o o', os_ev o o' -> evo evd (tiff_start fuel v t o) (tiff_start fuel v t o').
Proof.
  intros fuel v t o o' H. unfold tiff_start. pose proof (file_create_ev o o' (t_fname t) H) as (E1 & E2 & E3).
  destruct (file_create o (t_fname t)) as [[o1 b] f], (file_create o' (t_fname t)) as [[o1' b'] f'].
  cbn [fst snd] in *. subst b' f'. destruct b; [|unfold evo, evd; cbn [fst snd]; auto].
  pose proof (t_write_ev fuel v sizeof_header (mkTiff (t_state t) (t_fname t) f 0) o1 o1' E1) as E4.
  destruct (t_write_ fuel v sizeof_header (mkTiff (t_state t) (t_fname t) f 0) o1) as [[[t2 o2] ok]|],
           (t_write_ fuel v sizeof_header (mkTiff (t_state t) (t_fname t) f 0) o1') as [[[t2' o2'] ok']|];
    cbn in E4; try contradiction; auto.
  destruct E4 as (E4 & E5 & E6). cbn [fst snd] in *. subst t2' ok'.
  destruct (fix_d5b v && negb ok); unfold evo, evd; cbn [fst snd]; esplit; auto. apply file_close_ev; auto.
Qed.

Lemma tiff_stop_ev : forall fuel v t o o', os_ev o o' -> evo evd (tiff_stop fuel v t o) (tiff_stop fuel v t o').
Proof.
  intros fuel v t o o' H. unfold tiff_stop. pose proof (t_stop_ev fuel v t o o' H) as E.
  destruct (t_stop fuel v t o) as [[t1 o1]|], (t_stop fuel v t o') as [[t1' o1']|]; cbn in E; try contradiction; auto.
  destruct E as [E1 E2]. cbn [fst snd] in *. subst t1'. unfold evo, evd; cbn [fst snd]; auto.
Qed.

Lemma t_append_ev : forall fuel v frames t o o', os_ev o o' ->
  evo evd (t_append fuel v frames t o) (t_append fuel v frames t o').
Proof.
  intros fuel v frames. induction frames as [|[ldata [lfirst lother]] rest IH]; intros t o o' H.
  - unfold evo, evd; cbn; auto.
  - cbn [t_append].
    pose proof (t_write_ev fuel v sizeof_ifd t o o' H) as E.
    destruct (t_write_ fuel v sizeof_ifd t o) as [[[t1 o1] ok1]|], (t_write_ fuel v sizeof_ifd t o') as [[[t1' o1'] ok1']|];
      cbn in E; try contradiction; auto.
    destruct E as (Ea & Eb & Ec). cbn [fst snd] in *. subst t1' ok1'.
    destruct (fix_d5b v && negb ok1); [unfold evo, evd; cbn [fst snd]; auto|].
    pose proof (t_write_ev fuel v ldata t1 o1 o1' Eb) as E.
    destruct (t_write_ fuel v ldata t1 o1) as [[[t2 o2] ok2]|], (t_write_ fuel v ldata t1 o1') as [[[t2' o2'] ok2']|];
      cbn in E; try contradiction; auto.
    destruct E as (Ea2 & Eb2 & Ec2). cbn [fst snd] in *. subst t2' ok2'.
    destruct (fix_d5b v && negb ok2); [unfold evo, evd; cbn [fst snd]; auto|].
    set (lstr := if t_fc t =? 0 then lfirst else lother).
    pose proof (t_write_ev fuel v lstr t2 o2 o2' Eb2) as E.
    destruct (t_write_ fuel v lstr t2 o2) as [[[t3 o3] ok3]|], (t_write_ fuel v lstr t2 o2') as [[[t3' o3'] ok3']|];
      cbn in E; try contradiction; auto.
    destruct E as (Ea3 & Eb3 & Ec3). cbn [fst snd] in *. subst t3' ok3'.
    destruct (fix_d5b v && negb ok3); [unfold evo, evd; cbn [fst snd]; auto|].
    apply IH; auto.
Qed.

Lemma tiff_append_ev : forall fuel v frames t o o', os_ev o o' ->
  evo evd (tiff_append fuel v frames t o) (tiff_append fuel v frames t o').
Proof.
  intros fuel v frames t o o' H. unfold tiff_append. pose proof (t_append_ev fuel v frames t o o' H) as E.
  destruct (t_append fuel v frames t o) as [[[t1 o1] ok]|], (t_append fuel v frames t o') as [[[t1' o1'] ok']|];
    cbn in E; try contradiction; auto.
  destruct E as (Ea & Eb & Ec). cbn [fst snd] in *. subst t1' ok'.
  destruct ok; [unfold evo, evd; cbn [fst snd]; auto|]. apply tiff_stop_ev; auto.
Qed.

Lemma tiff_destroy_ev : forall fuel v t o o', os_ev o o' -> evo os_ev (tiff_destroy fuel v t o) (tiff_destroy fuel v t o').
Proof.
  intros fuel v t o o' H. unfold tiff_destroy. pose proof (t_stop_ev fuel v t o o' H) as E.
  destruct (t_stop fuel v t o) as [[t1 o1]|], (t_stop fuel v t o') as [[t1' o1']|]; cbn in E; try contradiction; auto.
  destruct E as [E1 E2]. cbn [fst snd] in *. subst t1'.
  pose proof (t_stop_ev fuel v t1 o1 o1' E2) as E.
  destruct (t_stop fuel v t1 o1) as [[t2 o2]|], (t_stop fuel v t1 o1') as [[t2' o2']|]; cbn in E; try contradiction; auto.
  destruct E as [E3 E4]. exact E4.
Qed.

(* ------------------------------------------------------------------ tiff-json *)
Lemma sbs_set_ev : forall uri meta s o o', os_ev o o' -> evd (sbs_set uri meta s o) (sbs_set uri meta s o').
Proof. intros. unfold sbs_set. destruct (meta <? 2); unfold evd; cbn [fst snd]; auto. Qed.

Lemma sbs_start_ev : forall fuel v s o o', os_ev o o' -> evo evd (sbs_start fuel v s o) (sbs_start fuel v s o').
Proof.
  intros fuel v s o o' H. unfold sbs_start. destruct (s_uri s) as [|a u]; [unfold evo, evd; cbn [fst snd]; auto|].
  set (p := (String a u ++ "/metadata.json")%string).
  pose proof (file_create_ev o o' p H) as (E1 & E2 & E3).
  destruct (file_create o p) as [[o1 b] fid], (file_create o' p) as [[o1' b'] fid'].
  cbn [fst snd] in *. subst b' fid'. destruct b; [|unfold evo, evd; cbn [fst snd]; auto].
  pose proof (file_write_ev o1 o1' fid 0 (zero_buf (s_meta s)) E1) as [E4 E5].
  destruct (file_write o1 fid 0 (zero_buf (s_meta s))) as [o2 ok], (file_write o1' fid 0 (zero_buf (s_meta s))) as [o2' ok'].
  cbn [fst snd] in *. subst ok'.
  pose proof (file_close_ev o2 o2' fid E4) as E6.
  destruct (negb ok); [unfold evo, evd; cbn [fst snd]; auto|].
  set (q := (String a u ++ "/data.tif")%string).
  pose proof (tiff_set_ev q (s_tiff s) _ _ E6) as (E7 & E8 & E9).
  destruct (tiff_set q (s_tiff s) (file_close o2 fid)) as [[t1 o4] st1],
           (tiff_set q (s_tiff s) (file_close o2' fid)) as [[t1' o4'] st1'].
  cbn [fst snd] in *. subst t1' st1'.
  destruct (negb (dstate_eqb st1 Armed)); [unfold evo, evd; cbn [fst snd]; auto|].
  set (t1x := if fix_d6 v then tiff_put_state t1 st1 else t1).
  pose proof (tiff_start_ev fuel v t1x o4 o4' E8) as E.
  destruct (tiff_start fuel v t1x o4) as [[[t2 o5] st2]|], (tiff_start fuel v t1x o4') as [[[t2' o5'] st2']|];
    cbn in E; try contradiction; auto.
  destruct E as (Ea & Eb & Ec). cbn [fst snd] in *. subst t2' st2'. unfold evo, evd; cbn [fst snd]; auto.
Qed.

Lemma sbs_stop_ev : forall fuel v s o o', os_ev o o' -> evo evd (sbs_stop fuel v s o) (sbs_stop fuel v s o').
Proof.
  intros fuel v s o o' H. unfold sbs_stop. pose proof (tiff_stop_ev fuel v (s_tiff s) o o' H) as E.
  destruct (tiff_stop fuel v (s_tiff s) o) as [[[t1 o1] st]|], (tiff_stop fuel v (s_tiff s) o') as [[[t1' o1'] st']|];
    cbn in E; try contradiction; auto.
  destruct E as (Ea & Eb & Ec). cbn [fst snd] in *. subst t1' st'. unfold evo, evd; cbn [fst snd]; auto.
Qed.

Lemma sbs_append_ev : forall fuel v frames s o o', os_ev o o' ->
  evo evd (sbs_append fuel v frames s o) (sbs_append fuel v frames s o').
Proof.
  intros fuel v frames s o o' H. unfold sbs_append. pose proof (tiff_append_ev fuel v frames (s_tiff s) o o' H) as E.
  destruct (tiff_append fuel v frames (s_tiff s) o) as [[[t1 o1] st]|],
           (tiff_append fuel v frames (s_tiff s) o') as [[[t1' o1'] st']|]; cbn in E; try contradiction; auto.
  destruct E as (Ea & Eb & Ec). cbn [fst snd] in *. subst t1' st'.
  destruct (dstate_eqb st Running); [unfold evo, evd; cbn [fst snd]; auto|]. apply sbs_stop_ev; auto.
Qed.

Lemma sbs_destroy_ev : forall fuel v s o o', os_ev o o' -> evo os_ev (sbs_destroy fuel v s o) (sbs_destroy fuel v s o').
Proof.
  intros fuel v s o o' H. unfold sbs_destroy. pose proof (sbs_stop_ev fuel v s o o' H) as E.
  destruct (sbs_stop fuel v s o) as [[[s1 o1] st]|], (sbs_stop fuel v s o') as [[[s1' o1'] st']|];
    cbn in E; try contradiction; auto.
  destruct E as (Ea & Eb & Ec). cbn [fst snd] in *. subst s1' st'. apply tiff_destroy_ev; auto.
Qed.

(* ------------------------------------------------------------------ the HAL *)
Ltac lift_evd L :=
  let E := fresh "E" in
  pose proof L as E;
  match type of E with
  | evd ?x ?y => destruct x as [[? ?] ?], y as [[? ?] ?]; destruct E as (? & ? & ?); cbn [fst snd] in *; subst;
                 unfold evo, evd; cbn [fst snd]; auto
  | evo evd ?x ?y => destruct x as [[[? ?] ?]|], y as [[[? ?] ?]|]; cbn in E; try contradiction; auto;
                     destruct E as (? & ? & ?); cbn [fst snd] in *; subst; unfold evo, evd; cbn [fst snd]; auto
  end.

Lemma dev_set_ev : forall uri meta d o o', os_ev o o' -> evd (dev_set uri meta d o) (dev_set uri meta d o').
Proof.
  intros uri meta d o o' H. destruct d as [r|t|s|st]; cbn [dev_set].
  - lift_evd (raw_set_ev uri r o o' H).
  - lift_evd (tiff_set_ev uri t o o' H).
  - lift_evd (sbs_set_ev uri meta s o o' H).
  - unfold evd; cbn [fst snd]; auto.
Qed.

Lemma dev_start_ev : forall fuel v d o o', os_ev o o' -> evo evd (dev_start fuel v d o) (dev_start fuel v d o').
Proof.
  intros fuel v d o o' H. destruct d as [r|t|s|st]; cbn [dev_start].
  - lift_evd (raw_start_ev v r o o' H).
  - lift_evd (tiff_start_ev fuel v t o o' H).
  - lift_evd (sbs_start_ev fuel v s o o' H).
  - unfold evo, evd; cbn [fst snd]; auto.
Qed.

Lemma dev_append_ev : forall fuel v p d o o', os_ev o o' -> evo evd (dev_append fuel v p d o) (dev_append fuel v p d o').
Proof.
  intros fuel v p d o o' H. destruct d as [r|t|s|st]; cbn [dev_append].
  - lift_evd (raw_append_ev v (p_bytes p) r o o' H).
  - lift_evd (tiff_append_ev fuel v (p_frames p) t o o' H).
  - lift_evd (sbs_append_ev fuel v (p_frames p) s o o' H).
  - unfold evo, evd; cbn [fst snd]; auto.
Qed.

Lemma dev_stop_ev : forall fuel v d o o', os_ev o o' -> evo evd (dev_stop fuel v d o) (dev_stop fuel v d o').
Proof.
  intros fuel v d o o' H. destruct d as [r|t|s|st]; cbn [dev_stop].
  - lift_evd (raw_stop_ev v r o o' H).
  - lift_evd (tiff_stop_ev fuel v t o o' H).
  - lift_evd (sbs_stop_ev fuel v s o o' H).
  - unfold evo, evd; cbn [fst snd]; auto.
Qed.

Lemma dev_destroy_ev : forall fuel v d o o', os_ev o o' -> evo os_ev (dev_destroy fuel v d o) (dev_destroy fuel v d o').
Proof.
  intros fuel v d o o' H. destruct d as [r|t|s|st]; cbn [dev_destroy].
  - cbn. apply raw_destroy_ev; auto.
  - apply tiff_destroy_ev; auto.
  - apply sbs_destroy_ev; auto.
  - cbn. auto.
Qed.

Lemma hal_set_ev : forall uri meta d o o', os_ev o o' -> evd (hal_set uri meta d o) (hal_set uri meta d o').
Proof. intros uri meta d o o' H. unfold hal_set. lift_evd (dev_set_ev uri meta d o o' H). Qed.

Lemma hal_start_ev : forall fuel v d o o', os_ev o o' -> evo evd (hal_start fuel v d o) (hal_start fuel v d o').
Proof.
  intros fuel v d o o' H. unfold hal_start. destruct (dstate_eqb (get_state d) Armed); [|unfold evo, evd; cbn [fst snd]; auto].
  lift_evd (dev_start_ev fuel v d o o' H).
Qed.

Lemma hal_append_ev : forall fuel v p d o o', os_ev o o' -> evo evd (hal_append fuel v p d o) (hal_append fuel v p d o').
Proof.
  intros fuel v p d o o' H. unfold hal_append.
  destruct (dstate_eqb (get_state d) Running); [|unfold evo, evd; cbn [fst snd]; auto].
  destruct (p_bytes p); [unfold evo, evd; cbn [fst snd]; auto|].
  lift_evd (dev_append_ev fuel v p d o o' H).
Qed.

Lemma hal_stop_ev : forall fuel v d o o', os_ev o o' -> evo evd (hal_stop fuel v d o) (hal_stop fuel v d o').
Proof.
  intros fuel v d o o' H. unfold hal_stop. destruct (dstate_eqb (get_state d) Running); [|unfold evo, evd; cbn [fst snd]; auto].
  lift_evd (dev_stop_ev fuel v d o o' H).
Qed.

Lemma hal_close_ev : forall fuel v d o o', os_ev o o' -> evo os_ev (hal_close fuel v d o) (hal_close fuel v d o').
Proof.
  intros fuel v d o o' H. unfold hal_close. pose proof (hal_stop_ev fuel v d o o' H) as E.
  destruct (hal_stop fuel v d o) as [[[d1 o1] st]|], (hal_stop fuel v d o') as [[[d1' o1'] st']|];
    cbn in E; try contradiction; auto.
  destruct E as (Ea & Eb & Ec). cbn [fst snd] in *. subst d1' st'. apply dev_destroy_ev; auto.
Qed.

Lemma step_ev : forall fuel v x d o o', os_ev o o' -> evo evd (step fuel v x d o) (step fuel v x d o').
Proof.
  intros fuel v x d o o' H. destruct x; cbn [step].
  - cbn. apply hal_set_ev; auto.
  - apply hal_start_ev; auto.
  - apply hal_append_ev; auto.
  - apply hal_stop_ev; auto.
  - unfold evo, evd; cbn [fst snd]. esplit; auto. apply env_open_ev; auto.
  - unfold evo, evd; cbn [fst snd]. esplit; auto. apply env_close_ev; auto.
Qed.

Lemma run_ev : forall fuel v h d o o', os_ev o o' -> evo evp (run fuel v h d o) (run fuel v h d o').
Proof.
  intros fuel v h. induction h as [|x h IH]; intros d o o' H; cbn [run].
  - unfold evo, evp; cbn [fst snd]; auto.
  - pose proof (step_ev fuel v x d o o' H) as E.
    destruct (step fuel v x d o) as [[[d1 o1] st]|], (step fuel v x d o') as [[[d1' o1'] st']|];
      cbn in E; try contradiction; auto.
    destruct E as (Ea & Eb & Ec). cbn [fst snd] in *. subst d1' st'.
    pose proof (IH d1 o1 o1' Eb) as E.
    destruct (run fuel v h d1 o1) as [[[rs d2] o2]|], (run fuel v h d1 o1') as [[[rs' d2'] o2']|];
      cbn in E; try contradiction; auto.
    destruct E as (Ea2 & Eb2). cbn [fst snd] in *. inversion Ea2; subst.
    unfold evo, evp; cbn [fst snd]; auto.
Qed.

Lemma life_ev : forall fuel v k h o o', os_ev o o' -> evo evp (life fuel v k h o) (life fuel v k h o').
Proof.
  intros fuel v k h o o' H. unfold life. pose proof (run_ev fuel v h (dev_init k) o o' H) as E.
  destruct (run fuel v h (dev_init k) o) as [[[rs d1] o1]|], (run fuel v h (dev_init k) o') as [[[rs' d1'] o1']|];
    cbn in E; try contradiction; auto.
  destruct E as (Ea & Eb). cbn [fst snd] in *. inversion Ea; subst.
  pose proof (hal_close_ev fuel v d1' o1 o1' Eb) as E.
  destruct (hal_close fuel v d1' o1) as [o2|], (hal_close fuel v d1' o1') as [o2'|]; cbn in E; try contradiction; auto.
  unfold evo, evp; cbn [fst snd]; auto.
Qed.

(* ------------------------------------------------------------------ the statements (Properties_C16.v) *)
(* file_write over the OS model *)
Lemma file_write_errno_irrelevant : forall o o' fid off buf, os_ev o o' ->
  snd (file_write o fid off buf) = snd (file_write o' fid off buf) /\
  os_ev (fst (file_write o fid off buf)) (fst (file_write o' fid off buf)).
Proof. intros. destruct (file_write_ev o o' fid off buf H). auto. Qed.

(* file_create over the OS model: same return value, same number left in file->fid, same OS -- whatever error number
   the failing ftruncate reports *)
Lemma file_create_errno_irrelevant : forall o o' p, os_ev o o' ->
  snd (fst (file_create o p)) = snd (fst (file_create o' p)) /\
  snd (file_create o p) = snd (file_create o' p) /\
  os_ev (fst (fst (file_create o p))) (fst (fst (file_create o' p))).
Proof. intros. destruct (file_create_ev o o' p H) as (A & B & C). auto. Qed.

(* whole lives, in plain terms *)
Lemma life_errno_irrelevant : forall fuel v k h env_fds cs cs' ws ws', cerrno_variant cs cs' -> errno_variant ws ws' ->
  match life fuel v k h (os_init env_fds cs ws), life fuel v k h (os_init env_fds cs' ws') with
  | Ret (rs, o1), Ret (rs', o1') =>
      rs = rs' /\ trace o1 = trace o1' /\ tbl o1 = tbl o1' /\ fs o1 = fs o1' /\ nfail o1 = nfail o1'
  | Diverges, Diverges => True
  | _, _ => False
  end.
Proof.
  intros fuel v k h env_fds cs cs' ws ws' VC V.
  pose proof (life_ev fuel v k h _ _ (os_ev_init env_fds cs cs' ws ws' VC V)) as E.
  destruct (life fuel v k h (os_init env_fds cs ws)) as [[rs o1]|], (life fuel v k h (os_init env_fds cs' ws')) as [[rs' o1']|];
    cbn in E; try contradiction; auto.
  destruct E as [E1 E2]. cbn [fst snd] in *. destruct E2 as (T & F & _ & _ & _ & _ & NF & _ & _ & TR).
  esplit; auto.
Qed.
