(* Spec.v -- vocabulary of the statements in Properties_C14.v / Properties_C16.v.  DEFINITIONS ONLY. *)
From Coq Require Import String.
From Coq Require Import List Arith NArith Bool.
From FileIO Require Import Pwrite FdTable Raw TiffFail SideBySide Hal.
Import ListNotations.

(* ---- C14: acquisitions (set / start / append* / stop cycles) on one raw device ---- *)
Record cycle := mkCycle {
  c_uri : string;                 (* the uri handed to set: "p" or "file://p" *)
  c_pkts : list (list byte)       (* the packets handed to append, in order (any grouping of frames into packets) *)
}.
Definition c_path (c : cycle) : string := strip (c_uri c).
Definition c_bytes (c : cycle) : list byte := concat (c_pkts c).

Definition cycle_ops (c : cycle) : list op :=
  OSet (c_uri c) 0 :: OStart :: map (fun b => OAppend (mkPkt b [])) (c_pkts c) ++ [OStop].
Definition history (cs : list cycle) : list op := flat_map cycle_ops cs.

(* every HAL call of the history answered Device_Ok *)
Definition all_ok (rs : list (bool * status * dstate)) : Prop := Forall (fun r => snd (fst r) = Ok) rs.

(* ---- C16: descriptors over the system-call log ---- *)
(* at the end of log [t] the device holds descriptor number [fd]: it has opened it once more often than closed it *)
Definition held (fd : nat) (t : list event) : Prop :=
  count_ev (opens_of fd) t = S (count_ev (closes_of fd) t).
