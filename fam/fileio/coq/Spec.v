(* Spec.v -- vocabulary of the statements in Properties_C14.v / Properties_C16.v.  DEFINITIONS ONLY. *)
From Coq Require Import String.
From Coq Require Import List Arith NArith Bool.
From FileIO Require Import Pwrite FdTable Raw TiffFail SideBySide Hal.
Import ListNotations.
Local Open Scope nat_scope.
Local Open Scope list_scope.

(* ---- C14: acquisitions (set / start / append* / stop cycles) on one raw device ---- *)
Record cycle := mkCycle {
  c_uri : string;                 (* the uri handed to set: "p" or "file://p" *)
  c_pkts : list (list byte)       (* the packets handed to append, in order (any grouping of frames into packets) *)
}.
Definition c_path (c : cycle) : string := strip (c_uri c).
Definition c_bytes (c : cycle) : list byte := concat (c_pkts c).

Definition cycle_ops (c : cycle) : list op :=
  OSet (c_uri c) 0 :: OStart :: map (fun b => OAppend (mkPkt b [])) (c_pkts c) ++ [OStop].
Definition history (cs : list cycle) : list op := flat_map cycle_ops cs.

(* every HAL call of the history answered Device_Ok *)
Definition all_ok (rs : list (bool * status * dstate)) : Prop := Forall (fun r => snd (fst r) = Ok) rs.

(* the write script [ws], from its index [k] on, serves the packets [pkts] one after the other: each packet meets some
   pattern [pat] of counts -- no error, all bytes delivered, fewer than three zero-length results, not ENDING in a
   zero-length result (the loop stops once the buffer is exhausted, so a trailing zero would belong to the next
   packet) -- and the next packet starts where this one's calls end *)
Fixpoint admissible (ws : nat -> wresp) (k : nat) (pkts : list (list byte)) : Prop :=
  match pkts with
  | [] => True
  | b :: rest =>
    exists pat, delivers ws k (length b) pat /\ list_sum pat = length b /\ zeros pat < 3 /\ last pat 1 <> 0 /\
                admissible ws (k + length pat) rest
  end.

(* ---- C16: descriptors over the system-call log ---- *)
(* at the end of log [t] the device holds descriptor number [fd]: it has opened it once more often than closed it *)
Definition held (fd : nat) (t : list event) : Prop :=
  count_ev (opens_of fd) t = S (count_ev (closes_of fd) t).

(* ---- C16: the error number of a failing pwrite / ftruncate ----
   [o] and [o'] are the same operating-system state (descriptor table, files, counters, log) under two write scripts
   that fail the same pwrite calls -- transiently or persistently -- and two create scripts that fail the same
   open / flock / ftruncate calls, with possibly different error numbers
   (Pwrite.errno_variant, FdTable.cerrno_variant: EIO / ENOSPC / EAGAIN / EINTR / EBADF / EINVAL) *)
Definition os_ev (o o' : os) : Prop :=
  tbl o' = tbl o /\ fs o' = fs o /\ cerrno_variant (cscr o) (cscr o') /\ errno_variant (wscr o) (wscr o') /\
  nopen o' = nopen o /\ nwrite o' = nwrite o /\ nfail o' = nfail o /\ keep o' = keep o /\ envs o' = envs o /\
  trace o' = trace o.

