/* Stub platform.h for the sequential filter harness (placed first on the include path; extends
   fam/ring/harness/stubplat).  channel.c, frame_iterator.c, throttler.c, components.c and filter.c are
   compiled unmodified from the working tree of the repository under test against these declarations;
   the definitions live in h_filter.c:
     - locks are counted (a lock taken twice / released twice is reported),
     - condition_variable_wait is the point at which "the other thread" runs: the harness drains the
       sink's ring there (it plays the sink) or reports that the source would block,
     - clock_sleep_ms (called by throttler_wait once per loop iteration of video_filter_thread) is the
       point at which the scripted source writes its next packet / raises the stop flag,
     - events and threads are trivial (thread_create is never reached: the harness calls the thread
       function directly). */
#ifndef H_ACQUIRE_PLATFORM_V0
#define H_ACQUIRE_PLATFORM_V0
#include <stdint.h>
#include <stddef.h>
#include <string.h>
#include <stdarg.h>
#ifdef __cplusplus
extern "C" {
#endif
struct lock { int depth; };
struct condition_variable { int notified; };
struct event { int state; int notified; };
struct thread { int is_live; };
enum AllocatorHint { AllocatorHint_Default, AllocatorHint_LargePage };
struct clock { uint64_t origin; };
struct file { int fid; };
struct lib { void* inner; };
void lock_init(struct lock* self);
void lock_acquire(struct lock* self);
void lock_release(struct lock* self);
void condition_variable_init(struct condition_variable* self);
void condition_variable_wait(struct condition_variable* self, struct lock* lock);
void condition_variable_notify_all(struct condition_variable* self);
void* memory_alloc(size_t capacity_bytes, enum AllocatorHint hint);
void memory_free(void* address);
void clock_init(struct clock* clock);
void clock_shift_ms(struct clock* clock, double ms);
uint64_t clock_tic(struct clock* clock);
int64_t clock_toc(struct clock* clock);
double clock_toc_ms(struct clock* clock);
int8_t clock_cmp_now(struct clock* clock);
int8_t clock_cmp(struct clock* clock, uint64_t timestamp);
void clock_sleep_ms(struct clock* clock, float delay_ms);
void event_init(struct event* self);
void event_destroy(struct event* self);
void event_set(struct event* self);
void event_wait(struct event* self);
void event_notify_all(struct event* self);
void thread_init(struct thread* self);
uint8_t thread_create(struct thread* self, void (*proc)(void*), void* args);
void thread_join(struct thread* self);
#ifdef __cplusplus
}
#endif
#endif
