/* h_filter.c -- sequential driver for the real filter.c (DESIGN 3(a), 6.10; property C10).

   The real video_filter_thread / process_data / accumulate / normalize are reached with
   #include "filter.c"; channel.c, frame_iterator.c, throttler.c and components.c are compiled unmodified
   from the working tree of the repository under test against harness/stubplat/platform.h.

   A case is a HISTORY OF ONE struct video_filter_s: video_filter_init once, then one or more acquisitions,
   each performed the way acquire.c does it, through the public functions only:
       video_filter_configure(k)            (acquire_configure)
       video_filter_start                   (acquire_start; the stub thread_create runs the thread function
                                             it is handed -- the real video_filter_thread -- to completion)
       the source writes its packets, raises is_stopping with the last one   (source.c, sig_source_stop_filter)
       thread joined, the sink drains everything                             (acquire_stop)
   on the SAME filter instance and the SAME two rings (never re-initialised: from the second acquisition on the
   rings hold the previous acquisitions' frames).  With k <= 1 the source bypasses the filter as source.c does
   (enable_filter = frame_average_count > 1): its frames go straight into the sink's ring (printed as B lines)
   and the filter thread runs on an empty input.  Nothing here depends on the parameter list of process_data
   or on where filter.c keeps its averaging state.

   The harness plays the two neighbours of the filter on one thread:
     - the SOURCE: right after thread_create (before the thread's first read) and then at every clock_sleep_ms
       (= throttler_wait, once per iteration of the thread's loop) it writes the next scripted packet of
       frames into filter.in exactly as source.c does (write_map of the 8-byte aligned size, header, pixels,
       write_unmap) and raises is_stopping with the last packet of the acquisition;
     - the SINK: it is a registered reader of the output ring and drains it whenever the filter would block
       in channel_write_map (condition_variable_wait) and before every read of the filter.
   Both rings are small and PRE-FILLED WITH A NON-ZERO BYTE after channel_new, so the accumulator always
   lands on dirty memory, and laps of both rings are crossed all the time.

   Input (one case):
     new <k> <incap> <outcap> <prefill byte, hex>
     f <type> <channels> <width> <height> <planes> <frame_id> <pixel bytes, hex | ->   source writes a frame
     r                                                                               raise sig_accumulator_reset
     p                                                                               packet boundary
     acq <k>                         end of this acquisition (stop, join, drain); configure(k), start the next one
     end
   Output:
     NEW ...
     A <i> k=<k>                     acquisition i begins (configure, start)
     B bytes=.. id=.. ...            a frame the source wrote straight into the sink's ring (k <= 1), as drained
     S <n> reset=<0|1> ids=<..>      what one channel_read_map of process_data returned (interposed by macro)
     O bytes=.. id=.. type=.. dims=.. strides=.. px=<hex words>   # hw=.. ts=..      a frame drained from the sink ring
     T ecode=<rc> running=<..> stopping=<..> lockerr=<..>          video_filter_thread returned (printed after the
                                                                  frames committed by its last call and by Finalize)
     L <n> ids=<..>                                               input frames still unread in filter.in afterwards
                                                                  (drained by the harness before the next acquisition)
     A <i+1> k=<k'> ...
     END
*/
#include <setjmp.h>
#include <stdio.h>
#include <stdlib.h>
#include <string.h>
#include "channel.h"
#include "device/props/components.h"

static struct slice h_read_map(struct channel* self, struct channel_reader* reader);
#define channel_read_map h_read_map
#include "filter.c"
#undef channel_read_map

/* ------------------------------------------------------------------ script */
struct op { int kind; /* 0 frame, 1 reset */ int type; uint32_t dims[4]; uint64_t id; unsigned char* data; size_t ndata; };
static struct op* ops = 0;
static size_t nops = 0, capops = 0;
static size_t* step_beg = 0; /* index of the first op of each step; nsteps+1 entries */
static size_t nsteps = 0, capsteps = 0;
static size_t cur_step = 0, step_end = 0; /* the running acquisition performs steps [cur_step, step_end) */
static size_t* acq_beg = 0;               /* index of the first step of each acquisition; nacq+1 entries */
static unsigned* acq_k = 0;
static size_t nacq = 0, capacq = 0;

static struct video_filter_s flt;
static struct channel out;
static struct channel_reader sink_reader;
static int g_lock_err = 0, g_events = 0, g_stuck = 0, g_active = 0;
static int g_in_thread = 0, g_thread_ran = 0, g_rc = 0, g_bypass = 0;
static char g_tag = 'O';
static void exec_step(size_t j);
static jmp_buf g_case_abort;

/* ------------------------------------------------------------------ platform stubs */
void lock_init(struct lock* self) { self->depth = 0; }
void lock_acquire(struct lock* self) { if (self->depth != 0) g_lock_err = 1; self->depth++; }
void lock_release(struct lock* self) { if (self->depth != 1) g_lock_err = 1; self->depth--; }
void condition_variable_init(struct condition_variable* self) { self->notified = 0; }
void condition_variable_notify_all(struct condition_variable* self) { self->notified++; }
void* memory_alloc(size_t n, enum AllocatorHint hint) { return malloc(n ? n : 1); }
void memory_free(void* p) { free(p); }
void clock_init(struct clock* c) { c->origin = 0; }
void clock_shift_ms(struct clock* c, double ms) { (void)c; (void)ms; }
uint64_t clock_tic(struct clock* c) { (void)c; return 0; }
int64_t clock_toc(struct clock* c) { (void)c; return 0; }
double clock_toc_ms(struct clock* c) { (void)c; return 0; }
int8_t clock_cmp_now(struct clock* c) { (void)c; return 0; }
int8_t clock_cmp(struct clock* c, uint64_t t) { (void)c; (void)t; return 0; }
void event_init(struct event* e) { e->state = 0; e->notified = 0; }
void event_destroy(struct event* e) { (void)e; }
void event_set(struct event* e) { e->state = 1; }
void event_wait(struct event* e) { (void)e; }
void event_notify_all(struct event* e) { e->notified++; g_events++; }
void thread_init(struct thread* t) { t->is_live = 0; }
/* the filter thread "is scheduled": the source has written its first packet; the thread function handed over by
   video_filter_start runs to completion (the source's later packets arrive at the thread's throttler_wait) */
uint8_t thread_create(struct thread* t, void (*proc)(void*), void* args)
{
    (void)t;
    if (!g_active || !proc) return 1;
    exec_step(cur_step);
    if (cur_step + 1 >= step_end) ((struct video_filter_s*)args)->is_stopping = 1;
    g_thread_ran = 1;
    g_in_thread = 1;
    if (proc == (void (*)(void*))video_filter_thread) {
        g_rc = video_filter_thread((struct video_filter_s*)args);
    } else {
        proc(args);
        g_rc = 0;
    }
    g_in_thread = 0;
    return 1;
}
void thread_join(struct thread* t) { (void)t; }
void aq_logger(int is_error, const char* file, int line, const char* function, const char* fmt, ...)
{
    (void)is_error; (void)file; (void)line; (void)function; (void)fmt;
}

/* ------------------------------------------------------------------ the sink */
static void print_frame(const struct VideoFrame* f, size_t avail)
{
    printf("%c bytes=%zu id=%llu type=%d dims=%u,%u,%u,%u strides=%lld,%lld,%lld,%lld px=",
           g_tag, f->bytes_of_frame, (unsigned long long)f->frame_id, (int)f->shape.type,
           f->shape.dims.channels, f->shape.dims.width, f->shape.dims.height, f->shape.dims.planes,
           (long long)f->shape.strides.channels, (long long)f->shape.strides.width,
           (long long)f->shape.strides.height, (long long)f->shape.strides.planes);
    size_t npx = (size_t)f->shape.strides.planes;
    if (f->shape.type != SampleType_f32 || f->bytes_of_frame > avail ||
        sizeof(struct VideoFrame) + 4 * npx > f->bytes_of_frame) {
        printf("?");
    } else {
        for (size_t i = 0; i < npx; ++i) {
            uint32_t w;
            memcpy(&w, f->data + 4 * i, 4);
            printf("%s%08x", i ? "," : "", w);
        }
        if (!npx) printf("-");
    }
    printf(" # hw=%llu ts=%llu,%llu\n", (unsigned long long)f->hardware_frame_id,
           (unsigned long long)f->timestamps.hardware, (unsigned long long)f->timestamps.acq_thread);
}

static size_t drain_out(void)
{
    size_t total = 0;
    for (int guard = 0; guard < 1000; ++guard) {
        struct slice s = channel_read_map(&out, &sink_reader);
        size_t n = (size_t)(s.end - s.beg);
        if (!s.beg || !n) break;
        uint8_t* p = s.beg;
        while (p < s.end) {
            const struct VideoFrame* f = (const struct VideoFrame*)p;
            size_t avail = (size_t)(s.end - p);
            if (avail < sizeof(struct VideoFrame) || f->bytes_of_frame < sizeof(struct VideoFrame) || f->bytes_of_frame > avail) {
                printf("O malformed avail=%zu bytes=%zu\n", avail, avail >= 8 ? f->bytes_of_frame : 0);
                break;
            }
            print_frame(f, avail);
            p += f->bytes_of_frame;
        }
        channel_read_unmap(&out, &sink_reader, n);
        total += n;
    }
    return total;
}

void condition_variable_wait(struct condition_variable* self, struct lock* lock)
{
    if (lock->depth != 1) g_lock_err = 1;
    if (g_active && self == &out.notify_space_available) {
        /* the filter waits for room in the sink's ring: let the sink run */
        lock->depth = 0;
        size_t n = drain_out();
        if (lock->depth != 0) g_lock_err = 1;
        lock->depth = 1;
        if (n == 0 && ++g_stuck > 2) {
            printf("FATAL OUTSTUCK\n");
            fflush(stdout);
            exit(3);
        }
        if (n) g_stuck = 0;
        return;
    }
    /* the source would block on filter.in: the script asks for more than the ring can hold */
    lock->depth = 0;
    printf("INFULL\n");
    longjmp(g_case_abort, 1);
}

/* ------------------------------------------------------------------ the filter's read side (interposed) */
static struct slice h_read_map(struct channel* self, struct channel_reader* reader)
{
    if (!g_in_thread) return channel_read_map(self, reader); /* video_filter_start registering the reader */
    drain_out(); /* everything the previous call committed is printed before this call's S line */
    int reset = flt.sig_accumulator_reset != 0;
    struct slice s = channel_read_map(self, reader);
    size_t n = 0;
    uint8_t* p = s.beg;
    char buf[64];
    /* count first */
    while (p && p < s.end) { n++; p += ((struct VideoFrame*)p)->bytes_of_frame; }
    printf("S %zu reset=%d ids=", n, reset);
    p = s.beg;
    int first = 1;
    while (p && p < s.end) {
        snprintf(buf, sizeof buf, "%s%llu", first ? "" : ",", (unsigned long long)((struct VideoFrame*)p)->frame_id);
        fputs(buf, stdout);
        first = 0;
        p += ((struct VideoFrame*)p)->bytes_of_frame;
    }
    if (!n) printf("-");
    printf("\n");
    return s;
}

/* ------------------------------------------------------------------ the source */
static void compute_strides(struct ImageShape* shape)
{ /* as the cameras do (simulated.camera.c) */
    uint32_t* dims = (uint32_t*)&shape->dims;
    int64_t* st = (int64_t*)&shape->strides;
    st[0] = 1;
    for (int i = 1; i < 4; ++i) st[i] = st[i - 1] * dims[i - 1];
}

static void write_frame(const struct op* o, struct channel* ch)
{
    struct ImageShape shape;
    memset(&shape, 0, sizeof shape);
    shape.dims.channels = o->dims[0]; shape.dims.width = o->dims[1];
    shape.dims.height = o->dims[2];   shape.dims.planes = o->dims[3];
    shape.type = (enum SampleType)o->type;
    compute_strides(&shape);
    size_t sz = bytes_of_image(&shape);
    if (sz != o->ndata) { printf("BADFRAME bytes_of_image=%zu data=%zu\n", sz, o->ndata); longjmp(g_case_abort, 1); }
    size_t nbytes = sizeof(struct VideoFrame) + sz;
    const size_t nbytes_aligned = 8 * ((nbytes + 7) / 8);
    struct VideoFrame* im = (struct VideoFrame*)channel_write_map(ch, nbytes_aligned);
    if (!im) { printf("INREFUSED %zu\n", nbytes_aligned); longjmp(g_case_abort, 1); }
    if (o->ndata) memcpy(im->data, o->data, o->ndata);
    *im = (struct VideoFrame){
        .shape = shape,
        .bytes_of_frame = nbytes_aligned,
        .frame_id = o->id,
        .hardware_frame_id = o->id + 1000,
        .timestamps.hardware = 7000 + o->id,
        .timestamps.acq_thread = 9000 + o->id,
    };
    channel_write_unmap(ch);
}

static void exec_step(size_t j)
{
    if (j >= step_end) return;
    if (g_bypass) {
        /* source.c with enable_filter == 0: the frames go to the sink's ring, not to filter.in */
        drain_out();
        g_tag = 'B';
    }
    for (size_t i = step_beg[j]; i < step_beg[j + 1]; ++i) {
        if (ops[i].kind == 0) write_frame(&ops[i], g_bypass ? &out : &flt.in);
        else flt.sig_accumulator_reset = 1;
    }
    if (g_bypass) {
        drain_out();
        g_tag = 'O';
    }
}

void clock_sleep_ms(struct clock* c, float delay_ms)
{
    (void)c; (void)delay_ms;
    if (!g_active) return;
    if (cur_step + 1 < step_end) {
        cur_step++;
        exec_step(cur_step);
    }
    if (cur_step + 1 >= step_end) flt.is_stopping = 1;
}

/* ------------------------------------------------------------------ case driver */
static void free_script(void)
{
    for (size_t i = 0; i < nops; ++i) free(ops[i].data);
    nops = 0; nsteps = 0; nacq = 0;
}

static void push_acq(unsigned k)
{
    if (nacq + 2 > capacq) {
        capacq = capacq ? 2 * capacq : 16;
        acq_beg = realloc(acq_beg, capacq * sizeof *acq_beg);
        acq_k = realloc(acq_k, capacq * sizeof *acq_k);
    }
    acq_k[nacq] = k;
    acq_beg[nacq++] = nsteps;
}

static void push_step(void)
{
    if (nsteps + 2 > capsteps) { capsteps = capsteps ? 2 * capsteps : 64; step_beg = realloc(step_beg, capsteps * sizeof *step_beg); }
    step_beg[nsteps++] = nops;
}

static int hexv(int c) { return c >= '0' && c <= '9' ? c - '0' : c >= 'a' && c <= 'f' ? c - 'a' + 10 : c >= 'A' && c <= 'F' ? c - 'A' + 10 : -1; }

static void run_case(size_t incap, size_t outcap, unsigned prefill)
{
    volatile int inited = 0;
    g_lock_err = 0; g_events = 0; g_stuck = 0; cur_step = 0; g_tag = 'O'; g_in_thread = 0; g_bypass = 0;
    step_beg[nsteps] = nops; /* sentinels */
    acq_beg[nacq] = nsteps;
    if (setjmp(g_case_abort) == 0) {
        channel_new(&out, outcap);
        if (video_filter_init(&flt, 0, incap, &out) != Device_Ok) { printf("INITFAIL\n"); return; }
        inited = 1;
        memset(flt.in.data, (int)prefill, incap);   /* previously used ring memory */
        memset(out.data, (int)prefill, outcap);
        memset(&sink_reader, 0, sizeof sink_reader);
        (void)channel_read_map(&out, &sink_reader);  /* the sink registers as a reader (empty read) */
        for (size_t a = 0; a < nacq; ++a) {
            /* one acquisition, as acquire.c performs it, on the same filter instance and rings */
            printf("A %zu k=%u\n", a, acq_k[a]);
            cur_step = acq_beg[a];
            step_end = acq_beg[a + 1];
            g_bypass = acq_k[a] <= 1;
            g_lock_err = 0; g_stuck = 0;
            video_filter_configure(&flt, acq_k[a]);
            g_thread_ran = 0; g_rc = 0;
            g_active = 1;
            enum DeviceStatusCode started = video_filter_start(&flt); /* -> thread_create: source + the real thread */
            g_active = 0;
            if (!g_thread_ran) { printf("NOTHREAD start=%d\n", (int)started); break; }
            thread_join(&flt.thread);
            drain_out();   /* frames committed by the last call and by Finalize */
            printf("T ecode=%d running=%d stopping=%d lockerr=%d\n", g_rc, (int)flt.is_running, (int)flt.is_stopping,
                   g_lock_err || out.lock.depth != 0 || flt.in.lock.depth != 0);
            /* what is still unread in filter.in */
            size_t left = 0;
            printf("L ids=");
            for (int guard = 0; guard < 4; ++guard) {
                struct slice s = channel_read_map(&flt.in, &flt.reader);
                if (!s.beg || s.end <= s.beg) {
                    if (flt.reader.state == ChannelState_Mapped) channel_read_unmap(&flt.in, &flt.reader, 0);
                    break;
                }
                for (uint8_t* p = s.beg; p < s.end; p += ((struct VideoFrame*)p)->bytes_of_frame) {
                    printf("%s%llu", left ? "," : "", (unsigned long long)((struct VideoFrame*)p)->frame_id);
                    left++;
                }
                channel_read_unmap(&flt.in, &flt.reader, (size_t)(s.end - s.beg));
            }
            printf("%s n=%zu\n", left ? "" : "-", left);
        }
    }
    g_active = 0; g_in_thread = 0;
    if (inited) {
        flt.in.lock.depth = 0; out.lock.depth = 0;
        video_filter_destroy(&flt);
        channel_release(&out);
    } else if (out.data) {
        out.lock.depth = 0;
        channel_release(&out);
    }
    printf("END\n");
}

int main(void)
{
    char* line = 0;
    size_t cap = 0;
    ssize_t len;
    unsigned k = 0, prefill = 0;
    unsigned long long incap = 0, outcap = 0;
    int have = 0;
    setvbuf(stdout, 0, _IOFBF, 1 << 16);
    push_step(); nsteps = 0;
    push_acq(0); nacq = 0;
    while ((len = getline(&line, &cap, stdin)) > 0) {
        if (line[0] == '#' || line[0] == '\n') continue;
        if (sscanf(line, "new %u %llu %llu %x", &k, &incap, &outcap, &prefill) == 4) {
            free_script();
            push_acq(k);
            push_step();
            have = 1;
            printf("NEW %u %llu %llu %02x\n", k, incap, outcap, prefill);
        } else if (!have) {
            printf("BADOP %s", line);
        } else if (line[0] == 'f' && line[1] == ' ') {
            struct op o;
            memset(&o, 0, sizeof o);
            int pos = 0;
            unsigned long long id = 0;
            if (sscanf(line, "f %d %u %u %u %u %llu %n", &o.type, &o.dims[0], &o.dims[1], &o.dims[2], &o.dims[3], &id, &pos) < 6 || !pos) {
                printf("BADOP %s", line);
                continue;
            }
            o.id = id;
            const char* h = line + pos;
            size_t hl = 0;
            while (hexv(h[hl]) >= 0) hl++;
            o.ndata = hl / 2;
            o.data = malloc(o.ndata ? o.ndata : 1);
            for (size_t i = 0; i < o.ndata; ++i) o.data[i] = (unsigned char)(hexv(h[2 * i]) * 16 + hexv(h[2 * i + 1]));
            if (nops + 1 > capops) { capops = capops ? 2 * capops : 256; ops = realloc(ops, capops * sizeof *ops); }
            ops[nops++] = o;
        } else if (line[0] == 'r') {
            struct op o;
            memset(&o, 0, sizeof o);
            o.kind = 1;
            if (nops + 1 > capops) { capops = capops ? 2 * capops : 256; ops = realloc(ops, capops * sizeof *ops); }
            ops[nops++] = o;
        } else if (line[0] == 'p') {
            push_step();
        } else if (sscanf(line, "acq %u", &k) == 1) {
            push_acq(k);
            push_step();
        } else if (strncmp(line, "end", 3) == 0) {
            run_case((size_t)incap, (size_t)outcap, prefill);
            free_script();
            have = 0;
        } else {
            printf("BADOP %s", line);
        }
    }
    free_script();
    free(ops); free(step_beg); free(acq_beg); free(acq_k); free(line);
    fflush(stdout);
    return 0;
}
