"""Average family: C10 (frame averaging emits the exact mean of each window of consecutive frames). DESIGN 6.10.

The real video_filter_thread / process_data / accumulate / normalize (filter.c, reached by #include from
harness/h_filter.c; channel.c, frame_iterator.c, throttler.c, components.c compiled unmodified from the tree under
test) run single-threaded against a stub platform on small rings pre-filled with a non-zero byte; the harness plays
source and sink.  A case is a HISTORY OF ONE FILTER INSTANCE: one or more acquisitions (video_filter_configure(k),
video_filter_start, frames, stop, join -- the sequence acquire.c performs) on the same struct video_filter_s and the
same two rings, so that anything the filter carries from one acquisition into the next is visible.  The extracted
Coq model (Average.Window.run_acquisitions = the fold of run_thread over the acquisitions, Flocq binary32) is run on
the same frames with the packetisation the filter actually saw, and every output frame of every acquisition is
compared bit for bit.  An independent oracle (exact rational arithmetic, fractions.Fraction) states C10 directly over
the implementation's output, acquisition by acquisition."""
import os
from fractions import Fraction

import vlib

RT = "acquire-video-runtime/src/runtime"
VR = "acquire-video-runtime/src"
PROPS = "acquire-core-libs/src/acquire-device-properties"
LOGGER = "acquire-core-libs/src/acquire-core-logger"

HEADER = 96
F32 = 4
# code -> (name, bytes per pixel, signed, declared bits)
INT_TYPES = {0: ("u8", 1, False, 8), 1: ("u16", 2, False, 16), 2: ("i8", 1, True, 8), 3: ("i16", 2, True, 16),
             5: ("u10", 2, False, 10), 6: ("u12", 2, False, 12), 7: ("u14", 2, False, 14)}
BPP = {0: 1, 1: 2, 2: 1, 3: 2, 4: 4, 5: 2, 6: 2, 7: 2}
PREFILLS = [0x3f, 0x3f, 0x3f, 0x3f, 0x40, 0xc1, 0x4b, 0x7f, 0x80, 0xbf, 0x01, 0x00]   # never 0xff (NaN payloads)


def align8(n):
    return 8 * ((n + 7) // 8)


# ----------------------------------------------------------------------------- exact binary32 arithmetic (oracle side)
def round32(x):
    """Bit pattern of the binary32 nearest to the rational x (ties to even).  Independent of the Coq model."""
    x = Fraction(x)
    if x == 0:
        return 0
    sign = 0x80000000 if x < 0 else 0
    a = -x if x < 0 else x
    e = a.numerator.bit_length() - a.denominator.bit_length()
    while Fraction(2) ** e <= a:
        e += 1
    while a < Fraction(2) ** (e - 1):
        e -= 1
    # 2^(e-1) <= a < 2^e ; spacing of the format around a
    ex = max(e - 24, -149)
    q = a / (Fraction(2) ** ex)
    m = q.numerator // q.denominator
    rem = q - m
    if rem > Fraction(1, 2) or (rem == Fraction(1, 2) and (m & 1)):
        m += 1
    if m == 0:
        return sign
    if m == (1 << 24):
        m >>= 1
        ex += 1
    if m < (1 << 23):
        assert ex == -149
        return sign | m
    E = ex + 150
    if E >= 255:
        return sign | 0x7f800000
    return sign | (E << 23) | (m - (1 << 23))


def frac_of_bits(b):
    s = -1 if b & 0x80000000 else 1
    E = (b >> 23) & 0xff
    m = b & 0x7fffff
    if E == 255:
        return None
    if E == 0:
        return s * Fraction(m) * Fraction(2) ** -149
    return s * Fraction(m + (1 << 23)) * Fraction(2) ** (E - 150)


def ulp32(x):
    x = abs(Fraction(x))
    if x == 0:
        return Fraction(2) ** -149
    e = x.numerator.bit_length() - x.denominator.bit_length()
    while Fraction(2) ** e <= x:
        e += 1
    while x < Fraction(2) ** (e - 1):
        e -= 1
    return Fraction(2) ** max(e - 24, -149)


def decode(ty, hexs):
    b = bytes.fromhex(hexs) if hexs != "-" else b""
    name, bpp, signed, _ = INT_TYPES[ty]
    if bpp == 1:
        return [(v - 256 if signed and v >= 128 else v) for v in b]
    out = []
    for i in range(0, len(b) - 1, 2):
        v = b[i] | (b[i + 1] << 8)
        out.append(v - 65536 if signed and v >= 32768 else v)
    return out


# ----------------------------------------------------------------------------- cases
def frame_bytes(op):
    _, ty, c, w, h, p, fid, hx = op
    return align8(HEADER + c * w * h * BPP.get(ty, 0))


LATER = "@later-acquisition"      # key suffix: the failure shows in an acquisition that is not the filter's first


def base_key(key):
    return key.split("@")[0]


def view(case, a):
    """Acquisition a of a case as a stand-alone single-acquisition description (what in_domain / oracle_acq read)."""
    acq = case["acqs"][a]
    return {"k": acq["k"], "incap": case["incap"], "outcap": case["outcap"], "prefill": case["prefill"], "steps": acq["steps"]}


def bypass(acq):
    """source.c: enable_filter = frame_average_count > 1; otherwise the frames go straight to the sink."""
    return acq["k"] <= 1


def case_lines(case):
    ls = []
    for a, acq in enumerate(case["acqs"]):
        if a == 0:
            ls.append("new %d %d %d %02x" % (acq["k"], case["incap"], case["outcap"], case["prefill"]))
        else:
            ls.append("acq %d" % acq["k"])
        for j, st in enumerate(acq["steps"]):
            if j:
                ls.append("p")
            for op in st:
                if op[0] == "f":
                    ls.append("f %d %d %d %d %d %d %s" % tuple(op[1:]))
                else:
                    ls.append("r")
    ls.append("end")
    return ls


def parse_case(lines):
    """Inverse of case_lines (corpus files, replays)."""
    case = None
    for l in lines:
        w = l.split()
        if not w or w[0].startswith("#"):
            continue
        if w[0] == "new":
            case = {"incap": int(w[2]), "outcap": int(w[3]), "prefill": int(w[4], 16),
                    "acqs": [{"k": int(w[1]), "steps": [[]]}], "tags": ["corpus"]}
        elif case is None:
            continue
        elif w[0] == "acq":
            case["acqs"].append({"k": int(w[1]), "steps": [[]]})
        elif w[0] == "f":
            case["acqs"][-1]["steps"][-1].append(("f", int(w[1]), int(w[2]), int(w[3]), int(w[4]), int(w[5]), int(w[6]), w[7]))
        elif w[0] == "r":
            case["acqs"][-1]["steps"][-1].append(("r",))
        elif w[0] == "p":
            case["acqs"][-1]["steps"].append([])
        elif w[0] == "end":
            return case
    return case


def frames_of(acq):
    """Frames of one acquisition (or of a view of it), in the order the source writes them."""
    return [op for st in acq["steps"] for op in st if op[0] == "f"]


def gen_pixels(rng, ty, n, mode):
    name, bpp, signed, bits = INT_TYPES[ty]
    if signed:
        lo, hi = -(1 << (bits - 1)), (1 << (bits - 1)) - 1
    else:
        lo, hi = 0, (1 << bits) - 1
        if bits < 16 and mode == "container":      # a u10/u12/u14 camera that sets high bits: read as plain uint16
            hi = 65535
    vals = []
    for i in range(n):
        if mode == "max":
            v = hi
        elif mode == "min":
            v = lo
        elif mode == "small":
            v = rng.randint(max(lo, -3), min(hi, 3))
        elif mode == "alt":
            v = lo if (i + rng.randint(0, 1)) % 2 else hi
        elif mode == "edge":
            v = rng.choice([lo, hi, 0, 1, hi - 1, lo + 1])
        else:
            v = rng.randint(lo, hi)
        vals.append(v)
    out = bytearray()
    for v in vals:
        if bpp == 1:
            out.append(v & 0xff)
        else:
            out += bytes([v & 0xff, (v >> 8) & 0xff])
    return out.hex() if out else "-"


def gen_acq(rng, thorough, count, multi=False, like=None):
    """One acquisition: dict(k, steps) plus the ring capacities it needs (_incap, _outcap) and what it is made of (_sig).
    multi: it is one of several acquisitions of a case (smaller images, averaging off in 15%);
    like:  the _sig of the previous acquisition -- keep its window, sample type and shape (the usual way a runtime is re-used)."""
    r = rng.random()
    if like is not None:
        k = like[0]
    elif multi and r < 0.15:
        k = rng.choice([0, 1, 1])
    elif r < 0.68 or (multi and r < 0.85):
        k = rng.randint(2, 5)
    elif r < 0.88 or multi and r < 0.97:
        k = rng.randint(6, 20)
    elif r < 0.97 or multi:
        k = rng.choice([32, 64, 100, 128, 255, 256])
    else:
        k = rng.choice([257, 300, 512])
    count("k:0-1 (averaging off, source bypasses the filter)" if k <= 1 else
          "k:2-5" if k <= 5 else "k:6-20" if k <= 20 else "k:32-256" if k <= 256 else "k:>256")
    ty = like[1] if like is not None else rng.choice([0, 1, 2, 3, 5, 6, 7])
    count("type:" + INT_TYPES[ty][0])
    maxpx = (48 if k <= 20 else 4) * (6 if thorough else 1)
    if multi:
        maxpx = min(maxpx, 12 * (4 if thorough else 1))
    while True:
        c = rng.choice([1, 1, 1, 2, 3])
        w = rng.randint(1, 16 if thorough else 8)
        h = rng.randint(1, 16 if thorough else 6)
        if c * w * h <= maxpx:
            break
    p = rng.choice([1, 1, 1, 1, 2, 7])
    if like is not None:
        c, w, h, p = like[2:6]
    npx = c * w * h
    if k <= 1:
        q, rem = 0, 0
        n = rng.randint(0, 4)
    else:
        q = rng.randint(0, 3 if k <= 20 else 2)
        rem = rng.randint(1, k - 1) if rng.random() < 0.7 else 0
        n = q * k + rem
    if k > 1:
        count("N mod k != 0" if rem else "N mod k = 0")
    mode = rng.choice(["rand", "rand", "rand", "max", "min", "small", "alt", "edge", "container"])
    count("pixels:" + mode)
    id0 = rng.choice([0, 0, 0, rng.randint(1, 10 ** 6), 1 << 40])
    tags = []
    frames = []
    x = rng.random()
    if k <= 1:
        x = 1.0         # averaging off: plain frames only
    elif multi:
        x *= 1.6        # fewer out-of-domain acquisitions inside a history (12% instead of 19%)
    special = None
    if x < 0.05:
        special = "shape"
    elif x < 0.08:
        special = "badtype"
    elif x < 0.12:
        special = "typeswitch"
    elif x < 0.17:
        special = "reset"
    elif x < 0.19:
        special = "nofit"
    at = rng.randint(0, max(0, n - 1))
    once = rng.random() < 0.5
    for i in range(n):
        t, cc, ww, hh = ty, c, w, h
        if special == "shape" and (i == at if once else i >= at):
            ww = w + 1
        if special == "typeswitch" and i >= at:
            t = {0: 2, 2: 0, 1: 3, 3: 1, 5: 1, 6: 7, 7: 3}[ty]
        if special == "badtype" and i == at:
            t = rng.choice([4, 4, 8, 9])
            nb = cc * ww * hh * BPP.get(t, 0)
            hx = bytes(rng.randrange(256) for _ in range(nb)).hex() if nb else "-"
            frames.append(("f", t, cc, ww, hh, p, id0 + i, hx))
            continue
        frames.append(("f", t, cc, ww, hh, p, id0 + i, gen_pixels(rng, t, cc * ww * hh, mode)))
    if special and n:
        tags.append(special)
        count("special:" + special)
    # packetisation
    pm = rng.choice(["one", "each", "random", "random", "random+empty", "two"])
    count("packets:" + pm)
    if pm == "one" or n == 0:
        cuts = []
    elif pm == "each":
        cuts = list(range(1, n))
    elif pm == "two":
        cuts = [rng.randint(0, n)]
    else:
        cuts = sorted(rng.randint(0, n) for _ in range(rng.randint(1, max(1, min(n, 8)))))
        if pm == "random":
            cuts = sorted(set(cc for cc in cuts if 0 < cc < n))
    steps = []
    prev = 0
    for cpos in cuts + [n]:
        steps.append(list(frames[prev:cpos]))
        prev = cpos
    if special == "reset" and n:
        steps[rng.randrange(len(steps))].append(("r",))
    fbmax = max([frame_bytes(f) for f in frames] + [align8(HEADER)])
    maxstep = max([sum(frame_bytes(f) for f in st if f[0] == "f") for st in steps] + [0])
    incap = 2 * maxstep + 2 * fbmax + rng.randint(0, 3 * fbmax) + rng.randint(1, 64)
    ab = align8(HEADER + 4 * npx)
    ab2 = align8(HEADER + 4 * c * (w + 1) * h)
    if special == "nofit":
        outcap = rng.choice([ab, ab - 8, ab // 2])
    else:
        outcap = max(ab, ab2 if special == "shape" else 0) + 1 + rng.randint(0, 3 * ab)
    if k <= 1:
        outcap = max(outcap, fbmax + 8)     # the source's own frames must fit into the sink's ring
    return {"k": k, "steps": steps, "_incap": incap, "_outcap": outcap, "_tags": tags, "_sig": (k, ty, c, w, h, p)}


def assemble(rng, acqs, tags):
    """A case from generated acquisitions: both rings are as large as the most demanding acquisition needs."""
    incap = max(a.pop("_incap") for a in acqs)
    outcap = max(a.pop("_outcap") for a in acqs)
    for a in acqs:
        tags = tags + a.pop("_tags")
        a.pop("_sig")
    return {"incap": incap, "outcap": outcap, "prefill": rng.choice(PREFILLS), "acqs": acqs, "tags": tags}


def gen_case(rng, thorough, count):
    """A single acquisition on a fresh filter."""
    return assemble(rng, [gen_acq(rng, thorough, count)], [])


def gen_history(rng, thorough, count):
    """Two to four acquisitions on ONE filter instance.  In 45% an acquisition re-uses window, sample type and shape of
    the one before it (only the frames differ), otherwise everything is drawn anew: other k (incl. 0/1 = averaging off
    and back), other shape, other sample type, any frame count (incl. 0, and not a multiple of k in 70%)."""
    na = rng.choice([2, 2, 2, 3, 3, 4])
    count("history:%d acquisitions" % na)
    acqs = []
    for a in range(na):
        like = acqs[-1]["_sig"] if acqs and rng.random() < 0.45 else None
        acqs.append(gen_acq(rng, thorough, count, multi=True, like=like))
    return assemble(rng, acqs, ["history"])


def sweep_cases(rng, thorough, count):
    """Exhaustive small scope: EVERY packetisation (composition of N into non-empty packets, 2^(N-1) of them) of N
    frames for small windows; pixel data, shape and ring capacities are drawn per case."""
    cases = []
    ks = [2, 3, 4, 5] if thorough else [2, 3]
    nmax = 9 if thorough else 7
    for k in ks:
        for n in range(0, nmax + 1):
            types = sorted(INT_TYPES) if thorough else [rng.choice(sorted(INT_TYPES))]
            for ty in types:
                for mask in range(1 << max(0, n - 1)):
                    c, w, h = rng.choice([(1, 1, 1), (1, 2, 1), (1, 2, 2), (3, 1, 1)])
                    mode = rng.choice(["rand", "max", "min", "alt", "edge"])
                    frames = [("f", ty, c, w, h, 1, i, gen_pixels(rng, ty, c * w * h, mode)) for i in range(n)]
                    steps, cur = [], []
                    for i, f in enumerate(frames):
                        cur.append(f)
                        if i < n - 1 and (mask >> i) & 1:
                            steps.append(cur)
                            cur = []
                    steps.append(cur)
                    fb = align8(HEADER + c * w * h * BPP[ty])
                    maxstep = max(len(st) for st in steps) * fb
                    ab = align8(HEADER + 4 * c * w * h)
                    cases.append({"incap": 2 * maxstep + 2 * fb + rng.randint(1, 2 * fb), "outcap": ab + 1 + rng.randint(0, 2 * ab),
                                  "prefill": rng.choice(PREFILLS), "acqs": [{"k": k, "steps": steps}], "tags": ["sweep"]})
                    count("sweep:every packetisation of N<=%d frames" % nmax)
    return cases


def sweep_histories(rng, thorough, count):
    """Exhaustive small scope over histories: every (k1, N1, k2, N2) with k in 1..3 (4), N in 0..6 (8) -- in particular
    every way the first acquisition can end inside a window -- and every (N1, N2, N3) in 0..3 for windows 2 and 3.
    One sample type and shape per history, 1-2 pixels, random packetisation."""
    cases = []
    ks = [1, 2, 3, 4] if thorough else [1, 2, 3]
    nmax = 8 if thorough else 6

    def acq(k, n, ty, c, w, h):
        mode = rng.choice(["rand", "max", "min", "alt", "edge"])
        frames = [("f", ty, c, w, h, 1, i, gen_pixels(rng, ty, c * w * h, mode)) for i in range(n)]
        steps, cur = [], []
        for i, f in enumerate(frames):
            cur.append(f)
            if i < n - 1 and rng.random() < 0.4:
                steps.append(cur)
                cur = []
        steps.append(cur)
        return {"k": k, "steps": steps}

    def wrap(acqs, ty, c, w, h):
        fb = align8(HEADER + c * w * h * BPP[ty])
        ab = align8(HEADER + 4 * c * w * h)
        maxstep = max(len(st) for a in acqs for st in a["steps"]) * fb
        return {"incap": 2 * maxstep + 2 * fb + rng.randint(1, 2 * fb), "outcap": max(ab, fb) + 1 + rng.randint(0, 2 * ab),
                "prefill": rng.choice(PREFILLS), "acqs": acqs, "tags": ["sweep-history"]}

    for k1 in ks:
        for k2 in ks:
            for n1 in range(nmax + 1):
                for n2 in range(nmax + 1):
                    ty = rng.choice(sorted(INT_TYPES))
                    c, w, h = rng.choice([(1, 1, 1), (1, 2, 1)])
                    cases.append(wrap([acq(k1, n1, ty, c, w, h), acq(k2, n2, ty, c, w, h)], ty, c, w, h))
                    count("sweep:every (k1,N1,k2,N2), k<=%d, N<=%d, of two acquisitions on one filter" % (ks[-1], nmax))
    for k in (2, 3):
        for n1 in range(4):
            for n2 in range(4):
                for n3 in range(4):
                    ty = rng.choice(sorted(INT_TYPES))
                    cases.append(wrap([acq(k, n1, ty, 1, 1, 1), acq(k, n2, ty, 1, 1, 1), acq(k, n3, ty, 1, 1, 1)], ty, 1, 1, 1))
                    count("sweep:every (N1,N2,N3), N<=3, of three acquisitions, k=2,3")
    return cases


# ----------------------------------------------------------------------------- running both sides
def split_blocks(text):
    """Output of either side -> list of blocks (lists of lines), one per case (NEW .. END)."""
    blocks = []
    cur = None
    for l in text.split("\n"):
        if l.startswith("NEW "):
            cur = [l]
        elif cur is not None:
            cur.append(l)
            if l == "END":
                blocks.append(cur)
                cur = None
    if cur is not None:
        blocks.append(cur)      # truncated (crash)
    return blocks


def parse_impl(block):
    """Harness block -> dict(acqs=[per-acquisition dict(k, slices=[(n, reset, ids)], outs=[frame dict], byp=[frame dict],
    ecode, left, sane, notes)], canon=canonical lines of the whole history, notes, complete)."""
    r = {"acqs": [], "canon": [], "notes": [], "complete": bool(block) and block[-1] == "END"}
    cur = None

    def fields(l0):
        d = {}
        for kv in l0.split()[1:]:
            a, _, b = kv.partition("=")
            d[a] = b
        return d

    for l in block:
        l0 = l.split(" # ")[0].rstrip()
        if l.startswith("A "):
            cur = {"k": int(l0.split("k=")[1]), "slices": [], "outs": [], "byp": [], "ecode": None, "left": None, "notes": [], "sane": True}
            r["acqs"].append(cur)
            r["canon"].append(l0)
        elif l.startswith("NEW") or l == "END":
            r["canon"].append(l0)
        elif cur is None:
            r["notes"].append(l0)
            r["canon"].append(l0)
        elif l.startswith("S "):
            w = l0.split()
            ids = [] if w[3] == "ids=-" else [int(x) for x in w[3][4:].split(",")]
            cur["slices"].append((int(w[1]), w[2] == "reset=1", ids))
            r["canon"].append(l0)
        elif l.startswith("O "):
            r["canon"].append(l0)
            cur["outs"].append(fields(l0))
        elif l.startswith("B "):
            cur["byp"].append(fields(l0))       # the source's own frames (averaging off): not the filter's output
        elif l.startswith("T "):
            w = dict(kv.split("=") for kv in l0.split()[1:])
            cur["ecode"] = int(w["ecode"])
            if w.get("running") != "0" or w.get("stopping") != "0" or w.get("lockerr") != "0":
                cur["sane"] = False
                cur["notes"].append(l0)
            r["canon"].append("T ecode=%d" % cur["ecode"])
        elif l.startswith("L "):
            cur["left"] = int(l0.split("n=")[1])
        else:
            r["notes"].append(l0)
            cur["notes"].append(l0)
            r["canon"].append(l0)
    return r


def finished(case, ir):
    """Did every acquisition of the case run to the end of its filter thread?"""
    return (ir is not None and ir["complete"] and len(ir["acqs"]) == len(case["acqs"])
            and all(a["ecode"] is not None for a in ir["acqs"]))


def model_input(case, impl):
    """The frames of the case, cut the way the filter's reads saw them (one step per process_data call), acquisition by
    acquisition.  With averaging off the filter's input is empty (the frames went to the sink)."""
    ls = []
    ok = True
    used = []
    for a, acq in enumerate(case["acqs"]):
        ls.append("new %d %d %d %02x" % (acq["k"], case["incap"], case["outcap"], case["prefill"]) if a == 0 else "acq %d" % acq["k"])
        fr = [] if bypass(acq) else frames_of(acq)
        pos = 0
        slices = impl["acqs"][a]["slices"] if a < len(impl["acqs"]) else []
        for j, (n, reset, ids) in enumerate(slices):
            if j:
                ls.append("p")
            chunk = fr[pos:pos + n]
            if [f[6] for f in chunk] != ids:
                ok = False          # the slice does not hold the frames that were written, in order
            pos += n
            for op in chunk:
                ls.append("f %d %d %d %d %d %d %s" % tuple(op[1:]))
            if reset:
                ls.append("r")
        if a < len(impl["acqs"]) and bypass(acq) and [int(b["id"]) for b in impl["acqs"][a]["byp"]] != [f[6] for f in frames_of(acq)]:
            ok = False              # harness sanity: the bypassed frames reach the sink as written
        used.append(pos)
    ls.append("end")
    return ls, ok, used


def run_exe(exe, lines, timeout=300):
    rc, o, e = vlib.sh([exe], inp="\n".join(lines) + "\n", timeout=timeout,
                       env={"ASAN_OPTIONS": "detect_leaks=1:abort_on_error=0", "UBSAN_OPTIONS": "print_stacktrace=1"})
    return rc, o, e


def run_batch(orac, impl, cases):
    """Returns list of (case, implres|None, model canonical lines|None, stderr)."""
    lines = [l for c in cases for l in case_lines(c)]
    rc, o, e = run_exe(impl, lines)
    blocks = split_blocks(o)
    res = []
    minp = []
    for i, c in enumerate(cases):
        if i < len(blocks):
            ir = parse_impl(blocks[i])
            ir["rc"] = rc if i == len(blocks) - 1 else 0
            ml, idsok, used = model_input(c, ir)
            ir["idsok"] = idsok
            ir["consumed"] = used
            minp.append(ml)
            res.append([c, ir, None, e if (rc != 0 and i == len(blocks) - 1) else ""])
        else:
            res.append([c, None, None, e])
    if minp:
        rcm, om, em = run_exe(orac, [l for ml in minp for l in ml])
        mb = split_blocks(om)
        j = 0
        for r in res:
            if r[1] is not None:
                if j < len(mb):
                    r[2] = [l.rstrip() for l in mb[j]]
                j += 1
        if rcm != 0:
            for r in res:
                if r[1] is not None and r[2] is None:
                    r[3] += "\nmodel: " + em[-500:]
    return res


# ----------------------------------------------------------------------------- independent property oracle
REL_BOUND = Fraction(1, 2 ** 23) + Fraction(1, 2 ** 48)       # (1+u)^2 - 1, u = 2^-24   (theorem C10_mean_value, part 3)


def in_domain(case):
    """C10 speaks about: k >= 2, integer pixel types, one image shape, no reset, an output ring the frame fits in."""
    fr = frames_of(case)
    if case["k"] < 2:
        return False
    if any(op[0] == "r" for st in case["steps"] for op in st):
        return False
    if not fr:
        return True
    if any(f[1] not in INT_TYPES for f in fr):
        return False
    if len({(f[2], f[3], f[4], f[5]) for f in fr}) != 1:
        return False
    npx = fr[0][2] * fr[0][3] * fr[0][4]
    if align8(HEADER + 4 * npx) >= case["outcap"]:
        return False
    return True


STATS = {"oracle:pixels compared with the exact rational mean": 0, "oracle:pixels outside k*max < 2^24 (skipped)": 0,
         "oracle:windows checked": 0}


def oracle(case, ir, stats=None):
    """C10 over every acquisition of the history: what the sink receives during acquisition a is determined by the frames
    of acquisition a alone.  Returns list of (key, message); the key of a failure in an acquisition other than the
    filter's first carries the suffix LATER."""
    v = []
    na = len(case["acqs"])
    for a in range(min(na, len(ir["acqs"]))):
        if ir["acqs"][a]["ecode"] is None:
            break
        for key, msg in oracle_acq(view(case, a), ir["acqs"][a], stats):
            if na > 1:
                acq = case["acqs"][a]
                before = ", ".join("k=%d N=%d" % (b["k"], len(frames_of(b))) for b in case["acqs"][:a])
                msg = ("acquisition %d of %d on one filter instance (window %d, %d frames%s): %s"
                       % (a + 1, na, acq["k"], len(frames_of(acq)), "; earlier acquisitions: " + before if a else "", msg))
            v.append((key + (LATER if a else ""), msg))
    return v


def oracle_acq(case, ir, stats=None):
    """Direct statement of C10 over the outputs of ONE acquisition (case: a view).  Returns list of (key, message)."""
    v = []
    stats = stats if stats is not None else {}
    if not in_domain(case):
        return v
    fr = frames_of(case)
    k = case["k"]
    n = len(fr)
    outs = ir["outs"]
    if ir["ecode"] != 0:
        v.append(("filter-thread-error", "video_filter_thread returned %r on integer input of one shape" % ir["ecode"]))
        return v
    if ir["left"]:
        v.append(("input-left-unread",
                  "%d of the %d input frames are still unread in filter.in after video_filter_thread returned "
                  "(skipped: they are in no output frame of this acquisition)" % (ir["left"], n)))
    q, rem = divmod(n, k)
    if ir["left"]:
        pass    # the count below is off as a consequence; report the cause only
    elif not (len(outs) == q or (rem and len(outs) == q + 1)):
        v.append(("frame-count", "%d input frames, window %d: expected %d mean frame(s)%s, the sink received %d"
                  % (n, k, q, " plus at most one for the %d trailing frames" % rem if rem else "", len(outs))))
    if not fr:
        return v
    c, w, h, p = fr[0][2:6]
    npx = c * w * h
    inv = frac_of_bits(round32(Fraction(1, k)))
    pow2 = (k & (k - 1)) == 0
    # frames left unread make the last emitted frame an un-normalised partial sum: a consequence already reported above
    q_checked = (n - (ir["left"] or 0)) // k
    for i, o in enumerate(outs[:q_checked]):
        win = fr[i * k:(i + 1) * k]
        if int(o["id"]) != win[0][6]:
            v.append(("frame-id", "output %d has frame_id %s, the first frame of window %d has %d" % (i, o["id"], i, win[0][6])))
        if int(o["type"]) != F32:
            v.append(("frame-type", "output %d has sample type %s, not f32" % (i, o["type"])))
            continue
        if o["dims"] != "%d,%d,%d,%d" % (c, w, h, p) or o["strides"] != "1,%d,%d,%d" % (c, c * w, c * w * h):
            v.append(("frame-shape", "output %d has dims %s strides %s, input %d,%d,%d,%d" % (i, o["dims"], o["strides"], c, w, h, p)))
            continue
        if int(o["bytes"]) != align8(HEADER + 4 * npx):
            v.append(("frame-bytes", "output %d has bytes_of_frame %s, expected %d" % (i, o["bytes"], align8(HEADER + 4 * npx))))
        px = [] if o["px"] in ("-", "?") else [int(x, 16) for x in o["px"].split(",")]
        if len(px) != npx:
            v.append(("frame-shape", "output %d carries %d pixels, expected %d" % (i, len(px), npx)))
            continue
        stats["oracle:windows checked"] = stats.get("oracle:windows checked", 0) + 1
        cols = [decode(f[1], f[7]) for f in win]
        for j in range(npx):
            col = [cc[j] for cc in cols]
            s = 0
            exact_domain = True
            for x in col:
                s += x
                if abs(s) > (1 << 24):
                    exact_domain = False
            if not exact_domain:
                stats["oracle:pixels outside k*max < 2^24 (skipped)"] = stats.get("oracle:pixels outside k*max < 2^24 (skipped)", 0) + 1
                continue            # k*maxval >= 2^24: outside C10_sum_exact (partial); the differential still compares bits
            stats["oracle:pixels compared with the exact rational mean"] = stats.get("oracle:pixels compared with the exact rational mean", 0) + 1
            want = round32(s * inv)
            got = px[j]
            mean = Fraction(s, k)
            gv = frac_of_bits(got)
            if got != want:
                v.append(("mean-value",
                          "window %d pixel %d: inputs %s, window %d: the sink received bits %08x (= %s), the float mean "
                          "round32(sum * round32(1/k)) of the exact sum %d is %08x (= %s)"
                          % (i, j, col if len(col) <= 12 else str(col[:12]) + "...", k, got,
                             "nan/inf" if gv is None else "%.9g" % float(gv), s, want, "%.9g" % float(frac_of_bits(want)))))
                break
            if gv is None or abs(gv - mean) > abs(mean) * REL_BOUND or (pow2 and gv != mean) or abs(gv - mean) >= 2 * ulp32(mean):
                v.append(("mean-accuracy", "window %d pixel %d: %08x is not within the proved distance of the exact mean %s" % (i, j, got, mean)))
                break
        if v and v[-1][0] in ("mean-value", "mean-accuracy"):
            break
    return v


# ----------------------------------------------------------------------------- minimisation
def minimise(impl, case, key):
    """Smallest history that still fails in the same way (same base key, in whichever acquisition)."""
    bk = base_key(key)

    def fails_case(c):
        try:
            rc, o, e = run_exe(impl, case_lines(c), timeout=30)
            b = split_blocks(o)
            if not b:
                return False
            ir = parse_impl(b[0])
            if not finished(c, ir):
                return bk == "crash"
            return any(base_key(kk) == bk for kk, _ in oracle(c, ir))
        except Exception:
            return False

    best = case

    def with_acqs(acqs, base):
        c = dict(base)
        c["acqs"] = acqs
        return c

    def rebuild(its, base):
        acqs = [{"k": a["k"], "steps": [[] for _ in a["steps"]]} for a in base["acqs"]]
        for a, j, op in its:
            acqs[a]["steps"][j].append(op)
        return with_acqs(acqs, base)

    try:
        # 0. fewer acquisitions
        if len(best["acqs"]) > 1:
            idx = vlib.ddmin(list(range(len(best["acqs"]))), lambda cand: fails_case(with_acqs([best["acqs"][a] for a in cand], best)), max_tests=60)
            c = with_acqs([best["acqs"][a] for a in idx], best)
            if fails_case(c):
                best = c
        # 1. fewer frames (ids are kept; the oracle takes the first id of each window from the candidate itself)
        items = [(a, j, op) for a, acq in enumerate(best["acqs"]) for j, st in enumerate(acq["steps"]) for op in st]
        its = vlib.ddmin(items, lambda cand: fails_case(rebuild(cand, best)), max_tests=400)
        if fails_case(rebuild(its, best)):
            best = rebuild(its, best)
        # 2. drop empty steps
        c = with_acqs([{"k": a["k"], "steps": [st for st in a["steps"] if st] or [[]]} for a in best["acqs"]], best)
        if fails_case(c):
            best = c
        # 3. one pixel
        fr = [f for a in best["acqs"] for f in frames_of(a)]
        if fr and all(f[1] in INT_TYPES for f in fr):
            def onepx(op):
                if op[0] != "f":
                    return op
                bpp = BPP[op[1]]
                return ("f", op[1], 1, 1, 1, 1, op[6], op[7][:2 * bpp])
            c = with_acqs([{"k": a["k"], "steps": [[onepx(op) for op in st] for st in a["steps"]]} for a in best["acqs"]], best)
            c["outcap"] = max(best["outcap"], 256)
            if fails_case(c):
                best = c
        # 4. frame ids counted from 0 in every acquisition, as the source does
        def renum(acq):
            n = 0
            steps = []
            for st in acq["steps"]:
                cur = []
                for op in st:
                    if op[0] == "f":
                        cur.append(op[:6] + (n,) + op[7:])
                        n += 1
                    else:
                        cur.append(op)
                steps.append(cur)
            return {"k": acq["k"], "steps": steps}
        c = with_acqs([renum(a) for a in best["acqs"]], best)
        if fails_case(c):
            best = c
    except Exception:
        pass
    return best


def replay_obj(ctx, impl, case, msg):
    ls = case_lines(case)
    rc, o, e = run_exe(impl, ls, timeout=30)
    return {"what": msg, "case": ls, "impl_output": o.split("\n")[:60], "stderr": e[-1500:],
            "how": "feed the lines of `case` to .build/%s/h_filter (built by this check from %s: harness/h_filter.c + the tree's "
                   "filter.c, channel.c, frame_iterator.c, throttler.c, components.c); every `new`/`acq <k>` line starts an "
                   "acquisition (video_filter_configure(k), video_filter_start, frames, stop, join) on the same filter instance; "
                   "after each `A i k=..` line O lines are the frames the sink received from the filter during that acquisition, "
                   "L the input frames left unread" % (ctx.prop, vlib.REPO)}


# ----------------------------------------------------------------------------- the check
def build(ctx):
    orac = ctx.oracle_build()
    here = os.path.join(ctx.famdir, "harness")
    R = vlib.REPO
    impl = ctx.cc([os.path.join(here, "h_filter.c"), RT + "/channel.c", RT + "/frame_iterator.c", RT + "/throttler.c",
                   PROPS + "/device/props/components.c"], "h_filter",
                  flags=["-I" + os.path.join(here, "stubplat"), "-I" + os.path.join(R, RT), "-I" + os.path.join(R, VR),
                         "-I" + os.path.join(R, PROPS), "-I" + os.path.join(R, LOGGER), "-DNO_UNIT_TESTS"])
    return orac, impl


def fold(ctx, impl, results, origin):
    for case, ir, mlines, err in results:
        sig = "\n".join(case_lines(case))
        if not finished(case, ir):
            if ir is None and not err:
                continue
            if ir is not None and any(x.startswith("INFULL") or x.startswith("INREFUSED") for x in ir["notes"]):
                ctx.count("gen:input-ring-too-small (case skipped)")
                continue
            ctx.violation("the implementation aborted (sanitizer report or crash) while filtering: " + (err or "")[-800:],
                          {"case": case_lines(case), "stderr": (err or "")[-3000:]}, key="crash")
            continue
        na = len(case["acqs"])
        doms = [in_domain(view(case, a)) for a in range(na)]
        nontriv = False
        for a, acq in enumerate(case["acqs"]):
            air = ir["acqs"][a]
            fr = frames_of(acq)
            k = acq["k"]
            if doms[a] and len(fr) >= k and len(air["slices"]) >= 2:
                nontriv = True
            ctx.count("domain:in" if doms[a] else "domain:out (differential only)")
            if bypass(acq):
                continue
            # where did the laps of the two rings fall?
            sb, acc = [], 0
            for st in acq["steps"]:
                a0 = acc
                acc += sum(1 for op in st if op[0] == "f")
                sb.append((a0, acc))
            cuts, acc = set(), 0
            for n_, _, _ in air["slices"]:
                acc += n_
                cuts.add(acc)
            split = [j for j, (a0, b0) in enumerate(sb) if any(a0 < x < b0 for x in cuts)]
            if split:
                ctx.count("rings:a packet crossed a lap of filter.in (read in two parts)")
                if split[-1] == len(sb) - 1 or (air["left"] and air["ecode"] == 0):
                    ctx.count("rings:the LAST packet crossed a lap of filter.in (flush needs two reads)")
            if fr:
                npx0 = fr[0][2] * fr[0][3] * fr[0][4]
                if len(air["outs"]) * align8(HEADER + 4 * npx0) > case["outcap"]:
                    ctx.count("rings:output ring lapped (accumulator mapped on its own old output)")
            if air["ecode"] == 1:
                ctx.count("impl:error-exit")
        if na > 1:
            # what the history exercises (a = an acquisition with averaging that follows another one)
            for a in range(1, na):
                prev, acq = case["acqs"][a - 1], case["acqs"][a]
                if bypass(acq) or not frames_of(acq):
                    continue
                ctx.count("history:acquisitions with frames that follow another acquisition on the same filter")
                lastavg = next((b for b in reversed(case["acqs"][:a]) if not bypass(b)), None)
                if lastavg is not None and doms[case["acqs"].index(lastavg)] and len(frames_of(lastavg)) % lastavg["k"]:
                    ctx.count("history:... the previous averaging acquisition ended INSIDE a window (trailing frame flushed)")
                if bypass(prev) and lastavg is not None:
                    ctx.count("history:... averaging on -> off -> on again")
                if lastavg is not None and lastavg["k"] != acq["k"]:
                    ctx.count("history:... window size differs from the previous averaging acquisition")
                pf, cf = frames_of(prev), frames_of(acq)
                if pf and (pf[0][1] != cf[0][1] or pf[0][2:6] != cf[0][2:6]):
                    ctx.count("history:... sample type or shape differs from the previous acquisition")
                if ir["acqs"][a - 1]["ecode"] == 1:
                    ctx.count("history:... the previous acquisition's thread ended with an error")
                if not pf:
                    ctx.count("history:... the previous acquisition had no frame")
        ctx.case(sig, nontrivial=nontriv)
        if case["prefill"] != 0:
            ctx.count("rings:non-zero prefill")
        if not all(a["sane"] for a in ir["acqs"]):
            ctx.broken_tie("harness sanity: lock discipline / thread flags after video_filter_thread",
                           {"case": case_lines(case), "notes": [n for a in ir["acqs"] for n in a["notes"]]})
        if not ir["idsok"]:
            ctx.broken_tie("the slices read by process_data do not hold the written frames in order (ring problem, C01/C05)",
                           {"case": case_lines(case), "slices": [a["slices"] for a in ir["acqs"]]})
        # property oracle on the implementation's own output
        st = {}
        viols = oracle(case, ir, st)
        for kx, nx in st.items():
            ctx.count(kx, nx)
        for key, msg in viols:
            size = sum(len(l) for l in case_lines(case))
            slot = ctx.extra.setdefault("_found", {}).setdefault(key, [0, None, None, None])
            slot[0] += 1
            if slot[1] is None or size < slot[1]:
                slot[1:] = [size, case, msg]
        # differential
        if mlines is None:
            ctx.broken_tie("model oracle produced no output for a case", {"case": case_lines(case), "stderr": err[-500:]})
            continue
        if mlines != ir["canon"]:
            d = next((i for i in range(min(len(mlines), len(ir["canon"]))) if mlines[i] != ir["canon"][i]), min(len(mlines), len(ir["canon"])))
            ctx.broken_tie("model/implementation disagreement on a filter run (%s)" % origin,
                           {"case": case_lines(case)[:40], "line": d,
                            "model": mlines[d] if d < len(mlines) else "<none>", "impl": ir["canon"][d] if d < len(ir["canon"]) else "<none>"})
        else:
            ctx.traces_validated += 1


def report(ctx, impl):
    """One violation per failure class: the smallest failing case of the run, minimised further.  A class found only in
    later acquisitions keeps the suffix LATER when its minimised replay still needs an earlier acquisition."""
    found = ctx.extra.pop("_found", {})
    done = set()
    for key in sorted(found, key=lambda kk: (LATER in kk, kk)):
        n, size, case, msg = found[key]
        if base_key(key) in done:       # the plain class is already reported with a one-acquisition replay
            ctx.count("violations:" + key, n)
            continue
        small = minimise(impl, case, key)
        ir = None
        try:
            b = split_blocks(run_exe(impl, case_lines(small), timeout=30)[1])
            ir = parse_impl(b[0]) if b else None
        except Exception:       # noqa: BLE001
            pass
        vs = [(kk, m) for kk, m in oracle(small, ir) if base_key(kk) == base_key(key)] if finished(small, ir) else []
        fkey, mm = (min(vs, key=lambda km: LATER in km[0]) if vs else (key, msg))
        if LATER not in fkey:
            done.add(base_key(fkey))
        ctx.violation("%s  [%d failing case(s) of class %s in the run; smallest one minimised]" % (mm, n, key),
                      replay_obj(ctx, impl, small, mm), key=fkey)
        ctx.count("violations:" + key, n)


def run(ctx):
    ctx.coq_prove(["Properties_C10"])
    orac, impl = build(ctx)
    thorough = ctx.tier == "thorough"
    ctx.rule = ("a case = a history of ONE filter instance: 1 acquisition (the cases described next) or 2-4 acquisitions "
                "(video_filter_configure(k), video_filter_start, frames, stop, join -- each acquisition drawn like a single case with "
                "smaller images, 15% of them with averaging off (k = 0/1: the source bypasses the filter), 45% re-using window, type "
                "and shape of the acquisition before, the others changing them) on the same struct video_filter_s and the same rings; "
                "every acquisition's output is compared with the model and, where in the domain, with the oracle.  "
                "An acquisition = window size k (2..5 68%, 6..20 20%, 32..256 9%, 257..512 3%), one integer sample type (u8,u16,i8,i16,u10,u12,u14), "
                "an image shape (channels 1..3, width, height, planes; camera strides), N = q*k + r frames (r != 0 in 70%), pixel values "
                "(random / all max / all min / small / alternating extremes / edges / full 16-bit container for u10-u14), a packetisation "
                "(one packet, one frame per packet, random cuts with or without empty packets), ring capacities of a few frames, a non-zero "
                "prefill byte for both rings; 19% of the cases leave the property's domain on purpose (shape change, f32/unknown type, "
                "type switch, reset signal, accumulator larger than the output ring) and are compared with the model only; "
                "plus an exhaustive sweep: every packetisation (2^(N-1) compositions) of N <= 7 (quick) / 9 (thorough) frames for k = 2,3 (,4,5); "
                "plus an exhaustive sweep over histories: every (k1,N1,k2,N2), k in 1..3 (4), N in 0..6 (8), of two acquisitions and "
                "every (N1,N2,N3), N <= 3, of three acquisitions with k = 2,3. "
                "The real video_filter_thread runs them (started by video_filter_start through the stub thread_create); non-trivial = "
                "some acquisition is in the domain, has at least one complete window and at least two process_data calls; "
                "distinct = distinct case text")
    ctx.assumptions = [
        "single filter thread; source and sink are played by the harness at the filter's scheduling points (throttler sleep, blocking write_map)",
        "between two acquisitions the filter thread has been joined and the sink has drained its ring (acquire_stop); input frames the "
        "filter left unread (reported as a violation of that acquisition) are removed by the harness before the next acquisition",
        "x86-64 SSE/AVX single precision: x[i] += y[i] and x[i] *= inv are binary32 operations, round to nearest even, no excess precision, no FMA contraction (there is no a*b+c)",
        "frame_count and k below 2^24 so that (float)frame_count is exact; 64-bit wrap of frame_count not modelled",
        "no NaN in the ring memory the accumulator lands on (prefill byte 0xff excluded): NaN payload propagation of the hardware is not modelled",
        "timestamps and hardware_frame_id of output frames are not compared (not determined by the property)",
        "exact-sum claims only for k * max|pixel| < 2^24 (u16 with k > 256 is outside C10_sum_exact; such cases are still compared bit for bit with the model)",
    ]
    ctx.trusted = vlib.default_trusted() + [
        "Flocq 4.1.0 (IEEE754.Binary, IEEE754.Bits) as the definition of binary32 arithmetic; Coq Reals axioms as listed per theorem",
        "harness/stubplat/platform.h + the stubs in h_filter.c stand in for the platform layer; channel_read_map inside filter.c is "
        "interposed by a macro that logs the slice and calls the real function"]

    def count(kx):
        ctx.count(kx)

    # corpus first
    cdir = os.path.join(vlib.VERIF, "corpus", ctx.prop)
    corpus = []
    if os.path.isdir(cdir):
        for fn in sorted(os.listdir(cdir)):
            c = parse_case(open(os.path.join(cdir, fn)).read().split("\n"))
            if c:
                c["tags"] = ["corpus:" + fn]
                corpus.append(c)
    if ctx.replay_file:
        try:
            import json
            rp = json.load(open(ctx.replay_file))
            c = parse_case(rp["replay"]["case"])
            if c:
                corpus.append(c)
        except Exception as ex:     # noqa: BLE001
            ctx.notes.append("replay file not understood: %s" % ex)
    if corpus:
        fold(ctx, impl, run_batch(orac, impl, corpus), "corpus")
        ctx.count("corpus cases", len(corpus))
    ncases = 30000 if thorough else 6000
    nhist = 12000 if thorough else 2500
    cases = sweep_cases(ctx.rng, thorough, count)
    cases += sweep_histories(ctx.rng, thorough, count)
    cases += [gen_case(ctx.rng, thorough, count) for _ in range(ncases)]
    for c in cases[-2:]:
        ctx.sample({"case": [l[:160] for l in case_lines(c)[:12]], "tags": c["tags"]})
    cases += [gen_history(ctx.rng, thorough, count) for _ in range(nhist)]
    for c in cases[-3:]:
        ctx.sample({"case": [l[:160] for l in case_lines(c)[:24]], "tags": c["tags"]})
    shards = [s for s in vlib.shard(cases, vlib.NPROC * (4 if thorough else 1)) if s]
    results = vlib.parallel(lambda sh: run_batch(orac, impl, sh), shards)
    for rs in results:
        fold(ctx, impl, rs, "generated")
    report(ctx, impl)
    pipeline_stage(ctx, thorough)
    ctx.extra["partial"] = ("k*maxval >= 2^24 (u16 with k > 256) is outside C10_sum_exact; that every emitted frame reaches storage and the "
                            "monitor under every thread schedule is checked on the whole runtime by the pipeline stage of this check (an "
                            "oracle over runs under the deterministic scheduler), not proved in the pipeline model (whose grammar has averaging off)")


def pipeline_stage(ctx, thorough):
    """C10 on the WHOLE runtime: acquire.c + source/filter/sink threads + channel + HAL compiled from the working tree against the
    deterministic scheduler and the mock driver (fam/pipe), finite acquisitions with frame averaging 2..4, integer sample types,
    rings of 2-6 output frames (so the accumulator lands on recycled memory and windows straddle lap boundaries), random and PCT
    schedules, slow storage, a monitoring client: storage and the monitor must receive, in order, one f32 frame per complete
    window, frame id = the window's first, pixels = the binary32 mean recomputed here (exact: sums < 2^24, one rounding)."""
    import sys as _sys
    pdir = os.path.join(vlib.VERIF, "fam", "pipe")
    if pdir not in _sys.path:
        _sys.path.insert(0, pdir)
    import pipelib
    exe = pipelib.build(ctx, name="h_pipe_avg")
    n = 4000 if thorough else 350
    cases = [pipelib.scenario(ctx.rng, "avg") for _ in range(n)]
    results = vlib.parallel(lambda c: pipelib.run_prog(exe, c[0]), cases)
    wins = 0
    for (prog, meta), (rc, lines, err) in zip(cases, results):
        nav = sum(l.count(" t=4 ") for l in lines if " append " in l)
        wins += nav
        ctx.case("pipeline\n" + "\n".join(prog), nontrivial=nav > 0)
        ctx.count("pipeline:runs")
        if rc not in (0, 42, 43):
            ctx.violation("[pipeline] the runtime crashed or a sanitizer reported an error with frame averaging on: %s" % (err or "")[-500:],
                          {"program": prog, "stderr": (err or "")[-3000:], "how": "python3 fam/pipe/tryprog.py <this file> .build/C10/h_pipe_avg"}, key="pipeline-crash")
            continue
        if any(l.startswith(("DEADLOCK", "STEPLIMIT")) for l in lines[-40:]):
            ctx.count("pipeline:did-not-finish (C07's subject)")
            continue
        for p, key, msg in pipelib.oracle(prog, lines, meta):
            if p == "C10":
                ctx.count("pipeline:" + key)
                ctx.violation("[pipeline] " + msg, {"program": prog, "log_tail": lines[-30:],
                                                    "how": "python3 fam/pipe/tryprog.py <this file> .build/C10/h_pipe_avg"}, key="pipeline-" + key)
        ctx.traces_validated += 1
    ctx.count("pipeline:averaged frames appended", wins)
    ctx.notes.append("pipeline stage: %d whole-runtime runs with averaging on, %d averaged frames reached storage and were compared bit for bit "
                     "with the recomputed binary32 means" % (n, wins))
