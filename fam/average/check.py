"""Average family: C10 (frame averaging emits the exact mean of each window of consecutive frames). DESIGN 6.10.

The real video_filter_thread / process_data / accumulate / normalize (filter.c, reached by #include from
harness/h_filter.c; channel.c, frame_iterator.c, throttler.c, components.c compiled unmodified from the tree under
test) run single-threaded against a stub platform on small rings pre-filled with a non-zero byte; the harness plays
source and sink.  The extracted Coq model (Average.Window.run_thread over Flocq binary32) is run on the same
frames with the packetisation the filter actually saw, and every output frame is compared bit for bit.  An
independent oracle (exact rational arithmetic, fractions.Fraction) states C10 directly over the implementation's
output."""
import os
from fractions import Fraction

import vlib

RT = "acquire-video-runtime/src/runtime"
VR = "acquire-video-runtime/src"
PROPS = "acquire-core-libs/src/acquire-device-properties"
LOGGER = "acquire-core-libs/src/acquire-core-logger"

HEADER = 96
F32 = 4
# code -> (name, bytes per pixel, signed, declared bits)
INT_TYPES = {0: ("u8", 1, False, 8), 1: ("u16", 2, False, 16), 2: ("i8", 1, True, 8), 3: ("i16", 2, True, 16),
             5: ("u10", 2, False, 10), 6: ("u12", 2, False, 12), 7: ("u14", 2, False, 14)}
BPP = {0: 1, 1: 2, 2: 1, 3: 2, 4: 4, 5: 2, 6: 2, 7: 2}
PREFILLS = [0x3f, 0x3f, 0x3f, 0x3f, 0x40, 0xc1, 0x4b, 0x7f, 0x80, 0xbf, 0x01, 0x00]   # never 0xff (NaN payloads)


def align8(n):
    return 8 * ((n + 7) // 8)


# ----------------------------------------------------------------------------- exact binary32 arithmetic (oracle side)
def round32(x):
    """Bit pattern of the binary32 nearest to the rational x (ties to even).  Independent of the Coq model."""
    x = Fraction(x)
    if x == 0:
        return 0
    sign = 0x80000000 if x < 0 else 0
    a = -x if x < 0 else x
    e = a.numerator.bit_length() - a.denominator.bit_length()
    while Fraction(2) ** e <= a:
        e += 1
    while a < Fraction(2) ** (e - 1):
        e -= 1
    # 2^(e-1) <= a < 2^e ; spacing of the format around a
    ex = max(e - 24, -149)
    q = a / (Fraction(2) ** ex)
    m = q.numerator // q.denominator
    rem = q - m
    if rem > Fraction(1, 2) or (rem == Fraction(1, 2) and (m & 1)):
        m += 1
    if m == 0:
        return sign
    if m == (1 << 24):
        m >>= 1
        ex += 1
    if m < (1 << 23):
        assert ex == -149
        return sign | m
    E = ex + 150
    if E >= 255:
        return sign | 0x7f800000
    return sign | (E << 23) | (m - (1 << 23))


def frac_of_bits(b):
    s = -1 if b & 0x80000000 else 1
    E = (b >> 23) & 0xff
    m = b & 0x7fffff
    if E == 255:
        return None
    if E == 0:
        return s * Fraction(m) * Fraction(2) ** -149
    return s * Fraction(m + (1 << 23)) * Fraction(2) ** (E - 150)


def ulp32(x):
    x = abs(Fraction(x))
    if x == 0:
        return Fraction(2) ** -149
    e = x.numerator.bit_length() - x.denominator.bit_length()
    while Fraction(2) ** e <= x:
        e += 1
    while x < Fraction(2) ** (e - 1):
        e -= 1
    return Fraction(2) ** max(e - 24, -149)


def decode(ty, hexs):
    b = bytes.fromhex(hexs) if hexs != "-" else b""
    name, bpp, signed, _ = INT_TYPES[ty]
    if bpp == 1:
        return [(v - 256 if signed and v >= 128 else v) for v in b]
    out = []
    for i in range(0, len(b) - 1, 2):
        v = b[i] | (b[i + 1] << 8)
        out.append(v - 65536 if signed and v >= 32768 else v)
    return out


# ----------------------------------------------------------------------------- cases
def frame_bytes(op):
    _, ty, c, w, h, p, fid, hx = op
    return align8(HEADER + c * w * h * BPP.get(ty, 0))


def case_lines(case):
    ls = ["new %d %d %d %02x" % (case["k"], case["incap"], case["outcap"], case["prefill"])]
    for j, st in enumerate(case["steps"]):
        if j:
            ls.append("p")
        for op in st:
            if op[0] == "f":
                ls.append("f %d %d %d %d %d %d %s" % tuple(op[1:]))
            else:
                ls.append("r")
    ls.append("end")
    return ls


def parse_case(lines):
    """Inverse of case_lines (corpus files, replays)."""
    case = None
    for l in lines:
        w = l.split()
        if not w or w[0].startswith("#"):
            continue
        if w[0] == "new":
            case = {"k": int(w[1]), "incap": int(w[2]), "outcap": int(w[3]), "prefill": int(w[4], 16), "steps": [[]], "tags": ["corpus"]}
        elif w[0] == "f":
            case["steps"][-1].append(("f", int(w[1]), int(w[2]), int(w[3]), int(w[4]), int(w[5]), int(w[6]), w[7]))
        elif w[0] == "r":
            case["steps"][-1].append(("r",))
        elif w[0] == "p":
            case["steps"].append([])
        elif w[0] == "end":
            return case
    return case


def frames_of(case):
    return [op for st in case["steps"] for op in st if op[0] == "f"]


def gen_pixels(rng, ty, n, mode):
    name, bpp, signed, bits = INT_TYPES[ty]
    if signed:
        lo, hi = -(1 << (bits - 1)), (1 << (bits - 1)) - 1
    else:
        lo, hi = 0, (1 << bits) - 1
        if bits < 16 and mode == "container":      # a u10/u12/u14 camera that sets high bits: read as plain uint16
            hi = 65535
    vals = []
    for i in range(n):
        if mode == "max":
            v = hi
        elif mode == "min":
            v = lo
        elif mode == "small":
            v = rng.randint(max(lo, -3), min(hi, 3))
        elif mode == "alt":
            v = lo if (i + rng.randint(0, 1)) % 2 else hi
        elif mode == "edge":
            v = rng.choice([lo, hi, 0, 1, hi - 1, lo + 1])
        else:
            v = rng.randint(lo, hi)
        vals.append(v)
    out = bytearray()
    for v in vals:
        if bpp == 1:
            out.append(v & 0xff)
        else:
            out += bytes([v & 0xff, (v >> 8) & 0xff])
    return out.hex() if out else "-"


def gen_case(rng, thorough, count):
    r = rng.random()
    if r < 0.68:
        k = rng.randint(2, 5)
    elif r < 0.88:
        k = rng.randint(6, 20)
    elif r < 0.97:
        k = rng.choice([32, 64, 100, 128, 255, 256])
    else:
        k = rng.choice([257, 300, 512])
    count("k:2-5" if k <= 5 else "k:6-20" if k <= 20 else "k:32-256" if k <= 256 else "k:>256")
    ty = rng.choice([0, 1, 2, 3, 5, 6, 7])
    count("type:" + INT_TYPES[ty][0])
    maxpx = (48 if k <= 20 else 4) * (6 if thorough else 1)
    while True:
        c = rng.choice([1, 1, 1, 2, 3])
        w = rng.randint(1, 16 if thorough else 8)
        h = rng.randint(1, 16 if thorough else 6)
        if c * w * h <= maxpx:
            break
    p = rng.choice([1, 1, 1, 1, 2, 7])
    npx = c * w * h
    q = rng.randint(0, 3 if k <= 20 else 2)
    rem = rng.randint(1, k - 1) if rng.random() < 0.7 else 0
    n = q * k + rem
    count("N mod k != 0" if rem else "N mod k = 0")
    mode = rng.choice(["rand", "rand", "rand", "max", "min", "small", "alt", "edge", "container"])
    count("pixels:" + mode)
    id0 = rng.choice([0, 0, 0, rng.randint(1, 10 ** 6), 1 << 40])
    tags = []
    frames = []
    x = rng.random()
    special = None
    if x < 0.05:
        special = "shape"
    elif x < 0.08:
        special = "badtype"
    elif x < 0.12:
        special = "typeswitch"
    elif x < 0.17:
        special = "reset"
    elif x < 0.19:
        special = "nofit"
    at = rng.randint(0, max(0, n - 1))
    once = rng.random() < 0.5
    for i in range(n):
        t, cc, ww, hh = ty, c, w, h
        if special == "shape" and (i == at if once else i >= at):
            ww = w + 1
        if special == "typeswitch" and i >= at:
            t = {0: 2, 2: 0, 1: 3, 3: 1, 5: 1, 6: 7, 7: 3}[ty]
        if special == "badtype" and i == at:
            t = rng.choice([4, 4, 8, 9])
            nb = cc * ww * hh * BPP.get(t, 0)
            hx = bytes(rng.randrange(256) for _ in range(nb)).hex() if nb else "-"
            frames.append(("f", t, cc, ww, hh, p, id0 + i, hx))
            continue
        frames.append(("f", t, cc, ww, hh, p, id0 + i, gen_pixels(rng, t, cc * ww * hh, mode)))
    if special and n:
        tags.append(special)
        count("special:" + special)
    # packetisation
    pm = rng.choice(["one", "each", "random", "random", "random+empty", "two"])
    count("packets:" + pm)
    if pm == "one" or n == 0:
        cuts = []
    elif pm == "each":
        cuts = list(range(1, n))
    elif pm == "two":
        cuts = [rng.randint(0, n)]
    else:
        cuts = sorted(rng.randint(0, n) for _ in range(rng.randint(1, max(1, min(n, 8)))))
        if pm == "random":
            cuts = sorted(set(cc for cc in cuts if 0 < cc < n))
    steps = []
    prev = 0
    for cpos in cuts + [n]:
        steps.append(list(frames[prev:cpos]))
        prev = cpos
    if special == "reset" and n:
        steps[rng.randrange(len(steps))].append(("r",))
    fbmax = max([frame_bytes(f) for f in frames] + [align8(HEADER)])
    maxstep = max([sum(frame_bytes(f) for f in st if f[0] == "f") for st in steps] + [0])
    incap = 2 * maxstep + 2 * fbmax + rng.randint(0, 3 * fbmax) + rng.randint(1, 64)
    ab = align8(HEADER + 4 * npx)
    ab2 = align8(HEADER + 4 * c * (w + 1) * h)
    if special == "nofit":
        outcap = rng.choice([ab, ab - 8, ab // 2])
    else:
        outcap = max(ab, ab2 if special == "shape" else 0) + 1 + rng.randint(0, 3 * ab)
    return {"k": k, "incap": incap, "outcap": outcap, "prefill": rng.choice(PREFILLS), "steps": steps, "tags": tags}


def sweep_cases(rng, thorough, count):
    """Exhaustive small scope: EVERY packetisation (composition of N into non-empty packets, 2^(N-1) of them) of N
    frames for small windows; pixel data, shape and ring capacities are drawn per case."""
    cases = []
    ks = [2, 3, 4, 5] if thorough else [2, 3]
    nmax = 9 if thorough else 7
    for k in ks:
        for n in range(0, nmax + 1):
            types = sorted(INT_TYPES) if thorough else [rng.choice(sorted(INT_TYPES))]
            for ty in types:
                for mask in range(1 << max(0, n - 1)):
                    c, w, h = rng.choice([(1, 1, 1), (1, 2, 1), (1, 2, 2), (3, 1, 1)])
                    mode = rng.choice(["rand", "max", "min", "alt", "edge"])
                    frames = [("f", ty, c, w, h, 1, i, gen_pixels(rng, ty, c * w * h, mode)) for i in range(n)]
                    steps, cur = [], []
                    for i, f in enumerate(frames):
                        cur.append(f)
                        if i < n - 1 and (mask >> i) & 1:
                            steps.append(cur)
                            cur = []
                    steps.append(cur)
                    fb = align8(HEADER + c * w * h * BPP[ty])
                    maxstep = max(len(st) for st in steps) * fb
                    ab = align8(HEADER + 4 * c * w * h)
                    cases.append({"k": k, "incap": 2 * maxstep + 2 * fb + rng.randint(1, 2 * fb), "outcap": ab + 1 + rng.randint(0, 2 * ab),
                                  "prefill": rng.choice(PREFILLS), "steps": steps, "tags": ["sweep"]})
                    count("sweep:every packetisation of N<=%d frames" % nmax)
    return cases


# ----------------------------------------------------------------------------- running both sides
def split_blocks(text):
    """Output of either side -> list of blocks (lists of lines), one per case (NEW .. END)."""
    blocks = []
    cur = None
    for l in text.split("\n"):
        if l.startswith("NEW "):
            cur = [l]
        elif cur is not None:
            cur.append(l)
            if l == "END":
                blocks.append(cur)
                cur = None
    if cur is not None:
        blocks.append(cur)      # truncated (crash)
    return blocks


def parse_impl(block):
    """Harness block -> dict(slices=[(n, reset, ids)], lines=canonical lines, outs=[frame dict], ecode, left, flags)."""
    r = {"slices": [], "canon": [], "outs": [], "ecode": None, "left": None, "notes": [], "sane": True, "complete": bool(block) and block[-1] == "END"}
    for l in block:
        l0 = l.split(" # ")[0].rstrip()
        if l.startswith("S "):
            w = l0.split()
            ids = [] if w[3] == "ids=-" else [int(x) for x in w[3][4:].split(",")]
            r["slices"].append((int(w[1]), w[2] == "reset=1", ids))
            r["canon"].append(l0)
        elif l.startswith("O "):
            r["canon"].append(l0)
            d = {}
            for kv in l0.split()[1:]:
                a, _, b = kv.partition("=")
                d[a] = b
            r["outs"].append(d)
        elif l.startswith("T "):
            w = dict(kv.split("=") for kv in l0.split()[1:])
            r["ecode"] = int(w["ecode"])
            if w.get("running") != "0" or w.get("stopping") != "0" or w.get("lockerr") != "0":
                r["sane"] = False
                r["notes"].append(l0)
            r["canon"].append("T ecode=%d" % r["ecode"])
        elif l.startswith("L "):
            r["left"] = int(l0.split("n=")[1])
        elif l.startswith("NEW") or l == "END":
            r["canon"].append(l0)
        else:
            r["notes"].append(l0)
            r["canon"].append(l0)
    return r


def model_input(case, impl):
    """The frames of the case, cut the way the filter's reads saw them (one step per process_data call)."""
    fr = frames_of(case)
    ls = ["new %d %d %d %02x" % (case["k"], case["incap"], case["outcap"], case["prefill"])]
    pos = 0
    ok = True
    for j, (n, reset, ids) in enumerate(impl["slices"]):
        if j:
            ls.append("p")
        chunk = fr[pos:pos + n]
        if [f[6] for f in chunk] != ids:
            ok = False          # the slice does not hold the frames that were written, in order
        pos += n
        for op in chunk:
            ls.append("f %d %d %d %d %d %d %s" % tuple(op[1:]))
        if reset:
            ls.append("r")
    ls.append("end")
    return ls, ok, pos


def run_exe(exe, lines, timeout=300):
    rc, o, e = vlib.sh([exe], inp="\n".join(lines) + "\n", timeout=timeout,
                       env={"ASAN_OPTIONS": "detect_leaks=1:abort_on_error=0", "UBSAN_OPTIONS": "print_stacktrace=1"})
    return rc, o, e


def run_batch(orac, impl, cases):
    """Returns list of (case, implres|None, model canonical lines|None, stderr)."""
    lines = [l for c in cases for l in case_lines(c)]
    rc, o, e = run_exe(impl, lines)
    blocks = split_blocks(o)
    res = []
    minp = []
    for i, c in enumerate(cases):
        if i < len(blocks):
            ir = parse_impl(blocks[i])
            ir["rc"] = rc if i == len(blocks) - 1 else 0
            ml, idsok, used = model_input(c, ir)
            ir["idsok"] = idsok
            ir["consumed"] = used
            minp.append(ml)
            res.append([c, ir, None, e if (rc != 0 and i == len(blocks) - 1) else ""])
        else:
            res.append([c, None, None, e])
    if minp:
        rcm, om, em = run_exe(orac, [l for ml in minp for l in ml])
        mb = split_blocks(om)
        j = 0
        for r in res:
            if r[1] is not None:
                if j < len(mb):
                    r[2] = [l.rstrip() for l in mb[j]]
                j += 1
        if rcm != 0:
            for r in res:
                if r[1] is not None and r[2] is None:
                    r[3] += "\nmodel: " + em[-500:]
    return res


# ----------------------------------------------------------------------------- independent property oracle
REL_BOUND = Fraction(1, 2 ** 23) + Fraction(1, 2 ** 48)       # (1+u)^2 - 1, u = 2^-24   (theorem C10_mean_value, part 3)


def in_domain(case):
    """C10 speaks about: k >= 2, integer pixel types, one image shape, no reset, an output ring the frame fits in."""
    fr = frames_of(case)
    if case["k"] < 2:
        return False
    if any(op[0] == "r" for st in case["steps"] for op in st):
        return False
    if not fr:
        return True
    if any(f[1] not in INT_TYPES for f in fr):
        return False
    if len({(f[2], f[3], f[4], f[5]) for f in fr}) != 1:
        return False
    npx = fr[0][2] * fr[0][3] * fr[0][4]
    if align8(HEADER + 4 * npx) >= case["outcap"]:
        return False
    return True


STATS = {"oracle:pixels compared with the exact rational mean": 0, "oracle:pixels outside k*max < 2^24 (skipped)": 0,
         "oracle:windows checked": 0}


def oracle(case, ir, stats=None):
    """Direct statement of C10 over the implementation's outputs.  Returns list of (key, message)."""
    v = []
    stats = stats if stats is not None else {}
    if not in_domain(case):
        return v
    fr = frames_of(case)
    k = case["k"]
    n = len(fr)
    outs = ir["outs"]
    if ir["ecode"] != 0:
        v.append(("filter-thread-error", "video_filter_thread returned %r on integer input of one shape" % ir["ecode"]))
        return v
    if ir["left"]:
        v.append(("input-left-unread",
                  "%d of the %d input frames are still unread in filter.in after video_filter_thread returned "
                  "(skipped: they are in no output frame of this acquisition)" % (ir["left"], n)))
    q, rem = divmod(n, k)
    if ir["left"]:
        pass    # the count below is off as a consequence; report the cause only
    elif not (len(outs) == q or (rem and len(outs) == q + 1)):
        v.append(("frame-count", "%d input frames, window %d: expected %d mean frame(s)%s, the sink received %d"
                  % (n, k, q, " plus at most one for the %d trailing frames" % rem if rem else "", len(outs))))
    if not fr:
        return v
    c, w, h, p = fr[0][2:6]
    npx = c * w * h
    inv = frac_of_bits(round32(Fraction(1, k)))
    pow2 = (k & (k - 1)) == 0
    # frames left unread make the last emitted frame an un-normalised partial sum: a consequence already reported above
    q_checked = (n - (ir["left"] or 0)) // k
    for i, o in enumerate(outs[:q_checked]):
        win = fr[i * k:(i + 1) * k]
        if int(o["id"]) != win[0][6]:
            v.append(("frame-id", "output %d has frame_id %s, the first frame of window %d has %d" % (i, o["id"], i, win[0][6])))
        if int(o["type"]) != F32:
            v.append(("frame-type", "output %d has sample type %s, not f32" % (i, o["type"])))
            continue
        if o["dims"] != "%d,%d,%d,%d" % (c, w, h, p) or o["strides"] != "1,%d,%d,%d" % (c, c * w, c * w * h):
            v.append(("frame-shape", "output %d has dims %s strides %s, input %d,%d,%d,%d" % (i, o["dims"], o["strides"], c, w, h, p)))
            continue
        if int(o["bytes"]) != align8(HEADER + 4 * npx):
            v.append(("frame-bytes", "output %d has bytes_of_frame %s, expected %d" % (i, o["bytes"], align8(HEADER + 4 * npx))))
        px = [] if o["px"] in ("-", "?") else [int(x, 16) for x in o["px"].split(",")]
        if len(px) != npx:
            v.append(("frame-shape", "output %d carries %d pixels, expected %d" % (i, len(px), npx)))
            continue
        stats["oracle:windows checked"] = stats.get("oracle:windows checked", 0) + 1
        cols = [decode(f[1], f[7]) for f in win]
        for j in range(npx):
            col = [cc[j] for cc in cols]
            s = 0
            exact_domain = True
            for x in col:
                s += x
                if abs(s) > (1 << 24):
                    exact_domain = False
            if not exact_domain:
                stats["oracle:pixels outside k*max < 2^24 (skipped)"] = stats.get("oracle:pixels outside k*max < 2^24 (skipped)", 0) + 1
                continue            # k*maxval >= 2^24: outside C10_sum_exact (partial); the differential still compares bits
            stats["oracle:pixels compared with the exact rational mean"] = stats.get("oracle:pixels compared with the exact rational mean", 0) + 1
            want = round32(s * inv)
            got = px[j]
            mean = Fraction(s, k)
            gv = frac_of_bits(got)
            if got != want:
                v.append(("mean-value",
                          "window %d pixel %d: inputs %s, window %d: the sink received bits %08x (= %s), the float mean "
                          "round32(sum * round32(1/k)) of the exact sum %d is %08x (= %s)"
                          % (i, j, col if len(col) <= 12 else str(col[:12]) + "...", k, got,
                             "nan/inf" if gv is None else "%.9g" % float(gv), s, want, "%.9g" % float(frac_of_bits(want)))))
                break
            if gv is None or abs(gv - mean) > abs(mean) * REL_BOUND or (pow2 and gv != mean) or abs(gv - mean) >= 2 * ulp32(mean):
                v.append(("mean-accuracy", "window %d pixel %d: %08x is not within the proved distance of the exact mean %s" % (i, j, got, mean)))
                break
        if v and v[-1][0] in ("mean-value", "mean-accuracy"):
            break
    return v


# ----------------------------------------------------------------------------- minimisation
def minimise(impl, case, key):
    def fails_case(c):
        try:
            rc, o, e = run_exe(impl, case_lines(c), timeout=30)
            b = split_blocks(o)
            if not b:
                return False
            ir = parse_impl(b[0])
            if not ir["complete"] or ir["ecode"] is None:
                return key == "crash"
            return any(kk == key for kk, _ in oracle(c, ir))
        except Exception:
            return False

    best = case
    # 1. fewer frames (ids are kept; the oracle takes the first id of each window from the candidate itself)
    items = [(j, op) for j, st in enumerate(case["steps"]) for op in st]

    def rebuild(its, base):
        steps = [[] for _ in base["steps"]]
        for j, op in its:
            steps[j].append(op)
        c = dict(base)
        c["steps"] = steps
        return c

    try:
        its = vlib.ddmin(items, lambda cand: fails_case(rebuild(cand, best)), max_tests=400)
        if fails_case(rebuild(its, best)):
            best = rebuild(its, best)
        # 2. drop empty steps
        c = dict(best)
        c["steps"] = [st for st in best["steps"] if st] or [[]]
        if fails_case(c):
            best = c
        # 3. one pixel
        fr = frames_of(best)
        if fr and all(f[1] in INT_TYPES for f in fr):
            def onepx(op):
                if op[0] != "f":
                    return op
                bpp = BPP[op[1]]
                return ("f", op[1], 1, 1, 1, 1, op[6], op[7][:2 * bpp])
            c = dict(best)
            c["steps"] = [[onepx(op) for op in st] for st in best["steps"]]
            c["outcap"] = max(best["outcap"], 256)
            if fails_case(c):
                best = c
    except Exception:
        pass
    return best


def replay_obj(ctx, impl, case, msg):
    ls = case_lines(case)
    rc, o, e = run_exe(impl, ls, timeout=30)
    return {"what": msg, "case": ls, "impl_output": o.split("\n")[:60], "stderr": e[-1500:],
            "how": "feed the lines of `case` to .build/%s/h_filter (built by this check from %s: harness/h_filter.c + the tree's "
                   "filter.c, channel.c, frame_iterator.c, throttler.c, components.c); O lines are the frames the sink received, "
                   "L the input frames left unread" % (ctx.prop, vlib.REPO)}


# ----------------------------------------------------------------------------- the check
def build(ctx):
    orac = ctx.oracle_build()
    here = os.path.join(ctx.famdir, "harness")
    R = vlib.REPO
    impl = ctx.cc([os.path.join(here, "h_filter.c"), RT + "/channel.c", RT + "/frame_iterator.c", RT + "/throttler.c",
                   PROPS + "/device/props/components.c"], "h_filter",
                  flags=["-I" + os.path.join(here, "stubplat"), "-I" + os.path.join(R, RT), "-I" + os.path.join(R, VR),
                         "-I" + os.path.join(R, PROPS), "-I" + os.path.join(R, LOGGER), "-DNO_UNIT_TESTS"])
    return orac, impl


def fold(ctx, impl, results, origin):
    for case, ir, mlines, err in results:
        fr = frames_of(case)
        sig = "\n".join(case_lines(case))
        if ir is None or not ir["complete"] or ir["ecode"] is None:
            if ir is None and not err:
                continue
            if ir is not None and any(x.startswith("INFULL") or x.startswith("INREFUSED") for x in ir["notes"]):
                ctx.count("gen:input-ring-too-small (case skipped)")
                continue
            ctx.violation("the implementation aborted (sanitizer report or crash) while filtering: " + (err or "")[-800:],
                          {"case": case_lines(case), "stderr": (err or "")[-3000:]}, key="crash")
            continue
        dom = in_domain(case)
        k = case["k"]
        nontriv = dom and len(fr) >= k and len(ir["slices"]) >= 2
        ctx.case(sig, nontrivial=nontriv)
        ctx.count("domain:in" if dom else "domain:out (differential only)")
        # where did the laps of the two rings fall?
        sb, acc = [], 0
        for st in case["steps"]:
            a0 = acc
            acc += sum(1 for op in st if op[0] == "f")
            sb.append((a0, acc))
        cuts, acc = set(), 0
        for n_, _, _ in ir["slices"]:
            acc += n_
            cuts.add(acc)
        split = [j for j, (a0, b0) in enumerate(sb) if any(a0 < x < b0 for x in cuts)]
        if split:
            ctx.count("rings:a packet crossed a lap of filter.in (read in two parts)")
            if split[-1] == len(sb) - 1 or (ir["left"] and ir["ecode"] == 0):
                ctx.count("rings:the LAST packet crossed a lap of filter.in (flush needs two reads)")
        if fr:
            npx0 = fr[0][2] * fr[0][3] * fr[0][4]
            if len(ir["outs"]) * align8(HEADER + 4 * npx0) > case["outcap"]:
                ctx.count("rings:output ring lapped (accumulator mapped on its own old output)")
        if case["prefill"] != 0:
            ctx.count("rings:non-zero prefill")
        if ir["ecode"] == 1:
            ctx.count("impl:error-exit")
        if not ir["sane"]:
            ctx.broken_tie("harness sanity: lock discipline / thread flags after video_filter_thread", {"case": case_lines(case), "notes": ir["notes"]})
        if not ir["idsok"]:
            ctx.broken_tie("the slices read by process_data do not hold the written frames in order (ring problem, C01/C05)",
                           {"case": case_lines(case), "slices": ir["slices"]})
        # property oracle on the implementation's own output
        st = {}
        viols = oracle(case, ir, st)
        for kx, nx in st.items():
            ctx.count(kx, nx)
        for key, msg in viols:
            size = sum(len(l) for l in case_lines(case))
            slot = ctx.extra.setdefault("_found", {}).setdefault(key, [0, None, None, None])
            slot[0] += 1
            if slot[1] is None or size < slot[1]:
                slot[1:] = [size, case, msg]
        # differential
        if mlines is None:
            ctx.broken_tie("model oracle produced no output for a case", {"case": case_lines(case), "stderr": err[-500:]})
            continue
        if mlines != ir["canon"]:
            d = next((i for i in range(min(len(mlines), len(ir["canon"]))) if mlines[i] != ir["canon"][i]), min(len(mlines), len(ir["canon"])))
            ctx.broken_tie("model/implementation disagreement on a filter run (%s)" % origin,
                           {"case": case_lines(case)[:40], "line": d,
                            "model": mlines[d] if d < len(mlines) else "<none>", "impl": ir["canon"][d] if d < len(ir["canon"]) else "<none>"})
        else:
            ctx.traces_validated += 1


def report(ctx, impl):
    """One violation per failure class: the smallest failing case of the run, minimised further."""
    found = ctx.extra.pop("_found", {})
    for key in sorted(found):
        n, size, case, msg = found[key]
        small = minimise(impl, case, key)
        ir = None
        try:
            b = split_blocks(run_exe(impl, case_lines(small), timeout=30)[1])
            ir = parse_impl(b[0]) if b else None
        except Exception:       # noqa: BLE001
            pass
        msgs = [m for kk, m in oracle(small, ir)] if ir and ir["ecode"] is not None else []
        mm = next((m for kk, m in oracle(small, ir) if kk == key), msg) if msgs else msg
        ctx.violation("%s  [%d failing case(s) of this class in the run; smallest one minimised]" % (mm, n),
                      replay_obj(ctx, impl, small, mm), key=key)
        ctx.count("violations:" + key, n)


def run(ctx):
    ctx.coq_prove(["Properties_C10"])
    orac, impl = build(ctx)
    thorough = ctx.tier == "thorough"
    ctx.rule = ("a case = window size k (2..5 68%, 6..20 20%, 32..256 9%, 257..512 3%), one integer sample type (u8,u16,i8,i16,u10,u12,u14), "
                "an image shape (channels 1..3, width, height, planes; camera strides), N = q*k + r frames (r != 0 in 70%), pixel values "
                "(random / all max / all min / small / alternating extremes / edges / full 16-bit container for u10-u14), a packetisation "
                "(one packet, one frame per packet, random cuts with or without empty packets), ring capacities of a few frames, a non-zero "
                "prefill byte for both rings; 19% of the cases leave the property's domain on purpose (shape change, f32/unknown type, "
                "type switch, reset signal, accumulator larger than the output ring) and are compared with the model only; "
                "plus an exhaustive sweep: every packetisation (2^(N-1) compositions) of N <= 7 (quick) / 9 (thorough) frames for k = 2,3 (,4,5). "
                "The real video_filter_thread runs them; non-trivial = in the domain, at least one complete window and at least two "
                "process_data calls; distinct = distinct case text")
    ctx.assumptions = [
        "single filter thread; source and sink are played by the harness at the filter's scheduling points (throttler sleep, blocking write_map)",
        "x86-64 SSE/AVX single precision: x[i] += y[i] and x[i] *= inv are binary32 operations, round to nearest even, no excess precision, no FMA contraction (there is no a*b+c)",
        "frame_count and k below 2^24 so that (float)frame_count is exact; 64-bit wrap of frame_count not modelled",
        "no NaN in the ring memory the accumulator lands on (prefill byte 0xff excluded): NaN payload propagation of the hardware is not modelled",
        "timestamps and hardware_frame_id of output frames are not compared (not determined by the property)",
        "exact-sum claims only for k * max|pixel| < 2^24 (u16 with k > 256 is outside C10_sum_exact; such cases are still compared bit for bit with the model)",
    ]
    ctx.trusted = vlib.default_trusted() + [
        "Flocq 4.1.0 (IEEE754.Binary, IEEE754.Bits) as the definition of binary32 arithmetic; Coq Reals axioms as listed per theorem",
        "harness/stubplat/platform.h + the stubs in h_filter.c stand in for the platform layer; channel_read_map inside filter.c is "
        "interposed by a macro that logs the slice and calls the real function"]

    def count(kx):
        ctx.count(kx)

    # corpus first
    cdir = os.path.join(vlib.VERIF, "corpus", ctx.prop)
    corpus = []
    if os.path.isdir(cdir):
        for fn in sorted(os.listdir(cdir)):
            c = parse_case(open(os.path.join(cdir, fn)).read().split("\n"))
            if c:
                c["tags"] = ["corpus:" + fn]
                corpus.append(c)
    if ctx.replay_file:
        try:
            import json
            rp = json.load(open(ctx.replay_file))
            c = parse_case(rp["replay"]["case"])
            if c:
                corpus.append(c)
        except Exception as ex:     # noqa: BLE001
            ctx.notes.append("replay file not understood: %s" % ex)
    if corpus:
        fold(ctx, impl, run_batch(orac, impl, corpus), "corpus")
        ctx.count("corpus cases", len(corpus))
    ncases = 30000 if thorough else 6000
    cases = sweep_cases(ctx.rng, thorough, count)
    cases += [gen_case(ctx.rng, thorough, count) for _ in range(ncases)]
    for c in cases[-3:]:
        ctx.sample({"case": [l[:160] for l in case_lines(c)[:12]], "tags": c["tags"]})
    shards = [s for s in vlib.shard(cases, vlib.NPROC * (4 if thorough else 1)) if s]
    results = vlib.parallel(lambda sh: run_batch(orac, impl, sh), shards)
    for rs in results:
        fold(ctx, impl, rs, "generated")
    report(ctx, impl)
    ctx.extra["partial"] = ("k*maxval >= 2^24 (u16 with k > 256) is outside C10_sum_exact; the whole-runtime part "
                            "(C10_reaches_storage under thread schedules, D13) is the integrator's")
