(* Line-protocol driver around the extracted filter model (Average.AccModel / Average.Window).
   Same case syntax as harness/h_filter.c; here a step is exactly one process_data call:

     new <k> <incap> <outcap> <prefill byte, hex>
     f <type> <channels> <width> <height> <planes> <frame_id> <pixel bytes, hex | ->
     r                  the reset signal is pending during this call
     p                  next call
     acq <k>            the thread returns; next acquisition on the SAME filter instance with window k
                        (Window.run_acquisitions: the fold of the per-acquisition model over the acquisitions)
     end

   Output (compared line by line with the harness after '#' comments are stripped):
     NEW ..
     A <i> k=<k>                  acquisition i begins
     S <n> reset=<b> ids=<..>     echo of the step
     O bytes=.. id=.. type=.. dims=.. strides=.. px=<bit patterns>      frames committed by that call
     O ..                         frame committed by Finalize
     T ecode=<0|1>
     A <i+1> k=<k'> ...           (one A .. T group per acquisition)
     END

   A second command, for the arithmetic alone:
     mean <prefill word, hex> <v1> <v2> ...      prints  M <bits of the sum> <bits of the emitted value>  *)
open Avgmodel

let rec pos_of_int n = if n = 1 then XH else if n land 1 = 0 then XO (pos_of_int (n lsr 1)) else XI (pos_of_int (n lsr 1))
let z_of_int n = if n = 0 then Z0 else if n > 0 then Zpos (pos_of_int n) else Zneg (pos_of_int (-n))
let rec int_of_pos = function XH -> 1 | XO p -> 2 * int_of_pos p | XI p -> 2 * int_of_pos p + 1
let int_of_z = function Z0 -> 0 | Zpos p -> int_of_pos p | Zneg p -> - (int_of_pos p)
let rec nat_of_int n = if n <= 0 then O else S (nat_of_int (n - 1))

let hexv c = match c with
  | '0'..'9' -> Char.code c - 48
  | 'a'..'f' -> Char.code c - 87
  | 'A'..'F' -> Char.code c - 55
  | _ -> -1

let bytes_of_hex s =
  let n = String.length s / 2 in
  let rec go i acc = if i < 0 then acc else go (i - 1) (z_of_int (hexv s.[2 * i] * 16 + hexv s.[2 * i + 1]) :: acc) in
  if s = "-" then [] else go (n - 1) []

let shape_of ty c w h p =
  (* strides as the cameras compute them: st[0] = 1, st[i] = st[i-1] * dims[i-1] *)
  let sc = 1 in let sw = sc * c in let sh = sw * w in let sp = sh * h in
  { d_c = z_of_int c; d_w = z_of_int w; d_h = z_of_int h; d_p = z_of_int p;
    s_c = z_of_int sc; s_w = z_of_int sw; s_h = z_of_int sh; s_p = z_of_int sp; ty = z_of_int ty }

let print_oframe (o : oframe) =
  let s = o.o_shape in
  Printf.printf "O bytes=%d id=%d type=%d dims=%d,%d,%d,%d strides=%d,%d,%d,%d px="
    (int_of_z o.o_bytes) (int_of_z o.o_id) (int_of_z s.ty)
    (int_of_z s.d_c) (int_of_z s.d_w) (int_of_z s.d_h) (int_of_z s.d_p)
    (int_of_z s.s_c) (int_of_z s.s_w) (int_of_z s.s_h) (int_of_z s.s_p);
  (match o.o_px with
   | [] -> print_string "-"
   | l -> print_string (String.concat "," (List.map (fun x -> Printf.sprintf "%08x" (int_of_z (f32_bits x))) l)));
  print_newline ()

let () =
  let outcap = ref 0 and prefill = ref 0 in
  let k = ref 0 in
  let acqs = ref [] in   (* finished acquisitions, reversed: (k, steps) *)
  let steps = ref [] and cur = ref [] and cur_reset = ref false and have = ref false in
  let close_step () = steps := (List.rev !cur, !cur_reset) :: !steps; cur := []; cur_reset := false in
  let close_acq () = close_step (); acqs := (!k, List.rev !steps) :: !acqs; steps := [] in
  (try
     while true do
       let line = String.trim (input_line stdin) in
       let w = List.filter (fun s -> s <> "") (String.split_on_char ' ' line) in
       match w with
       | [] -> ()
       | s :: _ when String.length s > 0 && s.[0] = '#' -> ()
       | ["new"; a; b; c; d] ->
         k := int_of_string a; outcap := int_of_string c; prefill := int_of_string ("0x" ^ d);
         acqs := []; steps := []; cur := []; cur_reset := false; have := true;
         Printf.printf "NEW %s %s %s %02x\n" a b c !prefill
       | "mean" :: pf :: vs ->
         let x0 = f32_of_bits (z_of_int (int_of_string ("0x" ^ pf))) in
         let vs = List.map (fun v -> z_of_int (int_of_string v)) vs in
         Printf.printf "M %08x %08x\n" (int_of_z (f32_bits (acc_pixel x0 vs))) (int_of_z (f32_bits (mean_pixel x0 vs)))
       | ["f"; ty; c; w_; h; p; id; hex] when !have ->
         let sh = shape_of (int_of_string ty) (int_of_string c) (int_of_string w_) (int_of_string h) (int_of_string p) in
         cur := { f_id = z_of_int (int_of_string id); f_shape = sh; f_data = bytes_of_hex hex } :: !cur
       | ["r"] when !have -> cur_reset := true
       | ["p"] when !have -> close_step ()
       | ["acq"; a] when !have -> close_acq (); k := int_of_string a
       | ["end"] when !have ->
         close_acq ();
         let acqs_l = List.rev !acqs in
         let pf = !prefill in
         let dirty = f32_of_bits (z_of_int (pf lor (pf lsl 8) lor (pf lsl 16) lor (pf lsl 24))) in
         let env_of kk = { e_k = z_of_int kk; e_outcap = z_of_int !outcap; e_dirty = dirty } in
         (* the whole history of the filter instance in one call of the extracted fold *)
         let results = run_acquisitions (List.map (fun (kk, st) -> (env_of kk, st)) acqs_l) in
         List.iteri (fun i ((kk, steps_l), ((outs, fin), ec)) ->
             Printf.printf "A %d k=%d\n" i kk;
             (* run_steps stops at the first failing call: outs may be shorter than steps *)
             let rec pr ss os = match ss, os with
               | (fr, rs) :: ss', o :: os' ->
                 Printf.printf "S %d reset=%d ids=%s\n" (List.length fr) (if rs then 1 else 0)
                   (if fr = [] then "-" else String.concat "," (List.map (fun f -> string_of_int (int_of_z f.f_id)) fr));
                 List.iter print_oframe o;
                 pr ss' os'
               | _, _ -> () in
             pr steps_l outs;
             List.iter print_oframe fin;
             Printf.printf "T ecode=%d\n" (int_of_z ec))
           (List.combine acqs_l results);
         print_string "END\n";
         have := false
       | _ -> Printf.printf "BADOP %s\n" line
     done
   with End_of_file -> ())
