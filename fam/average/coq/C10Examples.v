(* C10Examples.v -- concrete data for the non-vacuity Examples of Properties_C10.v (definitions only). *)
From Coq Require Import ZArith List Bool.
From Average Require Import AccModel Window.
Import ListNotations.
Open Scope Z_scope.

(* u8 frames of 2x1 pixels (camera strides 1,1,2,2) *)
Definition ex_sh : shape := mkShape 1 2 1 1 1 1 2 2 0.
Definition ex_frame (id a b : Z) : frame := mkFrame id ex_sh [a; b].
Definition ex_fs : list frame :=
  [ex_frame 7 10 255; ex_frame 8 20 255; ex_frame 9 1 0; ex_frame 10 2 0; ex_frame 11 3 4].
Definition ex_env : env := mkEnv 2 1024 (f32_of_bits 1061109567).
Definition ex_steps : list (list frame * bool) :=
  [([ex_frame 7 10 255], false);
   ([ex_frame 8 20 255; ex_frame 9 1 0; ex_frame 10 2 0], false);
   ([], false);
   ([ex_frame 11 3 4], false)].
Definition ex_steps' : list (list frame * bool) := [(ex_fs, false)].



(* what is compared of an output frame: header fields and pixel bit patterns *)
Definition obs (o : oframe) := (o_id o, o_bytes o, o_shape o, map f32_bits (o_px o)).
