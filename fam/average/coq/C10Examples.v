(* C10Examples.v -- concrete data for the non-vacuity Examples of Properties_C10.v (definitions only). *)
From Coq Require Import ZArith List Bool.
From Average Require Import AccModel Window.
Import ListNotations.
Open Scope Z_scope.

(* u8 frames of 2x1 pixels (camera strides 1,1,2,2) *)
Definition ex_sh : shape := mkShape 1 2 1 1 1 1 2 2 0.
Definition ex_frame (id a b : Z) : frame := mkFrame id ex_sh [a; b].
Definition ex_fs : list frame :=
  [ex_frame 7 10 255; ex_frame 8 20 255; ex_frame 9 1 0; ex_frame 10 2 0; ex_frame 11 3 4].
Definition ex_env : env := mkEnv 2 1024 (f32_of_bits 1061109567).
Definition ex_steps : list (list frame * bool) :=
  [([ex_frame 7 10 255], false);
   ([ex_frame 8 20 255; ex_frame 9 1 0; ex_frame 10 2 0], false);
   ([], false);
   ([ex_frame 11 3 4], false)].
Definition ex_steps' : list (list frame * bool) := [(ex_fs, false)].



(* what is compared of an output frame: header fields and pixel bit patterns *)
Definition obs (o : oframe) := (o_id o, o_bytes o, o_shape o, map f32_bits (o_px o)).

(* a history of three acquisitions on one filter instance:
     1. window 2 on the five frames above -- ends INSIDE a window (one trailing frame is flushed),
     2. window 1: the source bypasses the filter (source.c: enable_filter = k > 1), its thread sees no frame,
     3. window 3 on four frames whose ids start again at 0, two packets. *)
Definition ex_fs3 : list frame := [ex_frame 0 3 30; ex_frame 1 6 60; ex_frame 2 9 90; ex_frame 3 1 2].
Definition ex_env1 : env := mkEnv 1 1024 (f32_of_bits 1061109567).
Definition ex_env3 : env := mkEnv 3 1024 (f32_of_bits 1061109567).
Definition ex_steps3 : list (list frame * bool) :=
  [([ex_frame 0 3 30], false); ([ex_frame 1 6 60; ex_frame 2 9 90; ex_frame 3 1 2], false)].
Definition ex_acqs : list acquisition := [(ex_env, ex_steps); (ex_env1, [([], false)]); (ex_env3, ex_steps3)].
