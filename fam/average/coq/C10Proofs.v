(* C10Proofs.v -- the statements of Properties_C10.v in their final form (frame level), property C10.
   sum_exact_frames, mean_value_frames: arithmetic over whole frames; windows_full: bookkeeping, spelled out;
   filter_emits_means: both together, from a run of the filter thread to the real value of every emitted pixel. *)
From Coq Require Import ZArith Reals Lia Lra List Bool Arith PeanoNat.
From Flocq Require Import Core BinarySingleNaN Binary Bits.
From Average Require Import AccModel Window AccProofs WindowProofs.
Import ListNotations.
Open Scope Z_scope.

(* the sum of pixel i over a list of decoded frames *)
Definition column (i : nat) (frames : list (list Z)) : list Z := map (fun f => nth i f 0) frames.

Definition bounded_by (M : Z) (frames : list (list Z)) : Prop := Forall (Forall (fun v => Z.abs v <= M)) frames.

Lemma column_bound : forall M i frames, 0 <= M -> bounded_by M frames -> Forall (fun v => Z.abs v <= M) (column i frames).
Proof.
  intros M i frames HM H. unfold column. rewrite Forall_map.
  eapply Forall_impl; [|exact H]. intros f Hf.
  destruct (Nat.lt_ge_cases i (length f)) as [L|L].
  - rewrite Forall_forall in Hf. apply Hf. now apply nth_In.
  - rewrite nth_overflow by assumption. simpl. lia.
Qed.

Lemma column_length : forall i frames, length (column i frames) = length frames.
Proof. intros. unfold column. apply map_length. Qed.

(* C10_sum_exact *)
Lemma sum_exact_frames : forall (frames : list (list Z)) (M : Z) (n i : nat),
  bounded_by M frames ->
  Forall (fun f => (i < length f)%nat) frames ->
  (i < n)%nat ->
  Z.of_nat (length frames) * M < 2 ^ 24 ->
  let acc := acc_frames (repeat f32_zero n) frames in
  let S := zsum (column i frames) in
  nth i acc f32_zero = f32_of_Z S /\
  B2R 24 128 (nth i acc f32_zero) = IZR S /\
  is_finite 24 128 (nth i acc f32_zero) = true /\
  Z.abs S < 2 ^ 24.
Proof.
  intros frames M n i HB HL Hi Hk acc S. unfold acc, S.
  rewrite acc_frames_nth by (rewrite ?repeat_length; auto).
  rewrite nth_repeat_zero. fold (column i frames).
  destruct frames as [|f0 fr].
  - simpl. repeat split; try reflexivity; try lia.
  - assert (0 <= M).
    { inversion HB as [|? ? H0 _]; subst. inversion HL as [|? ? L0 _]; subst.
      destruct f0 as [|v f0]; [simpl in L0; lia|]. inversion H0; subst. lia. }
    apply sum_exact_pixel with (M := M).
    + now apply column_bound.
    + now rewrite column_length.
Qed.

Lemma nth_normalize : forall l inv i, (i < length l)%nat ->
  nth i (normalize l inv) f32_zero = f32_mul (nth i l f32_zero) inv.
Proof.
  intros l inv i H. unfold normalize.
  rewrite (nth_indep _ f32_zero (f32_mul f32_zero inv)) by now rewrite map_length.
  apply (map_nth (fun x => f32_mul x inv)).
Qed.

(* C10_mean_value *)
Lemma mean_value_frames : forall (frames : list (list Z)) (M : Z) (n i : nat),
  bounded_by M frames ->
  Forall (fun f => (i < length f)%nat) frames ->
  (i < n)%nat ->
  frames <> [] ->
  1 <= M ->
  Z.of_nat (length frames) * M < 2 ^ 24 ->
  let k := Z.of_nat (length frames) in
  let out := nth i (window_mean (repeat f32_zero n) frames) f32_zero in
  let S := zsum (column i frames) in
  B2R 24 128 out = round32 (IZR S * round32 (1 / IZR k)) /\
  is_finite 24 128 out = true /\
  (forall j, 0 <= j -> k = 2 ^ j -> B2R 24 128 out = (IZR S / IZR k)%R) /\
  (Rabs (B2R 24 128 out - IZR S / IZR k) <= Rabs (IZR S / IZR k) * (bpow radix2 (-23) + bpow radix2 (-48)))%R.
Proof.
  intros frames M n i HB HL Hi NE HM Hk k out S.
  destruct (sum_exact_frames frames M n i HB HL Hi Hk) as (E & _ & _ & HS).
  fold S in E, HS.
  assert (Hk1 : 1 <= k < 2 ^ 24).
  { unfold k. destruct frames; [congruence|]. simpl length in *. nia. }
  assert (Eout : out = f32_mul (f32_of_Z S) (inv_norm k)).
  { unfold out, window_mean. rewrite nth_normalize by (rewrite acc_frames_length, repeat_length; auto).
    now rewrite E. }
  destruct (mean_of_sum S k HS Hk1) as (V & F).
  rewrite Eout. repeat split; auto.
  - intros j Hj Ej. rewrite V, Ej. apply mean_pow2_exact; auto.
    split; auto. destruct (Z.lt_ge_cases j 24) as [L|L]; auto.
    assert (2 ^ 24 <= 2 ^ j) by (apply Z.pow_le_mono_r; lia). lia.
  - rewrite V. now apply mean_rel_error.
Qed.

(* ------------------------------------------------------------------ C10_windows, complete statement *)
Lemma windows_full : forall (e : env) (sh : shape) (steps : list (list frame * bool)) (fs : list frame),
  2 <= e_k e ->
  acc_bytes sh < e_outcap e ->
  is_integer_type (stype_of_code (ty sh)) = true ->
  Forall (fun fr => f_shape fr = sh) fs ->
  Forall (fun s => snd s = false) steps ->
  concat (map fst steps) = fs ->
  let k := Z.to_nat (e_k e) in
  let N := length fs in
  exists outs fin,
    run_thread e steps = (outs, fin, 0) /\
    length outs = length steps /\
    concat outs ++ fin = spec_outputs k fs /\
    length (spec_outputs k fs) = (N / k + (if (N mod k =? 0)%nat then 0 else 1))%nat /\
    (forall i, (i < N / k)%nat ->
       let w := window k i fs in
       let o := nth i (spec_outputs k fs) dummy_oframe in
       length w = k /\
       (forall j, (j < k)%nat -> nth j w dummy_frame = nth (i * k + j) fs dummy_frame) /\
       o_id o = f_id (nth (i * k) fs dummy_frame) /\
       o_shape o = set_type sh code_f32 /\
       o_bytes o = acc_bytes sh /\
       o_px o = window_mean (repeat f32_zero (Z.to_nat (npx sh))) (map frame_values w)) /\
    concat (map (fun i => window k i fs) (seq 0 (N / k))) ++ remainder k fs = fs /\
    length (remainder k fs) = (N mod k)%nat.
Proof.
  intros e sh steps fs Hk Hfit Hint G HR HC k N.
  assert (Hk0 : (2 <= k)%nat) by (unfold k; lia).
  destruct (windows e sh Hk Hfit Hint steps fs HR HC G) as (outs & fin & Hrun & Hl & Ho).
  exists outs, fin. repeat split; auto.
  - apply spec_outputs_length.
  - apply window_length; auto. lia.
  - intros j Hj. now apply window_nth.
  - (* the fields of output i *)
    rename H into Hi.
    assert (Lw : length (window k i fs) = k) by (apply window_length; auto; lia).
    assert (NE : window k i fs <> []) by (intro E; rewrite E in Lw; simpl in Lw; lia).
    rewrite spec_outputs_nth by assumption.
    destruct (mean_frame_fields (window k i fs) dummy_frame NE) as (A & _).
    rewrite A, window_nth by lia. f_equal. f_equal. lia.
  - rename H into Hi.
    assert (Lw : length (window k i fs) = k) by (apply window_length; auto; lia).
    assert (NE : window k i fs <> []) by (intro E; rewrite E in Lw; simpl in Lw; lia).
    rewrite spec_outputs_nth by assumption.
    destruct (mean_frame_fields (window k i fs) dummy_frame NE) as (_ & B & _).
    rewrite B, window_nth by lia. f_equal.
    rewrite Forall_forall in G. apply G. apply nth_In.
    assert (k * (N / k) <= N)%nat by (apply Nat.mul_div_le; lia). unfold N in *. nia.
  - rename H into Hi.
    assert (Lw : length (window k i fs) = k) by (apply window_length; auto; lia).
    assert (NE : window k i fs <> []) by (intro E; rewrite E in Lw; simpl in Lw; lia).
    rewrite spec_outputs_nth by assumption.
    destruct (mean_frame_fields (window k i fs) dummy_frame NE) as (_ & _ & C & _).
    rewrite C, window_nth by lia. f_equal.
    rewrite Forall_forall in G. apply G. apply nth_In.
    assert (k * (N / k) <= N)%nat by (apply Nat.mul_div_le; lia). unfold N in *. nia.
  - rename H into Hi.
    assert (Lw : length (window k i fs) = k) by (apply window_length; auto; lia).
    assert (NE : window k i fs <> []) by (intro E; rewrite E in Lw; simpl in Lw; lia).
    rewrite spec_outputs_nth by assumption.
    destruct (mean_frame_fields (window k i fs) dummy_frame NE) as (_ & _ & _ & D).
    rewrite D, window_nth by lia.
    replace (f_shape (nth (i * k + 0) fs dummy_frame)) with sh; auto.
    symmetry. rewrite Forall_forall in G. apply G. apply nth_In.
    assert (k * (N / k) <= N)%nat by (apply Nat.mul_div_le; lia). unfold N in *. nia.
  - apply windows_partition.
  - apply remainder_length. lia.
Qed.

(* ------------------------------------------------------------------ bookkeeping and arithmetic together *)
Lemma maxval_integer : forall t, is_integer_type t = true -> 128 <= maxval t.
Proof. destruct t; simpl; intros; try discriminate; lia. Qed.

Lemma in_window : forall k i (fs : list frame) fr, In fr (window k i fs) -> In fr fs.
Proof.
  intros k i fs fr H. unfold window in H.
  rewrite <- (firstn_skipn (i * k) fs). apply in_or_app. right.
  rewrite <- (firstn_skipn k (skipn (i * k) fs)). apply in_or_app. now left.
Qed.

Lemma filter_emits_means : forall (e : env) (sh : shape) (steps : list (list frame * bool)) (fs : list frame),
  2 <= e_k e ->
  acc_bytes sh < e_outcap e ->
  is_integer_type (stype_of_code (ty sh)) = true ->
  Forall (fun fr => f_shape fr = sh) fs ->
  Forall (fun fr => Forall is_byte (f_data fr)) fs ->
  Forall (fun fr => length (frame_values fr) = Z.to_nat (npx sh)) fs ->
  e_k e * maxval (stype_of_code (ty sh)) < 2 ^ 24 ->
  Forall (fun s => snd s = false) steps ->
  concat (map fst steps) = fs ->
  let k := Z.to_nat (e_k e) in
  forall i j, (i < length fs / k)%nat -> (j < Z.to_nat (npx sh))%nat ->
    let out := nth j (o_px (nth i (run_outputs e steps) dummy_oframe)) f32_zero in
    let S := zsum (column j (map frame_values (window k i fs))) in
    Z.abs S < 2 ^ 24 /\
    B2R 24 128 out = round32 (IZR S * round32 (1 / IZR (e_k e))) /\
    is_finite 24 128 out = true /\
    (forall p, 0 <= p -> e_k e = 2 ^ p -> B2R 24 128 out = (IZR S / IZR (e_k e))%R) /\
    (Rabs (B2R 24 128 out - IZR S / IZR (e_k e)) <=
     Rabs (IZR S / IZR (e_k e)) * (bpow radix2 (-23) + bpow radix2 (-48)))%R.
Proof.
  intros e sh steps fs Hk Hfit Hint G GB GL HM HR HC k i j Hi Hj out S.
  destruct (windows_full e sh steps fs Hk Hfit Hint G HR HC) as (outs & fin & Hrun & _ & Ho & _ & Hw & _).
  fold k in Ho, Hw.
  destruct (Hw i Hi) as (Lw & _ & _ & _ & _ & Hpx).
  assert (Eout : out = nth j (window_mean (repeat f32_zero (Z.to_nat (npx sh))) (map frame_values (window k i fs))) f32_zero).
  { unfold out, run_outputs. rewrite Hrun, Ho, Hpx. reflexivity. }
  set (t := stype_of_code (ty sh)) in *.
  set (frames := map frame_values (window k i fs)) in *.
  assert (Lf : length frames = k) by (unfold frames; now rewrite map_length).
  assert (Hin : forall fr, In fr (window k i fs) -> In fr fs) by (intros fr; apply in_window).
  assert (HB : bounded_by (maxval t) frames).
  { unfold bounded_by, frames. rewrite Forall_map. rewrite Forall_forall. intros fr Hfr.
    apply Hin in Hfr. rewrite Forall_forall in G, GB.
    unfold frame_values. rewrite (G fr Hfr). fold t. apply decode_bound. now apply GB. }
  assert (HL : Forall (fun f => (j < length f)%nat) frames).
  { unfold frames. rewrite Forall_map. rewrite Forall_forall. intros fr Hfr.
    apply Hin in Hfr. rewrite Forall_forall in GL. now rewrite (GL fr Hfr). }
  assert (NE : frames <> []) by (intro E; rewrite E in Lf; simpl in Lf; unfold k in Lf; lia).
  assert (HM1 : 1 <= maxval t) by (pose proof (maxval_integer t Hint); lia).
  assert (Kk : Z.of_nat (length frames) = e_k e) by (rewrite Lf; unfold k; lia).
  assert (HK : Z.of_nat (length frames) * maxval t < 2 ^ 24) by now rewrite Kk.
  destruct (mean_value_frames frames (maxval t) (Z.to_nat (npx sh)) j HB HL Hj NE HM1 HK) as (V & F & P & R).
  destruct (sum_exact_frames frames (maxval t) (Z.to_nat (npx sh)) j HB HL Hj HK) as (_ & _ & _ & HS).
  rewrite Kk in V, P, R. fold S in V, P, R, HS. rewrite <- Eout in V, F, P, R.
  repeat split; auto.
Qed.
