(* Properties_C10.v -- C10 "Frame averaging emits the exact mean of each window of consecutive frames"
   (filter level: arithmetic + window bookkeeping of filter.c; the whole-runtime part, C10_reaches_storage under
   thread schedules, is built on top of this family by the pipeline family).

   Only statements, closed by `exact`, their Print Assumptions, and Examples showing that the hypotheses are met
   by reachable, non-trivial inputs.  The model is the code with fixes 01 (accumulator cleared) and 02 (flush
   until drained) applied.

   Notation:  round32 x = round radix2 (FLT_exp (-149) 24) ZnearestE x   (binary32, round to nearest even);
              B2R 24 128 x = the real value of the binary32 number x;  column j frames = pixel j of every frame. *)
From Coq Require Import ZArith Reals List Bool Lia Lra.
From Flocq Require Import Core BinarySingleNaN Binary Bits.
From Average Require Import AccModel Window AccProofs WindowProofs C10Proofs AcqProofs C10Examples.
Import ListNotations.
Open Scope Z_scope.

(* ---------------------------------------------------------------------------------------------------------
   C10_sum_exact.  The accumulator starts at +0 (`repeat f32_zero n`: what fix 01 establishes) and k frames
   whose pixel values are bounded by M with k*M < 2^24 are added: pixel i of the accumulator then IS the
   float of the integer sum S -- the same bit pattern as (float)S, real value exactly S, finite; every one of
   the k binary32 additions was exact.
   PARTIAL with respect to the property's quantifier: k*M >= 2^24 (u16 data with k > 256) is outside. *)
Theorem C10_sum_exact :
  forall (frames : list (list Z)) (M : Z) (n i : nat),
    bounded_by M frames ->
    Forall (fun f => (i < length f)%nat) frames ->
    (i < n)%nat ->
    Z.of_nat (length frames) * M < 2 ^ 24 ->
    let acc := acc_frames (repeat f32_zero n) frames in
    let S := zsum (column i frames) in
    nth i acc f32_zero = f32_of_Z S /\
    B2R 24 128 (nth i acc f32_zero) = IZR S /\
    is_finite 24 128 (nth i acc f32_zero) = true /\
    Z.abs S < 2 ^ 24.
Proof. exact sum_exact_frames. Qed.
Print Assumptions C10_sum_exact.

(* the bound M of each sample type: what accumulate() reads out of the pixel bytes is bounded by maxval
   (255, 65535 for u16 and for the 16-bit containers of u10/u12/u14, 128 for i8, 32768 for i16) *)
Theorem C10_decode_bound :
  forall (t : stype) (bs : list Z), Forall is_byte bs -> Forall (fun v => Z.abs v <= maxval t) (decode t bs).
Proof. exact decode_bound. Qed.
Print Assumptions C10_decode_bound.

(* ---------------------------------------------------------------------------------------------------------
   C10_mean_value.  What the filter emits for pixel i of a complete window of k frames (same hypotheses):
     (1) out = round32 (S * round32 (1/k))      -- this is "the float mean" of the property, as computed
     (2) finite
     (3) = S/k exactly when k is a power of two
     (4) | out - S/k | <= |S/k| * (2^-23 + 2^-48) for every k      (two roundings, each within 2^-24)
   NOT provable, because false: | out - S/k | <= ulp (S/k)  (DESIGN 6.10 expected it) -- see
   one_ulp_bound_refuted below (k = 7, S = 3: 1.14 ulp); (4) gives < 2.0000002 ulp, the worst case found
   by exhaustive search for k <= 300 is 1.49 ulp. *)
Theorem C10_mean_value :
  forall (frames : list (list Z)) (M : Z) (n i : nat),
    bounded_by M frames ->
    Forall (fun f => (i < length f)%nat) frames ->
    (i < n)%nat ->
    frames <> [] ->
    1 <= M ->
    Z.of_nat (length frames) * M < 2 ^ 24 ->
    let k := Z.of_nat (length frames) in
    let out := nth i (window_mean (repeat f32_zero n) frames) f32_zero in
    let S := zsum (column i frames) in
    B2R 24 128 out = round32 (IZR S * round32 (1 / IZR k)) /\
    is_finite 24 128 out = true /\
    (forall j, 0 <= j -> k = 2 ^ j -> B2R 24 128 out = (IZR S / IZR k)%R) /\
    (Rabs (B2R 24 128 out - IZR S / IZR k) <= Rabs (IZR S / IZR k) * (bpow radix2 (-23) + bpow radix2 (-48)))%R.
Proof. exact mean_value_frames. Qed.
Print Assumptions C10_mean_value.

(* ---------------------------------------------------------------------------------------------------------
   C10_windows.  The filter thread (run_thread: any number of process_data calls, then Finalize) on ANY
   packetisation `steps` of N frames of one shape `sh` with an integer sample type, window k >= 2, an output ring
   the accumulator fits in, no reset signal:
     - returns 0, one result per call;
     - what the sink's ring receives, in order, is spec_outputs k fs -- a function of the frames alone, so it
       does not depend on the packet boundaries;
     - that is N/k frames, plus one exactly when N mod k <> 0;
     - output i < N/k belongs to window i = frames [i*k, (i+1)*k): it carries the frame_id of frame i*k, the
       input's dims and strides with sample type f32, bytes_of_frame = align8 (96 + 4*npx), and as pixels the
       window mean started from +0;
     - the windows followed by the remainder are exactly the input (nothing skipped, nothing counted twice);
       the remainder has N mod k < k frames. *)
Theorem C10_windows :
  forall (e : env) (sh : shape) (steps : list (list frame * bool)) (fs : list frame),
    2 <= e_k e ->
    acc_bytes sh < e_outcap e ->
    is_integer_type (stype_of_code (ty sh)) = true ->
    Forall (fun fr => f_shape fr = sh) fs ->
    Forall (fun s => snd s = false) steps ->
    concat (map fst steps) = fs ->
    let k := Z.to_nat (e_k e) in
    let N := length fs in
    exists outs fin,
      run_thread e steps = (outs, fin, 0) /\
      length outs = length steps /\
      concat outs ++ fin = spec_outputs k fs /\
      length (spec_outputs k fs) = (N / k + (if (N mod k =? 0)%nat then 0 else 1))%nat /\
      (forall i, (i < N / k)%nat ->
         let w := window k i fs in
         let o := nth i (spec_outputs k fs) dummy_oframe in
         length w = k /\
         (forall j, (j < k)%nat -> nth j w dummy_frame = nth (i * k + j) fs dummy_frame) /\
         o_id o = f_id (nth (i * k) fs dummy_frame) /\
         o_shape o = set_type sh code_f32 /\
         o_bytes o = acc_bytes sh /\
         o_px o = window_mean (repeat f32_zero (Z.to_nat (npx sh))) (map frame_values w)) /\
      concat (map (fun i => window k i fs) (seq 0 (N / k))) ++ remainder k fs = fs /\
      length (remainder k fs) = (N mod k)%nat.
Proof. exact windows_full. Qed.
Print Assumptions C10_windows.

(* ---------------------------------------------------------------------------------------------------------
   C10_filter_emits_means.  Both parts together, from a run of the filter thread to real numbers: pixel j of the
   i-th frame the sink receives is round32 (S * round32 (1/k)) for the exact integer sum S of pixel j over the
   frames [i*k, (i+1)*k), whatever the packetisation and whatever the ring memory held before (e_dirty e). *)
Theorem C10_filter_emits_means :
  forall (e : env) (sh : shape) (steps : list (list frame * bool)) (fs : list frame),
    2 <= e_k e ->
    acc_bytes sh < e_outcap e ->
    is_integer_type (stype_of_code (ty sh)) = true ->
    Forall (fun fr => f_shape fr = sh) fs ->
    Forall (fun fr => Forall is_byte (f_data fr)) fs ->
    Forall (fun fr => length (frame_values fr) = Z.to_nat (npx sh)) fs ->
    e_k e * maxval (stype_of_code (ty sh)) < 2 ^ 24 ->
    Forall (fun s => snd s = false) steps ->
    concat (map fst steps) = fs ->
    let k := Z.to_nat (e_k e) in
    forall i j, (i < length fs / k)%nat -> (j < Z.to_nat (npx sh))%nat ->
      let out := nth j (o_px (nth i (run_outputs e steps) dummy_oframe)) f32_zero in
      let S := zsum (column j (map frame_values (window k i fs))) in
      Z.abs S < 2 ^ 24 /\
      B2R 24 128 out = round32 (IZR S * round32 (1 / IZR (e_k e))) /\
      is_finite 24 128 out = true /\
      (forall p, 0 <= p -> e_k e = 2 ^ p -> B2R 24 128 out = (IZR S / IZR (e_k e))%R) /\
      (Rabs (B2R 24 128 out - IZR S / IZR (e_k e)) <=
       Rabs (IZR S / IZR (e_k e)) * (bpow radix2 (-23) + bpow radix2 (-48)))%R.
Proof. exact filter_emits_means. Qed.
Print Assumptions C10_filter_emits_means.

(* ---------------------------------------------------------------------------------------------------------
   Several acquisitions on ONE filter instance (acquire.c: configure / start / ... / stop, again and again on the
   same struct video_filter_s; Window.run_acquisitions is the fold of the per-acquisition model over the list of
   acquisitions, handing what one thread held when it returned (end_state) to the entry of the next).

   C10_no_state_between_acquisitions.  For EVERY list of acquisitions and every state `left` the filter might
   have been left in:
     (1) the history is the per-acquisition model applied to each acquisition on its own -- acquisition i
         produces run_thread e_i steps_i, the thread started from frame_count = 0 and no accumulator;
     (2) the result of acquisition i depends on acquisition i alone: two histories that agree at position i
         (and may differ in everything before and after it, and in the state they started from) agree on what
         acquisition i delivers. *)
Theorem C10_no_state_between_acquisitions :
  (forall (left : fstate) (acqs : list acquisition),
     run_acquisitions_from left acqs = map (fun a => run_thread (fst a) (snd a)) acqs) /\
  (forall (left left' : fstate) (acqs acqs' : list acquisition) (i : nat),
     nth_error acqs i = nth_error acqs' i ->
     nth_error (run_acquisitions_from left acqs) i = nth_error (run_acquisitions_from left' acqs') i).
Proof. exact no_state_between_acquisitions. Qed.
Print Assumptions C10_no_state_between_acquisitions.

(* C10_acquisitions_windows.  C10_windows holds for every acquisition of every history: if acquisition number a
   (window k >= 2, one shape, integer type, accumulator fits, no reset) consists of the frames fs in any
   packetisation, then what the sink's ring receives DURING THAT ACQUISITION is spec_outputs k fs -- a function of
   that acquisition's frames alone: window i of ITS frames, id of ITS frame i*k (so the first window starts at its
   first frame), nothing skipped or counted twice -- whatever the other acquisitions of the history were (other
   window sizes incl. 0/1, shapes, sample types, frame counts that are not multiples of their k, errors). *)
Theorem C10_acquisitions_windows :
  forall (acqs : list acquisition) (a : nat) (e : env) (sh : shape) (steps : list (list frame * bool)) (fs : list frame),
    nth_error acqs a = Some (e, steps) ->
    2 <= e_k e ->
    acc_bytes sh < e_outcap e ->
    is_integer_type (stype_of_code (ty sh)) = true ->
    Forall (fun fr => f_shape fr = sh) fs ->
    Forall (fun s => snd s = false) steps ->
    concat (map fst steps) = fs ->
    let k := Z.to_nat (e_k e) in
    let N := length fs in
    exists outs fin,
      nth_error (run_acquisitions acqs) a = Some (outs, fin, 0) /\
      length outs = length steps /\
      acquisition_outputs acqs a = spec_outputs k fs /\
      concat outs ++ fin = spec_outputs k fs /\
      length (spec_outputs k fs) = (N / k + (if (N mod k =? 0)%nat then 0 else 1))%nat /\
      (forall i, (i < N / k)%nat ->
         let w := window k i fs in
         let o := nth i (acquisition_outputs acqs a) dummy_oframe in
         length w = k /\
         (forall j, (j < k)%nat -> nth j w dummy_frame = nth (i * k + j) fs dummy_frame) /\
         o_id o = f_id (nth (i * k) fs dummy_frame) /\
         o_shape o = set_type sh code_f32 /\
         o_bytes o = acc_bytes sh /\
         o_px o = window_mean (repeat f32_zero (Z.to_nat (npx sh))) (map frame_values w)) /\
      concat (map (fun i => window k i fs) (seq 0 (N / k))) ++ remainder k fs = fs /\
      length (remainder k fs) = (N mod k)%nat.
Proof. exact acquisitions_windows. Qed.
Print Assumptions C10_acquisitions_windows.

(* C10_acquisitions_emit_means.  C10_filter_emits_means for every acquisition of every history: pixel j of the
   i-th frame delivered during acquisition a is round32 (S * round32 (1/k)) for the exact integer sum S of pixel j
   over frames [i*k, (i+1)*k) of acquisition a. *)
Theorem C10_acquisitions_emit_means :
  forall (acqs : list acquisition) (a : nat) (e : env) (sh : shape) (steps : list (list frame * bool)) (fs : list frame),
    nth_error acqs a = Some (e, steps) ->
    2 <= e_k e ->
    acc_bytes sh < e_outcap e ->
    is_integer_type (stype_of_code (ty sh)) = true ->
    Forall (fun fr => f_shape fr = sh) fs ->
    Forall (fun fr => Forall is_byte (f_data fr)) fs ->
    Forall (fun fr => length (frame_values fr) = Z.to_nat (npx sh)) fs ->
    e_k e * maxval (stype_of_code (ty sh)) < 2 ^ 24 ->
    Forall (fun s => snd s = false) steps ->
    concat (map fst steps) = fs ->
    let k := Z.to_nat (e_k e) in
    forall i j, (i < length fs / k)%nat -> (j < Z.to_nat (npx sh))%nat ->
      let out := nth j (o_px (nth i (acquisition_outputs acqs a) dummy_oframe)) f32_zero in
      let S := zsum (column j (map frame_values (window k i fs))) in
      Z.abs S < 2 ^ 24 /\
      B2R 24 128 out = round32 (IZR S * round32 (1 / IZR (e_k e))) /\
      is_finite 24 128 out = true /\
      (forall p, 0 <= p -> e_k e = 2 ^ p -> B2R 24 128 out = (IZR S / IZR (e_k e))%R) /\
      (Rabs (B2R 24 128 out - IZR S / IZR (e_k e)) <=
       Rabs (IZR S / IZR (e_k e)) * (bpow radix2 (-23) + bpow radix2 (-48)))%R.
Proof. exact acquisitions_emit_means. Qed.
Print Assumptions C10_acquisitions_emit_means.

(* ---------------------------------------------------------------------------------------------------------
   Non-vacuity: a concrete acquisition that meets every hypothesis above and is not trivial -- u8 frames of
   2 pixels, window 2, five frames (two complete windows and a trailing frame), four packets of sizes 1,3,0,1,
   an output ring of 1 KiB whose memory held 0x3f3f3f3f everywhere. *)
Example windows_hypotheses_met :
  2 <= e_k ex_env /\
  acc_bytes ex_sh < e_outcap ex_env /\
  is_integer_type (stype_of_code (ty ex_sh)) = true /\
  Forall (fun fr => f_shape fr = ex_sh) ex_fs /\
  Forall (fun fr => Forall is_byte (f_data fr)) ex_fs /\
  Forall (fun fr => length (frame_values fr) = Z.to_nat (npx ex_sh)) ex_fs /\
  e_k ex_env * maxval (stype_of_code (ty ex_sh)) < 2 ^ 24 /\
  Forall (fun s => snd s = false) ex_steps /\
  concat (map fst ex_steps) = ex_fs /\
  (length ex_fs mod Z.to_nat (e_k ex_env) <> 0)%nat /\
  (1 < length ex_fs / Z.to_nat (e_k ex_env))%nat.
Proof.
  split; [simpl; lia|].
  split; [reflexivity|].
  split; [reflexivity|].
  split; [repeat constructor|].
  split; [unfold is_byte; repeat (constructor; try lia)|].
  split; [repeat constructor|].
  split; [simpl; lia|].
  split; [repeat constructor|].
  split; [reflexivity|].
  split; simpl; lia.
Qed.

Example windows_example_run :
  map (fun o => (o_id o, o_bytes o, ty (o_shape o), map f32_bits (o_px o))) (run_outputs ex_env ex_steps) =
  [(7, 104, 4, [1097859072; 1132396544]);     (* frames 7,8:  15.0, 255.0 *)
   (9, 104, 4, [1069547520; 0]);              (* frames 9,10:  1.5,   0.0 *)
   (11, 104, 4, [1077936128; 1082130432])]    (* trailing frame 11: the sums 3.0, 4.0 *)
  /\ map obs (run_outputs ex_env ex_steps) = map obs (run_outputs ex_env [(ex_fs, false)])
  /\ map obs (run_outputs ex_env ex_steps) = map obs (spec_outputs 2 ex_fs).
Proof. vm_compute. repeat split; reflexivity. Qed.

Example sum_exact_hypotheses_met :
  let frames := map frame_values (window 2 0 ex_fs) in
  bounded_by 255 frames /\ Forall (fun f => (1 < length f)%nat) frames /\ (1 < 2)%nat /\ frames <> [] /\
  Z.of_nat (length frames) * 255 < 2 ^ 24 /\
  zsum (column 1 frames) = 510 /\
  f32_bits (nth 1 (acc_frames (repeat f32_zero 2) frames) f32_zero) = 1140785152.   (* 510.0 *)
Proof.
  vm_compute. repeat split; try congruence; try lia; repeat constructor; vm_compute; congruence.
Qed.

(* D11: the same two frames on an accumulator that is NOT cleared (ring memory 0x3f3f3f3f = 0.7470588):
   15.37353 instead of 15.0.  This is what filter.c computed before fix 01; corpus/C10/d11_dirty_accumulator.txt *)
Example D11_dirty_accumulator :
  f32_bits (mean_pixel (f32_of_bits 1061109567) [10; 20]) = 1098250746 /\    (* 0x4175f9fa *)
  f32_bits (mean_pixel f32_zero [10; 20]) = 1097859072.                      (* 0x41700000 = 15.0 *)
Proof. vm_compute. split; reflexivity. Qed.

(* "within 1 ulp of S/k" is false: k = 7, S = 3 gives 14380472 * 2^-25, 3/7 = 14380470.857.. * 2^-25, ulp = 2^-25 *)
Example one_ulp_bound_refuted :
  let out := mean_pixel f32_zero [3; 0; 0; 0; 0; 0; 0] in
  (Rabs (B2R 24 128 out - 3 / 7) > ulp radix2 (FLT_exp (-149) 24) (3 / 7))%R.
Proof.
  intros out.
  rewrite <- (FF2R_B2FF 24 128 out).
  replace (B2FF 24 128 out) with (F754_finite false 14380472 (-25)) by (vm_compute; reflexivity).
  rewrite ulp_neq_0 by lra.
  unfold cexp. rewrite (mag_unique radix2 (3 / 7) (-1)).
  - unfold FLT_exp. unfold FF2R, F2R. simpl Fnum. simpl Fexp. simpl cond_Zopp.
    change (bpow radix2 (-25)) with (/ 33554432)%R.
    change (Z.max (-1 - 24) (-149)) with (-25). change (bpow radix2 (-25)) with (/ 33554432)%R.
    rewrite Rabs_pos_eq; lra.
  - simpl Z.sub. change (bpow radix2 (-2)) with (/ 4)%R. change (bpow radix2 (-1)) with (/ 2)%R.
    rewrite Rabs_pos_eq; lra.
Qed.

(* Non-vacuity of the multi-acquisition theorems: a history of three acquisitions on one filter.  The first
   (window 2, five frames) ends inside a window, the second has window 1 (the filter thread sees no frame), the
   third (window 3, four frames, ids restarting at 0) meets every hypothesis of C10_acquisitions_windows /
   C10_acquisitions_emit_means at position 2 and delivers the mean of ITS frames 0,1,2 under id 0, then its
   trailing frame 3 -- the same as that acquisition run on a fresh filter. *)
Example acquisitions_hypotheses_met :
  nth_error ex_acqs 2 = Some (ex_env3, ex_steps3) /\
  2 <= e_k ex_env3 /\
  acc_bytes ex_sh < e_outcap ex_env3 /\
  Forall (fun fr => f_shape fr = ex_sh) ex_fs3 /\
  Forall (fun fr => Forall is_byte (f_data fr)) ex_fs3 /\
  Forall (fun fr => length (frame_values fr) = Z.to_nat (npx ex_sh)) ex_fs3 /\
  e_k ex_env3 * maxval (stype_of_code (ty ex_sh)) < 2 ^ 24 /\
  Forall (fun s => snd s = false) ex_steps3 /\
  concat (map fst ex_steps3) = ex_fs3 /\
  (length ex_fs mod Z.to_nat (e_k ex_env) <> 0)%nat /\          (* the first acquisition ends inside a window *)
  (0 < length ex_fs3 / Z.to_nat (e_k ex_env3))%nat.
Proof.
  split; [reflexivity|].
  split; [simpl; lia|].
  split; [reflexivity|].
  split; [repeat constructor|].
  split; [unfold is_byte; repeat (constructor; try lia)|].
  split; [repeat constructor|].
  split; [simpl; lia|].
  split; [repeat constructor|].
  split; [reflexivity|].
  split; simpl; lia.
Qed.

Example acquisitions_example_run :
  map (fun a => map (fun o => (o_id o, ty (o_shape o), map f32_bits (o_px o))) (acquisition_outputs ex_acqs a)) [0; 1; 2]%nat =
  [ [(7, 4, [1097859072; 1132396544]); (9, 4, [1069547520; 0]); (11, 4, [1077936128; 1082130432])];
    [];
    [(0, 4, [1086324736; 1114636288]);        (* frames 0,1,2 of the third acquisition: 6.0, 60.0 *)
     (3, 4, [1065353216; 1073741824])] ]      (* its trailing frame 3: the sums 1.0, 2.0 *)
  /\ map obs (acquisition_outputs ex_acqs 2) = map obs (run_outputs ex_env3 ex_steps3).
Proof. vm_compute. split; reflexivity. Qed.
