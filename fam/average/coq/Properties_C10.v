From Average Require Import AccModel Window.
