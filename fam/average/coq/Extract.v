From Coq Require Import ZArith List Bool.
From Coq Require Import ExtrOcamlBasic.
From Average Require Import AccModel Window.
Extraction Language OCaml.
Extraction "avgmodel.ml" run_thread run_acquisitions run_outputs process_data finalize st_init mkEnv mkFrame mkShape
  f32_bits f32_of_bits window_mean mean_pixel acc_pixel inv_norm spec_outputs.
