(* AccProofs.v -- theorems about the arithmetic model (AccModel.v), property C10.

   Uses Flocq's correctness theorems for Bplus / Bmult / Bdiv / binary_normalize over the reals, hence the
   three axioms of Coq's classical real numbers (listed by Print Assumptions in Properties_C10.v).

   Main results
     f32_add_of_Z        adding two integer-valued floats whose sum is below 2^24 is exact, bit for bit
     sum_exact_pixel     acc0 = +0 and k*M < 2^24  =>  the accumulator holds exactly the integer sum
     mean_of_sum         the emitted value is round32 (S * round32 (1/k))
     mean_pow2_exact     = S/k exactly when k is a power of two
     mean_rel_error      |emitted - S/k| <= |S/k| * (2^-23 + 2^-48) in general
     decode_bound        decoded pixel values are bounded by maxval of the sample type *)
From Coq Require Import ZArith Reals Lia Lra Psatz List Bool.
From Flocq Require Import Core BinarySingleNaN Binary Bits Relative.
From Average Require Import AccModel.
Import ListNotations.
Open Scope Z_scope.

Notation fexp32 := (FLT_exp (-149) 24).
Local Existing Instance prec32_gt_0.
Local Instance valid_fexp32 : Valid_exp fexp32 := FLT_exp_valid (-149) 24.
Definition round32 (x : R) : R := round radix2 fexp32 ZnearestE x.
Notation R32 := (B2R 24 128).
Notation fin32 := (is_finite 24 128).
Notation sign32 := (Bsign 24 128).

Lemma format_int : forall z, Z.abs z < 2 ^ 24 -> generic_format radix2 fexp32 (IZR z).
Proof.
  intros z Hz. apply generic_format_FLT.
  apply (FLT_spec radix2 (-149) 24 (IZR z) (Float radix2 z 0)).
  - unfold F2R; simpl. ring.
  - simpl. exact Hz.
  - simpl. lia.
Qed.

Lemma round32_int : forall z, Z.abs z < 2 ^ 24 -> round32 (IZR z) = IZR z.
Proof.
  intros z Hz. unfold round32. apply round_generic; auto with typeclass_instances.
  now apply format_int.
Qed.

Lemma IZR_abs_lt_emax : forall z, Z.abs z < 2 ^ 24 -> (Rabs (IZR z) < bpow radix2 128)%R.
Proof.
  intros z Hz. rewrite <- abs_IZR.
  apply Rlt_trans with (bpow radix2 24).
  - rewrite <- IZR_Zpower by lia. apply IZR_lt. exact Hz.
  - apply bpow_lt. lia.
Qed.

Lemma f32_of_Z_correct : forall z, Z.abs z < 2 ^ 24 ->
  R32 (f32_of_Z z) = IZR z /\ fin32 (f32_of_Z z) = true /\ sign32 (f32_of_Z z) = (z <? 0).
Proof.
  intros z Hz. unfold f32_of_Z.
  generalize (binary_normalize_correct 24 128 prec32_gt_0 prec32_lt_emax mode_NE z 0 false).
  assert (HF : F2R (Float radix2 z 0) = IZR z) by (unfold F2R; simpl; ring).
  rewrite HF. simpl round_mode.
  change (round radix2 (FLT_exp (3 - 128 - 24) 24) ZnearestE (IZR z)) with (round32 (IZR z)).
  rewrite round32_int by assumption.
  rewrite Rlt_bool_true by now apply IZR_abs_lt_emax.
  intros (H1 & H2 & H3). repeat split; auto.
  rewrite H3. destruct (Z.ltb_spec z 0) as [L|L].
  - rewrite Rcompare_Lt; auto. now apply IZR_lt.
  - destruct (Z.eq_dec z 0) as [->|N].
    + rewrite Rcompare_Eq; auto.
    + rewrite Rcompare_Gt; auto. apply IZR_lt. lia.
Qed.

Lemma f32_zero_of_Z : f32_zero = f32_of_Z 0.
Proof. reflexivity. Qed.

(* adding two integer-valued floats whose sum stays below 2^24 is exact, bit for bit *)
Lemma f32_add_of_Z : forall a b,
  Z.abs a < 2 ^ 24 -> Z.abs b < 2 ^ 24 -> Z.abs (a + b) < 2 ^ 24 ->
  f32_add (f32_of_Z a) (f32_of_Z b) = f32_of_Z (a + b).
Proof.
  intros a b Ha Hb Hab.
  destruct (f32_of_Z_correct a Ha) as (Ra & Fa & Sa).
  destruct (f32_of_Z_correct b Hb) as (Rb & Fb & Sb).
  destruct (f32_of_Z_correct (a + b) Hab) as (Rc & Fc & Sc).
  unfold f32_add, b32_plus.
  match goal with |- Bplus _ _ ?p ?q ?n ?m ?x ?y = _ =>
    generalize (Bplus_correct 24 128 p q n m x y Fa Fb) end.
  rewrite Ra, Rb. simpl round_mode. rewrite <- plus_IZR.
  change (round radix2 (FLT_exp (3 - 128 - 24) 24) ZnearestE (IZR (a + b))) with (round32 (IZR (a + b))).
  rewrite round32_int by assumption.
  rewrite Rlt_bool_true by now apply IZR_abs_lt_emax.
  intros (H1 & H2 & H3).
  apply B2R_Bsign_inj; auto.
  - now rewrite H1, Rc.
  - rewrite H3, Sc, Sa, Sb.
    destruct (Z.ltb_spec (a + b) 0) as [L|L].
    + rewrite Rcompare_Lt; auto. now apply IZR_lt.
    + destruct (Z.eq_dec (a + b) 0) as [E|N].
      * rewrite E, Rcompare_Eq by reflexivity.
        destruct (Z.ltb_spec a 0), (Z.ltb_spec b 0); simpl; auto; lia.
      * rewrite Rcompare_Gt; auto. apply IZR_lt. lia.
Qed.

Lemma zsum_bound : forall vs M, Forall (fun v => Z.abs v <= M) vs -> Z.abs (zsum vs) <= Z.of_nat (length vs) * M.
Proof.
  induction 1 as [|v vs Hv Hvs IH]; simpl zsum; simpl length.
  - simpl. lia.
  - rewrite Nat2Z.inj_succ. lia.
Qed.

(* generalised: starting from the integer s *)
Lemma acc_pixel_exact_from : forall vs M s,
  Forall (fun v => Z.abs v <= M) vs ->
  Z.abs s + Z.of_nat (length vs) * M < 2 ^ 24 ->
  acc_pixel (f32_of_Z s) vs = f32_of_Z (s + zsum vs).
Proof.
  unfold acc_pixel.
  induction vs as [|v vs IH]; intros M s HM Hb; simpl.
  - now rewrite Z.add_0_r.
  - inversion HM as [|? ? Hv Hvs]; subst.
    assert (0 <= M) by lia.
    simpl length in Hb. rewrite Nat2Z.inj_succ in Hb.
    rewrite f32_add_of_Z by nia.
    rewrite (IH M) by (auto; nia).
    f_equal. lia.
Qed.

Theorem sum_exact_pixel : forall vs M,
  Forall (fun v => Z.abs v <= M) vs ->
  Z.of_nat (length vs) * M < 2 ^ 24 ->
  acc_pixel f32_zero vs = f32_of_Z (zsum vs) /\
  R32 (acc_pixel f32_zero vs) = IZR (zsum vs) /\
  fin32 (acc_pixel f32_zero vs) = true /\
  Z.abs (zsum vs) < 2 ^ 24.
Proof.
  intros vs M HM Hb.
  assert (Hs : Z.abs (zsum vs) < 2 ^ 24) by (pose proof (zsum_bound vs M HM); lia).
  rewrite f32_zero_of_Z, (acc_pixel_exact_from vs M 0) by (auto; simpl; lia).
  simpl (0 + _). destruct (f32_of_Z_correct _ Hs) as (A & B & _). auto.
Qed.

(* ------------------------------------------------------------------ the inverse norm and the emitted value *)
Lemma round32_abs_le : forall x y, generic_format radix2 fexp32 y -> (Rabs x <= y)%R -> (Rabs (round32 x) <= y)%R.
Proof. intros x y Fy H. unfold round32. apply abs_round_le_generic; auto with typeclass_instances. Qed.

Lemma format_1 : generic_format radix2 fexp32 1%R.
Proof. apply generic_format_FLT_1. exact prec32_gt_0. lia. Qed.

Lemma format_2p24 : generic_format radix2 fexp32 (bpow radix2 24).
Proof. apply generic_format_FLT_bpow. exact prec32_gt_0. lia. Qed.

Lemma round32_ge0 : forall x, (0 <= x)%R -> (0 <= round32 x)%R.
Proof.
  intros x Hx. unfold round32. apply round_ge_generic; auto with typeclass_instances.
  apply generic_format_0.
Qed.

Lemma inv_pos_le1 : forall k, 1 <= k -> (0 < 1 / IZR k <= 1)%R.
Proof.
  intros k Hk. assert (1 <= IZR k)%R by now apply IZR_le.
  split.
  - apply Rdiv_lt_0_compat; lra.
  - apply Rmult_le_reg_r with (IZR k); [lra|]. unfold Rdiv. rewrite Rmult_1_l, Rinv_l by lra. lra.
Qed.

Lemma round32_inv_bounds : forall k, 1 <= k -> (0 <= round32 (1 / IZR k) <= 1)%R.
Proof.
  intros k Hk. destruct (inv_pos_le1 k Hk) as [A B]. split.
  - apply round32_ge0. lra.
  - apply Rle_trans with (Rabs (round32 (1 / IZR k))). apply Rle_abs.
    apply round32_abs_le. apply format_1. rewrite Rabs_pos_eq; lra.
Qed.

Lemma inv_norm_correct : forall k, 1 <= k < 2 ^ 24 ->
  R32 (inv_norm k) = round32 (1 / IZR k) /\ fin32 (inv_norm k) = true.
Proof.
  intros k Hk. unfold inv_norm.
  destruct (Z.eqb_spec k 0) as [E|_]; [lia|].
  assert (Hk' : Z.abs k < 2 ^ 24) by lia.
  destruct (f32_of_Z_correct k Hk') as (Rk & Fk & _).
  assert (H1 : Z.abs 1 < 2 ^ 24) by (simpl; lia).
  destruct (f32_of_Z_correct 1 H1) as (R1 & F1 & _).
  unfold f32_div, b32_div, f32_one.
  assert (Hnz : R32 (f32_of_Z k) <> 0%R) by (rewrite Rk; apply not_0_IZR; lia).
  match goal with |- context [Bdiv _ _ ?p ?q ?n ?m ?x ?y] =>
    generalize (Bdiv_correct 24 128 p q n m x y Hnz) end.
  rewrite Rk, R1. simpl round_mode.
  change (round radix2 (FLT_exp (3 - 128 - 24) 24) ZnearestE (1 / IZR k)) with (round32 (1 / IZR k)).
  rewrite Rlt_bool_true.
  - intros (A & B & _). rewrite B. auto.
  - destruct (round32_inv_bounds k) as [A B]; [lia|].
    rewrite Rabs_pos_eq by assumption.
    apply Rle_lt_trans with 1%R; auto. change 1%R with (bpow radix2 0). apply bpow_lt. lia.
Qed.

(* the value the filter emits for a pixel whose window sums to S *)
Lemma mean_of_sum : forall S k, Z.abs S < 2 ^ 24 -> 1 <= k < 2 ^ 24 ->
  R32 (f32_mul (f32_of_Z S) (inv_norm k)) = round32 (IZR S * round32 (1 / IZR k)) /\
  fin32 (f32_mul (f32_of_Z S) (inv_norm k)) = true.
Proof.
  intros S k HS Hk.
  destruct (f32_of_Z_correct S HS) as (RS & FS & _).
  destruct (inv_norm_correct k Hk) as (Ri & Fi).
  unfold f32_mul, b32_mult.
  match goal with |- context [Bmult _ _ ?p ?q ?n ?m ?x ?y] =>
    generalize (Bmult_correct 24 128 p q n m x y) end.
  rewrite RS, Ri. simpl round_mode.
  change (round radix2 (FLT_exp (3 - 128 - 24) 24) ZnearestE ?x) with (round32 x).
  rewrite Rlt_bool_true.
  - intros (A & B & _). rewrite B, FS, Fi. auto.
  - apply Rle_lt_trans with (bpow radix2 24); [|apply bpow_lt; lia].
    apply round32_abs_le. apply format_2p24.
    destruct (round32_inv_bounds k) as [A B]; [lia|].
    rewrite Rabs_mult, (Rabs_pos_eq (round32 _)) by assumption.
    apply Rle_trans with (Rabs (IZR S) * 1)%R.
    + apply Rmult_le_compat_l; auto. apply Rabs_pos.
    + rewrite Rmult_1_r, <- abs_IZR, <- IZR_Zpower by lia. apply IZR_le. simpl Zpower. lia.
Qed.

(* k a power of two: the division is exact *)
Lemma mean_pow2_exact : forall S j, Z.abs S < 2 ^ 24 -> 0 <= j < 24 ->
  round32 (IZR S * round32 (1 / IZR (2 ^ j))) = (IZR S / IZR (2 ^ j))%R.
Proof.
  intros S j HS Hj.
  assert (E : (1 / IZR (2 ^ j))%R = bpow radix2 (- j)).
  { change (2 ^ j) with (Zpower radix2 j). rewrite IZR_Zpower by lia. rewrite bpow_opp. unfold Rdiv. ring. }
  assert (R1 : round32 (bpow radix2 (- j)) = bpow radix2 (- j)).
  { unfold round32. apply round_generic; auto with typeclass_instances.
    apply generic_format_FLT_bpow. exact prec32_gt_0. lia. }
  rewrite E, R1.
  assert (F : (IZR S * bpow radix2 (- j))%R = F2R (Float radix2 S (- j))) by reflexivity.
  unfold round32. rewrite round_generic; auto with typeclass_instances.
  - unfold Rdiv. rewrite <- E. unfold Rdiv. ring.
  - rewrite F. apply generic_format_FLT.
    apply (FLT_spec radix2 (-149) 24 _ (Float radix2 S (- j))); simpl; auto. lia.
Qed.

Definition u32 : R := bpow radix2 (-24).

Lemma half_ulp_is_u32 : (/ 2 * bpow radix2 (- (24) + 1))%R = u32.
Proof. unfold u32. change (/ 2)%R with (bpow radix2 (-1)). rewrite <- bpow_plus. reflexivity. Qed.

Lemma rel_err_32 : forall x, (bpow radix2 (-126) <= Rabs x)%R ->
  exists eps, (Rabs eps <= u32)%R /\ round32 x = (x * (1 + eps))%R.
Proof.
  intros x Hx.
  destruct (relative_error_N_FLT_ex radix2 (-149) 24 prec32_gt_0 (fun x => negb (Z.even x)) x) as (eps & He & Hr).
  - exact Hx.
  - exists eps. split. now rewrite <- half_ulp_is_u32. exact Hr.
Qed.

Lemma inv_ge_2m24 : forall k, 1 <= k < 2 ^ 24 -> (bpow radix2 (-24) <= 1 / IZR k)%R.
Proof.
  intros k Hk. replace (bpow radix2 (-24)) with (/ bpow radix2 24)%R by (symmetry; apply (bpow_opp radix2 24)).
  unfold Rdiv. rewrite Rmult_1_l.
  assert (0 < IZR k)%R by (apply IZR_lt; lia).
  apply Rinv_le_contravar; auto.
  rewrite <- IZR_Zpower by lia. apply IZR_le. simpl Zpower. lia.
Qed.

(* in general: two roundings, each with relative error at most u = 2^-24 *)
Lemma mean_rel_error : forall S k, Z.abs S < 2 ^ 24 -> 1 <= k < 2 ^ 24 ->
  (Rabs (round32 (IZR S * round32 (1 / IZR k)) - IZR S / IZR k) <=
   Rabs (IZR S / IZR k) * (bpow radix2 (-23) + bpow radix2 (-48)))%R.
Proof.
  intros S k HS Hk.
  destruct (Z.eq_dec S 0) as [->|NS].
  { unfold Rdiv. rewrite !Rmult_0_l. unfold round32 at 1. rewrite round_0; auto with typeclass_instances.
    rewrite Rminus_0_r, Rabs_R0. lra. }
  pose proof (inv_ge_2m24 k Hk) as Hinv.
  destruct (inv_pos_le1 k) as [Ip _]; [lia|].
  destruct (rel_err_32 (1 / IZR k)) as (e1 & He1 & Hr1).
  { rewrite Rabs_pos_eq by lra. apply Rle_trans with (2 := Hinv). apply bpow_le. lia. }
  assert (Hr_ge : (bpow radix2 (-24) <= round32 (1 / IZR k))%R).
  { unfold round32. apply round_ge_generic; auto with typeclass_instances.
    apply generic_format_FLT_bpow. exact prec32_gt_0. lia. }
  destruct (rel_err_32 (IZR S * round32 (1 / IZR k))) as (e2 & He2 & Hr2).
  { rewrite Rabs_mult. pose proof (bpow_gt_0 radix2 (-24)).
    rewrite (Rabs_pos_eq (round32 _)) by lra.
    assert (1 <= Rabs (IZR S))%R by (rewrite <- abs_IZR; apply IZR_le; lia).
    apply Rle_trans with (1 * bpow radix2 (-24))%R.
    - rewrite Rmult_1_l. apply bpow_le. lia.
    - apply Rmult_le_compat; lra. }
  rewrite Hr2, Hr1.
  replace (IZR S * (1 / IZR k * (1 + e1)) * (1 + e2) - IZR S / IZR k)%R
    with (IZR S / IZR k * (e1 + e2 + e1 * e2))%R by (unfold Rdiv; ring).
  rewrite Rabs_mult. apply Rmult_le_compat_l. apply Rabs_pos.
  assert (U : (bpow radix2 (-23) + bpow radix2 (-48))%R = (u32 + u32 + u32 * u32)%R).
  { unfold u32. rewrite <- bpow_plus. simpl Z.add.
    replace (bpow radix2 (-23)) with (2 * bpow radix2 (-24))%R. ring.
    change 2%R with (bpow radix2 1). rewrite <- bpow_plus. reflexivity. }
  rewrite U.
  apply Rle_trans with (Rabs e1 + Rabs e2 + Rabs e1 * Rabs e2)%R.
  - rewrite <- Rabs_mult. eapply Rle_trans. apply Rabs_triang. apply Rplus_le_compat_r. apply Rabs_triang.
  - assert (0 <= Rabs e1)%R by apply Rabs_pos. assert (0 <= Rabs e2)%R by apply Rabs_pos.
    assert (0 < u32)%R by apply bpow_gt_0. nra.
Qed.

(* ------------------------------------------------------------------ from pixels to frames *)
Lemma accumulate_length : forall a p, length (accumulate a p) = length a.
Proof. induction a as [|x a IH]; intros [|v p]; simpl; auto. Qed.

Lemma accumulate_nth : forall a p i d, (i < length a)%nat -> (i < length p)%nat ->
  nth i (accumulate a p) d = f32_add (nth i a d) (f32_of_Z (nth i p 0)).
Proof.
  induction a as [|x a IH]; intros [|v p] i d Ha Hp; simpl in *; try lia.
  destruct i as [|i]; auto. apply IH; lia.
Qed.

Lemma acc_frames_length : forall frames acc0, length (acc_frames acc0 frames) = length acc0.
Proof.
  unfold acc_frames. induction frames as [|f fs IH]; intros acc0; simpl; auto.
  now rewrite IH, accumulate_length.
Qed.

Lemma acc_frames_nth : forall frames acc0 i d,
  (i < length acc0)%nat -> Forall (fun f => (i < length f)%nat) frames ->
  nth i (acc_frames acc0 frames) d = acc_pixel (nth i acc0 d) (map (fun f => nth i f 0) frames).
Proof.
  unfold acc_frames, acc_pixel.
  induction frames as [|f fs IH]; intros acc0 i d Hi Hf; simpl; auto.
  inversion Hf; subst.
  rewrite IH by (rewrite ?accumulate_length; auto).
  now rewrite accumulate_nth.
Qed.

Lemma nth_repeat_zero : forall n i, nth i (repeat f32_zero n) f32_zero = f32_zero.
Proof. induction n; destruct i; simpl; auto. Qed.

(* ------------------------------------------------------------------ decoded pixel values are bounded by the container *)
Definition is_byte (b : Z) : Prop := 0 <= b < 256.

Lemma words16_bound : forall bs, Forall is_byte bs -> Forall (fun w => 0 <= w <= 65535) (words16 bs).
Proof.
  fix IH 1. intros [|lo [|hi r]] H; cbn [words16]; try constructor.
  - inversion H as [|? ? Hlo H']; subst. inversion H' as [|? ? Hhi H'']; subst. unfold is_byte in *. lia.
  - apply IH. inversion H as [|? ? _ H']; subst. now inversion H'.
Qed.

Lemma decode_bound : forall t bs, Forall is_byte bs -> Forall (fun v => Z.abs v <= maxval t) (decode t bs).
Proof.
  intros t bs H.
  assert (W := words16_bound bs H).
  destruct t; simpl; try constructor.
  - eapply Forall_impl; [|exact H]. unfold is_byte. intros; lia.
  - eapply Forall_impl; [|exact W]. intros; simpl in *; lia.
  - rewrite Forall_map. eapply Forall_impl; [|exact H]. unfold is_byte, sign8. intros a Ha.
    destruct (a <? 128) eqn:E; [apply Z.ltb_lt in E|apply Z.ltb_ge in E]; lia.
  - rewrite Forall_map. eapply Forall_impl; [|exact W]. unfold sign16. intros a Ha. simpl in Ha.
    destruct (a <? 32768) eqn:E; [apply Z.ltb_lt in E|apply Z.ltb_ge in E]; lia.
  - eapply Forall_impl; [|exact W]. intros; simpl in *; lia.
  - eapply Forall_impl; [|exact W]. intros; simpl in *; lia.
  - eapply Forall_impl; [|exact W]. intros; simpl in *; lia.
Qed.
