(* AccModel.v -- executable model of the arithmetic of filter.c (accumulate / normalize), property C10.

   Everything is IEEE-754 binary32 as formalised by Flocq (IEEE754.Binary / IEEE754.Bits): the functions
   below ARE Flocq's b32_plus / b32_mult / b32_div (round to nearest, ties to even) and binary_normalize
   (integer -> float conversion); the same terms are extracted to OCaml for the oracle, so the theorems in
   AccProofs.v and the bit patterns compared with the C code are about one and the same definition.

   filter.c (x86-64, SSE/AVX scalar or packed single precision, FLT_EVAL_METHOD = 0):
     accumulate:  x[i] += y[i];            y[i] is uint8/uint16/int8/int16, promoted to int, converted to
                                           float (exact, |y| < 2^24) and added in binary32
     normalize:   x[i] *= inverse_norm;    inverse_norm = 1.0f / (float)frame_count   (uint64 -> float, RNE)

   No proofs in this file. *)
From Coq Require Import ZArith List Bool.
From Flocq Require Import Core.Zaux Core.FLX IEEE754.BinarySingleNaN IEEE754.Binary IEEE754.Bits.
Import ListNotations.
Open Scope Z_scope.

(* ------------------------------------------------------------------ binary32 *)
Definition f32 : Set := binary32.

Definition prec32_gt_0 : Prec_gt_0 24 := eq_refl.
Definition prec32_lt_emax : Prec_lt_emax 24 128 := eq_refl.

Definition f32_zero : f32 := B754_zero 24 128 false.

(* (float)z for an integer z: correctly rounded (exact when |z| <= 2^24) *)
Definition f32_of_Z (z : Z) : f32 :=
  binary_normalize 24 128 prec32_gt_0 prec32_lt_emax mode_NE z 0 false.

Definition f32_one : f32 := f32_of_Z 1.
Definition f32_add (x y : f32) : f32 := b32_plus mode_NE x y.
Definition f32_mul (x y : f32) : f32 := b32_mult mode_NE x y.
Definition f32_div (x y : f32) : f32 := b32_div mode_NE x y.
Definition f32_bits (x : f32) : Z := bits_of_b32 x.
Definition f32_of_bits (b : Z) : f32 := b32_of_bits b.

(* ------------------------------------------------------------------ sample types (enum SampleType, components.h) *)
Inductive stype := SU8 | SU16 | SI8 | SI16 | SF32 | SU10 | SU12 | SU14 | SBad.

Definition stype_of_code (c : Z) : stype :=
  match c with
  | 0 => SU8 | 1 => SU16 | 2 => SI8 | 3 => SI16 | 4 => SF32 | 5 => SU10 | 6 => SU12 | 7 => SU14
  | _ => SBad
  end.

Definition code_f32 : Z := 4.

(* bytes_of_type: 0 for a code outside the table *)
Definition bytes_of_type (t : stype) : Z :=
  match t with
  | SU8 | SI8 => 1
  | SU16 | SI16 | SU10 | SU12 | SU14 => 2
  | SF32 => 4
  | SBad => 0
  end.

(* does the switch in accumulate() have a case for this input type? (f32 and unknown codes: "default: return 0") *)
Definition is_integer_type (t : stype) : bool :=
  match t with
  | SF32 | SBad => false
  | _ => true
  end.

(* largest absolute pixel value the container can hold *)
Definition maxval (t : stype) : Z :=
  match t with
  | SU8 => 255
  | SI8 => 128
  | SI16 => 32768
  | SU16 | SU10 | SU12 | SU14 => 65535
  | SF32 | SBad => 0
  end.

(* ------------------------------------------------------------------ pixel decoding (little endian, as the casts in accumulate() read them) *)
Definition sign8 (b : Z) : Z := if b <? 128 then b else b - 256.
Definition sign16 (w : Z) : Z := if w <? 32768 then w else w - 65536.

Fixpoint words16 (bs : list Z) : list Z :=
  match bs with
  | lo :: hi :: r => (lo + 256 * hi) :: words16 r
  | _ => []
  end.

(* u10/u12/u14 are read as plain uint16_t: whatever is in the two bytes is added *)
Definition decode (t : stype) (bs : list Z) : list Z :=
  match t with
  | SU8 => bs
  | SI8 => map sign8 bs
  | SU16 | SU10 | SU12 | SU14 => words16 bs
  | SI16 => map sign16 (words16 bs)
  | SF32 | SBad => []
  end.

(* ------------------------------------------------------------------ accumulate / normalize *)
(* for (i < npx) x[i] += y[i]; *)
Fixpoint accumulate (acc : list f32) (px : list Z) : list f32 :=
  match acc, px with
  | x :: a, v :: p => f32_add x (f32_of_Z v) :: accumulate a p
  | _, _ => acc
  end.

(* inverse_norm = frame_count ? 1.0f / frame_count : 1.0f      (frame_count is a uint64_t) *)
Definition inv_norm (n : Z) : f32 :=
  if n =? 0 then f32_one else f32_div f32_one (f32_of_Z n).

(* for (i < npx) x[i] *= inverse_norm; *)
Definition normalize (acc : list f32) (inv : f32) : list f32 :=
  map (fun x => f32_mul x inv) acc.

(* the accumulator after the frames of a window, starting from the content acc0 of the memory it was mapped on *)
Definition acc_frames (acc0 : list f32) (frames : list (list Z)) : list f32 :=
  fold_left accumulate frames acc0.

(* what the filter emits for a complete window *)
Definition window_mean (acc0 : list f32) (frames : list (list Z)) : list f32 :=
  normalize (acc_frames acc0 frames) (inv_norm (Z.of_nat (length frames))).

(* one pixel, for the theorems: the sum of the column and the emitted value *)
Definition acc_pixel (x0 : f32) (vs : list Z) : f32 :=
  fold_left (fun x v => f32_add x (f32_of_Z v)) vs x0.

Definition mean_pixel (x0 : f32) (vs : list Z) : f32 :=
  f32_mul (acc_pixel x0 vs) (inv_norm (Z.of_nat (length vs))).

Definition zsum (vs : list Z) : Z := fold_right Z.add 0 vs.
