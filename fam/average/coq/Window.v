(* Window.v -- executable model of the bookkeeping of filter.c: process_data (one call per packet = per slice
   that channel_read_map returns) and the end of video_filter_thread, property C10.

   The model follows the code statement by statement (one `if` per `if`); it models the code WITH the two
   repairs proposed in fam/average/fixes:
     01-filter-zero-accumulator      the pixel area of a freshly mapped accumulator is cleared (D11)
     02-filter-flush-until-drained   the end-of-stream flush reads until the input is drained (D16); in the
                                     model this only means that every packet written before the stop is
                                     processed: the flush is "more calls of process_data".

   A packet is a list of frames; a run is a list of steps (packet, reset flag), one per process_data call,
   in the order the filter thread performs them, whatever the packet boundaries are.  A history of one filter
   instance is a list of acquisitions (run_acquisitions, below).  No proofs here. *)
From Coq Require Import ZArith List Bool.
From Average Require Import AccModel.
Import ListNotations.
Open Scope Z_scope.

(* ------------------------------------------------------------------ frames *)
(* struct ImageShape: dims (uint32 x4), strides (int64 x4), type (enum SampleType, as its code) *)
Record shape := mkShape {
  d_c : Z; d_w : Z; d_h : Z; d_p : Z;
  s_c : Z; s_w : Z; s_h : Z; s_p : Z;
  ty : Z }.

(* an input VideoFrame: the header fields the filter reads and the pixel bytes *)
Record frame := mkFrame { f_id : Z; f_shape : shape; f_data : list Z }.

(* a frame in the output ring: bytes_of_frame, frame_id, shape, float pixels *)
Record oframe := mkOFrame { o_bytes : Z; o_id : Z; o_shape : shape; o_px : list f32 }.

Definition header_bytes : Z := 96.                       (* sizeof(struct VideoFrame) *)
Definition align8 (n : Z) : Z := 8 * ((n + 7) / 8).
Definition npx (s : shape) : Z := s_p s.                 (* "assumes planes is outer dim" *)
Definition bytes_of_image (s : shape) : Z := s_p s * bytes_of_type (stype_of_code (ty s)).

Definition set_type (s : shape) (t : Z) : shape :=
  mkShape (d_c s) (d_w s) (d_h s) (d_p s) (s_c s) (s_w s) (s_h s) (s_p s) t.

(* assert_consistent_shape: memcmp of dims and of strides; the sample type is NOT compared *)
Definition same_shape (a b : shape) : bool :=
  (d_c a =? d_c b) && (d_w a =? d_w b) && (d_h a =? d_h b) && (d_p a =? d_p b) &&
  (s_c a =? s_c b) && (s_w a =? s_w b) && (s_h a =? s_h b) && (s_p a =? s_p b).

(* ------------------------------------------------------------------ the filter's state and environment *)
Record env := mkEnv {
  e_k : Z;          (* filter_window_frames *)
  e_outcap : Z;     (* capacity of the output ring: channel_write_map refuses nbytes >= capacity *)
  e_dirty : f32     (* what every pixel slot of the ring memory holds before the accumulator is mapped on it *)
}.

Record fstate := mkSt { st_acc : option oframe; st_count : Z }.
Definition st_init : fstate := mkSt None 0.

(* memset(accumulator->data, 0, bytes_of_image(&shape))  -- fix 01 *)
Definition clear_pixels (mem : list f32) : list f32 := map (fun _ => f32_zero) mem.

(* the pixel area of the region handed out by channel_write_map *)
Definition mapped_pixels (e : env) (n : Z) : list f32 := repeat (e_dirty e) (Z.to_nat n).

(* accumulate(acc, in): None = "return 0" *)
Definition accumulate_frame (acc : oframe) (fr : frame) : option oframe :=
  if negb (ty (o_shape acc) =? code_f32) then None
  else
    let t := stype_of_code (ty (f_shape fr)) in
    if is_integer_type t
    then Some (mkOFrame (o_bytes acc) (o_id acc) (o_shape acc) (accumulate (o_px acc) (decode t (f_data fr))))
    else None.

(* normalize(acc, 1/frame_count) *)
Definition normalize_frame (acc : oframe) (count : Z) : oframe :=
  mkOFrame (o_bytes acc) (o_id acc) (o_shape acc) (normalize (o_px acc) (inv_norm count)).

(* result of handling one input frame: new state, frames committed to the output ring, 1 = ok / 0 = goto Error *)
Definition step_result : Type := fstate * list oframe * bool.

(* the Error label of process_data: the state is reset and channel_write_unmap(out) commits whatever is mapped *)
Definition error_exit (mapped : option oframe) : step_result :=
  (st_init, match mapped with Some a => [a] | None => [] end, false).

(* body of the while loop of process_data *)
Definition process_frame (e : env) (st : fstate) (fr : frame) : step_result :=
  match st_acc st with
  | None =>
      let sh := set_type (f_shape fr) code_f32 in
      let nbytes := bytes_of_image sh + header_bytes in
      let bytes_of_accumulator := align8 nbytes in
      if bytes_of_accumulator <? e_outcap e            (* channel_write_map: 0 when nbytes >= capacity *)
      then
        let acc0 := mkOFrame bytes_of_accumulator (f_id fr) sh (clear_pixels (mapped_pixels e (npx sh))) in
        match accumulate_frame acc0 fr with
        | Some acc1 => (mkSt (Some acc1) 1, [], true)
        | None => error_exit (Some acc0)
        end
      else (st, [], true)                              (* no accumulator: the frame is dropped *)
  | Some acc =>
      if same_shape (o_shape acc) (f_shape fr)
      then
        match accumulate_frame acc fr with
        | Some acc1 =>
            let c := st_count st + 1 in
            if e_k e <=? c
            then (st_init, [normalize_frame acc1 c], true)      (* normalize; write_unmap *)
            else (mkSt (Some acc1) c, [], true)
        | None => error_exit (Some acc)
        end
      else (st_init, [], true)                         (* "emitting early -- shape inconsistent": abort_write *)
  end.

(* the while loop over the frames of the mapped slice; stops at the first error *)
Fixpoint process_frames (e : env) (st : fstate) (frs : list frame) : step_result :=
  match frs with
  | [] => (st, [], true)
  | fr :: rest =>
      match process_frame e st fr with
      | (st1, out1, true) =>
          match process_frames e st1 rest with
          | (st2, out2, ok) => (st2, out1 ++ out2, ok)
          end
      | (st1, out1, false) => (st1, out1, false)
      end
  end.

(* process_data: the loop, then the sig_accumulator_reset block (abort_write of an open accumulator).  A raised reset is acted on
   (and acknowledged) only by a call whose read returned nothing -- the input queue is drained --, so that the source, which starts
   writing to the output queue as soon as it is notified, never does so while this thread may still map it (fix d30) *)
Definition is_nil {A} (l : list A) : bool := match l with [] => true | _ => false end.
Definition process_data (e : env) (st : fstate) (packet : list frame) (reset : bool) : step_result :=
  match process_frames e st packet with
  | (st1, out1, true) =>
      if reset && is_nil packet then (st_init, out1, true) else (st1, out1, true)
  | r => r
  end.

(* Finalize of video_filter_thread: if (accumulator) channel_write_unmap(out) -- the open accumulator is
   committed as it is: the SUM of the frames of the trailing incomplete window, not normalised *)
Definition finalize (st : fstate) : list oframe :=
  match st_acc st with Some a => [a] | None => [] end.

(* video_filter_thread over the steps it performs (loop iterations, then the flush calls).
   Result: frames committed by each call, frames committed by Finalize, ecode. *)
Fixpoint run_steps (e : env) (st : fstate) (steps : list (list frame * bool))
  : list (list oframe) * list oframe * Z :=
  match steps with
  | [] => ([], finalize st, 0)
  | (p, r) :: rest =>
      match process_data e st p r with
      | (st1, out1, true) =>
          match run_steps e st1 rest with
          | (outs, fin, ec) => (out1 :: outs, fin, ec)
          end
      | (st1, out1, false) => ([out1], finalize st1, 1)       (* CHECK(process_data(..)) fails: goto Error -> Finalize *)
      end
  end.

Definition run_thread (e : env) (steps : list (list frame * bool)) : list (list oframe) * list oframe * Z :=
  run_steps e st_init steps.

(* everything the output ring receives, in order *)
Definition run_outputs (e : env) (steps : list (list frame * bool)) : list oframe :=
  match run_thread e steps with
  | (outs, fin, _) => concat outs ++ fin
  end.

(* ------------------------------------------------------------------ several acquisitions on ONE video_filter_s *)
(* acquire.c runs any number of acquisitions on the same struct video_filter_s (video_filter_init once):
     acquire_configure -> video_filter_configure : filter_window_frames := k          (may differ every time)
     acquire_start     -> video_filter_start     : the reader is registered, is_stopping := 0, is_running := 1,
                                                   thread_create (video_filter_thread)
     the source ends   -> sig_source_stop_filter : is_stopping := 1; thread_join
     acquire_stop, and again.
   One acquisition = the environment its thread runs in and the steps (process_data calls) the thread performs. *)
Definition acquisition : Type := env * list (list frame * bool).

(* the averaging state video_filter_thread holds when it returns: Finalize commits an open accumulator with
   channel_write_unmap but does not clear `accumulator` / `frame_count` *)
Fixpoint end_state (e : env) (st : fstate) (steps : list (list frame * bool)) : fstate :=
  match steps with
  | [] => st
  | (p, r) :: rest =>
      match process_data e st p r with
      | (st1, _, true) => end_state e st1 rest
      | (st1, _, false) => st1
      end
  end.

(* entry of video_filter_thread:
       uint64_t frame_count = 0;  struct VideoFrame* accumulator = 0;
   both are LOCALS of the thread function, initialised at every entry.  struct video_filter_s has no averaging
   field, video_filter_configure only stores k and video_filter_start only touches reader / is_stopping /
   is_running: whatever the previous thread of this filter held when it returned is gone. *)
Definition thread_entry (left_by_previous_thread : fstate) : fstate := st_init.

(* the history of one filter instance: a fold of the per-acquisition model over the acquisitions, threading
   through what one thread leaves to the next.  One (calls, Finalize, ecode) result per acquisition. *)
Fixpoint run_acquisitions_from (left : fstate) (acqs : list acquisition)
  : list (list (list oframe) * list oframe * Z) :=
  match acqs with
  | [] => []
  | (e, steps) :: rest =>
      let st0 := thread_entry left in
      run_steps e st0 steps :: run_acquisitions_from (end_state e st0 steps) rest
  end.

(* video_filter_init: *self = (struct video_filter_s){ .stream_id = .., .out = .. } *)
Definition run_acquisitions (acqs : list acquisition) : list (list (list oframe) * list oframe * Z) :=
  run_acquisitions_from st_init acqs.

(* everything the output ring receives during acquisition i of the history, in order *)
Definition acquisition_outputs (acqs : list acquisition) (i : nat) : list oframe :=
  match nth_error (run_acquisitions acqs) i with
  | Some (outs, fin, _) => concat outs ++ fin
  | None => []
  end.

(* ------------------------------------------------------------------ the specification side (used by the theorems) *)
(* pixel values of a frame as the filter reads them *)
Definition frame_values (fr : frame) : list Z := decode (stype_of_code (ty (f_shape fr))) (f_data fr).

Definition acc_bytes (s : shape) : Z := align8 (bytes_of_image (set_type s code_f32) + header_bytes).

(* placeholders for the empty window (never produced: windows of the specification are non-empty) *)
Definition dummy_shape : shape := mkShape 0 0 0 0 0 0 0 0 0.
Definition dummy_oframe : oframe := mkOFrame 0 0 dummy_shape [].
Definition dummy_frame : frame := mkFrame 0 dummy_shape [].

(* the accumulator after summing the frames w, started from zero (the first frame of w gives id and shape) *)
Definition sum_frame (w : list frame) : oframe :=
  match w with
  | [] => dummy_oframe
  | f0 :: _ =>
      let sh := set_type (f_shape f0) code_f32 in
      mkOFrame (acc_bytes (f_shape f0)) (f_id f0) sh
               (acc_frames (repeat f32_zero (Z.to_nat (npx sh))) (map frame_values w))
  end.

(* the frame emitted for a complete window w: the sum times 1/(number of frames) *)
Definition mean_frame (w : list frame) : oframe :=
  normalize_frame (sum_frame w) (Z.of_nat (length w)).

(* window i of size k of the frame sequence: frames [i*k, (i+1)*k) *)
Definition window (k : nat) (i : nat) (fs : list frame) : list frame := firstn k (skipn (i * k)%nat fs).

(* the trailing incomplete window: frames [(N/k)*k, N) *)
Definition remainder (k : nat) (fs : list frame) : list frame := skipn ((length fs / k) * k)%nat fs.

(* what the output ring must have received after a whole acquisition of frames fs:
   one mean frame per complete window, in order, then -- if N mod k <> 0 -- one frame holding the sum
   of the trailing incomplete window *)
Definition spec_outputs (k : nat) (fs : list frame) : list oframe :=
  map (fun i => mean_frame (window k i fs)) (seq 0 (length fs / k)%nat)
  ++ (if (length fs mod k =? 0)%nat then [] else [sum_frame (remainder k fs)]).
