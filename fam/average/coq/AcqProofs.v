(* AcqProofs.v -- several acquisitions on one filter instance (Window.run_acquisitions): the outputs of
   acquisition i are those of the per-acquisition model (run_thread) on acquisition i alone, whatever the
   earlier acquisitions were and whatever state their threads held when they returned; hence C10_windows and
   C10_filter_emits_means hold for every acquisition of every history. *)
From Coq Require Import ZArith Reals Lia List Bool Arith PeanoNat.
From Flocq Require Import Core BinarySingleNaN Binary Bits.
From Average Require Import AccModel Window AccProofs WindowProofs C10Proofs.
Import ListNotations.
Open Scope Z_scope.

(* the fold collapses: every thread starts from thread_entry _ = st_init *)
Lemma acquisitions_from_map : forall (acqs : list acquisition) (left : fstate),
  run_acquisitions_from left acqs = map (fun a => run_thread (fst a) (snd a)) acqs.
Proof.
  induction acqs as [|[e steps] rest IH]; intros left; simpl; [reflexivity|].
  unfold thread_entry. rewrite IH. reflexivity.
Qed.

Lemma acquisitions_from_nth : forall (acqs : list acquisition) (left : fstate) i e steps,
  nth_error acqs i = Some (e, steps) ->
  nth_error (run_acquisitions_from left acqs) i = Some (run_thread e steps).
Proof.
  intros acqs left i e steps H. rewrite acquisitions_from_map.
  apply (map_nth_error (fun a => run_thread (fst a) (snd a)) i acqs H).
Qed.

Lemma acquisitions_from_none : forall (acqs : list acquisition) (left : fstate) i,
  nth_error acqs i = None -> nth_error (run_acquisitions_from left acqs) i = None.
Proof.
  intros acqs left i H. rewrite acquisitions_from_map.
  apply nth_error_None. rewrite map_length. now apply nth_error_None.
Qed.

(* no state leaks from one acquisition into the next *)
Lemma no_state_between_acquisitions :
  (forall (left : fstate) (acqs : list acquisition),
     run_acquisitions_from left acqs = map (fun a => run_thread (fst a) (snd a)) acqs) /\
  (forall (left left' : fstate) (acqs acqs' : list acquisition) (i : nat),
     nth_error acqs i = nth_error acqs' i ->
     nth_error (run_acquisitions_from left acqs) i = nth_error (run_acquisitions_from left' acqs') i).
Proof.
  split.
  - intros. apply acquisitions_from_map.
  - intros left left' acqs acqs' i H.
    destruct (nth_error acqs i) as [[e steps]|] eqn:E.
    + rewrite (acquisitions_from_nth acqs left i e steps E).
      symmetry in H. now rewrite (acquisitions_from_nth acqs' left' i e steps H).
    + rewrite (acquisitions_from_none acqs left i E).
      symmetry in H. now rewrite (acquisitions_from_none acqs' left' i H).
Qed.

(* C10_windows for acquisition i of any history *)
Lemma acquisitions_windows :
  forall (acqs : list acquisition) (a : nat) (e : env) (sh : shape) (steps : list (list frame * bool)) (fs : list frame),
    nth_error acqs a = Some (e, steps) ->
    2 <= e_k e ->
    acc_bytes sh < e_outcap e ->
    is_integer_type (stype_of_code (ty sh)) = true ->
    Forall (fun fr => f_shape fr = sh) fs ->
    Forall (fun s => snd s = false) steps ->
    concat (map fst steps) = fs ->
    let k := Z.to_nat (e_k e) in
    let N := length fs in
    exists outs fin,
      nth_error (run_acquisitions acqs) a = Some (outs, fin, 0) /\
      length outs = length steps /\
      acquisition_outputs acqs a = spec_outputs k fs /\
      concat outs ++ fin = spec_outputs k fs /\
      length (spec_outputs k fs) = (N / k + (if (N mod k =? 0)%nat then 0 else 1))%nat /\
      (forall i, (i < N / k)%nat ->
         let w := window k i fs in
         let o := nth i (acquisition_outputs acqs a) dummy_oframe in
         length w = k /\
         (forall j, (j < k)%nat -> nth j w dummy_frame = nth (i * k + j) fs dummy_frame) /\
         o_id o = f_id (nth (i * k) fs dummy_frame) /\
         o_shape o = set_type sh code_f32 /\
         o_bytes o = acc_bytes sh /\
         o_px o = window_mean (repeat f32_zero (Z.to_nat (npx sh))) (map frame_values w)) /\
      concat (map (fun i => window k i fs) (seq 0 (N / k))) ++ remainder k fs = fs /\
      length (remainder k fs) = (N mod k)%nat.
Proof.
  intros acqs a e sh steps fs Ha Hk Hfit Hint G HR HC k N.
  destruct (windows_full e sh steps fs Hk Hfit Hint G HR HC)
    as (outs & fin & Hrun & Hl & Ho & Hlen & Hw & Hpart & Hrem).
  fold k in Ho, Hlen, Hw, Hpart, Hrem. fold N in Hlen, Hw, Hpart, Hrem.
  assert (Hn : nth_error (run_acquisitions acqs) a = Some (outs, fin, 0)).
  { unfold run_acquisitions. rewrite (acquisitions_from_nth acqs st_init a e steps Ha). now rewrite Hrun. }
  assert (Hao : acquisition_outputs acqs a = spec_outputs k fs).
  { unfold acquisition_outputs. now rewrite Hn. }
  exists outs, fin. rewrite Hao.
  split; [exact Hn|]. split; [exact Hl|]. split; [reflexivity|]. split; [exact Ho|].
  split; [exact Hlen|]. split; [exact Hw|]. split; [exact Hpart|exact Hrem].
Qed.

(* C10_filter_emits_means for acquisition i of any history *)
Lemma acquisitions_emit_means :
  forall (acqs : list acquisition) (a : nat) (e : env) (sh : shape) (steps : list (list frame * bool)) (fs : list frame),
    nth_error acqs a = Some (e, steps) ->
    2 <= e_k e ->
    acc_bytes sh < e_outcap e ->
    is_integer_type (stype_of_code (ty sh)) = true ->
    Forall (fun fr => f_shape fr = sh) fs ->
    Forall (fun fr => Forall is_byte (f_data fr)) fs ->
    Forall (fun fr => length (frame_values fr) = Z.to_nat (npx sh)) fs ->
    e_k e * maxval (stype_of_code (ty sh)) < 2 ^ 24 ->
    Forall (fun s => snd s = false) steps ->
    concat (map fst steps) = fs ->
    let k := Z.to_nat (e_k e) in
    forall i j, (i < length fs / k)%nat -> (j < Z.to_nat (npx sh))%nat ->
      let out := nth j (o_px (nth i (acquisition_outputs acqs a) dummy_oframe)) f32_zero in
      let S := zsum (column j (map frame_values (window k i fs))) in
      Z.abs S < 2 ^ 24 /\
      B2R 24 128 out = round32 (IZR S * round32 (1 / IZR (e_k e))) /\
      is_finite 24 128 out = true /\
      (forall p, 0 <= p -> e_k e = 2 ^ p -> B2R 24 128 out = (IZR S / IZR (e_k e))%R) /\
      (Rabs (B2R 24 128 out - IZR S / IZR (e_k e)) <=
       Rabs (IZR S / IZR (e_k e)) * (bpow radix2 (-23) + bpow radix2 (-48)))%R.
Proof.
  intros acqs a e sh steps fs Ha Hk Hfit Hint G GB GL HM HR HC k i j Hi Hj.
  assert (E : acquisition_outputs acqs a = run_outputs e steps).
  { unfold acquisition_outputs, run_acquisitions, run_outputs.
    rewrite (acquisitions_from_nth acqs st_init a e steps Ha).
    destruct (run_thread e steps) as [[outs fin] ec]. reflexivity. }
  rewrite E.
  exact (filter_emits_means e sh steps fs Hk Hfit Hint G GB GL HM HR HC i j Hi Hj).
Qed.
