(* WindowProofs.v -- theorems about the bookkeeping model (Window.v), property C10.  Axiom free.

   Main results
     run_steps_concat   without reset signals a run is the frame loop over the concatenation of the packets
     window_from        the state while a window is open is (sum of the frames so far, their number)
     windows            run_thread = spec_outputs, for every packetisation
     windows_partition, window_length, window_nth, remainder_length, spec_outputs_length, spec_outputs_nth,
     mean_frame_fields  what spec_outputs says, spelled out *)
From Coq Require Import ZArith Lia List Bool Arith PeanoNat.
From Average Require Import AccModel Window.
Import ListNotations.
Open Scope Z_scope.

(* ------------------------------------------------------------------ generic facts *)
Lemma process_frames_app : forall e a b st,
  process_frames e st (a ++ b) =
  match process_frames e st a with
  | (st1, o1, true) =>
      match process_frames e st1 b with
      | (st2, o2, ok) => (st2, o1 ++ o2, ok)
      end
  | r => r
  end.
Proof.
  induction a as [|fr a IH]; intros b st; simpl.
  - destruct (process_frames e st b) as [[st2 o2] ok]. reflexivity.
  - destruct (process_frame e st fr) as [[st1 o1] [|]]; auto.
    rewrite IH.
    destruct (process_frames e st1 a) as [[st2 o2] [|]]; auto.
    destruct (process_frames e st2 b) as [[st3 o3] ok]. now rewrite app_assoc.
Qed.

(* without reset signals a run is the frame loop over the concatenation of the packets, whatever the packets are *)
Lemma run_steps_concat : forall e steps st st' out,
  Forall (fun s => snd s = false) steps ->
  process_frames e st (concat (map fst steps)) = (st', out, true) ->
  exists outs, run_steps e st steps = (outs, finalize st', 0) /\ concat outs = out /\ length outs = length steps.
Proof.
  induction steps as [|[p r] steps IH]; intros st st' out HR H; simpl in *.
  - inversion H; subst. exists []. auto.
  - inversion HR as [|? ? Hr HR']; subst. simpl in Hr. subst r.
    rewrite process_frames_app in H. unfold process_data.
    destruct (process_frames e st p) as [[st1 o1] [|]]; [|discriminate]. cbn [andb].
    destruct (process_frames e st1 (concat (map fst steps))) as [[st2 o2] ok] eqn:E.
    inversion H; subst.
    destruct (IH st1 st' o2 HR' E) as (outs & Hrun & Hc & Hl).
    rewrite Hrun. exists (o1 :: outs). simpl. now rewrite Hc, Hl.
Qed.

Lemma clear_mapped : forall e n, clear_pixels (mapped_pixels e n) = repeat f32_zero (Z.to_nat n).
Proof.
  intros e n. unfold clear_pixels, mapped_pixels.
  induction (Z.to_nat n) as [|m IH]; simpl; auto. now rewrite IH.
Qed.

Lemma same_shape_set_type : forall s t, same_shape (set_type s t) s = true.
Proof. intros s t. unfold same_shape, set_type; simpl. now rewrite !Z.eqb_refl. Qed.

(* ------------------------------------------------------------------ the specification, one window at a time *)
Lemma window_0_app : forall k (w rest : list frame), length w = k -> window k 0 (w ++ rest) = w.
Proof.
  intros k w rest H. unfold window. simpl skipn.
  rewrite firstn_app, H, Nat.sub_diag. simpl. rewrite app_nil_r. rewrite <- H. apply firstn_all.
Qed.

Lemma skipn_app_past : forall (w rest : list frame) n, skipn (length w + n) (w ++ rest) = skipn n rest.
Proof.
  intros w rest n. rewrite skipn_app.
  rewrite skipn_all2 by lia. simpl. f_equal. lia.
Qed.

Lemma window_S_app : forall k i (w rest : list frame), length w = k -> window k (S i) (w ++ rest) = window k i rest.
Proof.
  intros k i w rest H. unfold window. replace (S i * k)%nat with (length w + i * k)%nat by (rewrite H; simpl; lia).
  now rewrite skipn_app_past.
Qed.

Lemma spec_outputs_step : forall k (w rest : list frame), (0 < k)%nat -> length w = k ->
  spec_outputs k (w ++ rest) = mean_frame w :: spec_outputs k rest.
Proof.
  intros k w rest Hk Hw. unfold spec_outputs, remainder.
  rewrite app_length, Hw.
  replace (k + length rest)%nat with (1 * k + length rest)%nat by lia.
  rewrite Nat.div_add_l by lia.
  replace (1 * k + length rest)%nat with (length rest + 1 * k)%nat by lia.
  rewrite Nat.mod_add by lia.
  simpl seq. simpl map. rewrite (window_0_app k w rest Hw).
  rewrite <- seq_shift, map_map.
  rewrite (map_ext (fun i => mean_frame (window k (S i) (w ++ rest))) (fun i => mean_frame (window k i rest)))
    by (intros i; now rewrite window_S_app).
  replace ((1 + length rest / k) * k)%nat with (length w + (length rest / k) * k)%nat by (rewrite Hw; lia).
  rewrite skipn_app_past. reflexivity.
Qed.

Lemma spec_outputs_short : forall k (fs : list frame), (length fs < k)%nat ->
  spec_outputs k fs = match fs with [] => [] | _ => [sum_frame fs] end.
Proof.
  intros k fs H. unfold spec_outputs, remainder.
  rewrite Nat.div_small, Nat.mod_small by lia. simpl.
  destruct fs; simpl; auto.
Qed.

(* ------------------------------------------------------------------ the filter, one window at a time *)
Section OneShape.
Variable e : env.
Variable sh : shape.
Hypothesis Hk : 2 <= e_k e.
Hypothesis Hfit : acc_bytes sh < e_outcap e.
Hypothesis Hint : is_integer_type (stype_of_code (ty sh)) = true.

Definition good (fr : frame) : Prop := f_shape fr = sh.

Definition open_state (pre : list frame) : fstate := mkSt (Some (sum_frame pre)) (Z.of_nat (length pre)).

Lemma first_frame : forall fr, good fr -> process_frame e st_init fr = (open_state [fr], [], true).
Proof.
  intros fr G. unfold good in G. unfold process_frame, st_init, open_state; simpl st_acc.
  rewrite G. fold (acc_bytes sh).
  destruct (Z.ltb_spec (acc_bytes sh) (e_outcap e)) as [_|F]; [|lia].
  unfold accumulate_frame; simpl o_shape; simpl ty. rewrite G.
  change (code_f32 =? code_f32) with true. simpl negb. cbv iota.
  rewrite Hint. simpl o_bytes; simpl o_id; simpl o_px.
  rewrite clear_mapped. unfold sum_frame. rewrite G. simpl map. unfold acc_frames; simpl fold_left.
  unfold frame_values. rewrite G. reflexivity.
Qed.

Lemma accumulate_next : forall pre fr, pre <> [] -> Forall good pre -> good fr ->
  same_shape (o_shape (sum_frame pre)) (f_shape fr) = true /\
  accumulate_frame (sum_frame pre) fr = Some (sum_frame (pre ++ [fr])).
Proof.
  intros [|f0 pre] fr NE GP G; [congruence|]. unfold good in G.
  inversion GP as [|? ? G0 _]; subst. unfold good in G0.
  split.
  - simpl. rewrite G0, G. apply same_shape_set_type.
  - unfold accumulate_frame. simpl o_shape. simpl ty.
    change (code_f32 =? code_f32) with true. simpl negb. cbv iota.
    assert (FV : frame_values fr = decode (stype_of_code (ty sh)) (f_data fr)) by (unfold frame_values; now rewrite G).
    rewrite G, Hint. simpl. rewrite map_app. unfold acc_frames. rewrite fold_left_app. simpl.
    rewrite FV. reflexivity.
Qed.

Lemma window_from : forall rest pre,
  pre <> [] -> Forall good pre -> Forall good rest ->
  Z.of_nat (length pre) < e_k e ->
  Z.of_nat (length pre + length rest) <= e_k e ->
  process_frames e (open_state pre) rest =
  if (Z.of_nat (length pre + length rest) =? e_k e)
  then (st_init, [mean_frame (pre ++ rest)], true)
  else (open_state (pre ++ rest), [], true).
Proof.
  induction rest as [|fr rest IH]; intros pre NE GP GR Hlt Hle.
  - rewrite Nat.add_0_r, app_nil_r. simpl.
    destruct (Z.eqb_spec (Z.of_nat (length pre)) (e_k e)); [lia|reflexivity].
  - inversion GR as [|? ? G GR']; subst.
    destruct (accumulate_next pre fr NE GP G) as [Hs Ha].
    simpl process_frames. unfold process_frame. unfold open_state at 1. simpl st_acc. simpl st_count. cbv iota.
    rewrite Hs, Ha.
    simpl length in Hle.
    destruct (Z.leb_spec (e_k e) (Z.of_nat (length pre) + 1)) as [L|L].
    + (* the window closes here; nothing can follow *)
      assert (rest = []) by (destruct rest; auto; simpl in Hle; lia). subst rest.
      simpl. destruct (Z.eqb_spec (Z.of_nat (length pre + 1)) (e_k e)) as [_|N]; [|lia].
      unfold mean_frame. rewrite app_length. simpl length. rewrite Nat2Z.inj_add. reflexivity.
    + assert (NE' : pre ++ [fr] <> []) by (destruct pre; discriminate).
      assert (GP' : Forall good (pre ++ [fr])) by (apply Forall_app; auto).
      pose proof (IH (pre ++ [fr]) NE' GP' GR') as IH'.
      assert (L1 : length (pre ++ [fr]) = (length pre + 1)%nat) by (rewrite app_length; reflexivity).
      rewrite L1 in IH'.
      assert (S1 : mkSt (Some (sum_frame (pre ++ [fr]))) (Z.of_nat (length pre) + 1) = open_state (pre ++ [fr])).
      { unfold open_state. rewrite L1. f_equal. lia. }
      rewrite S1. rewrite IH' by lia.
      replace (length pre + 1 + length rest)%nat with (length pre + length (fr :: rest))%nat by (simpl; lia).
      replace ((pre ++ [fr]) ++ rest) with (pre ++ fr :: rest) by (rewrite <- app_assoc; reflexivity).
      destruct (Z.of_nat (length pre + length (fr :: rest)) =? e_k e); reflexivity.
Qed.

Lemma complete_window : forall w, Forall good w -> Z.of_nat (length w) = e_k e ->
  process_frames e st_init w = (st_init, [mean_frame w], true).
Proof.
  intros [|f0 w] G L; [simpl in L; lia|].
  inversion G as [|? ? G0 GW]; subst.
  simpl process_frames. rewrite (first_frame f0 G0).
  rewrite (window_from w [f0]); auto; try discriminate; simpl length; try lia.
  - replace (Z.of_nat (1 + length w)) with (e_k e) by (simpl length in L; lia).
    rewrite Z.eqb_refl. reflexivity.
  - simpl length in L. lia.
Qed.

Lemma partial_window : forall w, w <> [] -> Forall good w -> Z.of_nat (length w) < e_k e ->
  process_frames e st_init w = (open_state w, [], true).
Proof.
  intros [|f0 w] NE G L; [congruence|].
  inversion G as [|? ? G0 GW]; subst.
  simpl process_frames. rewrite (first_frame f0 G0).
  rewrite (window_from w [f0]); auto; try discriminate; simpl length; try (simpl length in L; lia).
  destruct (Z.eqb_spec (Z.of_nat (1 + length w)) (e_k e)) as [E|_]; [simpl length in L; lia|].
  reflexivity.
Qed.

(* the whole stream, as one frame loop *)
Lemma stream : forall n fs, (length fs <= n)%nat -> Forall good fs ->
  exists st' out, process_frames e st_init fs = (st', out, true) /\
                  out ++ finalize st' = spec_outputs (Z.to_nat (e_k e)) fs.
Proof.
  set (k := Z.to_nat (e_k e)).
  assert (Hk0 : (2 <= k)%nat) by (unfold k; lia).
  induction n as [|n IH]; intros fs Hn G.
  - destruct fs; [|simpl in Hn; lia]. exists st_init, []. split; auto.
    rewrite spec_outputs_short by (simpl; lia). reflexivity.
  - destruct (Nat.lt_ge_cases (length fs) k) as [Short|Long].
    + rewrite spec_outputs_short by assumption.
      destruct fs as [|f0 fs']; [exists st_init, []; split; reflexivity|].
      exists (open_state (f0 :: fs')), []. split.
      * apply partial_window; auto. discriminate. unfold k in Short. lia.
      * reflexivity.
    + rewrite <- (firstn_skipn k fs).
      assert (Lw : length (firstn k fs) = k) by (rewrite firstn_length; lia).
      assert (Gw : Forall good (firstn k fs)).
      { rewrite <- (firstn_skipn k fs) in G. apply Forall_app in G. tauto. }
      assert (Gr : Forall good (skipn k fs)).
      { rewrite <- (firstn_skipn k fs) in G. apply Forall_app in G. tauto. }
      destruct (IH (skipn k fs)) as (st' & out & Hp & Ho); auto.
      { rewrite skipn_length. lia. }
      exists st', (mean_frame (firstn k fs) :: out). split.
      * rewrite process_frames_app, complete_window, Hp; auto. rewrite Lw. unfold k. lia.
      * rewrite spec_outputs_step by (auto; lia). simpl. now rewrite Ho.
Qed.

(* C10_windows, model level *)
Theorem windows : forall steps fs,
  Forall (fun s => snd s = false) steps ->
  concat (map fst steps) = fs ->
  Forall good fs ->
  exists outs fin,
    run_thread e steps = (outs, fin, 0) /\
    length outs = length steps /\
    concat outs ++ fin = spec_outputs (Z.to_nat (e_k e)) fs.
Proof.
  intros steps fs HR HC G.
  destruct (stream (length fs) fs (le_n _) G) as (st' & out & Hp & Ho).
  rewrite <- HC in Hp.
  destruct (run_steps_concat e steps st_init st' out HR Hp) as (outs & Hrun & Hc & Hl).
  exists outs, (finalize st'). unfold run_thread. rewrite Hrun, Hc. auto.
Qed.
End OneShape.

(* ------------------------------------------------------------------ what spec_outputs says, spelled out *)

Lemma firstn_plus : forall (A : Type) n m (l : list A), firstn (n + m) l = firstn n l ++ firstn m (skipn n l).
Proof.
  induction n as [|n IH]; intros m l; simpl; auto.
  destruct l as [|x l]; simpl.
  - now rewrite firstn_nil.
  - now rewrite IH.
Qed.

Lemma nth_skipn' : forall (A : Type) n j (l : list A) d, nth j (skipn n l) d = nth (n + j) l d.
Proof.
  induction n as [|n IH]; intros j l d; simpl; auto.
  destruct l as [|x l]; simpl; auto. destruct j; auto.
Qed.

Lemma nth_firstn' : forall (A : Type) k j (l : list A) d, (j < k)%nat -> nth j (firstn k l) d = nth j l d.
Proof.
  induction k as [|k IH]; intros j l d H; [lia|].
  destruct l as [|x l]; simpl; auto. destruct j; auto. apply IH. lia.
Qed.

Lemma window_nth : forall k i j (fs : list frame) d, (j < k)%nat ->
  nth j (window k i fs) d = nth (i * k + j) fs d.
Proof. intros. unfold window. rewrite nth_firstn' by assumption. apply nth_skipn'. Qed.

Lemma window_length : forall k i (fs : list frame), (0 < k)%nat -> (i < length fs / k)%nat ->
  length (window k i fs) = k.
Proof.
  intros k i fs Hk Hi. unfold window. rewrite firstn_length, skipn_length.
  assert (k * (length fs / k) <= length fs)%nat by (apply Nat.mul_div_le; lia).
  nia.
Qed.

Lemma concat_windows : forall q k (fs : list frame),
  concat (map (fun i => window k i fs) (seq 0 q)) = firstn (q * k) fs.
Proof.
  induction q as [|q IH]; intros k fs; [reflexivity|].
  rewrite seq_S, map_app, concat_app, IH. simpl. rewrite app_nil_r.
  replace (k + q * k)%nat with (q * k + k)%nat by lia.
  now rewrite firstn_plus.
Qed.

(* no input frame is skipped or counted twice: the windows and the remainder partition the input *)
Lemma windows_partition : forall k (fs : list frame),
  concat (map (fun i => window k i fs) (seq 0 (length fs / k))) ++ remainder k fs = fs.
Proof. intros. rewrite concat_windows. unfold remainder. apply firstn_skipn. Qed.

Lemma remainder_length : forall k (fs : list frame), (0 < k)%nat -> length (remainder k fs) = (length fs mod k)%nat.
Proof.
  intros k fs Hk. unfold remainder. rewrite skipn_length.
  rewrite (Nat.div_mod (length fs) k) at 1 by lia. lia.
Qed.

Lemma spec_outputs_length : forall k (fs : list frame),
  length (spec_outputs k fs) = (length fs / k + (if (length fs mod k =? 0)%nat then 0 else 1))%nat.
Proof.
  intros. unfold spec_outputs. rewrite app_length, map_length, seq_length.
  destruct (_ =? _)%nat; reflexivity.
Qed.

Lemma spec_outputs_nth : forall k (fs : list frame) i d, (i < length fs / k)%nat ->
  nth i (spec_outputs k fs) d = mean_frame (window k i fs).
Proof.
  intros k fs i d Hi. unfold spec_outputs.
  rewrite app_nth1 by (rewrite map_length, seq_length; lia).
  rewrite (nth_indep _ d (mean_frame (window k 0 fs))) by (rewrite map_length, seq_length; lia).
  rewrite (map_nth (fun i => mean_frame (window k i fs)) (seq 0 (length fs / k)) 0%nat i).
  now rewrite seq_nth.
Qed.

(* header and pixels of the frame emitted for a non-empty window *)
Lemma mean_frame_fields : forall w d, w <> [] ->
  let o := mean_frame w in
  let f0 := nth 0 w d in
  o_id o = f_id f0 /\
  o_shape o = set_type (f_shape f0) code_f32 /\
  o_bytes o = acc_bytes (f_shape f0) /\
  o_px o = window_mean (repeat f32_zero (Z.to_nat (npx (f_shape f0)))) (map frame_values w).
Proof.
  intros [|f0 w] d NE; [congruence|].
  unfold mean_frame, sum_frame, normalize_frame. cbn [o_id o_shape o_bytes o_px nth]. repeat split.
  unfold window_mean. rewrite map_length. reflexivity.
Qed.
