(* Line-protocol driver around the extracted TIFF model (same protocol as harness/h_tiff.cpp).

   case <id>
   dev tiff|json
   file <path-hex> <hex | ->                 (a file that already exists, with these contents)
   fix <d6> <d25> <d26>                      (optional, default 1 1 1 = the repaired code)
   sw <e> <e> ...                            (optional: the short-write script, one answer per pwrite call of this case
                                              in call order, calls beyond it transfer everything:
                                              f = everything | b<c> = at most c bytes (b0 = the zero-length result) |
                                              m<c> = all but c, at least 1 | h = half, rounded up | p<k> = k/256, at least 1)
   set <uri-hex> <md: - | e | hex> <sx_p> <sx_q> <sy_p> <sy_q> [ignored...]
   start
   append <k>          followed by k lines
   frame <w> <h> <type> <frame_id> <hw_frame_id> <ts_hw> <ts_acq> <data-hex | ->
   stop
   snap <k> <path-hex> [<dst-hex>]           (dump the current contents of one file, tagged k)
   end                                       (destroy; dump the files and what TiffDec.decode reads in them; then
                                              "pwrites <n> <offset>:<requested>:<returned> ..." = the log of the pwrite calls, and
                                              "iofail" if some file_write gave up = the script exceeds the loop's zero-count budget)
   Every write goes through TiffSw.file_write (the write-all loop of linux/platform.c) against the script.
*)
open Tiffmodel

let rec pos_of_int n = if n = 1 then XH else if n land 1 = 0 then XO (pos_of_int (n lsr 1)) else XI (pos_of_int (n lsr 1))
let n_of_int n = if n = 0 then N0 else Npos (pos_of_int n)
let rec int_of_pos = function XH -> 1 | XO p -> 2 * int_of_pos p | XI p -> 2 * int_of_pos p + 1
let int_of_n = function N0 -> 0 | Npos p -> int_of_pos p
let ten = n_of_int 10

(* arbitrary-size decimal <-> N *)
let n_of_string s =
  let acc = ref N0 in
  String.iter (fun c ->
      if c < '0' || c > '9' then failwith ("bad number " ^ s);
      acc := N.add (N.mul !acc ten) (n_of_int (Char.code c - 48))) s;
  !acc
let string_of_n n =
  if n = N0 then "0" else begin
    let b = Buffer.create 24 in
    let rec go n acc = if n = N0 then acc else
        let (q, r) = N.div_eucl n ten in go q (Char.chr (48 + int_of_n r) :: acc) in
    List.iter (Buffer.add_char b) (go n []); Buffer.contents b end

let hexval c = match c with
  | '0'..'9' -> Char.code c - 48 | 'a'..'f' -> Char.code c - 87 | 'A'..'F' -> Char.code c - 55
  | _ -> failwith "bad hex"
let bytes_of_hex s =
  let n = String.length s / 2 in
  let rec go i acc = if i < 0 then acc else go (i - 1) (n_of_int (hexval s.[2*i] * 16 + hexval s.[2*i+1]) :: acc) in
  go (n - 1) []
let hex_of_bytes l =
  let b = Buffer.create 1024 in
  List.iter (fun x -> Buffer.add_string b (Printf.sprintf "%02x" (int_of_n x))) l;
  Buffer.contents b

let state_name = function Closed -> "Closed" | AwaitingConfiguration -> "AwaitingConfiguration" | Armed -> "Armed" | Running -> "Running"
let dstate (d : dev) = match d with DTiff t -> t.t_state | DSbs s -> s.s_state

let words line = List.filter (fun s -> s <> "") (String.split_on_char ' ' (String.trim line))

let print_dec tag name f =
  match decode f with
  | None -> Printf.printf "dec %s %s none\n" tag (hex_of_bytes name)
  | Some ds ->
    Printf.printf "dec %s %s %d" tag (hex_of_bytes name) (List.length ds);
    List.iter (fun d ->
        let j = d.d_desc in
        Printf.printf " | %s %s %s %s %s %s %s %s %s %s %s %s %s %s %s %s %s"
          (string_of_n d.d_off) (string_of_n d.d_ntags) (string_of_n d.d_next)
          (string_of_n d.d_width) (string_of_n d.d_height) (string_of_n d.d_bits) (string_of_n d.d_format)
          (string_of_n d.d_strip_off) (string_of_n d.d_strip_len)
          (match d.d_strip with [] -> "-" | l -> hex_of_bytes l)
          (string_of_n d.d_desc_off) (string_of_n d.d_desc_len)
          (string_of_n j.j_frame_id) (string_of_n j.j_hw_frame_id) (string_of_n j.j_ts_runtime) (string_of_n j.j_ts_hardware)
          (match j.j_metadata with None -> "-" | Some [] -> "e" | Some m -> hex_of_bytes m)) ds;
    print_newline ()

let dump_file tag name content =
  let hk = hex_of_bytes name in
  match content with
  | None -> Printf.printf "file %s %s missing\n" tag hk
  | Some v ->
    Printf.printf "file %s %s %d %s\n" tag hk (List.length v) (match v with [] -> "-" | _ -> hex_of_bytes v);
    let n = String.length hk in
    if n >= 8 && String.sub hk (n - 8) 8 = "2e746966" (* .tif *) then print_dec tag name v

let sw_of_string s =
  let arg () = n_of_string (String.sub s 1 (String.length s - 1)) in
  match s.[0] with
  | 'f' -> SwFull
  | 'b' -> SwBytes (arg ())
  | 'm' -> SwAllBut (arg ())
  | 'h' -> SwHalf
  | 'p' -> SwFrac (arg ())
  | _ -> failwith ("bad short-write entry " ^ s)

let () =
  let w = ref (dev_init false, []) in
  let fx = ref all_fixes in
  let os = ref (os_init []) in
  let io_ok = ref true in
  let op name o =
    let (((w', ok), iook), os') = step_sw !fx !w !os o in
    w := w'; os := os'; io_ok := !io_ok && iook;
    Printf.printf "%s ok=%d state=%s\n" name (if ok then 1 else 0) (state_name (dstate (fst w'))) in
  (try
     while true do
       let line = input_line stdin in
       match words line with
       | [] -> ()
       | ["case"; id] -> w := (dev_init false, []); fx := all_fixes; os := os_init []; io_ok := true; Printf.printf "case %s\n" id
       | "sw" :: es -> os := os_init (List.map sw_of_string es)
       | ["dev"; k] -> w := (dev_init (k = "json"), snd !w)
       | ["file"; path; data] ->
         (* a file that exists before the device is used (left by an earlier acquisition / another process) *)
         w := (fst !w, fs_put (snd !w) (bytes_of_hex path) (if data = "-" then [] else bytes_of_hex data))
       | ["fix"; a; b; c] -> fx := { fix_d6 = a <> "0"; fix_d25 = b <> "0"; fix_d26 = c <> "0" }
       | "set" :: uri :: md :: sxp :: sxq :: syp :: syq :: _ ->
         let md = if md = "-" then None else if md = "e" then Some [] else Some (bytes_of_hex md) in
         op "set" (OSet { p_uri = bytes_of_hex uri; p_md = md;
                          p_sx = (n_of_string sxp, n_of_string sxq); p_sy = (n_of_string syp, n_of_string syq) })
       | ["start"] -> op "start" OStart
       | ["stop"] -> op "stop" OStop
       | ["append"; k] ->
         let k = int_of_string k in
         let frs = List.init k (fun _ ->
             match words (input_line stdin) with
             | ["frame"; wd; ht; ty; fid; hid; tsh; tsa; data] ->
               { f_width = n_of_string wd; f_height = n_of_string ht; f_type = n_of_string ty;
                 f_frame_id = n_of_string fid; f_hw_frame_id = n_of_string hid;
                 f_ts_hw = n_of_string tsh; f_ts_acq = n_of_string tsa;
                 f_data = if data = "-" then [] else bytes_of_hex data }
             | _ -> failwith "frame line expected") in
         op "append" (OAppend frs)
       | ["end"] ->
         let ((w', iook), os') = destroy_sw !w !os in
         w := w'; os := os'; io_ok := !io_ok && iook;
         let files = List.sort compare (List.map (fun (k, v) -> (hex_of_bytes k, k, v)) (snd !w)) in
         List.iter (fun (_, k, v) -> dump_file "end" k (Some v)) files;
         let log = List.rev !os.os_log in
         Printf.printf "pwrites %d" (List.length log);
         List.iter (fun ((o, rq), rt) -> Printf.printf " %s:%s:%s" (string_of_n o) (string_of_n rq) (string_of_n rt)) log;
         print_newline ();
         if not !io_ok then print_string "iofail\n";
         print_string "endcase\n"
       | "snap" :: k :: path :: _ ->
         let name = bytes_of_hex path in
         dump_file k name (fs_get (snd !w) name)
       | _ -> Printf.printf "BADLINE %s\n" line
     done
   with End_of_file -> ())
