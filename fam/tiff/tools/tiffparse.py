#!/usr/bin/env python3
"""Independent BigTIFF reader and the C15 property oracle.

It knows nothing about the writer or about the Coq model: it reads a file the way the BigTIFF specification
says (little-endian header, chain of directories, 20-byte entries, inline-vs-offset by total value size)
and states the clauses of C15 directly over what it finds:

  * little-endian BigTIFF header; the chain has exactly N directories and ends in a zero link
  * every offset + length is inside the file; header, directories, strips and out-of-line values do not overlap
  * directory i gives frame i's width, height, bits per sample and sample format
  * its strip is frame i's payload (the pixel bytes are a prefix of it)
  * its description is JSON with frame i's ids and timestamps, and the user's metadata on the first frame
    (tiff) / in metadata.json (tiff-json)

CLI:  tiffparse.py FILE      prints the structure and the structural problems of one file.
"""
import json
import re
import struct
import sys

TYPE_SIZE = {1: 1, 2: 1, 3: 2, 4: 4, 5: 8, 6: 1, 7: 1, 8: 2, 9: 4, 10: 8, 11: 4, 12: 8, 16: 8, 17: 8, 18: 8}
BYTES_OF_TYPE = {0: 1, 1: 2, 2: 1, 3: 2, 4: 4, 5: 2, 6: 2, 7: 2}     # enum SampleType -> bytes per sample
SAMPLE_FORMAT = {0: 1, 1: 1, 5: 1, 6: 1, 7: 1, 2: 2, 3: 2, 4: 3}      # unsigned / signed / float


class Problem(Exception):
    def __init__(self, key, msg):
        Exception.__init__(self, msg)
        self.key = key
        self.msg = msg


def parse(data, max_dirs=100000):
    """Returns (dirs, regions, problems). dirs: list of dict(off, ntags, next, tags{tag: (type, count, raw, value_off)})."""
    problems = []
    dirs = []
    regions = [("header", 0, 16)]
    n = len(data)
    if n < 16:
        return dirs, regions, [("header", "file has %d bytes, shorter than a BigTIFF header" % n)]
    bo, ver, osz, zero, first = struct.unpack_from("<2sHHHQ", data, 0)
    if bo != b"II" or ver != 43 or osz != 8 or zero != 0:
        return dirs, regions, [("header", "not a little-endian BigTIFF header: %r version=%d offsetsize=%d const=%d" % (bo, ver, osz, zero))]
    off = first
    seen = set()
    while off != 0:
        if off in seen:
            problems.append(("chain-loop", "directory chain loops back to offset %d" % off))
            break
        seen.add(off)
        if len(dirs) >= max_dirs:
            problems.append(("chain-too-long", "more than %d directories" % max_dirs))
            break
        if off + 8 > n:
            problems.append(("chain-not-terminated",
                             "link %d of the directory chain points to offset %d, at or beyond the end of the %d-byte file "
                             "(the chain does not end in a zero link)" % (len(dirs), off, n)))
            break
        (nt,) = struct.unpack_from("<Q", data, off)
        end = off + 8 + 20 * nt + 8
        if end > n:
            problems.append(("ifd-out-of-bounds", "directory %d at %d with %d entries ends at %d, beyond the %d-byte file" % (len(dirs), off, nt, end, n)))
            break
        tags = {}
        order = []
        regions.append(("ifd%d" % len(dirs), off, end - off))
        for k in range(nt):
            tag, typ, cnt = struct.unpack_from("<HHQ", data, off + 8 + 20 * k)
            raw = data[off + 8 + 20 * k + 12: off + 8 + 20 * k + 20]
            order.append(tag)
            size = TYPE_SIZE.get(typ)
            voff = None
            if size is None:
                problems.append(("bad-type", "directory %d tag %d has unknown type %d" % (len(dirs), tag, typ)))
                val = None
            elif size * cnt <= 8:
                val = raw[:size * cnt]
            else:
                (voff,) = struct.unpack("<Q", raw)
                if voff + size * cnt > n:
                    problems.append(("value-out-of-bounds", "directory %d tag %d: value at %d+%d is beyond the %d-byte file" % (len(dirs), tag, voff, size * cnt, n)))
                    val = None
                else:
                    val = data[voff:voff + size * cnt]
                    regions.append(("ifd%d.tag%d" % (len(dirs), tag), voff, size * cnt))
            if tag not in tags:
                tags[tag] = (typ, cnt, val, voff)
        (nxt,) = struct.unpack_from("<Q", data, off + 8 + 20 * nt)
        dirs.append({"off": off, "ntags": nt, "next": nxt, "tags": tags, "order": order})
        off = nxt
    return dirs, regions, problems


def scalar(d, tag):
    t = d["tags"].get(tag)
    if t is None:
        return None
    typ, cnt, val, _ = t
    if val is None or cnt != 1:
        return None
    fmt = {1: "<B", 3: "<H", 4: "<I", 16: "<Q"}.get(typ)
    if fmt is None:
        return None
    return struct.unpack(fmt, val)[0]


def strips(data, d, regions, problems, idx):
    so, sc = scalar(d, 273), scalar(d, 279)
    if so is None or sc is None:
        problems.append(("no-strip", "directory %d has no single StripOffsets/StripByteCounts" % idx))
        return None
    if so + sc > len(data):
        problems.append(("strip-out-of-bounds", "directory %d: strip %d+%d is beyond the %d-byte file" % (idx, so, sc, len(data))))
        return None
    regions.append(("strip%d" % idx, so, sc))
    return data[so:so + sc]


def overlaps(regions):
    out = []
    rs = sorted((r for r in regions if r[2] > 0), key=lambda r: (r[1], r[2]))
    for a, b in zip(rs, rs[1:]):
        if a[1] + a[2] > b[1]:
            out.append(("overlap", "%s [%d,%d) overlaps %s [%d,%d)" % (a[0], a[1], a[1] + a[2], b[0], b[1], b[1] + b[2])))
    return out


def check_tiff(data, frames, metadata, kind="tiff"):
    """frames: list of dict(w,h,type,fid,hwid,tshw,tsacq,data: bytes). metadata: bytes or None (what the user configured
    for this acquisition; None/b'' = none).  Returns a list of (key, message)."""
    dirs, regions, problems = parse(data)
    N = len(frames)
    structural = list(problems)
    if not structural and len(dirs) != N:
        structural.append(("chain-length", "the chain has %d directories for %d appended frames" % (len(dirs), N)))
    out = list(structural)
    have_md = bool(metadata)
    for i, d in enumerate(dirs[:N]):
        f = frames[i]
        strip = strips(data, d, regions, out, i)
        w, h, bits, fmt = scalar(d, 256), scalar(d, 257), scalar(d, 258), scalar(d, 339)
        exp = (f["w"], f["h"], 8 * BYTES_OF_TYPE[f["type"]], SAMPLE_FORMAT[f["type"]])
        if (w, h, bits, fmt) != exp:
            out.append(("shape", "directory %d says width,height,bits,format = %r, frame %d has %r" % (i, (w, h, bits, fmt), i, exp)))
        if strip is not None:
            npx = f["w"] * f["h"] * BYTES_OF_TYPE[f["type"]]
            if strip != f["data"]:
                out.append(("strip", "the strip of directory %d (%d bytes) differs from frame %d's payload (%d bytes)" % (i, len(strip), i, len(f["data"]))))
            elif strip[:npx] != f["data"][:npx] or len(strip) < npx:
                out.append(("strip", "the strip of directory %d does not start with frame %d's %d pixel bytes" % (i, i, npx)))
        t = d["tags"].get(270)
        if t is None or t[0] != 2 or t[2] is None or not t[2].endswith(b"\0"):
            out.append(("description", "directory %d has no NUL-terminated ASCII ImageDescription" % i))
            continue
        desc = t[2][:-1]
        user_md_is_json = False
        md_obj = None
        if have_md:
            try:
                md_obj = json.loads(metadata.decode("utf-8"))
                user_md_is_json = True
            except Exception:
                pass
        try:
            j = json.loads(desc.decode("utf-8"))
        except Exception as ex:
            if have_md and not user_md_is_json and i == 0:
                # the user's metadata is not JSON: only the ids can be looked at
                m = re.match(rb'\{"frame_id":(\d+),"hardware_frame_id":(\d+),"timestamps":\{"runtime":(\d+),"hardware":(\d+)\}', desc)
                got = tuple(int(x) for x in m.groups()) if m else None
                if got != (f["fid"], f["hwid"], f["tsacq"], f["tshw"]):
                    out.append(("description-ids", "description of directory %d carries %r, frame %d has ids/timestamps %r" % (i, got, i, (f["fid"], f["hwid"], f["tsacq"], f["tshw"]))))
                if metadata not in desc:
                    out.append(("metadata-missing", "description of directory 0 does not contain the user's metadata"))
                continue
            if i == 0 and not have_md and b',"metadata":' in desc:
                out.append(("metadata-stale", "the first description carries metadata although this acquisition was configured with none: %r" % (desc[:200],)))
                continue
            out.append(("description-json", "description of directory %d is not JSON (%s): %r" % (i, ex, desc[:200])))
            continue
        try:
            got = (j["frame_id"], j["hardware_frame_id"], j["timestamps"]["runtime"], j["timestamps"]["hardware"])
        except Exception:
            got = None
        if got != (f["fid"], f["hwid"], f["tsacq"], f["tshw"]):
            out.append(("description-ids", "description of directory %d carries %r, frame %d has ids/timestamps (frame,hw,runtime,hardware) %r"
                        % (i, got, i, (f["fid"], f["hwid"], f["tsacq"], f["tshw"]))))
        if "metadata" in j:
            if i > 0:
                out.append(("metadata-not-first", "directory %d (not the first) carries a metadata member" % i))
            elif not have_md:
                out.append(("metadata-stale", "the first description carries metadata %r although this acquisition was configured with none"
                            % (json.dumps(j["metadata"])[:200],)))
            elif user_md_is_json and j["metadata"] != md_obj:
                out.append(("metadata-wrong", "the first description carries metadata %r, the user configured %r"
                            % (json.dumps(j["metadata"])[:200], metadata[:200])))
        elif i == 0 and have_md and kind == "tiff":
            out.append(("metadata-missing", "the first description does not carry the user's metadata %r" % (metadata[:200],)))
    out.extend(overlaps(regions))
    return out


def check_metadata_json(content, metadata):
    want = metadata or b""
    if content is None:
        return [("metadata-json-missing", "metadata.json does not exist")]
    if content != want:
        return [("metadata-json", "metadata.json holds %d bytes %r..., the user's metadata is %d bytes %r..." % (len(content), content[:80], len(want), want[:80]))]
    return []


def main():
    data = open(sys.argv[1], "rb").read()
    dirs, regions, problems = parse(data)
    print("%d bytes, %d directories" % (len(data), len(dirs)))
    for i, d in enumerate(dirs):
        probs = []
        s = strips(data, d, regions, probs, i)
        problems += probs
        t = d["tags"].get(270)
        print(" ifd%d at %d: %dx%d bits=%s fmt=%s strip=%s+%s next=%d tags=%s\n   desc=%r" % (
            i, d["off"], scalar(d, 256) or 0, scalar(d, 257) or 0, scalar(d, 258), scalar(d, 339), scalar(d, 273), scalar(d, 279),
            d["next"], d["order"], (t[2] or b"")[:300] if t else None))
    problems += overlaps(regions)
    for k, m in problems:
        print("PROBLEM %s: %s" % (k, m))
    return 1 if problems else 0


if __name__ == "__main__":
    sys.exit(main())
