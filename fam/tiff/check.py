"""TIFF family: C15 (tiff / tiff-json write valid BigTIFF files that round-trip every frame).  DESIGN 6.15.

prove -> build -> corpus -> correspond (file bytes, byte for byte, against the extracted Coq model) -> oracle
(independent Python BigTIFF reader stating the property over the implementation's files) -> minimised replay.

The OS level is scripted: the harness is linked with -Wl,--wrap=pwrite, and a case may carry a short-write script
("sw": one answer per pwrite call, see gen_script) that the harness's pwrite and the model's pwrite oracle
(coq/TiffSw.v: file_write as the write-all loop of linux/platform.c) both follow.  pwrite never fails here (C16's).
"""
import binascii
import copy
import hashlib
import json
import os
import shutil
import sys
from fractions import Fraction

import vlib

sys.path.insert(0, os.path.join(os.path.dirname(os.path.abspath(__file__)), "tools"))
import tiffparse  # noqa: E402

L = "acquire-core-libs/src"
D = "acquire-driver-common/src"
SOURCES = [
    D + "/storage/tiff.cpp",
    D + "/storage/side-by-side-tiff.cpp",
    D + "/storage/basic.storage.c",
    D + "/storage/raw.c",
    D + "/storage/trash.c",
    L + "/acquire-core-platform/linux/platform.c",
    L + "/acquire-device-properties/device/props/storage.c",
    L + "/acquire-device-properties/device/props/components.c",
    L + "/acquire-device-properties/device/props/device.c",
    L + "/acquire-core-logger/logger.c",
    L + "/acquire-device-hal/device/hal/storage.c",
]
INCLUDES = [L + "/acquire-core-logger", L + "/acquire-core-platform/linux", L + "/acquire-device-properties",
            L + "/acquire-device-kit", L + "/acquire-device-hal", L + "/acquire-device-hal/device/hal", D]

BYTES_OF_TYPE = {0: 1, 1: 2, 2: 1, 3: 2, 4: 4, 5: 2, 6: 2, 7: 2}
TYPE_NAME = {0: "u8", 1: "u16", 2: "i8", 3: "i16", 4: "f32", 5: "u10", 6: "u12", 7: "u14"}


def hx(b):
    return binascii.hexlify(b).decode()


# ----------------------------------------------------------------------------- generator
DIMS = [1, 1, 2, 3, 4, 5, 7, 8, 9, 13, 16, 17, 31, 32, 33]
SCALES = [0.0, 0.5, 1.0, 1.0, 1.5, 2.0, 0.1, 0.999, 3.75, 6.5, 100.25, 429496.5, 429496.7296, 429497.0, 858994.0,
          4294967295.0, 4294967295.5, 1e-300, 123456.789, 65536.0]
ID_EDGES = [0, 1, 9, 10, 99, 100, 12345, 2 ** 31, 2 ** 32 - 1, 2 ** 32, 10 ** 15, 2 ** 63 - 1, 2 ** 63, 10 ** 19 - 1, 10 ** 19,
            2 ** 64 - 1]


def gen_metadata(rng, valid=True):
    """bytes (without NUL) or None (NULL string) ; b'' = the empty string."""
    if not valid:
        return rng.choice([b"x", b"{", b"}", b"{]", b"ab}", b"{\"a\":1", b"[1,2]", b"  {}"])
    r = rng.random()
    if r < 0.22:
        return None
    if r < 0.34:
        return b""
    if r < 0.42:
        return b"{}"
    if r < 0.47:
        return b"{x}"     # passes the writer's brace test, is not JSON (the user's problem; ids are still checked)
    obj = {}
    for _ in range(rng.choice([1, 1, 2, 3, 8, 40])):
        k = rng.choice(["a", "name", "k%d" % rng.randint(0, 99), "br}ace", "qu\"ote", "µm", "nested"])
        v = rng.choice([rng.randint(-5, 10 ** 12), rng.random(), "v" * rng.choice([0, 1, 7, 8, 9, 64, 300]), "}{", None, True,
                        [1, 2, {"z": "}"}], {"deep": {"er": [1.5, "x"]}}, "é中"])
        obj[k] = v
    s = json.dumps(obj, ensure_ascii=rng.random() < 0.5, separators=rng.choice([(",", ":"), (", ", ": ")]))
    return s.encode("utf-8")


def gen_frame(rng, ids, aligned, tier):
    ty = rng.choice([0, 0, 1, 1, 2, 3, 4, 5, 6, 7])
    if rng.random() < (0.03 if tier == "quick" else 0.06):
        w, h = rng.choice([(64, 48), (128, 96), (257, 63), (1, 1000), (640, 1)])
    else:
        w, h = rng.choice(DIMS), rng.choice(DIMS)
    npx = w * h * BYTES_OF_TYPE[ty]
    pad = (-npx) % 8
    if aligned:
        n = npx + pad                      # a frame followed by another one in the same packet must keep it 8-byte aligned
    else:
        n = npx + rng.choice([0, 0, pad, pad])
    r = rng.random()
    if r < 0.1:
        data = bytes([rng.randrange(256)]) * n
    else:
        data = rng.randbytes(n)
    mode = ids["mode"]
    if mode == "seq":
        fid = ids["next"]
        ids["next"] += 1
        hwid = fid + ids["hwoff"]
        tshw = 1000 * fid + 7
        tsacq = 1000 * fid + 500
    else:
        fid, hwid, tshw, tsacq = (rng.choice(ID_EDGES) if rng.random() < 0.6 else rng.getrandbits(rng.choice([8, 33, 64])) for _ in range(4))
    return {"w": w, "h": h, "type": ty, "fid": fid, "hwid": hwid, "tshw": tshw, "tsacq": tsacq, "data": hx(data)}


# ----------------------------------------------------------------------------- short-write scripts
# One entry per pwrite call of the case, in call order; calls beyond the script transfer everything.
#   f = everything | b<c> = at most c bytes (b0 = the zero-length result) | m<c> = all but c (at least 1) |
#   h = half, rounded up | p<k> = k/256 of the request (at least 1)
# The same entry means the same count in harness/h_tiff.cpp:sw_count and coq/TiffSw.v:sw_count.
ZERO_BUDGET = 2          # linux/platform.c:file_write gives up at its third zero-length result


def budget_ok(script):
    """coq/TiffSw.v:budget_ok 0 -- never more than ZERO_BUDGET zero answers between two 'f' answers: no file_write
    can then see a third zero-length result, however the calls are grouped into file_write calls."""
    z = 0
    for e in script:
        if e == "f":
            z = 0
        elif e == "b0":
            z += 1
            if z > ZERO_BUDGET:
                return False
    return True


def repair_budget(script):
    out, z = [], 0
    for e in script:
        if e == "f":
            z = 0
        elif e == "b0":
            if z + 1 > ZERO_BUDGET:
                e, z = "f", 0
            else:
                z += 1
        out.append(e)
    return out


def short_entry(rng):
    r = rng.random()
    if r < 0.22:
        return "b1"
    if r < 0.34:
        return "b%d" % rng.choice([2, 3, 7, 8, 9, 15, 16, 17, 335, 336])
    if r < 0.46:
        return "b%d" % rng.randint(1, 600)
    if r < 0.52:
        return "b%d" % rng.choice([1000, 4096, 5000])
    if r < 0.68:
        return "m1"
    if r < 0.76:
        return "m%d" % rng.randint(2, 64)
    if r < 0.88:
        return "h"
    return "p%d" % rng.randint(1, 255)


def gen_script(rng, case):
    """(mode, script) for a case; every script satisfies budget_ok."""
    calls = 0
    for cyc in case["cycles"]:
        calls += 2 + (1 if case["kind"] == "json" else 0) + 3 * sum(len(p) for p in cyc["packets"])
    mode = rng.choice(["sparse", "sparse", "sparse", "one", "one", "dense", "dribble", "dribble", "zeros", "zeros", "zeros"])
    n = max(1, int(calls * rng.choice([0.5, 1.0, 1.5, 2.5]))) + rng.randint(0, 6)
    if mode == "one":
        # a single short count somewhere (the rest of that buffer must land right behind it)
        sc = ["f"] * rng.randrange(calls) + [short_entry(rng)]
    elif mode == "sparse":
        p = rng.choice([0.1, 0.25, 0.5])
        sc = [short_entry(rng) if rng.random() < p else "f" for _ in range(n)]
    elif mode == "dense":
        sc = [short_entry(rng) for _ in range(2 * n)]
    elif mode == "dribble":
        # one byte at a time over a stretch of calls
        sc = ["f"] * rng.randrange(calls) + ["b1"] * rng.choice([3, 8, 20, 60, 200])
    else:
        # zero-length results, up to the number file_write tolerates, alone and mixed with short counts
        sc = []
        while len(sc) < n:
            r = rng.random()
            if r < 0.45:
                sc.append("f")
            elif r < 0.6:
                sc.append(short_entry(rng))
            else:
                sc += rng.choice([["b0"], ["b0", "b0"], ["b0", "b1", "b0"], ["b0", "h", "b0"], ["b1", "b0", "m1", "b0"],
                                  ["b0", "b0", "b1", "b1"], ["m1", "b0"], ["b0", "p128", "b0", "m1"]])
                if rng.random() < 0.7:
                    sc.append("f")
    sc = repair_budget(sc)
    while sc and sc[-1] == "f":
        sc.pop()
    return mode, sc


def compositions(n, rng):
    """a random split of n frames into packets"""
    out = []
    left = n
    while left > 0:
        k = rng.randint(1, left) if rng.random() < 0.5 else 1
        out.append(k)
        left -= k
    return out


def gen_case(rng, tier, force=None, sw=None):
    kind = force or rng.choice(["tiff", "tiff", "json"])
    ncyc = rng.choice([1, 1, 1, 2, 2, 3])
    names = ["a", "b", "out"]
    cycles = []
    prev_uri = None
    for c in range(ncyc):
        if prev_uri is not None and rng.random() < 0.55:
            base = prev_uri
        else:
            base = "$D/" + rng.choice(names) + (".tif" if kind == "tiff" else ".dir")
        prev_uri = base
        sets = []
        for _ in range(rng.choice([0, 0, 0, 1, 2])):        # earlier configurations that a later set replaces
            bad = rng.random() < 0.3
            sets.append({"uri": ("file://" if rng.random() < 0.5 else "") + (base if rng.random() < 0.7 else "$D/other" + (".tif" if kind == "tiff" else ".dir")),
                         "md": enc_md(gen_metadata(rng, valid=not bad)), "sx": rng.choice(SCALES), "sy": rng.choice(SCALES)})
        final_bad = rng.random() < 0.04
        sets.append({"uri": ("file://" if rng.random() < 0.5 else "") + base, "md": enc_md(gen_metadata(rng, valid=not final_bad)),
                     "sx": rng.choice(SCALES), "sy": rng.choice(SCALES)})
        r = rng.random()
        n = 0 if r < 0.04 else rng.randint(1, 12) if r < 0.8 else rng.randint(1, 3)
        ids = {"mode": "seq" if rng.random() < 0.6 else "edge", "next": rng.choice([0, 0, 1, 5, 999, 2 ** 32 - 2]), "hwoff": rng.choice([0, 100])}
        packets = []
        for k in compositions(n, rng):
            packets.append([gen_frame(rng, ids, aligned=(i < k - 1), tier=tier) for i in range(k)])
        if rng.random() < 0.05:
            packets.insert(rng.randint(0, len(packets)), [])        # an empty packet (beg == end)
        stop = True if c < ncyc - 1 else rng.random() < 0.8           # the last cycle may be finalised by destroy
        cycles.append({"sets": sets, "packets": packets, "stop": stop})
    case = {"kind": kind, "cycles": cycles, "pre": []}
    if rng.random() < 0.3:
        # the first target already exists (left by an earlier acquisition of another process), with arbitrary contents
        base = cycles[0]["sets"][-1]["uri"]
        base = base[7:] if base.startswith("file://") else base
        n = rng.choice([0, 1, 15, 16, 100, 457, 3000, 40000])
        if kind == "tiff":
            case["pre"].append({"path": base, "data": hx(rng.randbytes(n))})
        else:
            if rng.random() < 0.8:
                case["pre"].append({"path": base + "/metadata.json", "data": hx(rng.choice([b'{"old":"' + b"x" * n + b'"}', rng.randbytes(n)]))})
            if rng.random() < 0.5:
                case["pre"].append({"path": base + "/data.tif", "data": hx(rng.randbytes(n))})
    if sw is None:
        sw = rng.random() < 0.5
    if sw:
        case["sw_mode"], case["sw"] = gen_script(rng, case)
    return case


def enc_md(b):
    return None if b is None else hx(b)


def dec_md(m):
    return None if m is None else binascii.unhexlify(m)


# ----------------------------------------------------------------------------- protocol text
def frac(x):
    f = Fraction(x)
    return "%d %d" % (f.numerator, f.denominator)


def real_path(uri, d):
    u = uri.replace("$D", d)
    return u[7:] if u.startswith("file://") else u


def cycle_files(case, cyc, d):
    """the files a cycle writes: list of (role, path)"""
    p = real_path(cyc["sets"][-1]["uri"], d)
    if case["kind"] == "tiff":
        return [("tif", p)]
    return [("tif", p + "/data.tif"), ("json", p + "/metadata.json")]


def snap_path(d, k, path):
    return os.path.join(d, "snaps", "%d_%s" % (k, hashlib.sha1(path.encode()).hexdigest()[:10]))


def case_text(case, cid, d, fixes=None):
    lines = ["case %s" % cid, "dev %s" % case["kind"]]
    if fixes is not None:
        lines.append("fix %d %d %d" % fixes)
    if case.get("sw"):
        lines.append("sw " + " ".join(case["sw"]))
    for f in case.get("pre", []):
        lines.append("file %s %s" % (hx(f["path"].replace("$D", d).encode()), f["data"] or "-"))
    for k, cyc in enumerate(case["cycles"]):
        for s in cyc["sets"]:
            md = s["md"]
            lines.append("set %s %s %s %s %s %s" % (hx(s["uri"].replace("$D", d).encode()),
                                                    "-" if md is None else "e" if md == "" else md,
                                                    frac(s["sx"]), frac(s["sy"]), float(s["sx"]).hex(), float(s["sy"]).hex()))
        lines.append("start")
        for p in cyc["packets"]:
            lines.append("append %d" % len(p))
            for f in p:
                lines.append("frame %d %d %d %d %d %d %d %s" % (f["w"], f["h"], f["type"], f["fid"], f["hwid"], f["tshw"], f["tsacq"], f["data"] or "-"))
        if cyc["stop"]:
            lines.append("stop")
            for role, path in cycle_files(case, cyc, d):
                lines.append("snap %d %s %s" % (k, hx(path.encode()), hx(snap_path(d, k, path).encode())))
    lines.append("end")
    return lines


def split_output(lines):
    """{cid: [lines...]} ; a case is complete when its last line is 'endcase'"""
    out = {}
    cur = None
    for l in lines:
        if l == "":
            continue
        if l.startswith("case "):
            cur = l.split()[1]
            out[cur] = []
        elif cur is not None:
            out[cur].append(l)
    return out


# ----------------------------------------------------------------------------- runners
def run_model(orac, text, timeout=900):
    rc, o, e = vlib.sh(["bash", "-c", "ulimit -s hard 2>/dev/null; exec '%s'" % orac], inp="\n".join(text) + "\n", timeout=timeout)
    return rc, o.split("\n"), e


def run_impl(impl, text, timeout=900):
    for attempt in range(3):
        try:
            rc, o, e = vlib.sh([impl], inp="\n".join(text) + "\n", timeout=timeout,
                               env={"ASAN_OPTIONS": "detect_leaks=0:abort_on_error=0", "UBSAN_OPTIONS": "print_stacktrace=1"})
            return rc, o.split("\n"), e
        except OSError:          # fork/exec refused on a loaded machine (EAGAIN/ENOMEM): not a verdict on the code under test
            if attempt == 2:
                raise
            import time
            time.sleep(1.0)


def prepare_dir(d, case=None):
    shutil.rmtree(d, ignore_errors=True)
    os.makedirs(os.path.join(d, "snaps"))
    for f in (case or {}).get("pre", []):
        p = f["path"].replace("$D", d)
        os.makedirs(os.path.dirname(p), exist_ok=True)
        with open(p, "wb") as fh:
            fh.write(binascii.unhexlify(f["data"]))


def build(ctx):
    orac = ctx.oracle_build(name="vorac")
    here = os.path.join(ctx.famdir, "harness")
    impl = ctx.cc([os.path.join(here, "h_tiff.cpp")] + SOURCES, "h_tiff",
                  flags=["-I" + os.path.join(vlib.REPO, i) for i in INCLUDES] + ["-Wl,--wrap=pwrite,--wrap=pwrite64"])
    return orac, impl


def read_file(path):
    try:
        with open(path, "rb") as f:
            return f.read()
    except (FileNotFoundError, NotADirectoryError, IsADirectoryError):
        return None


# ----------------------------------------------------------------------------- one case: compare + oracle
def model_files(mlines):
    """{(tag, path): bytes|None}, decoded lines {(tag,path): text}"""
    files, decs = {}, {}
    for l in mlines:
        w = l.split(" ")
        if w[0] == "file":
            path = binascii.unhexlify(w[2]).decode()
            files[(w[1], path)] = None if w[3] == "missing" else (b"" if w[4] == "-" else binascii.unhexlify(w[4]))
        elif w[0] == "dec":
            decs[(w[1], binascii.unhexlify(w[2]).decode())] = " ".join(w[3:])
    return files, decs


def op_lines(lines):
    return [l for l in lines if l.split(" ")[0] in ("set", "start", "append", "stop", "endcase", "BADLINE", "BADFRAME", "NODEVICE", "iofail")]


def pwrite_log(lines):
    """[(offset, requested, returned)] from the 'pwrites' line, None if there is none"""
    for l in lines:
        if l.startswith("pwrites "):
            return [tuple(int(x) for x in c.split(":")) for c in l.split(" ")[2:]]
    return None


def cycle_ran(ilines_ops, case):
    """per cycle: did start and every append succeed on the implementation?"""
    res = []
    it = iter(ilines_ops)
    for cyc in case["cycles"]:
        ok = True
        try:
            for _ in cyc["sets"]:
                next(it)
            ok = next(it).startswith("start ok=1") and ok          # always consume the line (no short-circuit)
            for _ in cyc["packets"]:
                ok = next(it).startswith("append ok=1") and ok
            if cyc["stop"]:
                next(it)
        except StopIteration:
            ok = False
        res.append(ok)
    return res


def impl_file_for(case, k, cyc, d, path):
    """the implementation's file of cycle k: the snapshot taken after its stop, or the final file for an unstopped last cycle"""
    if cyc["stop"]:
        return read_file(snap_path(d, k, path))
    return read_file(path)


def oracle_case(case, d, ilines):
    """The property oracle over the implementation's files only. Returns list of (key, msg, cycle index)."""
    out = []
    ran = cycle_ran(op_lines(ilines), case)
    for k, cyc in enumerate(case["cycles"]):
        frames = [dict(f, data=binascii.unhexlify(f["data"])) for p in cyc["packets"] for f in p]
        if not ran[k] or not frames:
            continue          # N >= 1 appended frames is the property's hypothesis
        md = dec_md(cyc["sets"][-1]["md"])
        for role, path in cycle_files(case, cyc, d):
            content = impl_file_for(case, k, cyc, d, path)
            if role == "tif":
                if content is None:
                    out.append(("no-file", "cycle %d: %s was not written" % (k, os.path.basename(path)), k))
                    continue
                for key, msg in tiffparse.check_tiff(content, frames, md, case["kind"]):
                    out.append((key, "cycle %d, %s: %s" % (k, os.path.basename(path), msg), k))
            else:
                for key, msg in tiffparse.check_metadata_json(content, md):
                    out.append((key, "cycle %d: %s" % (k, msg), k))
    return out


def compare_case(case, d, ilines, mlines):
    """byte-for-byte correspondence. Returns list of (what, detail)."""
    diffs = []
    io, mo = op_lines(ilines), op_lines(mlines)
    if io != mo:
        k = next((i for i in range(min(len(io), len(mo))) if io[i] != mo[i]), min(len(io), len(mo)))
        diffs.append(("device states / status codes differ", {"op_index": k, "impl": io[k:k + 1], "model": mo[k:k + 1]}))
    ip, mp = pwrite_log(ilines), pwrite_log(mlines)
    if ip != mp:
        k = next((i for i in range(min(len(ip or []), len(mp or []))) if ip[i] != mp[i]), min(len(ip or []), len(mp or [])))
        diffs.append(("pwrite calls (offset, requested, returned) differ from the model's file_write loop",
                      {"call_index": k, "impl": (ip or [])[max(0, k - 1):k + 2], "model": (mp or [])[max(0, k - 1):k + 2],
                       "impl_calls": len(ip or []), "model_calls": len(mp or [])}))
    files, _ = model_files(mlines)
    want = {}
    for (tag, path), content in files.items():
        if tag == "end":
            got = read_file(path)
        else:
            got = read_file(snap_path(d, int(tag), path))
        if got != content:
            diffs.append(("file bytes differ: %s (%s)" % (os.path.relpath(path, d), "final" if tag == "end" else "after cycle " + tag),
                          first_diff(got, content)))
        if tag == "end":
            want[path] = True
    # files the implementation left behind that the model does not have
    for root, dirs, fns in os.walk(d):
        if root.startswith(os.path.join(d, "snaps")):
            continue
        for fn in fns:
            p = os.path.join(root, fn)
            if p not in want:
                diffs.append(("the implementation wrote a file the model does not have", os.path.relpath(p, d)))
    return diffs


def first_diff(got, want):
    if got is None or want is None:
        return {"impl": "missing" if got is None else "%d bytes" % len(got), "model": "missing" if want is None else "%d bytes" % len(want)}
    n = min(len(got), len(want))
    k = next((i for i in range(n) if got[i] != want[i]), n)
    return {"impl_len": len(got), "model_len": len(want), "first_difference_at": k,
            "impl": hx(got[k:k + 16]), "model": hx(want[k:k + 16])}


def run_cases(ctx, orac, impl, cases, tag):
    """cases: list of (cid, case). Runs implementation and model over them (sharded), returns {cid: (dir, ilines, mlines, crash)}."""
    root = os.path.join(ctx.bdir, "cases", tag)
    os.makedirs(root, exist_ok=True)
    shards = [s for s in vlib.shard(cases, vlib.NPROC) if s]

    def one(shard):
        res = {}
        texts = {}
        for cid, case in shard:
            d = os.path.join(root, str(cid))
            prepare_dir(d, case)
            texts[cid] = case_text(case, cid, d)
        rcm, mo, em = run_model(orac, [l for cid, _ in shard for l in texts[cid]])
        msplit = split_output(mo)
        todo = list(shard)
        isplit = {}
        crashes = {}
        while todo:
            rci, io, ei = run_impl(impl, [l for cid, _ in todo for l in texts[cid]])
            part = split_output(io)
            isplit.update(part)
            bad = next((i for i, (cid, _) in enumerate(todo) if str(cid) not in part or not part[str(cid)] or part[str(cid)][-1] != "endcase"), None)
            if bad is None:
                break
            crashes[todo[bad][0]] = (rci, (ei or "")[-4000:])
            todo = todo[bad + 1:]
        for cid, case in shard:
            res[cid] = (os.path.join(root, str(cid)), isplit.get(str(cid), []), msplit.get(str(cid), []), crashes.get(cid),
                        (rcm, (em or "")[-500:]))
        return res

    out = {}
    for r in vlib.parallel(one, shards):
        out.update(r)
    return out


def run_single(impl, case, d):
    prepare_dir(d, case)
    rc, io, e = run_impl(impl, case_text(case, 0, d), timeout=120)
    lines = split_output(io).get("0", [])
    return rc, lines, e


# ----------------------------------------------------------------------------- shrinking
def simplify_candidates(case):
    """smaller variants of a case, most aggressive first"""
    n = len(case["cycles"])
    sw = case.get("sw")

    def with_script(sc):
        c = copy.deepcopy(case)
        sc = list(sc)
        while sc and sc[-1] == "f":
            sc.pop()
        if sc:
            c["sw"] = sc
        else:
            c.pop("sw", None)
            c.pop("sw_mode", None)
        return c
    if sw:
        yield with_script([])                                  # is the script needed at all?
    for i in range(n):                                         # whole cycles first: the largest steps
        if n > 1:
            c = copy.deepcopy(case)
            del c["cycles"][i]
            yield c
    if sw:
        short = [i for i, e in enumerate(sw) if e != "f"]
        if len(short) > 1:
            for i in short[:12]:                               # a single short count?
                yield with_script(["f"] * i + [sw[i]])
        if len(sw) > 1:
            yield with_script(sw[:len(sw) // 2])
            yield with_script(["f"] * (len(sw) // 2) + sw[len(sw) // 2:])
        if len(short) > 1:
            for i in short:
                yield with_script(sw[:i] + ["f"] + sw[i + 1:])
        for i, e in enumerate(sw):
            if e not in ("f", "b1"):
                yield with_script(sw[:i] + ["b1"] + sw[i + 1:])
        if short and short[0] > 0:                             # the same short count one call earlier
            yield with_script(sw[:short[0] - 1] + sw[short[0]:])
    for i in range(len(case.get("pre", []))):
        c = copy.deepcopy(case)
        del c["pre"][i]
        yield c
    for i, f in enumerate(case.get("pre", [])):
        if len(f["data"]) > 64 and not f["data"].startswith(hx(b'{"old":"')):
            c = copy.deepcopy(case)
            c["pre"][i]["data"] = hx(b'{"old":"' + b"x" * 20 + b'"}')
            yield c
    for i in range(n):
        cyc = case["cycles"][i]
        if len(cyc["sets"]) > 1:
            for j in range(len(cyc["sets"]) - 1):
                c = copy.deepcopy(case)
                del c["cycles"][i]["sets"][j]
                yield c
        frames = [f for p in cyc["packets"] for f in p]
        if len(frames) > 1 or len(cyc["packets"]) != len(frames):
            for keep in ([frames[0]], frames[:len(frames) // 2], frames[1:]):
                if keep and len(keep) <= len(frames):
                    c = copy.deepcopy(case)
                    c["cycles"][i]["packets"] = [[dict(f)] for f in keep]
                    if c != case:
                        yield c
        for pi, p in enumerate(cyc["packets"]):
            for fi, f in enumerate(p):
                if (f["w"], f["h"], f["type"]) != (1, 1, 0) or f["data"] not in ("00" * 8, "00"):
                    c = copy.deepcopy(case)
                    c["cycles"][i]["packets"][pi][fi].update({"w": 1, "h": 1, "type": 0, "data": "00" * 8})
                    yield c
                if (f["fid"], f["hwid"], f["tshw"], f["tsacq"]) != (fi, fi, fi, fi):
                    c = copy.deepcopy(case)
                    c["cycles"][i]["packets"][pi][fi].update({"fid": fi, "hwid": fi, "tshw": fi, "tsacq": fi})
                    yield c
        for j, s in enumerate(cyc["sets"]):
            if s["md"] not in (None, "", hx(b"{}"), hx(b'{"a":1}'), hx(b'{"a":12345}')):
                for m in (hx(b'{"a":1}'), hx(b'{"a":12345}')):
                    c = copy.deepcopy(case)
                    c["cycles"][i]["sets"][j]["md"] = m
                    yield c
            if (s["sx"], s["sy"]) != (1.0, 1.0):
                c = copy.deepcopy(case)
                c["cycles"][i]["sets"][j].update({"sx": 1.0, "sy": 1.0})
                yield c
            if s["uri"].startswith("file://"):
                c = copy.deepcopy(case)
                c["cycles"][i]["sets"][j]["uri"] = s["uri"][7:]
                yield c
        if not cyc["stop"]:
            c = copy.deepcopy(case)
            c["cycles"][i]["stop"] = True
            yield c


def minimise(ctx, impl, case, key, budget=160):
    d = os.path.join(ctx.bdir, "shrink")

    def fails(c):
        try:
            rc, lines, e = run_single(impl, c, d)
        except OSError:
            return False     # shrinking is best effort: a candidate that could not be run is not taken
        if key == "crash":
            return not lines or lines[-1] != "endcase"
        if not lines or lines[-1] != "endcase":
            return False
        return any(k == key for k, _, _ in oracle_case(c, d, lines))

    cur = case
    tests = 0
    progress = True
    # shrinking is best effort and must not eat the tier's time: after the deadline a replay is written as found
    deadline = ctx.t0 + (75 if ctx.tier == "quick" else 900)
    import time
    while progress and tests < budget and time.time() < deadline:
        progress = False
        for cand in simplify_candidates(cur):
            if time.time() > deadline:
                break
            tests += 1
            if fails(cand):
                cur = cand
                progress = True
                break
            if tests >= budget:
                break
    return cur


def replay_of(ctx, impl, case, key):
    d = os.path.join(ctx.bdir, "replay")
    rc, lines, e = run_single(impl, case, d)
    msgs = [m for k, m, _ in oracle_case(case, d, lines) if k == key] if lines and lines[-1] == "endcase" else []
    dumps = {}
    for k, cyc in enumerate(case["cycles"]):
        for role, path in cycle_files(case, cyc, d):
            c = impl_file_for(case, k, cyc, d, path)
            if c is not None and len(c) <= 4096:
                dumps["cycle%d:%s" % (k, os.path.basename(path))] = hx(c)
    log = pwrite_log(lines) or []
    return {"case": case,
            "short_write_script": case.get("sw", []),
            "pwrite_calls": ["call %d: pwrite(offset=%d, count=%d) returned %d%s" % (i, o, rq, rt, "" if rt == rq else "  <- short")
                             for i, (o, rq, rt) in enumerate(log)][:200],
            "protocol": [l if len(l) < 400 else l[:400] + "..." for l in case_text(case, 0, "$D")],
            "impl_output": lines, "stderr": (e or "")[-2000:], "oracle": msgs, "files_hex": dumps,
            "how": "python3 tools/check.py --property C15 --replay <this file>   (re-runs `case` on .build/C15/h_tiff, built from the "
                   "repo under test, and applies the independent reader fam/tiff/tools/tiffparse.py; $D is a scratch directory; "
                   "`short_write_script` = case.sw = what the harness's pwrite (linked with -Wl,--wrap=pwrite) answers to the "
                   "i-th pwrite call: f everything, b<c> at most c bytes, b0 nothing, m<c> all but c, h half, p<k> k/256)"}


# ----------------------------------------------------------------------------- folding results
def describe(case):
    cyc = case["cycles"]
    return {"kind": case["kind"], "short_writes": " ".join(case.get("sw", [])[:60]) or None, "preexisting": [(f["path"], len(f["data"]) // 2) for f in case.get("pre", [])], "cycles": [{"sets": [{"uri": s["uri"], "md": (dec_md(s["md"]) or b"")[:40].decode("latin1") if s["md"] is not None else None,
                                                         "scale": [s["sx"], s["sy"]]} for s in c["sets"]],
                                              "packets": [["%dx%d %s +%dB id=%d" % (f["w"], f["h"], TYPE_NAME[f["type"]], len(f["data"]) // 2, f["fid"]) for f in p]
                                                          for p in c["packets"]], "stop": c["stop"]} for c in cyc]}


def fold(ctx, impl, orac, cases, results, origin):
    for cid, case in cases:
        d, il, ml, crash, (rcm, em) = results[cid]
        nfr = [sum(len(p) for p in c["packets"]) for c in case["cycles"]]
        sig = json.dumps(case, sort_keys=True)
        nontrivial = (max(nfr) >= 2 or len(nfr) >= 2) and any(n >= 1 for n in nfr)
        ctx.case(sig, nontrivial=nontrivial)
        ctx.count("kind:" + case["kind"])
        ctx.count("cycles:%d" % len(nfr))
        ctx.count("target-preexists:%s" % ("yes" if case.get("pre") else "no"))
        ctx.count("short-writes:" + (case.get("sw_mode", "script") if case.get("sw") else "none"))
        if case.get("sw") and not budget_ok(case["sw"]):
            ctx.broken_tie("a short-write script exceeds file_write's zero-count budget (generator / corpus error: failures are C16's)",
                           {"script": case["sw"][:80]})
            continue
        for o_, rq_, rt_ in pwrite_log(il) or []:
            ctx.count("pwrite:" + ("full" if rt_ == rq_ else "zero" if rt_ == 0 else "1-byte" if rt_ == 1 else "all-but-1" if rt_ == rq_ - 1 else "short"))
        if any(rt_ != rq_ for _, rq_, rt_ in pwrite_log(il) or []):
            ctx.count("cases-with-a-short-pwrite")
        for c in case["cycles"]:
            n = sum(len(p) for p in c["packets"])
            ctx.count("frames:" + ("0" if n == 0 else "1" if n == 1 else "2-4" if n <= 4 else "5-12"))
            ctx.count("packets:" + ("single-frame" if all(len(p) <= 1 for p in c["packets"]) else "multi-frame"))
            md = c["sets"][-1]["md"]
            ctx.count("metadata:" + ("null" if md is None else "empty" if md == "" else "short" if len(md) < 40 else "long"))
            ctx.count("uri:" + ("file://" if c["sets"][-1]["uri"].startswith("file://") else "plain"))
            ctx.count("presets:%d" % (len(c["sets"]) - 1))
            for p in c["packets"]:
                for f in p:
                    ctx.count("type:" + TYPE_NAME[f["type"]])
                    ctx.count("pad:%d" % ((len(f["data"]) // 2) - f["w"] * f["h"] * BYTES_OF_TYPE[f["type"]]))
            if not c["stop"]:
                ctx.count("finalised-by-destroy")
        if crash is not None:
            key = "crash"
            if not ctx.has_violation(key):
                small = minimise(ctx, impl, case, key, budget=40)
                ctx.violation("the implementation aborted (sanitizer report or crash) while writing: " + crash[1][-600:],
                              replay_of(ctx, impl, small, key), key=key)
            continue
        if not ml or ml[-1] != "endcase":
            ctx.broken_tie("the extracted model failed on a case", {"case": describe(case), "stderr": em, "rc": rcm})
            continue
        viol = oracle_case(case, d, il)
        for key, msg, k in viol:
            ctx.count("oracle:" + key)
            if not ctx.has_violation(key):
                small = minimise(ctx, impl, case, key)
                rep = replay_of(ctx, impl, small, key)
                ctx.violation((rep["oracle"] or [msg])[0], rep, key=key)
            else:
                ctx.violation(msg, None, key=key)
        diffs = compare_case(case, d, il, ml)
        if diffs:
            detail = {"case": describe(case), "differences": diffs[:4], "origin": origin}
            # which unrepaired variant of the model does the implementation agree with?  (only for the few ties that are
            # written out, and not when the pwrite calls themselves differ: no repair switch explains that)
            what_ = ("the pwrite calls of the implementation differ from the model's file_write loop (TiffSw), the file bytes agree"
                     if all(d_[0].startswith("pwrite calls") for d_ in diffs) else
                     "file bytes written by the implementation differ from the Coq model (TiffEnc/SideBySide)")
            explain = sum(1 for w_, _ in ctx.broken if w_ == what_) < 3 and not any(d_[0].startswith("pwrite calls") for d_ in diffs)
            for name, fx in (("D6", (0, 1, 1)), ("D25", (1, 0, 1)), ("D26", (1, 1, 0)), ("D6+D25+D26", (0, 0, 0))) if explain else ():
                rc, mo, _ = run_model(orac, case_text(case, cid, d, fixes=fx), timeout=120)
                mlv = split_output(mo).get(str(cid), [])
                if mlv and not compare_case(case, d, il, mlv):
                    detail["agrees_with"] = "the model with repair %s switched off (the code under test does not contain that fix)" % name
                    break
            ctx.broken_tie(what_, detail)
        else:
            ctx.traces_validated += 1
        # TiffDec (the Coq reader the theorems are about) against the independent Python reader, on the model's files
        files, decs = model_files(ml)
        for (tag, path), text in decs.items():
            content = files.get((tag, path))
            if content is None:
                continue
            py = py_decode_text(content)
            if py is not None and py != text:
                ctx.broken_tie("TiffDec.decode and the independent Python reader disagree on a file", {"file": path, "coq": text[:300], "python": py[:300]})


def py_decode_text(data):
    """the independent reader's view in the format oracle/main.ml prints TiffDec's result (None = not comparable)"""
    dirs, regions, problems = tiffparse.parse(data)
    if problems or not dirs:
        return "none"
    parts = [str(len(dirs))]
    for d in dirs:
        vals = [tiffparse.scalar(d, t) for t in (256, 257, 258, 339, 273, 279)]
        t = d["tags"].get(270)
        if None in vals or t is None or t[0] != 2 or t[2] is None or not t[2].endswith(b"\0"):
            return "none"
        w, h, bits, fmt, so, sl = vals
        if so + sl > len(data):
            return "none"
        desc = t[2][:-1]
        import re
        m = re.match(rb'\{"frame_id":(\d+),"hardware_frame_id":(\d+),"timestamps":\{"runtime":(\d+),"hardware":(\d+)\}(.*)$', desc, re.S)
        if not m:
            return "none"
        rest = m.group(5)
        if rest == b"}":
            md = "-"
        elif rest.startswith(b',"metadata":') and rest.endswith(b"}") and len(rest) > 12:
            body = rest[12:-1]
            md = hx(body) if body else "e"
        else:
            return "none"
        strip = data[so:so + sl]
        parts.append("%d %d %d %d %d %d %d %d %d %s %d %d %d %d %d %d %s" % (
            d["off"], d["ntags"], d["next"], w, h, bits, fmt, so, sl, hx(strip) if strip else "-", t[3] or 0, t[1],
            int(m.group(1)), int(m.group(2)), int(m.group(3)), int(m.group(4)), md))
    return " | ".join(parts)


# ----------------------------------------------------------------------------- exhaustive packet groupings
def all_groupings(frames):
    n = len(frames)
    for mask in range(1 << (n - 1)):
        packets, cur = [], [frames[0]]
        for i in range(1, n):
            if mask >> (i - 1) & 1:
                packets.append(cur)
                cur = []
            cur.append(frames[i])
        packets.append(cur)
        yield packets


def grouping_cases(rng, tier):
    """every grouping of n frames into packets (n = 4 quick, 6 thorough), frames 8-byte aligned so that any grouping is legal"""
    n = 4 if tier == "quick" else 6
    out = []
    for kind in ("tiff", "json"):
        ids = {"mode": "seq", "next": 0, "hwoff": 0}
        frames = [gen_frame(rng, ids, aligned=True, tier="quick") for _ in range(n)]
        for packets in all_groupings(frames):
            out.append({"kind": kind, "cycles": [{"sets": [{"uri": "$D/g" + (".tif" if kind == "tiff" else ".dir"), "md": hx(b'{"g":1}'), "sx": 1.0, "sy": 2.5}],
                                                  "packets": packets, "stop": True}]})
    return out


def single_short_write_cases(rng, tier):
    """one short count (1 byte / all but 1 / half) at EACH pwrite call index of a small acquisition, both device kinds:
    header, metadata.json, every directory, strip, description and the terminating link are each cut short once"""
    out = []
    nfr = 2 if tier == "quick" else 4
    for kind in ("tiff", "json"):
        ids = {"mode": "seq", "next": 0, "hwoff": 0}
        frames = [gen_frame(rng, ids, aligned=True, tier="quick") for _ in range(nfr)]
        base = {"kind": kind, "pre": [],
                "cycles": [{"sets": [{"uri": "$D/s" + (".tif" if kind == "tiff" else ".dir"), "md": hx(b'{"short":"writes"}'), "sx": 1.0, "sy": 0.5}],
                            "packets": [[f] for f in frames], "stop": True}]}
        calls = 2 + (1 if kind == "json" else 0) + 3 * nfr
        for i in range(calls):
            for e in ("b1", "m1", "h", "b0"):
                c = copy.deepcopy(base)
                c["sw"] = ["f"] * i + ([e] if e != "b0" else ["b0", "b1", "b0"])
                c["sw_mode"] = "single"
                out.append(c)
    return out


def length_sweep_cases(rng, tier):
    """one small acquisition per metadata length: the first frame's description (and metadata.json) then takes EVERY length of a
    contiguous range, and the neighbourhood of every power of two above it -- so a boundary a change introduces at any length
    (a stack buffer, a block size, a 16-bit count) is hit exactly, not by luck"""
    top = 1100 if tier == "thorough" else 560
    lens = list(range(0, top))
    p2 = 1024
    while p2 <= (65536 if tier == "thorough" else 8192):
        lens += [p2 - 200 + d for d in range(-3, 4)] + [p2 - 130 + d for d in range(-24, 25)] + [p2 + d for d in range(-3, 4)]
        p2 *= 2
    out = []
    for i, m in enumerate(lens):
        kind = "tiff" if i % 3 else "json"
        body = "x" * m
        md = ('{"k":"' + body[:m - 8] + '"}') if m >= 8 else ("{" + " " * (m - 2) + "}") if m >= 2 else ""
        assert len(md) == m or m == 1
        f0 = gen_frame(rng, {"mode": "seq", "next": rng.choice([0, 7, 10, 123456]), "hwoff": 0}, aligned=False, tier="quick")
        f1 = gen_frame(rng, {"mode": "edge", "next": 0, "hwoff": 0}, aligned=False, tier="quick")
        out.append({"kind": kind, "pre": [],
                    "cycles": [{"sets": [{"uri": "$D/l" + (".tif" if kind == "tiff" else ".dir"), "md": hx(md.encode()), "sx": 1.0, "sy": 1.0}],
                                "packets": [[f0], [f1]] if i % 2 else [[f0]], "stop": True}]})
    return out


# ----------------------------------------------------------------------------- entry point
def run(ctx):
    ctx.coq_prove(["Properties_C15"])
    orac, impl = build(ctx)
    thorough = ctx.tier == "thorough"
    ctx.rule = ("cases = 1..3 start/stop cycles on one tiff or tiff-json device; per cycle 0..2 earlier configurations (30% invalid) then the final one "
                "(URI with or without file://, same or new path as the previous cycle; metadata NULL / empty / {} / JSON of 1..40 members incl. UTF-8, "
                "quotes and braces in strings / non-JSON brace text; pixel scales incl. 0, fractional, 10000*x overflowing 32 bits), N = 0..12 frames "
                "(all 8 sample types, shapes 1x1..33x33 and a few large/odd ones, payload exact or padded to 8, ids sequential or at decimal/binary edges up to "
                "2^64-1) split into random packets (plus every grouping of 4 (quick) / 6 (thorough) frames), last cycle finalised by stop or by destroy. "
                "Half of the cases carry a short-write script for the OS-level pwrite (harness linked with --wrap=pwrite; one answer per call: "
                "everything / at most c bytes incl. 1 / all but c / half / k/256 / the zero-length result up to the two file_write tolerates; modes: one "
                "short count, sparse, dense, one-byte dribble, zero groups; never an error), plus one short count at each call index of a small "
                "acquisition; the model's file_write is the write-all loop over the same script and the pwrite logs (offset, requested, returned) "
                "are compared too. "
                "Compared byte for byte with the extracted model: every file after every cycle, HAL status and device state after every call. "
                "Non-trivial = some cycle with >= 2 frames or >= 2 cycles; distinct = distinct case JSON.")
    ctx.assumptions = ["open/pwrite/close/mkdir succeed and the target directory is writable (I/O failures are C16's); pwrite may return "
                       "any short count, and the zero-length result at most twice between two complete transfers (file_write gives up at the third)",
                       "the file is smaller than 2^64 bytes; pixel scales are in [0, 2^32) (the cast to uint32_t is undefined outside)",
                       "metadata and URI strings contain no interior NUL and nbytes counts the terminating NUL",
                       "frames are contiguous single-plane images (the writer ignores strides, channels and planes)",
                       "realloc in StringSection::reserve succeeds", "vsnprintf(\"%llu\") prints decimal digits"]
    ctx.notes.append("recorded, not violations (DESIGN 6.15): the writer's tags are not in ascending order; y_resolution with a zero denominator re-uses tag 282")
    ctx.trusted = vlib.default_trusted() + ["fam/tiff/tools/tiffparse.py (independent BigTIFF reader, the property oracle)"]

    if getattr(ctx, "replay_file", None):
        obj = json.load(open(ctx.replay_file))
        case = obj.get("replay", obj).get("case") or obj.get("case")
        cases = [("replay", case)]
        fold(ctx, impl, orac, cases, run_cases(ctx, orac, impl, cases, "replay"), "replay")
        return

    # corpus first
    cdir = os.path.join(vlib.VERIF, "corpus", "C15")
    corpus = []
    if os.path.isdir(cdir):
        for fn in sorted(os.listdir(cdir)):
            if fn.endswith(".json"):
                corpus.append(("corpus-" + fn[:-5], json.load(open(os.path.join(cdir, fn)))["case"]))
    if corpus:
        fold(ctx, impl, orac, corpus, run_cases(ctx, orac, impl, corpus, "corpus"), "corpus")
    ctx.extra["corpus_cases"] = len(corpus)

    n = 6000 if thorough else 480
    cases = [("g%d" % i, c) for i, c in enumerate(grouping_cases(ctx.rng, ctx.tier))]
    cases += [("s%d" % i, c) for i, c in enumerate(single_short_write_cases(ctx.rng, ctx.tier))]
    sweep = length_sweep_cases(ctx.rng, ctx.tier)
    ctx.extra["description_length_sweep"] = "%d cases: every metadata length 0..%d, and around the powers of two up to %d" % (
        len(sweep), (1100 if thorough else 560) - 1, 65536 if thorough else 8192)
    cases += [("l%d" % i, c) for i, c in enumerate(sweep)]
    cases += [(i, gen_case(ctx.rng, ctx.tier)) for i in range(n)]
    for _, c in cases[len(cases) - n:len(cases) - n + 3]:
        ctx.sample(describe(c))
    fold(ctx, impl, orac, cases, run_cases(ctx, orac, impl, cases, "gen"), "generated")
    shutil.rmtree(os.path.join(ctx.bdir, "cases"), ignore_errors=True)
