// h_tiff.cpp -- drives the REAL tiff / tiff-json storage devices of acquire-driver-common
// (tiff.cpp, side-by-side-tiff.cpp, basic.storage.c) through the REAL HAL wrappers
// (device/hal/storage.c: storage_set / storage_start / storage_append / storage_stop) on top of the
// REAL linux/platform.c, props/storage.c, components.c, device.c and logger.c.
// Only the device manager / driver loader, which storage_open/storage_close would need, is stubbed:
// the object is made by basics_make_storage(kind) exactly as basics.driver.c's open does and is
// destroyed by writer->destroy(writer) exactly as its close does.
//
// Protocol on stdin (same as oracle/main.ml):
//   case <id> | dev tiff|json | fix ... (ignored) | file <path-hex> <hex> (ignored: pre-existing file, made by the caller) |
//   sw <e> <e> ... (the short-write script: one answer per pwrite call of this case, in call order; calls beyond it transfer
//                   everything: f = everything | b<c> = at most c bytes (b0 = the zero-length result) | m<c> = all but c, at
//                   least 1 | h = half, rounded up | p<k> = k/256 of the request, at least 1.  NEVER an error: failures are C16's) |
//   set <uri-hex> <md: - | e | hex> <sx_p> <sx_q> <sy_p> <sy_q> <sx-hexfloat> <sy-hexfloat> |
//   snap <k> <src-hex> <dst-hex> (copy a file aside) |
//   start | append <k> + k "frame <w> <h> <type> <fid> <hwid> <ts_hw> <ts_acq> <data-hex|->" lines | stop | end
// The files are left on disk for the caller to read.
//
// The OS level: the program is linked with -Wl,--wrap=pwrite,--wrap=pwrite64, so every pwrite of linux/platform.c lands
// in __wrap_pwrite below, which shortens the request as the script says, passes it to the real pwrite and logs
// (offset, requested, returned).  "end" prints the log: pwrites <n> <offset>:<requested>:<returned> ...
#include <cstdint>
#include <cstdio>
#include <cstdlib>
#include <cstring>
#include <sys/types.h>
#include <unistd.h>
#include <iostream>
#include <sstream>
#include <string>
#include <vector>

extern "C"
{
#include "device/kit/storage.h"
#include "device/kit/driver.h"
#include "device/props/storage.h"
#include "device/hal/storage.h"
#include "logger.h"
#include "identifiers.h"
#include "storage/basic.storage.h"

    // --- stubs for what storage_open / storage_close / storage_validate reference (never called here)
    struct DeviceManager;
    struct Driver* device_manager_get_driver(const struct DeviceManager*, const struct DeviceIdentifier*)
    {
        abort();
    }
    enum DeviceStatusCode driver_open_device(const struct Driver*, uint64_t, struct Device**)
    {
        abort();
    }
    enum DeviceStatusCode driver_close_device(struct Device*)
    {
        abort();
    }
    // defined in basics.driver.c, which would pull in the simulated cameras; used in one error message
    const char* basic_device_kind_to_string(enum BasicDeviceKind)
    {
        return "(kind)";
    }
}

static int g_verbose = 0;

// ---------------------------------------------------------------------------------------------------------------------
// scripted pwrite
struct SwEntry
{
    char kind;  // f b m h p
    uint64_t arg;
};
struct PwCall
{
    uint64_t off, req;
    long long ret;
};
static std::vector<SwEntry> g_script;
static std::vector<PwCall> g_pwlog;
static size_t g_pwcalls = 0;

static uint64_t
sw_count(const SwEntry& e, uint64_t n)
{
    uint64_t c = n;
    switch (e.kind) {
        case 'f':
            c = n;
            break;
        case 'b':
            c = e.arg;
            break;
        case 'm':
            c = n > e.arg ? n - e.arg : 0;
            if (c < 1)
                c = 1;
            break;
        case 'h':
            c = n / 2 + (n & 1);
            break;
        case 'p':
            c = (uint64_t)(((unsigned __int128)n * e.arg) / 256);
            if (c < 1)
                c = 1;
            break;
    }
    return c < n ? c : n;
}

extern "C"
{
    ssize_t __real_pwrite(int fd, const void* buf, size_t count, off_t offset);
    ssize_t __wrap_pwrite(int fd, const void* buf, size_t count, off_t offset)
    {
        size_t idx = g_pwcalls++;
        size_t n = count;
        if (idx < g_script.size() && count > 0)
            n = (size_t)sw_count(g_script[idx], count);
        ssize_t r = (n == 0 && count > 0) ? 0 : __real_pwrite(fd, buf, n, offset);
        g_pwlog.push_back({ (uint64_t)offset, (uint64_t)count, (long long)r });
        return r;
    }
    ssize_t __wrap_pwrite64(int fd, const void* buf, size_t count, off_t offset)
    {
        return __wrap_pwrite(fd, buf, count, offset);
    }
}

static void
reporter(int is_error, const char* file, int line, const char* function, const char* msg)
{
    if (g_verbose)
        fprintf(stderr, "%s%s(%d) %s: %s\n", is_error ? "ERROR " : "", file, line, function, msg);
}

static std::vector<uint8_t>
unhex(const std::string& s)
{
    std::vector<uint8_t> out;
    if (s == "-" || s == "e")
        return out;
    auto v = [](char c) -> int {
        if (c >= '0' && c <= '9')
            return c - '0';
        if (c >= 'a' && c <= 'f')
            return c - 'a' + 10;
        if (c >= 'A' && c <= 'F')
            return c - 'A' + 10;
        return 0;
    };
    out.reserve(s.size() / 2);
    for (size_t i = 0; i + 1 < s.size(); i += 2)
        out.push_back((uint8_t)(v(s[i]) * 16 + v(s[i + 1])));
    return out;
}

static const char*
state_name(enum DeviceState s)
{
    switch (s) {
        case DeviceState_Closed:
            return "Closed";
        case DeviceState_AwaitingConfiguration:
            return "AwaitingConfiguration";
        case DeviceState_Armed:
            return "Armed";
        case DeviceState_Running:
            return "Running";
        default:
            return "?";
    }
}

static std::vector<std::string>
words(const std::string& line)
{
    std::vector<std::string> w;
    std::istringstream is(line);
    std::string t;
    while (is >> t)
        w.push_back(t);
    return w;
}

static void
report(const char* name, enum DeviceStatusCode rc, struct Storage* self)
{
    printf("%s ok=%d state=%s\n", name, rc == Device_Ok ? 1 : 0, state_name(storage_get_state(self)));
    fflush(stdout);
}

int
main(int argc, char** argv)
{
    g_verbose = getenv("H_TIFF_VERBOSE") != nullptr;
    logger_set_reporter(reporter);
    struct Storage* self = nullptr;
    std::string line;
    while (std::getline(std::cin, line)) {
        auto w = words(line);
        if (w.empty())
            continue;
        if (w[0] == "case") {
            printf("case %s\n", w.size() > 1 ? w[1].c_str() : "?");
            fflush(stdout);
            g_script.clear();
            g_pwlog.clear();
            g_pwcalls = 0;
        } else if (w[0] == "sw") {
            g_script.clear();
            for (size_t i = 1; i < w.size(); ++i)
                g_script.push_back({ w[i][0], w[i].size() > 1 ? strtoull(w[i].c_str() + 1, 0, 10) : 0 });
        } else if (w[0] == "dev") {
            if (self)
                self->destroy(self);
            self = basics_make_storage(w[1] == "json" ? BasicDevice_Storage_SideBySideTiffJson
                                                      : BasicDevice_Storage_Tiff);
            if (!self) {
                printf("NODEVICE\n");
                return 2;
            }
        } else if (w[0] == "fix" || w[0] == "file") {
            // model-only lines ("file": the caller has already put that file on disk)
        } else if (w[0] == "set" && w.size() >= 9) {
            // exact-size heap copies so that ASan sees any read past the declared nbytes
            auto uri = unhex(w[1]);
            char* uri_s = (char*)malloc(uri.size() + 1);
            if (!uri.empty())
                memcpy(uri_s, uri.data(), uri.size());
            uri_s[uri.size()] = 0;
            struct StorageProperties p;
            memset(&p, 0, sizeof(p));
            p.uri.str = uri_s;
            p.uri.nbytes = uri.size() + 1;
            p.uri.is_ref = 1;
            char* md_s = nullptr;
            if (w[2] != "-") {
                auto md = unhex(w[2]);
                md_s = (char*)malloc(md.size() + 1);
                if (!md.empty())
                    memcpy(md_s, md.data(), md.size());
                md_s[md.size()] = 0;
                p.external_metadata_json.str = md_s;
                p.external_metadata_json.nbytes = md.size() + 1;
                p.external_metadata_json.is_ref = 1;
            }
            p.pixel_scale_um.x = strtod(w[7].c_str(), nullptr);
            p.pixel_scale_um.y = strtod(w[8].c_str(), nullptr);
            auto rc = storage_set(self, &p);
            free(uri_s);
            free(md_s);
            report("set", rc, self);
        } else if (w[0] == "start") {
            report("start", storage_start(self), self);
        } else if (w[0] == "stop") {
            report("stop", storage_stop(self), self);
        } else if (w[0] == "append") {
            int k = atoi(w[1].c_str());
            struct F
            {
                struct VideoFrame* hdr; // points into hdr_bytes
                std::vector<uint8_t> hdr_bytes;
                std::vector<uint8_t> data;
            };
            std::vector<F> fr;
            size_t total = 0;
            for (int i = 0; i < k; ++i) {
                std::getline(std::cin, line);
                auto f = words(line);
                if (f.size() < 9 || f[0] != "frame") {
                    printf("BADFRAME\n");
                    return 2;
                }
                fr.emplace_back();
                F& x = fr.back();
                x.hdr_bytes.assign(sizeof(struct VideoFrame), 0);
                x.hdr = (struct VideoFrame*)x.hdr_bytes.data();
                uint32_t wd = (uint32_t)strtoull(f[1].c_str(), 0, 10), ht = (uint32_t)strtoull(f[2].c_str(), 0, 10);
                x.hdr->shape.dims.channels = 1;
                x.hdr->shape.dims.width = wd;
                x.hdr->shape.dims.height = ht;
                x.hdr->shape.dims.planes = 1;
                x.hdr->shape.strides.channels = 1;
                x.hdr->shape.strides.width = 1;
                x.hdr->shape.strides.height = wd;
                x.hdr->shape.strides.planes = (int64_t)wd * ht;
                x.hdr->shape.type = (enum SampleType)strtoull(f[3].c_str(), 0, 10);
                x.hdr->frame_id = strtoull(f[4].c_str(), 0, 10);
                x.hdr->hardware_frame_id = strtoull(f[5].c_str(), 0, 10);
                x.hdr->timestamps.hardware = strtoull(f[6].c_str(), 0, 10);
                x.hdr->timestamps.acq_thread = strtoull(f[7].c_str(), 0, 10);
                x.data = unhex(f[8]);
                x.hdr->bytes_of_frame = sizeof(struct VideoFrame) + x.data.size();
                total += x.hdr->bytes_of_frame;
            }
            // one contiguous packet, exactly `total` bytes (malloc gives 16-byte alignment)
            uint8_t* buf = (uint8_t*)malloc(total ? total : 1);
            size_t o = 0;
            for (auto& x : fr) {
                memcpy(buf + o, x.hdr_bytes.data(), sizeof(struct VideoFrame));
                if (!x.data.empty())
                    memcpy(buf + o + sizeof(struct VideoFrame), x.data.data(), x.data.size());
                o += sizeof(struct VideoFrame) + x.data.size();
            }
            auto rc = storage_append(self, (struct VideoFrame*)buf, (struct VideoFrame*)(buf + total));
            free(buf);
            report("append", rc, self);
        } else if (w[0] == "snap" && w.size() >= 4) {
            // copy the current contents of a file aside (plain read/write, independent of the code under test)
            auto src = unhex(w[2]), dst = unhex(w[3]);
            std::string s(src.begin(), src.end()), d(dst.begin(), dst.end());
            FILE* in = fopen(s.c_str(), "rb");
            if (in) {
                FILE* out = fopen(d.c_str(), "wb");
                char buf[65536];
                size_t k;
                while (out && (k = fread(buf, 1, sizeof(buf), in)) > 0)
                    fwrite(buf, 1, k, out);
                if (out)
                    fclose(out);
                fclose(in);
            }
        } else if (w[0] == "end") {
            if (self)
                self->destroy(self);
            self = nullptr;
            printf("pwrites %zu", g_pwlog.size());
            for (auto& c : g_pwlog)
                printf(" %llu:%llu:%lld", (unsigned long long)c.off, (unsigned long long)c.req, c.ret);
            printf("\n");
            printf("endcase\n");
            fflush(stdout);
        } else {
            printf("BADLINE %s\n", line.c_str());
        }
    }
    if (self)
        self->destroy(self);
    basics_storage_shutdown(nullptr);
    return 0;
}
