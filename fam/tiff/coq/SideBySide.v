(* SideBySide.v -- executable model of acquire-driver-common/src/storage/side-by-side-tiff.cpp (the
   "tiff-json" device: a folder with metadata.json and data.tif, the latter written by an inner Tiff
   object driven by direct calls), of the HAL wrappers of device/hal/storage.c that own Storage::state,
   and of a device driven by a list of operations.  NO proofs in this file.

   Assumed to succeed (they are the business of C16 / of the environment): directory creation, the
   write-permission checks on the parent directory, open/pwrite/close. *)
From Coq Require Import String Ascii NArith List Bool.
From Tiff Require Import TiffEnc.
Import ListNotations.
Local Open Scope N_scope.

Record sbs := mkSbs {
  s_state : dstate;   (* the composite's own Storage::state (written by the HAL) *)
  s_props : props;    (* self->props: uri without the file:// prefix, strings owned (NULL became "") *)
  s_tiff : tiff       (* self->tiff *)
}.

(* side_by_side_tiff_init: *self = { .storage = {...}, .tiff = tiff_init() }; state is zero = Closed *)
Definition sbs_init : sbs := mkSbs Closed (mkProps [] None (0, 1) (0, 1)) tiff_init.

(* validate_json of side-by-side-tiff.cpp: NULL / nbytes == 0 is accepted, "" (nbytes == 1) is not *)
Definition sbs_validate_json (md : option (list N)) : bool :=
  match md with
  | None => true
  | Some bs => validate_json bs
  end.

(* copy_string: a NULL / empty source becomes the owned string "" (nbytes = 1) *)
Definition copy_md (md : option (list N)) : option (list N) :=
  match md with
  | None => Some []
  | Some bs => Some bs
  end.

(* side_by_side_tiff_set *)
Definition sbs_set (s : sbs) (p : props) : sbs * dstate :=
  if sbs_validate_json (p_md p) then
    (mkSbs (s_state s) (mkProps (strip_file_prefix (p_uri p)) (copy_md (p_md p)) (p_sx p) (p_sy p)) (s_tiff s),
     Armed)
  else (s, AwaitingConfiguration).

Definition metadata_path (dir : list N) : list N := dir ++ lit "/metadata.json".
Definition video_path (dir : list N) : list N := dir ++ lit "/data.tif".

Definition md_bytes (md : option (list N)) : list N :=
  match md with Some bs => bs | None => [] end.

(* side_by_side_tiff_start *)
Definition sbs_start (fx : fixes) (s : sbs) (fs : fsys) : sbs * fsys * dstate :=
  let path := p_uri (s_props s) in
  (* 2. metadata.json: props.external_metadata_json.nbytes is never 0 after storage_properties_copy *)
  let fs1 :=
      match p_md (s_props s) with
      | Some bs => fs_write (file_create fx fs (metadata_path path)) (metadata_path path) [(0, bs)]
      | None => fs
      end in
  (* 3. set / start the inner writer *)
  let p := mkProps (video_path path) (p_md (s_props s)) (p_sx (s_props s)) (p_sy (s_props s)) in
  let '(t1, st1) := tiff_set fx (s_tiff s) p in
  let t1 := if fix_d6 fx then tiff_with_state t1 st1 else t1 in
  if dstate_eqb st1 Armed then
    let '(t2, fs2, st2) := tiff_start fx t1 fs1 in
    let t2 := if fix_d6 fx then tiff_with_state t2 st2 else t2 in
    (mkSbs (s_state s) (s_props s) t2, fs2, st2)
  else (mkSbs (s_state s) (s_props s) t1, fs1, AwaitingConfiguration).

(* side_by_side_tiff_append *)
Definition sbs_append (s : sbs) (fs : fsys) (frs : list frame) : sbs * fsys * dstate :=
  let '(t', fs', st) := tiff_append (s_tiff s) fs frs in
  (mkSbs (s_state s) (s_props s) t', fs', st).

(* side_by_side_tiff_stop *)
Definition sbs_stop (s : sbs) (fs : fsys) : sbs * fsys * dstate :=
  let '(t', fs', st) := tiff_stop (s_tiff s) fs in
  (mkSbs (s_state s) (s_props s) t', fs', st).

(* ------------------------------------------------------------------------------------------------ *)
(* a Storage object behind the HAL                                                                    *)

Inductive dev := DTiff (t : tiff) | DSbs (s : sbs).

Definition dev_state (d : dev) : dstate :=
  match d with DTiff t => t_state t | DSbs s => s_state s end.

Definition dev_with_state (d : dev) (st : dstate) : dev :=
  match d with
  | DTiff t => DTiff (tiff_with_state t st)
  | DSbs s => DSbs (mkSbs st (s_props s) (s_tiff s))
  end.

Inductive op :=
| OSet (p : props)            (* storage_set *)
| OStart                      (* storage_start *)
| OAppend (frs : list frame)  (* storage_append of one packet *)
| OStop.                      (* storage_stop *)

Definition world := (dev * fsys)%type.

(* the driver's methods *)
Definition drv_set (fx : fixes) (d : dev) (p : props) : dev * dstate :=
  match d with
  | DTiff t => let '(t', st) := tiff_set fx t p in (DTiff t', st)
  | DSbs s => let '(s', st) := sbs_set s p in (DSbs s', st)
  end.

Definition drv_start (fx : fixes) (d : dev) (fs : fsys) : dev * fsys * dstate :=
  match d with
  | DTiff t => let '(t', fs', st) := tiff_start fx t fs in (DTiff t', fs', st)
  | DSbs s => let '(s', fs', st) := sbs_start fx s fs in (DSbs s', fs', st)
  end.

Definition drv_append (d : dev) (fs : fsys) (frs : list frame) : dev * fsys * dstate :=
  match d with
  | DTiff t => let '(t', fs', st) := tiff_append t fs frs in (DTiff t', fs', st)
  | DSbs s => let '(s', fs', st) := sbs_append s fs frs in (DSbs s', fs', st)
  end.

Definition drv_stop (d : dev) (fs : fsys) : dev * fsys * dstate :=
  match d with
  | DTiff t => let '(t', fs', st) := tiff_stop t fs in (DTiff t', fs', st)
  | DSbs s => let '(s', fs', st) := sbs_stop s fs in (DSbs s', fs', st)
  end.

(* device/hal/storage.c: storage_set / storage_start / storage_append / storage_stop.
   The boolean is Device_Ok. *)
Definition step (fx : fixes) (w : world) (o : op) : world * bool :=
  let '(d, fs) := w in
  match o with
  | OSet p =>
      let '(d', st) := drv_set fx d p in
      ((dev_with_state d' st, fs), dstate_eqb st Armed)
  | OStart =>
      if dstate_eqb (dev_state d) Armed then
        let '(d', fs', st) := drv_start fx d fs in
        ((dev_with_state d' st, fs'), dstate_eqb st Running)
      else (w, false)
  | OAppend frs =>
      if dstate_eqb (dev_state d) Running then
        match frs with
        | [] => (w, true)
        | _ :: _ =>
            let '(d', fs', st) := drv_append d fs frs in
            ((dev_with_state d' st, fs'), dstate_eqb st Running)
        end
      else (w, false)
  | OStop =>
      if dstate_eqb (dev_state d) Running then
        let '(d', fs', st) := drv_stop d fs in
        ((dev_with_state d' st, fs'), true)
      else (w, true)
  end.

Fixpoint run (fx : fixes) (w : world) (ops : list op) : world :=
  match ops with
  | [] => w
  | o :: r => run fx (fst (step fx w o)) r
  end.

(* driver close = destroy: calls the object's stop method directly (no HAL guard), then frees it *)
Definition destroy (w : world) : world :=
  let '(d, fs) := w in
  let '(d', fs', _) := drv_stop d fs in (d', fs').

Definition dev_init (json : bool) : dev := if json then DSbs sbs_init else DTiff tiff_init.
