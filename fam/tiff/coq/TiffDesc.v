(* TiffDesc.v -- the description the writer prints is read back by TiffDec.parse_description. *)
From Coq Require Import String Ascii Arith NArith List Bool Lia.
From Tiff Require Import TiffEnc TiffDec TiffBytes.
Import ListNotations.
Local Open Scope N_scope.

Lemma lit_eq s : TiffEnc.lit s = TiffDec.lit s.
Proof. reflexivity. Qed.

Lemma expect_app p : forall l, expect (p ++ l) p = Some l.
Proof. induction p; intros; cbn [app expect]; [reflexivity|]. now rewrite N.eqb_refl. Qed.

Lemma is_close_app p more :
  match p with c :: _ => c =? 125 | [] => true end = false -> is_close (p ++ more) = false.
Proof.
  destruct p as [|c p]; [discriminate|]. intros H. cbn [app is_close]. rewrite H.
  destruct (p ++ more); reflexivity.
Qed.

(* what the reader finds in a description *)
Definition descr_of (frame_count : N) (md : list N) (fr : frame) : descr :=
  mkDescr (f_frame_id fr mod two64) (f_hw_frame_id fr mod two64) (f_ts_acq fr mod two64) (f_ts_hw fr mod two64)
          (if (frame_count =? 0) && (0 <? len md) then Some md else None).

Lemma parse_without fr :
  parse_description (fmt_without_metadata fr) =
  Some (mkDescr (f_frame_id fr mod two64) (f_hw_frame_id fr mod two64) (f_ts_acq fr mod two64) (f_ts_hw fr mod two64) None).
Proof.
  unfold parse_description, fmt_without_metadata. rewrite !lit_eq.
  rewrite expect_app. rewrite number_dec64 by reflexivity.
  rewrite expect_app. rewrite number_dec64 by reflexivity.
  rewrite expect_app. rewrite number_dec64 by reflexivity.
  rewrite expect_app.
  rewrite <- (app_nil_r (TiffEnc.lit "}}")). rewrite number_dec64 by reflexivity. rewrite app_nil_r.
  reflexivity.
Qed.

Lemma parse_with fr md :
  md <> [] ->
  parse_description (fmt_with_metadata fr md) =
  Some (mkDescr (f_frame_id fr mod two64) (f_hw_frame_id fr mod two64) (f_ts_acq fr mod two64) (f_ts_hw fr mod two64) (Some md)).
Proof.
  intros Hmd. unfold parse_description, fmt_with_metadata. rewrite !lit_eq.
  rewrite expect_app. rewrite number_dec64 by reflexivity.
  rewrite expect_app. rewrite number_dec64 by reflexivity.
  rewrite expect_app. rewrite number_dec64 by reflexivity.
  rewrite expect_app. rewrite number_dec64 by reflexivity.
  change (TiffEnc.lit "},""metadata"":") with (TiffDec.lit "}" ++ TiffDec.lit ",""metadata"":").
  rewrite <- app_assoc. rewrite expect_app.
  rewrite is_close_app by reflexivity.
  rewrite expect_app.
  change (TiffEnc.lit "}") with [125].
  destruct (md ++ [125]) eqn:E; [destruct md; discriminate|]. rewrite <- E.
  rewrite last_last, N.eqb_refl, removelast_last. reflexivity.
Qed.

Lemma parse_description_ok cnt md fr :
  parse_description (description cnt md fr) = Some (descr_of cnt md fr).
Proof.
  unfold description, descr_of. destruct ((cnt =? 0) && (0 <? len md)) eqn:E.
  - apply parse_with. apply andb_true_iff in E. destruct E as [_ E]. apply N.ltb_lt in E.
    intros ->. cbn in E. lia.
  - apply parse_without.
Qed.

(* the description is always longer than 7 characters: it is stored out of line *)
Lemma description_long cnt md fr : 7 < len (description cnt md fr).
Proof.
  unfold description.
  destruct ((cnt =? 0) && (0 <? len md)); unfold len, fmt_with_metadata, fmt_without_metadata;
    rewrite app_length; change (length (TiffEnc.lit "{""frame_id"":")) with 12%nat; lia.
Qed.
