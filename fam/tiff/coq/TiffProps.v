(* TiffProps.v -- what the decoded directories say: per-frame information, chain shape, bounds, disjointness.
   Everything here is about [dirs_of], the list TiffChain.cycle_file_decodes proves the reader returns. *)
From Coq Require Import String Ascii Arith NArith List Bool Lia.
From Tiff Require Import TiffEnc TiffDec TiffBytes TiffFile TiffDesc TiffRound TiffChain.
Import ListNotations.
Local Open Scope N_scope.

(* ------------------------------------------------------------------------------------------------ *)
(* the layout depends on the writer's state only through md, last_offset_, frame_count_              *)

Definition same_layout (t t' : tiff) : Prop :=
  t_md t = t_md t' /\ t_last_offset t = t_last_offset t' /\ t_frame_count t = t_frame_count t'.

Lemma same_layout_frame t t' fr : same_layout t t' ->
  lay_ifd t = lay_ifd t' /\ lay_data t = lay_data t' /\ lay_str t fr = lay_str t' fr /\
  desc_of t fr = desc_of t' fr /\ lay_next t fr = lay_next t' fr /\
  same_layout (next_state t fr) (next_state t' fr).
Proof.
  intros (Hm & Ho & Hc).
  assert (E1 : lay_ifd t = lay_ifd t') by (unfold lay_ifd; now rewrite Ho).
  assert (E2 : lay_data t = lay_data t') by (unfold lay_data; now rewrite E1).
  assert (E3 : lay_str t fr = lay_str t' fr) by (unfold lay_str; now rewrite E2).
  assert (E4 : desc_of t fr = desc_of t' fr) by (unfold desc_of; now rewrite Hm, Hc).
  assert (E5 : lay_next t fr = lay_next t' fr) by (unfold lay_next; now rewrite E3, E4).
  repeat split; try assumption; cbn [next_state t_md t_last_offset t_frame_count]; congruence.
Qed.

Lemma same_layout_dirs frs : forall t t', same_layout t t' ->
  dirs_of t frs = dirs_of t' frs /\ end_of t frs = end_of t' frs.
Proof.
  induction frs as [|fr rest IH]; intros t t' H.
  - split; [reflexivity | apply H].
  - destruct (same_layout_frame t t' fr H) as (E1 & E2 & E3 & E4 & E5 & Hn).
    destruct (IH _ _ Hn) as [D E]. cbn [dirs_of end_of]. split; [|exact E].
    rewrite D. f_equal. unfold dir_of, link_of. destruct H as (Hm & Ho & Hc).
    rewrite E1, E2, E3, E4, E5, Hm, Hc. reflexivity.
Qed.

(* the canonical state right after start() for a given metadata string *)
Definition canon (md : list N) : tiff := mkTiff Running [] md (1, 1) (1, 1) [] 16 0 0.

Definition expected (md : list N) (frs : list frame) : list dir := dirs_of (canon md) frs.
Definition total_size (md : list N) (frs : list frame) : N := end_of (canon md) frs.

Lemma start_state_canon t : same_layout (start_state t) (canon (t_md t)).
Proof. repeat split. Qed.

(* ------------------------------------------------------------------------------------------------ *)
(* per-frame information                                                                             *)

Record info := mkInfo {
  i_width : N; i_height : N; i_bits : N; i_format : N;
  i_strip : list N;
  i_frame_id : N; i_hw_frame_id : N; i_ts_runtime : N; i_ts_hardware : N;
  i_metadata : option (list N)
}.

Definition dir_info (d : dir) : info :=
  mkInfo (d_width d) (d_height d) (d_bits d) (d_format d) (d_strip d)
         (j_frame_id (d_desc d)) (j_hw_frame_id (d_desc d)) (j_ts_runtime (d_desc d)) (j_ts_hardware (d_desc d))
         (j_metadata (d_desc d)).

Definition frame_info (md : option (list N)) (fr : frame) : info :=
  mkInfo (f_width fr) (f_height fr) (8 * bytes_of_type (f_type fr)) (sample_format_code (f_type fr)) (f_data fr)
         (f_frame_id fr) (f_hw_frame_id fr) (f_ts_acq fr) (f_ts_hw fr) md.

(* the ranges the C types give the header fields *)
Definition wf_frame (fr : frame) : Prop :=
  f_width fr < two32 /\ f_height fr < two32 /\
  f_frame_id fr < two64 /\ f_hw_frame_id fr < two64 /\ f_ts_hw fr < two64 /\ f_ts_acq fr < two64.

(* the user's metadata on the first frame iff there is any, none on the others *)
Definition infos (md : list N) (frs : list frame) : list info :=
  match frs with
  | [] => []
  | fr :: rest => frame_info (if 0 <? len md then Some md else None) fr :: map (frame_info None) rest
  end.

Lemma bits_small ty : 8 * bytes_of_type ty < two16.
Proof.
  unfold bytes_of_type.
  repeat match goal with |- context [match ?x with _ => _ end] => destruct x end; reflexivity.
Qed.

Lemma dir_info_of t fr link : wf_frame fr ->
  dir_info (dir_of t fr link) =
  frame_info (if (t_frame_count t =? 0) && (0 <? len (t_md t)) then Some (t_md t) else None) fr.
Proof.
  intros (H1 & H2 & H3 & H4 & H5 & H6). unfold dir_info, dir_of, frame_info, descr_of.
  cbn [d_width d_height d_bits d_format d_strip d_desc j_frame_id j_hw_frame_id j_ts_runtime j_ts_hardware j_metadata].
  rewrite !N.mod_small by (assumption || apply bits_small). reflexivity.
Qed.

Lemma infos_later frs : forall t, t_frame_count t <> 0 -> Forall wf_frame frs ->
  map dir_info (dirs_of t frs) = map (frame_info None) frs.
Proof.
  induction frs as [|fr rest IH]; intros t Hc Hwf; [reflexivity|].
  inversion Hwf; subst. cbn [dirs_of map]. rewrite dir_info_of by assumption.
  destruct (N.eqb_spec (t_frame_count t) 0); [congruence|]. cbn [andb]. f_equal.
  apply IH; [|assumption]. cbn [next_state t_frame_count]. lia.
Qed.

Lemma infos_ok md frs : Forall wf_frame frs -> map dir_info (expected md frs) = infos md frs.
Proof.
  intros Hwf. unfold expected. destruct frs as [|fr rest]; [reflexivity|].
  inversion Hwf; subst. cbn [dirs_of map infos]. rewrite dir_info_of by assumption.
  cbn [canon t_frame_count t_md N.eqb andb]. f_equal.
  apply infos_later; [|assumption]. cbn. lia.
Qed.

(* the pixel bytes of a frame are the first width*height*bytes_of_type bytes of its payload; the strip
   returns the payload, hence the pixels, unchanged (it may carry the frame's alignment padding after them) *)
Definition pixels_of_info (i : info) : list N :=
  firstn (N.to_nat (i_width i * i_height i * (i_bits i / 8))) (i_strip i).
Definition pixels_of_frame (fr : frame) : list N :=
  firstn (N.to_nat (f_width fr * f_height fr * bytes_of_type (f_type fr))) (f_data fr).

Lemma pixels_ok md fr : pixels_of_info (frame_info md fr) = pixels_of_frame fr.
Proof.
  unfold pixels_of_info, pixels_of_frame, frame_info. cbn [i_width i_height i_bits i_strip].
  rewrite N.mul_comm with (n := 8), N.div_mul by discriminate. reflexivity.
Qed.

(* ------------------------------------------------------------------------------------------------ *)
(* chain shape                                                                                       *)

Lemma dirs_length frs : forall t, length (dirs_of t frs) = length frs.
Proof. induction frs; intros; cbn [dirs_of length]; auto. Qed.

Lemma dirs_first t fr rest : d_off (hd (dir_of t fr 0) (dirs_of t (fr :: rest))) = lay_ifd t.
Proof. reflexivity. Qed.

(* every link is the offset of the following directory, the last link is 0 *)
Lemma dirs_links frs : forall t, frs <> [] ->
  map d_next (dirs_of t frs) = tl (map d_off (dirs_of t frs)) ++ [0].
Proof.
  induction frs as [|fr rest IH]; intros t Hne; [congruence|].
  destruct rest as [|f2 r].
  - reflexivity.
  - specialize (IH (next_state t fr) ltac:(discriminate)).
    cbn [dirs_of map tl] in *. rewrite IH. cbn [dir_of d_next d_off link_of tl app].
    now rewrite lay_ifd_next.
Qed.

Lemma dirs_ntags frs : forall t, Forall (fun d => d_ntags d = 16) (dirs_of t frs).
Proof. induction frs; intros; cbn [dirs_of]; constructor; auto. Qed.

(* ------------------------------------------------------------------------------------------------ *)
(* bounds                                                                                            *)

Definition in_bounds (F : list N) (r : N * N) : Prop := fst r + snd r <= len F.

Lemma chain_in_bounds F frs : forall t, chain_holds F t frs ->
  Forall (in_bounds F) (flat_map dir_regions (dirs_of t frs)).
Proof.
  induction frs as [|fr rest IH]; intros t Hc; [constructor|].
  destruct Hc as [(Hb & Hl & Hd & Hs) Hc]. cbn [dirs_of flat_map].
  apply Forall_app; split; [|now apply IH].
  apply holds_length in Hl, Hd, Hs. rewrite le_length in Hl. rewrite app_length in Hs. cbn [length] in Hs.
  pose proof (lay_chain t fr). pose proof (lay_str_ge t fr). pose proof (lay_data_ge t).
  unfold dir_regions, in_bounds, len, offsetof_next, sizeof_ifd in *.
  cbn [dir_of d_off d_ntags d_strip_off d_strip_len d_desc_off d_desc_len fst snd].
  destruct (N.eqb_spec (lay_str t fr) 0); [lia|].
  apply Forall_cons; [|apply Forall_cons; [|apply Forall_cons; [|apply Forall_nil]]]; cbn [fst snd]; unfold len; lia.
Qed.

(* ------------------------------------------------------------------------------------------------ *)
(* disjointness                                                                                      *)

Definition disjoint (a b : N * N) : Prop := fst a + snd a <= fst b \/ fst b + snd b <= fst a.

Fixpoint sorted_from (lo : N) (rs : list (N * N)) : Prop :=
  match rs with
  | [] => True
  | r :: rest => lo <= fst r /\ sorted_from (fst r + snd r) rest
  end.

Lemma sorted_from_weaken rs lo lo' : lo' <= lo -> sorted_from lo rs -> sorted_from lo' rs.
Proof. destruct rs as [|r rest]; [trivial|]. cbn [sorted_from]. intros ? [? ?]. split; [lia | assumption]. Qed.

Lemma sorted_from_pairwise rs : forall lo, sorted_from lo rs ->
  ForallOrdPairs disjoint rs /\ Forall (fun r => lo <= fst r) rs.
Proof.
  induction rs as [|r rest IH]; intros lo H; [split; constructor|].
  destruct H as [H1 H2]. destruct (IH _ H2) as [P Q]. split.
  - constructor; [|exact P]. eapply Forall_impl; [|exact Q]. intros x Hx. left. exact Hx.
  - constructor; [exact H1|]. eapply Forall_impl; [|exact Q]. cbn beta. intros x Hx. lia.
Qed.

Lemma dirs_sorted frs : forall t, sorted_from (lay_ifd t) (flat_map dir_regions (dirs_of t frs)).
Proof.
  induction frs as [|fr rest IH]; intros t; [exact I|].
  cbn [dirs_of flat_map]. unfold dir_regions at 1.
  cbn [dir_of d_off d_ntags d_strip_off d_strip_len d_desc_off d_desc_len app sorted_from fst snd].
  pose proof (lay_data_ge t). pose proof (lay_str_ge t fr). pose proof (lay_next_ge t fr).
  unfold sizeof_ifd in *.
  repeat split; try lia.
  apply sorted_from_weaken with (lo := lay_ifd (next_state t fr)); [|apply IH].
  rewrite lay_ifd_next. destruct (lay_str t fr =? 0); lia.
Qed.

Lemma expected_disjoint md frs : ForallOrdPairs disjoint (regions (expected md frs)).
Proof.
  unfold regions, expected.
  apply (sorted_from_pairwise _ 0). cbn [sorted_from fst snd]. split; [lia|].
  eapply sorted_from_weaken; [|apply dirs_sorted]. reflexivity.
Qed.
