(* TiffSwProofs.v -- the write-all loop of linux/platform.c:file_write against ANY short-write oracle:

     file_write_all       if file_write returns 1 the file holds exactly what one complete pwrite would have
                          left (apply_write), whatever counts the oracle answered
     file_write_budget    it returns 1 for every script that respects the zero-count budget (in particular
                          for every script without zero answers)
     run_sw_refines       hence a whole device history over the oracle (TiffSw.run_sw) produces the file
                          system, device and status codes of SideBySide.run -- the object of every C15 theorem *)
From Coq Require Import String Ascii Arith NArith List Bool Lia.
From Tiff Require Import TiffEnc SideBySide TiffBytes TiffFile TiffSw.
Import ListNotations.
Local Open Scope nat_scope.

(* ---------------------------------------------------------------------------------------------- *)
(* two consecutive pwrites of adjacent pieces = one pwrite of the whole                              *)

Lemma skipn_add {A} n : forall m (l : list A), skipn (n + m) l = skipn m (skipn n l).
Proof.
  induction n as [|n IH]; intros m l; [reflexivity|].
  destruct l as [|x l]; cbn [Nat.add skipn]; [now destruct m | apply IH].
Qed.

Lemma apply_write_nonnil F off A :
  A <> [] ->
  apply_write F off A =
  (firstn (N.to_nat off) F ++ repeat 0%N (N.to_nat off - length F)) ++ A ++ skipn (N.to_nat off + length A) F.
Proof.
  intros HA. unfold apply_write. destruct A as [|x A]; [congruence|]. now rewrite <- app_assoc.
Qed.

Lemma apply_write_app F off a b :
  apply_write (apply_write F off a) (off + len a)%N b = apply_write F off (a ++ b).
Proof.
  destruct a as [|x a].
  - cbn [apply_write app len length]. now rewrite N.add_0_r.
  - destruct b as [|y b].
    + rewrite app_nil_r. reflexivity.
    + set (A := x :: a). set (B := y :: b).
      assert (HA : A <> []) by discriminate.
      assert (HB : B <> []) by discriminate.
      assert (HAB : A ++ B <> []) by discriminate.
      rewrite (apply_write_nonnil F off A HA), (apply_write_nonnil F off (A ++ B) HAB).
      rewrite (apply_write_nonnil _ _ B HB).
      unfold len. rewrite N2Nat.inj_add, Nat2N.id.
      set (o := N.to_nat off).
      set (P := firstn o F ++ repeat 0%N (o - length F)).
      assert (HP : length P = o).
      { unfold P. rewrite app_length, firstn_length, repeat_length. lia. }
      set (S1 := skipn (o + length A) F).
      assert (HPA : length (P ++ A) = o + length A) by (rewrite app_length; lia).
      rewrite (app_assoc P A S1).
      rewrite (firstn_app_exact (P ++ A) S1) by (symmetry; exact HPA).
      replace (o + length A - length ((P ++ A) ++ S1)) with 0 by (rewrite app_length; lia).
      cbn [repeat]. rewrite app_nil_r.
      replace (o + length A + length B) with (length (P ++ A) + length B) by lia.
      rewrite skipn_add.
      rewrite (skipn_app_exact (P ++ A) S1) by reflexivity.
      unfold S1. rewrite <- skipn_add.
      replace (o + length A + length B) with (o + length (A ++ B)) by (rewrite app_length; lia).
      now rewrite <- !app_assoc.
Qed.

Lemma pwrite_count_le e n : (pwrite_count e n <= n)%N.
Proof. unfold pwrite_count. apply N.le_min_l. Qed.

Lemma os_pwrite_le o off n : (fst (os_pwrite o off n) <= n)%N.
Proof.
  unfold os_pwrite. destruct (os_script o) as [|e r]; cbn [fst]; [apply N.le_refl | apply pwrite_count_le].
Qed.

(* the piece pwrite transferred, then the rest, is the buffer *)
Lemma split_written (cur : list N) (w : N) :
  (w <= len cur)%N ->
  len (firstn (N.to_nat w) cur) = w /\ firstn (N.to_nat w) cur ++ skipn (N.to_nat w) cur = cur.
Proof.
  intros H. split; [|apply firstn_skipn].
  unfold len in *. rewrite firstn_length_le by lia. apply N2Nat.id.
Qed.

(* ---------------------------------------------------------------------------------------------- *)
(* file_write is write-all or reports failure, for ANY oracle                                        *)

Lemma file_write_loop_all fuel : forall o F off cur r F' o',
  file_write_loop fuel o F off cur r = (F', true, o') -> F' = apply_write F off cur.
Proof.
  induction fuel as [|k IH]; intros o F off cur r F' o' H; cbn [file_write_loop] in H; [discriminate|].
  destruct cur as [|b cur].
  - inversion H; subst. reflexivity.
  - destruct (Nat.ltb r 3); [|discriminate].
    set (C := b :: cur) in *.
    pose proof (os_pwrite_le o off (len C)) as Hle.
    destruct (os_pwrite o off (len C)) as [w o1]. cbn [fst] in Hle.
    apply IH in H. subst F'.
    destruct (split_written C w Hle) as [Hl Hs].
    rewrite <- Hl at 2. rewrite apply_write_app, Hs. reflexivity.
Qed.

Theorem file_write_all o F off bs F' o' :
  file_write o F off bs = (F', true, o') -> F' = apply_write F off bs.
Proof. apply file_write_loop_all. Qed.

(* ---------------------------------------------------------------------------------------------- *)
(* ... and it does not report failure while the script respects the zero-count budget                *)

Lemma budget_ok_mono sc : forall z z', z' <= z -> budget_ok z sc = true -> budget_ok z' sc = true.
Proof.
  induction sc as [|e sc IH]; intros z z' Hz H; [reflexivity|].
  cbn [budget_ok] in *.
  destruct e as [|c|c| |k]; try exact H; try (eapply IH; eassumption).
  (* SwBytes c *)
  destruct (sw_zero (SwBytes c)).
  - apply andb_true_iff in H. destruct H as [H1 H2]. apply andb_true_iff. split.
    + apply Nat.ltb_lt in H1. apply Nat.ltb_lt. lia.
    + apply (IH (S z)); [lia | exact H2].
  - eapply IH; eassumption.
Qed.

Lemma pwrite_count_zero e n : (0 < n)%N -> pwrite_count e n = 0%N -> sw_zero e = true.
Proof.
  intros Hn H. unfold pwrite_count in H.
  destruct e as [|c|c| |k]; cbn [sw_count sw_zero] in *; try lia.
  - destruct c; [reflexivity | lia].
  - assert ((n + 1) / 2 >= 1)%N; [|lia].
    apply N.le_ge. apply N.div_le_lower_bound; lia.
Qed.

Lemma all_positive_budget sc : forall z, all_positive sc = true -> budget_ok z sc = true.
Proof.
  unfold all_positive. induction sc as [|e sc IH]; intros z H; [reflexivity|].
  cbn [forallb] in H. apply andb_true_iff in H. destruct H as [He Hs].
  cbn [budget_ok]. destruct e as [|c|c| |k]; try (apply IH; exact Hs).
  destruct (sw_zero (SwBytes c)); [discriminate | apply IH; exact Hs].
Qed.

Lemma file_write_loop_budget fuel : forall o F off cur r z,
  cur = [] \/ r <= z -> r < 3 -> budget_ok z (os_script o) = true -> length cur + (3 - r) < fuel ->
  exists F' o',
    file_write_loop fuel o F off cur r = (F', true, o') /\ budget_ok 0 (os_script o') = true.
Proof.
  induction fuel as [|k IH]; intros o F off cur r z Hr Hr3 Hb Hf; [lia|].
  cbn [file_write_loop]. destruct cur as [|b cur].
  - (* all bytes written, and retries < 3 *)
    exists F, o. split; [|eapply budget_ok_mono; [|exact Hb]; lia].
    destruct (Nat.ltb_spec r 3) as [_|Hge]; [reflexivity | lia].
  - destruct Hr as [Hr|Hr]; [discriminate|].
    set (C := b :: cur) in *.
    assert (HC : (0 < len C)%N) by (unfold len, C; cbn [length]; lia).
    assert (HLC : length C = S (length cur)) by reflexivity.
    destruct (Nat.ltb_spec r 3) as [_|Hge]; [|lia].
    unfold os_pwrite. destruct o as [sc lg]. cbn [os_script] in *.
    destruct sc as [|e sc].
    + (* beyond the script: everything is transferred *)
      destruct (N.eqb_spec (len C) 0) as [Hz|_]; [lia|].
      apply (IH _ _ _ _ r r); [right; lia | exact Hr3 | reflexivity |].
      unfold len. rewrite Nat2N.id, skipn_all. cbn [length]. lia.
    + pose proof (pwrite_count_le e (len C)) as Hle.
      set (w := pwrite_count e (len C)) in *.
      destruct (N.eqb_spec w 0) as [Hz|Hnz].
      * (* a zero answer: the budget admits it *)
        assert (Hze : sw_zero e = true) by (apply (pwrite_count_zero e (len C)); assumption).
        assert (Hb' : Nat.ltb (S z) 3 = true /\ budget_ok (S z) sc = true).
        { cbn [budget_ok] in Hb. destruct e as [|c|c| |q]; try (cbn in Hze; discriminate).
          rewrite Hze in Hb. now apply andb_true_iff in Hb. }
        destruct Hb' as [Hz3 Hb']. apply Nat.ltb_lt in Hz3.
        rewrite Hz. cbn [N.to_nat skipn].
        apply (IH _ _ _ _ (S r) (S z)); [right; lia | lia | exact Hb' |].
        fold C. lia.
      * (* at least one byte is transferred *)
        assert (Hlen : length (skipn (N.to_nat w) C) + (3 - r) < k).
        { rewrite skipn_length. assert (0 < N.to_nat w) by lia. lia. }
        assert (Hb' : skipn (N.to_nat w) C = [] \/ exists z', r <= z' /\ budget_ok z' sc = true).
        { cbn [budget_ok] in Hb. destruct e as [|c|c| |q].
          - (* SwFull completes the file_write *)
            left. unfold w, pwrite_count. cbn [sw_count]. rewrite N.min_id.
            unfold len. rewrite Nat2N.id. apply skipn_all.
          - right. destruct (sw_zero (SwBytes c)).
            + apply andb_true_iff in Hb. exists (S z). split; [lia | tauto].
            + exists z. tauto.
          - right. exists z. tauto.
          - right. exists z. tauto.
          - right. exists z. tauto. }
        destruct Hb' as [Hnil | (z' & Hr' & Hb')].
        -- (* the rest of the script is admissible from some z'' (monotone down to 0) *)
           assert (Hb0 : budget_ok 0 sc = true).
           { cbn [budget_ok] in Hb. destruct e as [|c|c| |q]; try exact Hb;
               try (eapply budget_ok_mono; [|exact Hb]; lia).
             destruct (sw_zero (SwBytes c)).
             - apply andb_true_iff in Hb. eapply budget_ok_mono; [|apply Hb]. lia.
             - eapply budget_ok_mono; [|exact Hb]. lia. }
           apply (IH _ _ _ _ r 0); [left; exact Hnil | exact Hr3 | exact Hb0 | exact Hlen].
        -- apply (IH _ _ _ _ r z'); [right; exact Hr' | exact Hr3 | exact Hb' | exact Hlen].
Qed.

Theorem file_write_budget o F off bs :
  budget_ok 0 (os_script o) = true ->
  exists o', file_write o F off bs = (apply_write F off bs, true, o') /\ budget_ok 0 (os_script o') = true.
Proof.
  intros Hb. unfold file_write.
  destruct (file_write_loop_budget (length bs + 4) o F off bs 0 0) as (F' & o' & H & Hb'); try lia; try assumption.
  exists o'. split; [|exact Hb'].
  rewrite H. now rewrite (file_write_loop_all _ _ _ _ _ _ _ _ H).
Qed.

Corollary file_write_positive o F off bs :
  all_positive (os_script o) = true ->
  exists o', file_write o F off bs = (apply_write F off bs, true, o').
Proof.
  intros H. destruct (file_write_budget o F off bs (all_positive_budget _ 0 H)) as (o' & E & _). now exists o'.
Qed.

(* ---------------------------------------------------------------------------------------------- *)
(* lifting: [good res o spec] = the oracle-run result [res] (value, "no file_write gave up", OS)      *)
(* started from OS state [o] has the value [spec] of the atomic model whenever its flag is true, and  *)
(* its flag is true (and the budget still holds afterwards) whenever the script respects the budget   *)

Definition good {A} (res : A * bool * os) (o : os) (spec : A) : Prop :=
  (snd (fst res) = true -> fst (fst res) = spec) /\
  (budget_ok 0 (os_script o) = true -> snd (fst res) = true /\ budget_ok 0 (os_script (snd res)) = true).

Lemma good_pure {A} (a : A) o : good (a, true, o) o a.
Proof. split; cbn; auto. Qed.

Lemma good_file_write o F off bs : good (file_write o F off bs) o (apply_write F off bs).
Proof.
  split.
  - destruct (file_write o F off bs) as [[F' ok] o'] eqn:E. cbn. intros ->. now apply file_write_all in E.
  - intros Hb. destruct (file_write_budget o F off bs Hb) as (o' & E & Hb'). rewrite E. cbn. auto.
Qed.

Lemma good_os_writes ws : forall o F, good (os_writes o F ws) o (apply_writes F ws).
Proof.
  induction ws as [|w ws IH]; intros o F; [apply good_pure|].
  cbn [os_writes].
  pose proof (good_file_write o F (fst w) (snd w)) as [G1 G2].
  destruct (file_write o F (fst w) (snd w)) as [[F1 ok1] o1]. cbn [fst snd] in *.
  pose proof (IH o1 F1) as [H1 H2].
  destruct (os_writes o1 F1 ws) as [[F2 ok2] o2]. cbn [fst snd] in *.
  unfold apply_writes in *. cbn [fold_left]. split; cbn [fst snd].
  - intros Hok. apply andb_true_iff in Hok. destruct Hok as [-> ->].
    rewrite <- (G1 eq_refl). now apply H1.
  - intros Hb. destruct (G2 Hb) as [-> Hb1]. destruct (H2 Hb1) as [-> Hb2]. auto.
Qed.

Lemma good_fs_write o fs name ws : good (fs_write_sw o fs name ws) o (fs_write fs name ws).
Proof.
  unfold fs_write_sw, fs_write.
  pose proof (good_os_writes ws o (fs_contents fs name)) as [H1 H2].
  destruct (os_writes o (fs_contents fs name) ws) as [[F ok] o']. cbn [fst snd] in *.
  split; cbn [fst snd].
  - intros Hok. now rewrite (H1 Hok).
  - exact H2.
Qed.

Lemma good_tiff_start fx o t fs : good (tiff_start_sw fx o t fs) o (tiff_start fx t fs).
Proof.
  unfold tiff_start_sw, tiff_start.
  pose proof (good_fs_write o (file_create fx fs (t_filename t)) (t_filename t) [(0%N, header_bytes)]) as [H1 H2].
  destruct (fs_write_sw o (file_create fx fs (t_filename t)) (t_filename t) [(0%N, header_bytes)]) as [[fs2 ok] o'].
  cbn [fst snd] in *. split; cbn [fst snd].
  - intros Hok. now rewrite (H1 Hok).
  - exact H2.
Qed.

Lemma good_tiff_append o t fs frs : good (tiff_append_sw o t fs frs) o (tiff_append t fs frs).
Proof.
  unfold tiff_append_sw, tiff_append. destruct (append_frames t frs) as [t' ws].
  pose proof (good_fs_write o fs (t_file t) ws) as [H1 H2].
  destruct (fs_write_sw o fs (t_file t) ws) as [[fs' ok] o']. cbn [fst snd] in *. split; cbn [fst snd].
  - intros Hok. now rewrite (H1 Hok).
  - exact H2.
Qed.

Lemma good_tiff_stop o t fs : good (tiff_stop_sw o t fs) o (tiff_stop t fs).
Proof.
  unfold tiff_stop_sw, tiff_stop. destruct (dstate_eqb (t_state t) Running); [|apply good_pure].
  pose proof (good_fs_write o fs (t_file t) [terminate_write t]) as [H1 H2].
  destruct (fs_write_sw o fs (t_file t) [terminate_write t]) as [[fs' ok] o']. cbn [fst snd] in *. split; cbn [fst snd].
  - intros Hok. now rewrite (H1 Hok).
  - exact H2.
Qed.

Lemma good_sbs_start fx o s fs : good (sbs_start_sw fx o s fs) o (sbs_start fx s fs).
Proof.
  unfold sbs_start_sw, sbs_start.
  set (path := p_uri (s_props s)).
  assert (G : good (match p_md (s_props s) with
                    | Some bs => fs_write_sw o (file_create fx fs (metadata_path path)) (metadata_path path) [(0%N, bs)]
                    | None => (fs, true, o)
                    end) o
                   (match p_md (s_props s) with
                    | Some bs => fs_write (file_create fx fs (metadata_path path)) (metadata_path path) [(0%N, bs)]
                    | None => fs
                    end)).
  { destruct (p_md (s_props s)); [apply good_fs_write | apply good_pure]. }
  destruct G as [G1 G2].
  destruct (match p_md (s_props s) with
            | Some bs => fs_write_sw o (file_create fx fs (metadata_path path)) (metadata_path path) [(0%N, bs)]
            | None => (fs, true, o)
            end) as [[fs1 ok1] o1]. cbn [fst snd] in *.
  set (fs1s := match p_md (s_props s) with
               | Some bs => fs_write (file_create fx fs (metadata_path path)) (metadata_path path) [(0%N, bs)]
               | None => fs
               end) in *.
  destruct (tiff_set fx (s_tiff s) (mkProps (video_path path) (p_md (s_props s)) (p_sx (s_props s)) (p_sy (s_props s)))) as [t1 st1].
  set (t1' := if fix_d6 fx then tiff_with_state t1 st1 else t1).
  destruct (dstate_eqb st1 Armed).
  - pose proof (good_tiff_start fx o1 t1' fs1) as [H1 H2].
    destruct (tiff_start_sw fx o1 t1' fs1) as [[[[t2 fs2] st2] ok2] o2]. cbn [fst snd] in *.
    split; cbn [fst snd].
    + intros Hok. apply andb_true_iff in Hok. destruct Hok as [-> ->].
      rewrite <- (G1 eq_refl). rewrite <- (H1 eq_refl). reflexivity.
    + intros Hb. destruct (G2 Hb) as [-> Hb1]. destruct (H2 Hb1) as [-> Hb2]. auto.
  - split; cbn [fst snd].
    + intros Hok. now rewrite (G1 Hok).
    + exact G2.
Qed.

Lemma good_sbs_append o s fs frs : good (sbs_append_sw o s fs frs) o (sbs_append s fs frs).
Proof.
  unfold sbs_append_sw, sbs_append.
  pose proof (good_tiff_append o (s_tiff s) fs frs) as [H1 H2].
  destruct (tiff_append_sw o (s_tiff s) fs frs) as [[[[t' fs'] st] ok] o']. cbn [fst snd] in *.
  split; cbn [fst snd].
  - intros Hok. now rewrite <- (H1 Hok).
  - exact H2.
Qed.

Lemma good_sbs_stop o s fs : good (sbs_stop_sw o s fs) o (sbs_stop s fs).
Proof.
  unfold sbs_stop_sw, sbs_stop.
  pose proof (good_tiff_stop o (s_tiff s) fs) as [H1 H2].
  destruct (tiff_stop_sw o (s_tiff s) fs) as [[[[t' fs'] st] ok] o']. cbn [fst snd] in *.
  split; cbn [fst snd].
  - intros Hok. now rewrite <- (H1 Hok).
  - exact H2.
Qed.

Lemma good_drv_start fx o d fs : good (drv_start_sw fx o d fs) o (drv_start fx d fs).
Proof.
  destruct d as [t|s]; cbn [drv_start_sw drv_start].
  - pose proof (good_tiff_start fx o t fs) as [H1 H2].
    destruct (tiff_start_sw fx o t fs) as [[[[t' fs'] st] ok] o']. cbn [fst snd] in *.
    split; cbn [fst snd]; [|exact H2]. intros Hok. now rewrite <- (H1 Hok).
  - pose proof (good_sbs_start fx o s fs) as [H1 H2].
    destruct (sbs_start_sw fx o s fs) as [[[[t' fs'] st] ok] o']. cbn [fst snd] in *.
    split; cbn [fst snd]; [|exact H2]. intros Hok. now rewrite <- (H1 Hok).
Qed.

Lemma good_drv_append o d fs frs : good (drv_append_sw o d fs frs) o (drv_append d fs frs).
Proof.
  destruct d as [t|s]; cbn [drv_append_sw drv_append].
  - pose proof (good_tiff_append o t fs frs) as [H1 H2].
    destruct (tiff_append_sw o t fs frs) as [[[[t' fs'] st] ok] o']. cbn [fst snd] in *.
    split; cbn [fst snd]; [|exact H2]. intros Hok. now rewrite <- (H1 Hok).
  - pose proof (good_sbs_append o s fs frs) as [H1 H2].
    destruct (sbs_append_sw o s fs frs) as [[[[t' fs'] st] ok] o']. cbn [fst snd] in *.
    split; cbn [fst snd]; [|exact H2]. intros Hok. now rewrite <- (H1 Hok).
Qed.

Lemma good_drv_stop o d fs : good (drv_stop_sw o d fs) o (drv_stop d fs).
Proof.
  destruct d as [t|s]; cbn [drv_stop_sw drv_stop].
  - pose proof (good_tiff_stop o t fs) as [H1 H2].
    destruct (tiff_stop_sw o t fs) as [[[[t' fs'] st] ok] o']. cbn [fst snd] in *.
    split; cbn [fst snd]; [|exact H2]. intros Hok. now rewrite <- (H1 Hok).
  - pose proof (good_sbs_stop o s fs) as [H1 H2].
    destruct (sbs_stop_sw o s fs) as [[[[t' fs'] st] ok] o']. cbn [fst snd] in *.
    split; cbn [fst snd]; [|exact H2]. intros Hok. now rewrite <- (H1 Hok).
Qed.

(* one HAL call: the world and Device_Ok are those of SideBySide.step *)
Lemma good_step fx w o op : good (step_sw fx w o op) o (step fx w op).
Proof.
  destruct w as [d fs]. destruct op as [p| |frs|]; cbn [step_sw step].
  - apply good_pure.
  - destruct (dstate_eqb (dev_state d) Armed); [|apply good_pure].
    pose proof (good_drv_start fx o d fs) as [H1 H2].
    destruct (drv_start_sw fx o d fs) as [[[[d' fs'] st] ok] o']. cbn [fst snd] in *.
    split; cbn [fst snd]; [|exact H2]. intros Hok. now rewrite <- (H1 Hok).
  - destruct (dstate_eqb (dev_state d) Running); [|apply good_pure].
    destruct frs as [|fr frs]; [apply good_pure|].
    pose proof (good_drv_append o d fs (fr :: frs)) as [H1 H2].
    destruct (drv_append_sw o d fs (fr :: frs)) as [[[[d' fs'] st] ok] o']. cbn [fst snd] in *.
    split; cbn [fst snd]; [|exact H2]. intros Hok. now rewrite <- (H1 Hok).
  - destruct (dstate_eqb (dev_state d) Running); [|apply good_pure].
    pose proof (good_drv_stop o d fs) as [H1 H2].
    destruct (drv_stop_sw o d fs) as [[[[d' fs'] st] ok] o']. cbn [fst snd] in *.
    split; cbn [fst snd]; [|exact H2]. intros Hok. now rewrite <- (H1 Hok).
Qed.

Lemma good_run fx ops : forall w o, good (run_sw fx w o ops) o (run fx w ops).
Proof.
  induction ops as [|op ops IH]; intros w o; [apply good_pure|].
  cbn [run_sw run].
  pose proof (good_step fx w o op) as [G1 G2].
  destruct (step_sw fx w o op) as [[[w1 r1] ok1] o1]. cbn [fst snd] in *.
  pose proof (IH w1 o1) as [H1 H2].
  destruct (run_sw fx w1 o1 ops) as [[w2 ok2] o2]. cbn [fst snd] in *.
  split; cbn [fst snd].
  - intros Hok. apply andb_true_iff in Hok. destruct Hok as [-> ->].
    rewrite <- (G1 eq_refl). cbn [fst]. now apply H1.
  - intros Hb. destruct (G2 Hb) as [-> Hb1]. destruct (H2 Hb1) as [-> Hb2]. auto.
Qed.

Lemma good_destroy w o : good (destroy_sw w o) o (destroy w).
Proof.
  destruct w as [d fs]. unfold destroy_sw, destroy.
  pose proof (good_drv_stop o d fs) as [H1 H2].
  destruct (drv_stop_sw o d fs) as [[[[d' fs'] st] ok] o']. cbn [fst snd] in *.
  split; cbn [fst snd]; [|exact H2]. intros Hok. now rewrite <- (H1 Hok).
Qed.

(* ---------------------------------------------------------------------------------------------- *)
(* the statements Properties_C15.v cites                                                            *)

(* A whole history of HAL calls over ANY short-write script: if no file_write gave up, the device and
   every file are exactly those of the atomic model (the object of C15_roundtrip .. C15_grouping).    *)
Theorem run_sw_refines fx w script ops :
  let '(w', ok, _) := run_sw fx w (os_init script) ops in
  ok = true -> w' = run fx w ops.
Proof.
  pose proof (good_run fx ops w (os_init script)) as [H _].
  destruct (run_sw fx w (os_init script) ops) as [[w' ok] o']. exact H.
Qed.

(* ... and no file_write gives up when the script respects the zero-count budget. *)
Theorem run_sw_budget fx w script ops :
  budget_ok 0 script = true ->
  exists o', run_sw fx w (os_init script) ops = (run fx w ops, true, o').
Proof.
  intros Hb. pose proof (good_run fx ops w (os_init script)) as [H1 H2].
  destruct (run_sw fx w (os_init script) ops) as [[w' ok] o']. cbn [fst snd] in *.
  destruct (H2 Hb) as [-> _]. exists o'. now rewrite (H1 eq_refl).
Qed.

Corollary run_sw_positive fx w script ops :
  all_positive script = true ->
  exists o', run_sw fx w (os_init script) ops = (run fx w ops, true, o').
Proof. intros H. apply run_sw_budget. now apply all_positive_budget. Qed.
