(* TiffSw.v -- the operating system's pwrite as an ORACLE that may return short counts, and
   linux/platform.c:file_write as the write-all loop the code contains, statement by statement:

       int retries = 0;
       while (cur < end && retries < 3) {
           size_t remaining = end - cur;
           ssize_t written = pwrite(file->fid, cur, remaining, offset);
           if (written < 0) { CHECK_POSIX(errno); }          -- never taken here: errors are C16's
           retries += (written == 0);
           offset += written;
           cur += written;
       }
       return (retries < 3);

   TiffEnc.v / SideBySide.v describe a complete file_write by one [apply_write] (all bytes land at the
   offset).  This file gives the same device methods with every file_write run through the loop above
   against an OS state [os] that holds a SCRIPT of short-write answers (one entry per pwrite call, in
   call order; calls beyond the end of the script transfer everything) and the LOG of the pwrite calls
   made so far.  The device-state part of every method is taken from the TiffEnc/SideBySide definition
   (not repeated); only the statements that do I/O are written again, in the same order.

   The extra boolean every function returns is "every file_write so far returned 1".  What the writers
   do after a file_write that gave up is the business of C16 (fam/fileio), it is NOT modelled here: the
   flag only marks a run as outside C15's hypothesis.  TiffSwProofs.v shows that while the flag is true
   the file system, the device and the status codes are exactly those of [SideBySide.run], whatever the
   script, and that the flag stays true for every script that respects the loop's zero-count budget.

   NO proofs in this file. *)
From Coq Require Import String Ascii NArith List Bool.
From Tiff Require Import TiffEnc SideBySide.
Import ListNotations.
Local Open Scope N_scope.

(* ------------------------------------------------------------------------------------------------ *)
(* the short-write oracle                                                                            *)

(* one scripted answer of pwrite(fd, buf, remaining, offset), remaining >= 1 *)
Inductive sw :=
| SwFull                (* everything *)
| SwBytes (c : N)       (* at most c bytes; SwBytes 0 is the zero-length result *)
| SwAllBut (c : N)      (* all but c bytes, at least one *)
| SwHalf                (* half, rounded up *)
| SwFrac (k : N).       (* k/256 of the request, at least one byte *)

Definition sw_count (e : sw) (remaining : N) : N :=
  match e with
  | SwFull => remaining
  | SwBytes c => c
  | SwAllBut c => N.max 1 (remaining - c)
  | SwHalf => (remaining + 1) / 2
  | SwFrac k => N.max 1 (remaining * k / 256)
  end.

(* pwrite never transfers more than it was asked to *)
Definition pwrite_count (e : sw) (remaining : N) : N := N.min remaining (sw_count e remaining).

(* the entries that answer 0 to a non-empty request *)
Definition sw_zero (e : sw) : bool :=
  match e with
  | SwBytes 0 => true
  | _ => false
  end.

(* offset, requested, returned *)
Definition pwrite_call := (N * N * N)%type.

Record os := mkOs {
  os_script : list sw;          (* answers to the pwrite calls still to come *)
  os_log : list pwrite_call     (* the pwrite calls made so far, newest first *)
}.

Definition os_init (script : list sw) : os := mkOs script [].

(* one pwrite call: the count it returns *)
Definition os_pwrite (o : os) (off remaining : N) : N * os :=
  match os_script o with
  | [] => (remaining, mkOs [] ((off, remaining, remaining) :: os_log o))
  | e :: r =>
      let c := pwrite_count e remaining in
      (c, mkOs r ((off, remaining, c) :: os_log o))
  end.

(* ------------------------------------------------------------------------------------------------ *)
(* linux/platform.c: file_write                                                                      *)

(* [cur] = the bytes in [cur, end).  pwrite of [written] bytes at [off] is apply_write of that prefix
   (a gap beyond the end of the file reads as zeros; nothing happens for written = 0).
   [fuel] bounds the iterations: every iteration consumes a byte or a retry, see file_write. *)
Fixpoint file_write_loop (fuel : nat) (o : os) (F : list N) (off : N) (cur : list N) (retries : nat)
  : list N * bool * os :=
  match fuel with
  | O => (F, false, o)
  | S k =>
      match cur with
      | [] => (F, Nat.ltb retries 3, o)                                  (* cur == end *)
      | _ :: _ =>
          if Nat.ltb retries 3 then
            let '(written, o') := os_pwrite o off (len cur) in
            let F' := apply_write F off (firstn (N.to_nat written) cur) in
            file_write_loop k o' F' (off + written) (skipn (N.to_nat written) cur)
                            (if written =? 0 then S retries else retries)
          else (F, false, o)                                             (* return (retries < 3) *)
      end
  end.

Definition file_write (o : os) (F : list N) (off : N) (bs : list N) : list N * bool * os :=
  file_write_loop (length bs + 4) o F off bs 0.

(* the file_write calls one device method makes on one open file, in order *)
Fixpoint os_writes (o : os) (F : list N) (ws : list write) : list N * bool * os :=
  match ws with
  | [] => (F, true, o)
  | w :: r =>
      let '(F1, ok1, o1) := file_write o F (fst w) (snd w) in
      let '(F2, ok2, o2) := os_writes o1 F1 r in
      (F2, ok1 && ok2, o2)
  end.

Definition fs_write_sw (o : os) (fs : fsys) (name : list N) (ws : list write) : fsys * bool * os :=
  let '(F, ok, o') := os_writes o (fs_contents fs name) ws in
  (fs_put fs name F, ok, o').

(* ------------------------------------------------------------------------------------------------ *)
(* the device methods over the oracle (same statements as TiffEnc.v / SideBySide.v)                   *)

(* Tiff::start *)
Definition tiff_start_sw (fx : fixes) (o : os) (t : tiff) (fs : fsys) : tiff * fsys * dstate * bool * os :=
  let '(t', _, st) := tiff_start fx t fs in
  let fs1 := file_create fx fs (t_filename t) in
  let '(fs2, ok, o') := fs_write_sw o fs1 (t_filename t) [(0, header_bytes)] in
  (t', fs2, st, ok, o').

(* tiff_append *)
Definition tiff_append_sw (o : os) (t : tiff) (fs : fsys) (frs : list frame) : tiff * fsys * dstate * bool * os :=
  let '(t', ws) := append_frames t frs in
  let '(fs', ok, o') := fs_write_sw o fs (t_file t) ws in
  (t', fs', Running, ok, o').

(* Tiff::stop / tiff_stop *)
Definition tiff_stop_sw (o : os) (t : tiff) (fs : fsys) : tiff * fsys * dstate * bool * os :=
  let '(t', _, st) := tiff_stop t fs in
  if dstate_eqb (t_state t) Running then
    let '(fs', ok, o') := fs_write_sw o fs (t_file t) [terminate_write t] in
    (t', fs', st, ok, o')
  else (t', fs, st, true, o).

(* side_by_side_tiff_start *)
Definition sbs_start_sw (fx : fixes) (o : os) (s : sbs) (fs : fsys) : sbs * fsys * dstate * bool * os :=
  let path := p_uri (s_props s) in
  let '(fs1, ok1, o1) :=
      match p_md (s_props s) with
      | Some bs => fs_write_sw o (file_create fx fs (metadata_path path)) (metadata_path path) [(0, bs)]
      | None => (fs, true, o)
      end in
  let p := mkProps (video_path path) (p_md (s_props s)) (p_sx (s_props s)) (p_sy (s_props s)) in
  let '(t1, st1) := tiff_set fx (s_tiff s) p in
  let t1 := if fix_d6 fx then tiff_with_state t1 st1 else t1 in
  if dstate_eqb st1 Armed then
    let '(t2, fs2, st2, ok2, o2) := tiff_start_sw fx o1 t1 fs1 in
    let t2 := if fix_d6 fx then tiff_with_state t2 st2 else t2 in
    (mkSbs (s_state s) (s_props s) t2, fs2, st2, ok1 && ok2, o2)
  else (mkSbs (s_state s) (s_props s) t1, fs1, AwaitingConfiguration, ok1, o1).

(* side_by_side_tiff_append *)
Definition sbs_append_sw (o : os) (s : sbs) (fs : fsys) (frs : list frame) : sbs * fsys * dstate * bool * os :=
  let '(t', fs', st, ok, o') := tiff_append_sw o (s_tiff s) fs frs in
  (mkSbs (s_state s) (s_props s) t', fs', st, ok, o').

(* side_by_side_tiff_stop *)
Definition sbs_stop_sw (o : os) (s : sbs) (fs : fsys) : sbs * fsys * dstate * bool * os :=
  let '(t', fs', st, ok, o') := tiff_stop_sw o (s_tiff s) fs in
  (mkSbs (s_state s) (s_props s) t', fs', st, ok, o').

(* the driver's methods *)
Definition drv_start_sw (fx : fixes) (o : os) (d : dev) (fs : fsys) : dev * fsys * dstate * bool * os :=
  match d with
  | DTiff t => let '(t', fs', st, ok, o') := tiff_start_sw fx o t fs in (DTiff t', fs', st, ok, o')
  | DSbs s => let '(s', fs', st, ok, o') := sbs_start_sw fx o s fs in (DSbs s', fs', st, ok, o')
  end.

Definition drv_append_sw (o : os) (d : dev) (fs : fsys) (frs : list frame) : dev * fsys * dstate * bool * os :=
  match d with
  | DTiff t => let '(t', fs', st, ok, o') := tiff_append_sw o t fs frs in (DTiff t', fs', st, ok, o')
  | DSbs s => let '(s', fs', st, ok, o') := sbs_append_sw o s fs frs in (DSbs s', fs', st, ok, o')
  end.

Definition drv_stop_sw (o : os) (d : dev) (fs : fsys) : dev * fsys * dstate * bool * os :=
  match d with
  | DTiff t => let '(t', fs', st, ok, o') := tiff_stop_sw o t fs in (DTiff t', fs', st, ok, o')
  | DSbs s => let '(s', fs', st, ok, o') := sbs_stop_sw o s fs in (DSbs s', fs', st, ok, o')
  end.

(* device/hal/storage.c over the oracle: the world, Device_Ok, "no file_write gave up", the OS *)
Definition step_sw (fx : fixes) (w : world) (o : os) (op : op) : world * bool * bool * os :=
  let '(d, fs) := w in
  match op with
  | OSet p => (step fx w op, true, o)                 (* storage_set writes nothing *)
  | OStart =>
      if dstate_eqb (dev_state d) Armed then
        let '(d', fs', st, ok, o') := drv_start_sw fx o d fs in
        ((dev_with_state d' st, fs'), dstate_eqb st Running, ok, o')
      else (w, false, true, o)
  | OAppend frs =>
      if dstate_eqb (dev_state d) Running then
        match frs with
        | [] => (w, true, true, o)
        | _ :: _ =>
            let '(d', fs', st, ok, o') := drv_append_sw o d fs frs in
            ((dev_with_state d' st, fs'), dstate_eqb st Running, ok, o')
        end
      else (w, false, true, o)
  | OStop =>
      if dstate_eqb (dev_state d) Running then
        let '(d', fs', st, ok, o') := drv_stop_sw o d fs in
        ((dev_with_state d' st, fs'), true, ok, o')
      else (w, true, true, o)
  end.

Fixpoint run_sw (fx : fixes) (w : world) (o : os) (ops : list op) : world * bool * os :=
  match ops with
  | [] => (w, true, o)
  | op :: r =>
      let '(w1, _, ok1, o1) := step_sw fx w o op in
      let '(w2, ok2, o2) := run_sw fx w1 o1 r in
      (w2, ok1 && ok2, o2)
  end.

(* driver close = destroy *)
Definition destroy_sw (w : world) (o : os) : world * bool * os :=
  let '(d, fs) := w in
  let '(d', fs', _, ok, o') := drv_stop_sw o d fs in ((d', fs'), ok, o').

(* ------------------------------------------------------------------------------------------------ *)
(* which scripts the loop tolerates                                                                  *)

(* Every count positive: no entry answers 0. *)
Definition all_positive (sc : list sw) : bool := forallb (fun e => negb (sw_zero e)) sc.

(* The zero-count budget, as a property of the script alone (whatever the requests are and however the
   calls are grouped into file_write calls): a file_write gives up at its third zero-length result; a
   SwFull answer completes the file_write that is running; so at most two zero answers between two
   SwFull answers can never exhaust a file_write.  [z] = zero answers since the last SwFull. *)
Fixpoint budget_ok (z : nat) (sc : list sw) : bool :=
  match sc with
  | [] => true
  | SwFull :: r => budget_ok 0 r
  | e :: r => if sw_zero e then Nat.ltb (S z) 3 && budget_ok (S z) r else budget_ok z r
  end.
