(* TiffDec.v -- an independent little-endian BigTIFF reader (no proofs here).
   It shares nothing with TiffEnc.v except the representation of bytes as N.
   header check, IFD chain walk (fuel = file length), tag lookup by number, strip extraction,
   description parsing for ids / timestamps / metadata. *)
From Coq Require Import String Ascii NArith List Bool.
Import ListNotations.
Local Open Scope N_scope.

(* little-endian value of a byte string *)
Fixpoint unle (l : list N) : N :=
  match l with
  | [] => 0
  | b :: r => b + 256 * unle r
  end.

(* bytes [off, off+n) of the file, if they are all inside it *)
Definition read (F : list N) (off n : N) : option (list N) :=
  if off + n <=? N.of_nat (length F)
  then Some (firstn (N.to_nat n) (skipn (N.to_nat off) F))
  else None.

Definition sub (l : list N) (off n : nat) : list N := firstn n (skipn off l).

(* one 20-byte directory entry *)
Record entry := mkEntry { e_tag : N; e_type : N; e_count : N; e_value : list N }.

Definition parse_entry (b : list N) : entry :=
  mkEntry (unle (sub b 0 2)) (unle (sub b 2 2)) (unle (sub b 4 8)) (sub b 12 8).

Fixpoint parse_entries (n : nat) (b : list N) : list entry :=
  match n with
  | O => []
  | S k => parse_entry (firstn 20 b) :: parse_entries k (skipn 20 b)
  end.

Fixpoint find_tag (tg : N) (es : list entry) : option entry :=
  match es with
  | [] => None
  | e :: r => if e_tag e =? tg then Some e else find_tag tg r
  end.

(* the scalar an entry of count 1 holds inline: SHORT (3), LONG (4), LONG8 (16), IFD8/SLONG8 are not used *)
Definition scalar (e : entry) : option N :=
  if negb (e_count e =? 1) then None else
  match e_type e with
  | 3 => Some (unle (firstn 2 (e_value e)))
  | 4 => Some (unle (firstn 4 (e_value e)))
  | 16 => Some (unle (e_value e))
  | _ => None
  end.

Definition scalar_tag (tg : N) (es : list entry) : option N :=
  match find_tag tg es with
  | Some e => scalar e
  | None => None
  end.

(* ------------------------------------------------------------------------------------------------ *)
(* description: {"frame_id":D,"hardware_frame_id":D,"timestamps":{"runtime":D,"hardware":D}[,"metadata":M]} *)

Definition lit (s : string) : list N := map N_of_ascii (list_ascii_of_string s).

Fixpoint expect (l p : list N) {struct p} : option (list N) :=
  match p with
  | [] => Some l
  | c :: p' => match l with
               | d :: l' => if c =? d then expect l' p' else None
               | [] => None
               end
  end.

Definition is_digit (c : N) : bool := (48 <=? c) && (c <=? 57).

Fixpoint digits (l : list N) (acc : N) : N * list N :=
  match l with
  | c :: l' => if is_digit c then digits l' (10 * acc + (c - 48)) else (acc, l)
  | [] => (acc, [])
  end.

Definition number (l : list N) : option (N * list N) :=
  match l with
  | c :: _ => if is_digit c then Some (digits l 0) else None
  | [] => None
  end.

Record descr := mkDescr {
  j_frame_id : N; j_hw_frame_id : N; j_ts_runtime : N; j_ts_hardware : N;
  j_metadata : option (list N)
}.

(* exactly one closing brace *)
Definition is_close (l : list N) : bool :=
  match l with
  | [] => false
  | c :: r => match r with [] => c =? 125 | _ :: _ => false end
  end.

Definition parse_description (l : list N) : option descr :=
  match expect l (lit "{""frame_id"":") with None => None | Some l1 =>
  match number l1 with None => None | Some (fid, l2) =>
  match expect l2 (lit ",""hardware_frame_id"":") with None => None | Some l3 =>
  match number l3 with None => None | Some (hid, l4) =>
  match expect l4 (lit ",""timestamps"":{""runtime"":") with None => None | Some l5 =>
  match number l5 with None => None | Some (trt, l6) =>
  match expect l6 (lit ",""hardware"":") with None => None | Some l7 =>
  match number l7 with None => None | Some (thw, l8) =>
  match expect l8 (lit "}") with None => None | Some l9 =>
  if is_close l9 then Some (mkDescr fid hid trt thw None) else
  match expect l9 (lit ",""metadata"":") with None => None | Some l10 =>
  match l10 with
  | [] => None
  | _ :: _ => if last l10 0 =? 125
              then Some (mkDescr fid hid trt thw (Some (removelast l10)))
              else None
  end end end end end end end end end end end.

(* ------------------------------------------------------------------------------------------------ *)
(* one directory                                                                                     *)

Record dir := mkDir {
  d_off : N;            (* where the directory starts *)
  d_ntags : N;
  d_next : N;           (* the link to the next directory *)
  d_width : N; d_height : N; d_bits : N; d_format : N;
  d_strip_off : N; d_strip_len : N;
  d_strip : list N;     (* the bytes of the (single) strip *)
  d_desc_off : N;       (* 0 when the description is stored inline *)
  d_desc_len : N;       (* its count, including the terminating NUL *)
  d_desc : descr
}.

(* an ASCII field: inline when count <= 8, at the offset otherwise; must end in NUL *)
Definition ascii_field (F : list N) (e : entry) : option (N * list N) :=
  if negb (e_type e =? 2) then None else
  if e_count e =? 0 then None else
  match (if e_count e <=? 8
         then Some (0, firstn (N.to_nat (e_count e)) (e_value e))
         else match read F (unle (e_value e)) (e_count e) with
              | Some b => Some (unle (e_value e), b)
              | None => None
              end) with
  | None => None
  | Some (off, b) => if last b 1 =? 0 then Some (off, removelast b) else None
  end.

Definition read_dir (F : list N) (off : N) : option dir :=
  match read F off 8 with None => None | Some nb =>
  let ntags := unle nb in
  match read F (off + 8) (20 * ntags) with None => None | Some eb =>
  match read F (off + 8 + 20 * ntags) 8 with None => None | Some lb =>
  let es := parse_entries (N.to_nat ntags) eb in
  match scalar_tag 256 es with None => None | Some w =>
  match scalar_tag 257 es with None => None | Some h =>
  match scalar_tag 258 es with None => None | Some bits =>
  match scalar_tag 339 es with None => None | Some fmt =>
  match scalar_tag 273 es with None => None | Some so =>
  match scalar_tag 279 es with None => None | Some sl =>
  match read F so sl with None => None | Some strip =>
  match find_tag 270 es with None => None | Some de =>
  match ascii_field F de with None => None | Some (doff, db) =>
  match parse_description db with None => None | Some j =>
  Some (mkDir off ntags (unle lb) w h bits fmt so sl strip doff (e_count de) j)
  end end end end end end end end end end end end end.

Fixpoint walk (fuel : nat) (F : list N) (off : N) : option (list dir) :=
  match fuel with
  | O => None
  | S k =>
      match read_dir F off with
      | None => None
      | Some d =>
          if d_next d =? 0 then Some [d]
          else match walk k F (d_next d) with
               | Some ds => Some (d :: ds)
               | None => None
               end
      end
  end.

(* header: "II", version 43, offset size 8, constant 0, first directory *)
Definition decode (F : list N) : option (list dir) :=
  match read F 0 16 with
  | None => None
  | Some h =>
      if (unle (sub h 0 2) =? 18761) && (unle (sub h 2 2) =? 43) &&
         (unle (sub h 4 2) =? 8) && (unle (sub h 6 2) =? 0)
      then
        let first := unle (sub h 8 8) in
        if first =? 0 then None else walk (length F) F first
      else None
  end.

(* the regions (offset, length) a decoded file occupies: header, and per directory the IFD, the strip
   and the out-of-line description *)
Definition dir_regions (d : dir) : list (N * N) :=
  [ (d_off d, 8 + 20 * d_ntags d + 8);
    (d_strip_off d, d_strip_len d);
    (d_desc_off d, if d_desc_off d =? 0 then 0 else d_desc_len d) ].

Definition regions (ds : list dir) : list (N * N) := (0, 16) :: flat_map dir_regions ds.
