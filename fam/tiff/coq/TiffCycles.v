(* TiffCycles.v -- from operations on a device (HAL: set / start / append* / stop) to the file:
   one cycle on the tiff device and on the tiff-json composite, from ANY stopped device state and ANY
   file system, hence any number of cycles. *)
From Coq Require Import String Ascii Arith NArith List Bool Lia.
From Tiff Require Import TiffEnc TiffDec SideBySide TiffBytes TiffFile TiffDesc TiffRound TiffChain TiffProps.
Import ListNotations.
Local Open Scope N_scope.

Local Opaque strip_file_prefix header_bytes apply_write le align8 validate_json.

(* ------------------------------------------------------------------------------------------------ *)
(* configurations                                                                                    *)

(* the metadata the writer keeps after a successful set *)
Definition md_eff (p : props) : list N := match p_md p with Some bs => bs | None => [] end.

(* settings the tiff device accepts: no metadata (NULL or ""), or text in braces *)
Definition valid_tiff (p : props) : Prop :=
  match p_md p with None => True | Some bs => bs = [] \/ validate_json bs = true end.

(* settings the tiff-json device accepts: NULL, or text in braces *)
Definition valid_sbs (p : props) : Prop :=
  match p_md p with None => True | Some bs => validate_json bs = true end.

Lemma validate_json_long bs : validate_json bs = true -> 1 < len bs + 1.
Proof.
  Local Transparent validate_json.
  unfold validate_json. intros H. apply andb_true_iff in H. destruct H as [H _].
  apply andb_true_iff in H. destruct H as [H _]. apply N.leb_le in H. lia.
  Local Opaque validate_json.
Qed.

Lemma tiff_set_valid t p : valid_tiff p ->
  tiff_set all_fixes t p =
  (mkTiff (t_state t) (strip_file_prefix (p_uri p)) (md_eff p) (p_sx p) (p_sy p) (t_file t)
          (t_last_offset t) (t_last_next t) (t_frame_count t), Armed).
Proof.
  unfold valid_tiff, tiff_set, tiff_set_m, md_eff. destruct (p_md p) as [bs|]; intros H.
  - destruct H as [-> | Hv].
    + reflexivity.
    + pose proof (validate_json_long bs Hv). destruct (N.ltb_spec 1 (len bs + 1)); [|lia].
      rewrite Hv. reflexivity.
  - reflexivity.
Qed.

Lemma tiff_set_state fx t p : snd (tiff_set fx t p) <> Running.
Proof. unfold tiff_set. destruct (tiff_set_m fx t p) as [t' [|]]; discriminate. Qed.

Lemma run_app fx ops1 : forall w ops2, run fx w (ops1 ++ ops2) = run fx (run fx w ops1) ops2.
Proof. induction ops1; intros; cbn [app run]; auto. Qed.

Lemma tiff_with_state_id t s : t_state t = s -> tiff_with_state t s = t.
Proof. intros <-. destruct t. reflexivity. Qed.

Lemma final_state_fields frs : forall t,
  t_state (final_state t frs) = t_state t /\ t_file (final_state t frs) = t_file t.
Proof.
  induction frs as [|fr rest IH]; intros t; [split; reflexivity|].
  cbn [final_state]. destruct (IH (next_state t fr)) as [-> ->]. split; reflexivity.
Qed.

Lemma fs_contents_get fs n C : fs_get fs n = Some C -> fs_contents fs n = C.
Proof. unfold fs_contents. now intros ->. Qed.

Lemma file_create_get fs n : fs_get (file_create all_fixes fs n) n = Some [].
Proof. unfold file_create. destruct (fs_get fs n); cbn [fix_d26 all_fixes]; apply fs_get_put_same. Qed.

Lemma file_create_other fs n m : bytes_eqb n m = false -> fs_get (file_create all_fixes fs n) m = fs_get fs m.
Proof.
  intros H. unfold file_create. destruct (fs_get fs n); cbn [fix_d26 all_fixes]; now apply fs_get_put_other.
Qed.

Lemma fs_write_get fs n C ws : fs_get fs n = Some C -> fs_get (fs_write fs n ws) n = Some (apply_writes C ws).
Proof. intros H. unfold fs_write. rewrite (fs_contents_get _ _ _ H). apply fs_get_put_same. Qed.

Lemma fs_write_other fs n ws m : bytes_eqb n m = false -> fs_get (fs_write fs n ws) m = fs_get fs m.
Proof. intros H. unfold fs_write. now apply fs_get_put_other. Qed.

(* ------------------------------------------------------------------------------------------------ *)
(* the appends of a cycle, for either device kind                                                    *)

Section Appends.
  (* how the inner Tiff object sits in the device while the HAL-owned state is Running *)
  Variable wrap : tiff -> dev.
  Hypothesis wrap_state : forall t, t_state t = Running -> dev_state (wrap t) = Running.
  Hypothesis wrap_append : forall t fs frs,
    drv_append (wrap t) fs frs =
    (let '(t', fs', st) := tiff_append t fs frs in (wrap t', fs', st)).
  Hypothesis wrap_with_state : forall t, t_state t = Running -> dev_with_state (wrap t) Running = wrap t.

  Lemma appends_run packets : forall ops t fs C,
    t_state t = Running ->
    fs_get fs (t_file t) = Some C ->
    exists fs',
      run all_fixes (wrap t, fs) (map OAppend packets ++ ops) =
      run all_fixes (wrap (final_state t (concat packets)), fs') ops /\
      fs_get fs' (t_file t) = Some (apply_writes C (all_writes t (concat packets))) /\
      (forall m, bytes_eqb (t_file t) m = false -> fs_get fs' m = fs_get fs m).
  Proof.
    induction packets as [|frs ps IH]; intros ops t fs C Hrun HC.
    - exists fs. repeat split; assumption.
    - cbn [map app run step]. rewrite wrap_state by assumption. cbn [dstate_eqb].
      destruct frs as [|f fr].
      + cbn [fst concat app]. now apply IH.
      + remember (f :: fr) as frs. rewrite wrap_append. unfold tiff_append.
        rewrite append_frames_eq. cbn [fst dstate_eqb].
        destruct (final_state_fields frs t) as [Hstate Hfile].
        rewrite wrap_with_state by congruence.
        destruct (IH ops (final_state t frs) (fs_write fs (t_file t) (all_writes t frs))
                     (apply_writes C (all_writes t frs))) as (fs' & Hr & Hget & Hoth).
        { congruence. }
        { rewrite Hfile. now apply fs_write_get. }
        exists fs'. cbn [concat]. rewrite final_state_app, all_writes_app, apply_writes_app.
        rewrite Hfile in *. repeat split; try assumption.
        intros m Hm. rewrite (Hoth m Hm). now apply fs_write_other.
  Qed.
End Appends.

(* ------------------------------------------------------------------------------------------------ *)
(* one cycle on the tiff device                                                                      *)

Definition cycle_tail (packets : list (list frame)) : list op := map OAppend packets ++ [OStop].

(* the state Tiff::start leaves, given the configured fields *)
Definition started (name md : list N) (sx sy : scale) (ln : N) : tiff :=
  mkTiff Running name md sx sy name 16 ln 0.

Lemma started_is_start name md sx sy ln : start_state (started name md sx sy ln) = started name md sx sy ln.
Proof. reflexivity. Qed.

Theorem tiff_cycle t fs p packets :
  t_state t <> Running -> valid_tiff p ->
  let name := strip_file_prefix (p_uri p) in
  let s := started name (md_eff p) (p_sx p) (p_sy p) (t_last_next t) in
  exists t' fs',
    run all_fixes (DTiff t, fs) ([OSet p; OStart] ++ cycle_tail packets) = (DTiff t', fs') /\
    t_state t' <> Running /\
    fs_get fs' name = Some (cycle_file [] s (concat packets)).
Proof.
  intros Hst Hv name s. unfold cycle_tail.
  cbn [app run step drv_set]. rewrite tiff_set_valid by assumption.
  cbn [run step fst dev_with_state tiff_with_state dev_state t_state dstate_eqb drv_start tiff_start
       t_filename t_md t_sx t_sy t_file t_last_offset t_last_next t_frame_count].
  fold name. fold (started name (md_eff p) (p_sx p) (p_sy p) (t_last_next t)). fold s.
  set (fs1 := fs_write (file_create all_fixes fs name) name [(0, header_bytes)]).
  assert (H1 : fs_get fs1 (t_file s) = Some (apply_write [] 0 header_bytes)).
  { unfold fs1. cbn [s started t_file]. rewrite (fs_write_get _ _ [] _ (file_create_get fs name)). reflexivity. }
  destruct (appends_run DTiff (fun _ H => H) (fun _ _ _ => eq_refl)
              (fun t0 H => f_equal DTiff (tiff_with_state_id t0 Running H)) packets [OStop] s fs1 _ eq_refl H1)
    as (fs2 & Hrun & Hget & _).
  unfold tiff_with_state.
  cbn [t_state t_filename t_md t_sx t_sy t_file t_last_offset t_last_next t_frame_count].
  fold (started name (md_eff p) (p_sx p) (p_sy p) (t_last_next t)). fold s.
  rewrite Hrun. clear Hrun.
  destruct (final_state_fields (concat packets) s) as [Hstate Hfile].
  cbn [run step dev_state]. rewrite Hstate. cbn [s started t_state dstate_eqb drv_stop].
  unfold tiff_stop. rewrite Hstate. cbn [started t_state dstate_eqb fst dev_with_state tiff_with_state].
  eexists _, _. split; [reflexivity|]. split; [cbn [t_state]; discriminate|].
  rewrite Hfile. cbn [t_file started] in *.
  rewrite (fs_write_get _ _ _ _ Hget). unfold cycle_file, terminate_write.
  cbn [apply_writes fold_left fst snd]. change (start_state s) with s. reflexivity.
Qed.

(* ------------------------------------------------------------------------------------------------ *)
(* earlier configurations (valid or not) leave a stopped device of the same kind and touch no file   *)

Definition is_json (d : dev) : bool := match d with DSbs _ => true | DTiff _ => false end.

Lemma step_set d fs p :
  exists d', fst (step all_fixes (d, fs) (OSet p)) = (d', fs) /\ dev_state d' <> Running /\ is_json d' = is_json d.
Proof.
  destruct d as [t|s]; cbn [step drv_set].
  - pose proof (tiff_set_state all_fixes t p) as H. destruct (tiff_set all_fixes t p) as [t1 st].
    cbn [snd] in H. cbn [fst dev_with_state]. eexists. split; [reflexivity|]. split; [exact H | reflexivity].
  - unfold sbs_set. destruct (sbs_validate_json (p_md p)); cbn [fst dev_with_state];
      (eexists; split; [reflexivity|]; split; [discriminate | reflexivity]).
Qed.

Lemma presets pre : forall d fs, dev_state d <> Running ->
  exists d', run all_fixes (d, fs) (map OSet pre) = (d', fs) /\ dev_state d' <> Running /\ is_json d' = is_json d.
Proof.
  induction pre as [|p pre IH]; intros d fs Hd.
  - exists d. repeat split; assumption.
  - cbn [map run]. destruct (step_set d fs p) as (d1 & E & H1 & K1). rewrite E.
    destruct (IH d1 fs H1) as (d2 & E2 & H2 & K2). exists d2. repeat split; try assumption. congruence.
Qed.

(* ------------------------------------------------------------------------------------------------ *)
(* one cycle on the tiff-json device                                                                 *)

Local Transparent apply_write.
Lemma apply_write_nil_0 bs : apply_write [] 0 bs = bs.
Proof.
  unfold apply_write. destruct bs as [|b bs]; [reflexivity|].
  cbn [N.to_nat firstn length Nat.sub repeat app]. rewrite skipn_nil. now rewrite app_nil_r.
Qed.
Local Opaque apply_write.

Lemma bytes_eqb_length a : forall b, bytes_eqb a b = true -> length a = length b.
Proof. intros b H. apply bytes_eqb_eq in H. now subst. Qed.

(* the inner writer strips a file:// prefix from "<dir>/data.tif" once more (only relevant when the
   user's URI carries the prefix twice); whatever it makes of it, it is not the metadata file *)
Definition inner_path (dir : list N) : list N := strip_file_prefix (video_path dir).

Local Transparent strip_file_prefix.
Lemma paths_differ dir : bytes_eqb (inner_path dir) (metadata_path dir) = false.
Proof.
  unfold inner_path, strip_file_prefix, video_path, metadata_path.
  destruct (starts_with file_prefix (dir ++ TiffEnc.lit "/data.tif")).
  - destruct (bytes_eqb _ _) eqn:B; [|reflexivity]. apply bytes_eqb_length in B.
    rewrite skipn_length, !app_length in B.
    change (length (TiffEnc.lit "/data.tif")) with 9%nat in B.
    change (length (TiffEnc.lit "/metadata.json")) with 14%nat in B. lia.
  - rewrite bytes_eqb_app_l. reflexivity.
Qed.
Local Opaque strip_file_prefix.

Lemma copy_md_eff p : copy_md (p_md p) = Some (md_eff p).
Proof. unfold copy_md, md_eff. destruct (p_md p); reflexivity. Qed.

Theorem sbs_cycle s fs p packets :
  s_state s <> Running -> valid_sbs p ->
  let dir := strip_file_prefix (p_uri p) in
  let t0 := started (inner_path dir) (md_eff p) (p_sx p) (p_sy p) (t_last_next (s_tiff s)) in
  exists s' fs',
    run all_fixes (DSbs s, fs) ([OSet p; OStart] ++ cycle_tail packets) = (DSbs s', fs') /\
    s_state s' <> Running /\
    fs_get fs' (inner_path dir) = Some (cycle_file [] t0 (concat packets)) /\
    fs_get fs' (metadata_path dir) = Some (md_eff p).
Proof.
  intros Hst Hv dir t0. unfold cycle_tail.
  assert (Hval : sbs_validate_json (p_md p) = true).
  { unfold valid_sbs in Hv. unfold sbs_validate_json. destruct (p_md p); [exact Hv | reflexivity]. }
  set (p' := mkProps (video_path dir) (Some (md_eff p)) (p_sx p) (p_sy p)).
  assert (Hv' : valid_tiff p').
  { unfold valid_tiff, p'. cbn [p_md]. unfold valid_sbs, md_eff in *. destruct (p_md p); [right; exact Hv | left; reflexivity]. }
  (* storage_set *)
  cbn [app run]. cbn [step drv_set]. unfold sbs_set. rewrite Hval. rewrite copy_md_eff. fold dir.
  cbn [fst dev_with_state s_props s_tiff s_state].
  (* storage_start *)
  cbn [step dev_state s_state dstate_eqb drv_start]. unfold sbs_start.
  cbn [s_props s_tiff s_state p_uri p_md p_sx p_sy]. fold p'.
  rewrite (tiff_set_valid (s_tiff s) p' Hv').
  cbn [fix_d6 all_fixes dstate_eqb]. unfold tiff_start, tiff_with_state.
  cbn [t_state t_filename t_md t_sx t_sy t_file t_last_offset t_last_next t_frame_count fst snd
       dev_with_state s_props s_tiff s_state p' p_uri p_md p_sx p_sy dstate_eqb].
  change (md_eff p') with (md_eff p).
  fold (inner_path dir). fold (started (inner_path dir) (md_eff p) (p_sx p) (p_sy p) (t_last_next (s_tiff s))). fold t0.
  set (pr := mkProps dir (Some (md_eff p)) (p_sx p) (p_sy p)).
  set (fs1 := fs_write (file_create all_fixes fs (metadata_path dir)) (metadata_path dir) [(0, md_eff p)]).
  set (fs2 := fs_write (file_create all_fixes fs1 (inner_path dir)) (inner_path dir) [(0, header_bytes)]).
  assert (Hm1 : fs_get fs1 (metadata_path dir) = Some (md_eff p)).
  { unfold fs1. rewrite (fs_write_get _ _ [] _ (file_create_get fs _)).
    cbn [apply_writes fold_left fst snd]. now rewrite apply_write_nil_0. }
  assert (Hm2 : fs_get fs2 (metadata_path dir) = Some (md_eff p)).
  { unfold fs2. rewrite fs_write_other, file_create_other by apply paths_differ. exact Hm1. }
  assert (H1 : fs_get fs2 (t_file t0) = Some (apply_write [] 0 header_bytes)).
  { unfold fs2. cbn [t0 started t_file]. rewrite (fs_write_get _ _ [] _ (file_create_get fs1 _)). reflexivity. }
  destruct (appends_run (fun t => DSbs (mkSbs Running pr t)) (fun _ _ => eq_refl)
              (fun t fs0 frs => ltac:(cbn [drv_append]; unfold sbs_append; cbn [s_tiff s_state s_props];
                                      destruct (tiff_append t fs0 frs) as [[? ?] ?]; reflexivity))
              (fun _ _ => eq_refl) packets [OStop] t0 fs2 _ eq_refl H1)
    as (fs3 & Hrun & Hget & Hoth).
  rewrite Hrun. clear Hrun.
  destruct (final_state_fields (concat packets) t0) as [Hstate Hfile].
  cbn [run step dev_state s_state dstate_eqb drv_stop]. unfold sbs_stop, tiff_stop.
  cbn [s_tiff s_state s_props]. rewrite Hstate. cbn [t0 started t_state dstate_eqb fst dev_with_state s_props s_tiff].
  eexists _, _. split; [reflexivity|]. split; [cbn [s_state]; discriminate|].
  rewrite Hfile. cbn [t_file t0 started] in *. split.
  - rewrite (fs_write_get _ _ _ _ Hget). unfold cycle_file, terminate_write.
    cbn [apply_writes fold_left fst snd]. change (start_state t0) with t0. reflexivity.
  - rewrite fs_write_other by apply paths_differ. rewrite Hoth by apply paths_differ. exact Hm2.
Qed.

(* ------------------------------------------------------------------------------------------------ *)
(* a cycle: any earlier configurations, the effective one, start, the packets, stop                  *)

Record cycle := mkCycle { c_pre : list props; c_props : props; c_packets : list (list frame) }.

Definition cycle_ops (c : cycle) : list op :=
  map OSet (c_pre c) ++ [OSet (c_props c); OStart] ++ cycle_tail (c_packets c).

Definition c_frames (c : cycle) : list frame := concat (c_packets c).
Definition c_md (c : cycle) : list N := md_eff (c_props c).
Definition c_path (c : cycle) : list N := strip_file_prefix (p_uri (c_props c)).

(* where the frames go / where the metadata goes (tiff-json only) *)
Definition tif_path (json : bool) (c : cycle) : list N := if json then inner_path (c_path c) else c_path c.
Definition json_path (c : cycle) : list N := metadata_path (c_path c).

Definition valid_cycle (json : bool) (c : cycle) : Prop :=
  (if json then valid_sbs (c_props c) else valid_tiff (c_props c)) /\
  c_frames c <> [] /\
  total_size (c_md c) (c_frames c) < two64.

(* what holds of the files after the cycle *)
Definition cycle_ok (json : bool) (c : cycle) (fs : fsys) : Prop :=
  (exists F, fs_get fs (tif_path json c) = Some F /\
             decode F = Some (expected (c_md c) (c_frames c)) /\
             Forall (in_bounds F) (regions (expected (c_md c) (c_frames c)))) /\
  (json = true -> fs_get fs (json_path c) = Some (c_md c)).

Lemma cycle_file_ok F0 name md sx sy ln frs :
  frs <> [] -> total_size md frs < two64 ->
  let F := cycle_file F0 (started name md sx sy ln) frs in
  decode F = Some (expected md frs) /\ Forall (in_bounds F) (regions (expected md frs)).
Proof.
  intros Hne Hsz F. set (s := started name md sx sy ln) in *.
  destruct (same_layout_dirs frs (start_state s) (canon md) (start_state_canon s)) as [ED EE].
  assert (Hend : end_of (start_state s) frs < two64) by (rewrite EE; exact Hsz).
  destruct (cycle_file_facts F0 s frs Hne Hend) as [Hh Hc]. fold F in Hh, Hc |- *.
  unfold expected. rewrite <- ED. split.
  - apply cycle_file_decodes; assumption.
  - unfold regions. constructor.
    + apply holds_length in Hh. unfold in_bounds, len. cbn [fst snd].
      change (length header_bytes) with 16%nat in Hh. lia.
    + now apply chain_in_bounds.
Qed.

Theorem one_cycle d fs c :
  dev_state d <> Running -> valid_cycle (is_json d) c ->
  exists d' fs',
    run all_fixes (d, fs) (cycle_ops c) = (d', fs') /\
    dev_state d' <> Running /\ is_json d' = is_json d /\
    cycle_ok (is_json d) c fs'.
Proof.
  intros Hd (Hv & Hne & Hsz). unfold cycle_ops. rewrite run_app.
  destruct (presets (c_pre c) d fs Hd) as (d1 & E1 & H1 & K1). rewrite E1. rewrite <- K1 in *. clear E1 K1 Hd d.
  destruct d1 as [t|s]; cbn [is_json dev_state] in *.
  - destruct (tiff_cycle t fs (c_props c) (c_packets c) H1 Hv) as (t' & fs' & Hrun & Hst & Hget).
    exists (DTiff t'), fs'. repeat split; try assumption; [|discriminate].
    eexists. split; [exact Hget|]. apply cycle_file_ok; assumption.
  - destruct (sbs_cycle s fs (c_props c) (c_packets c) H1 Hv) as (s' & fs' & Hrun & Hst & Hget & Hmd).
    exists (DSbs s'), fs'. repeat split; try assumption.
    + eexists. split; [exact Hget|]. apply cycle_file_ok; assumption.
    + intros _. exact Hmd.
Qed.

(* the file systems after each of a sequence of cycles on one device *)
Fixpoint run_cycles (w : world) (cs : list cycle) : list fsys :=
  match cs with
  | [] => []
  | c :: r => let w' := run all_fixes w (cycle_ops c) in snd w' :: run_cycles w' r
  end.

Theorem cycles_ok cs : forall d fs,
  dev_state d <> Running -> Forall (valid_cycle (is_json d)) cs ->
  Forall2 (cycle_ok (is_json d)) cs (run_cycles (d, fs) cs).
Proof.
  induction cs as [|c r IH]; intros d fs Hd Hv; [constructor|].
  inversion Hv; subst.
  destruct (one_cycle d fs c Hd H1) as (d' & fs' & Hrun & Hd' & K & Hok).
  cbn [run_cycles]. rewrite Hrun. cbn [snd]. constructor; [exact Hok|].
  rewrite <- K. apply IH; [exact Hd' | now rewrite K].
Qed.

(* a freshly made device is stopped *)
Lemma dev_init_stopped json : dev_state (dev_init json) <> Running /\ is_json (dev_init json) = json.
Proof. destruct json; split; (discriminate || reflexivity). Qed.

(* the grouping of the frames into packets does not matter *)
Lemma grouping_irrelevant json c packets' :
  concat packets' = c_frames c ->
  forall fs, cycle_ok json c fs <-> cycle_ok json (mkCycle (c_pre c) (c_props c) packets') fs.
Proof.
  intros E fs. unfold cycle_ok, tif_path, json_path, c_path, c_md, c_frames in *. cbn [c_props c_packets]. rewrite E. tauto.
Qed.
