From Coq Require Import String Ascii NArith List Bool.
From Coq Require Import ExtrOcamlBasic ExtrOcamlString.
From Tiff Require Import TiffEnc SideBySide TiffDec.
Extraction Language OCaml.
Extraction "tiffmodel.ml" mkFixes all_fixes dev_init step run destroy decode regions fs_get fs_put
  N.of_nat N.to_nat N.div_eucl N.add N.mul N.eqb.
