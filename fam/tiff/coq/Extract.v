From Coq Require Import String Ascii NArith List Bool.
From Coq Require Import ExtrOcamlBasic ExtrOcamlString.
From Tiff Require Import TiffEnc SideBySide TiffDec TiffSw.
Extraction Language OCaml.
Extraction "tiffmodel.ml" mkFixes all_fixes dev_init step run destroy decode regions fs_get fs_put
  os_init step_sw run_sw destroy_sw budget_ok all_positive
  N.of_nat N.to_nat N.div_eucl N.add N.mul N.eqb.
