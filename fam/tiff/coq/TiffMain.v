(* TiffMain.v -- the statements of C15 assembled from TiffCycles (device level) and TiffProps (what the
   decoded directories say). *)
From Coq Require Import String Ascii Arith NArith List Bool Lia.
From Tiff Require Import TiffEnc TiffDec SideBySide TiffBytes TiffFile TiffDesc TiffRound TiffChain TiffProps TiffCycles.
Import ListNotations.
Local Open Scope N_scope.

Definition frames_ok (c : cycle) : Prop := Forall wf_frame (c_frames c).

(* the .tif file of cycle c in file system fs *)
Definition tif_of (json : bool) (c : cycle) (fs : fsys) : option (list N) := fs_get fs (tif_path json c).

Lemma expected_nonempty md frs : frs <> [] -> expected md frs <> [].
Proof. destruct frs; [congruence|]. discriminate. Qed.

Lemma roundtrip d fs c :
  dev_state d <> Running -> valid_cycle (is_json d) c -> frames_ok c ->
  exists F ds,
    tif_of (is_json d) c (snd (run all_fixes (d, fs) (cycle_ops c))) = Some F /\
    decode F = Some ds /\
    map dir_info ds = infos (c_md c) (c_frames c) /\
    map pixels_of_info (map dir_info ds) = map pixels_of_frame (c_frames c).
Proof.
  intros Hd Hv Hwf. destruct (one_cycle d fs c Hd Hv) as (d' & fs' & Hrun & _ & _ & (F & Hget & Hdec & _) & _).
  rewrite Hrun. exists F, (expected (c_md c) (c_frames c)). cbn [snd]. unfold tif_of.
  pose proof (infos_ok (c_md c) (c_frames c) Hwf) as Hi.
  repeat split; try assumption.
  rewrite Hi. unfold infos. destruct (c_frames c) as [|fr rest]; [reflexivity|].
  cbn [map]. rewrite pixels_ok, map_map. f_equal. apply map_ext. intros. apply pixels_ok.
Qed.

Lemma chain d fs c :
  dev_state d <> Running -> valid_cycle (is_json d) c ->
  exists F ds,
    tif_of (is_json d) c (snd (run all_fixes (d, fs) (cycle_ops c))) = Some F /\
    decode F = Some ds /\
    length ds = length (c_frames c) /\
    map d_next ds = tl (map d_off ds) ++ [0].
Proof.
  intros Hd Hv. destruct (one_cycle d fs c Hd Hv) as (d' & fs' & Hrun & _ & _ & (F & Hget & Hdec & _) & _).
  destruct Hv as (_ & Hne & _).
  rewrite Hrun. exists F, (expected (c_md c) (c_frames c)). cbn [snd]. unfold tif_of, expected.
  repeat split; try assumption; [apply dirs_length | now apply dirs_links].
Qed.

Lemma bounds d fs c :
  dev_state d <> Running -> valid_cycle (is_json d) c ->
  exists F ds,
    tif_of (is_json d) c (snd (run all_fixes (d, fs) (cycle_ops c))) = Some F /\
    decode F = Some ds /\
    Forall (in_bounds F) (regions ds).
Proof.
  intros Hd Hv. destruct (one_cycle d fs c Hd Hv) as (d' & fs' & Hrun & _ & _ & (F & Hget & Hdec & Hb) & _).
  rewrite Hrun. exists F, (expected (c_md c) (c_frames c)). cbn [snd]. unfold tif_of. repeat split; assumption.
Qed.

Lemma disjointness d fs c :
  dev_state d <> Running -> valid_cycle (is_json d) c ->
  exists F ds,
    tif_of (is_json d) c (snd (run all_fixes (d, fs) (cycle_ops c))) = Some F /\
    decode F = Some ds /\
    ForallOrdPairs disjoint (regions ds).
Proof.
  intros Hd Hv. destruct (one_cycle d fs c Hd Hv) as (d' & fs' & Hrun & _ & _ & (F & Hget & Hdec & _) & _).
  rewrite Hrun. exists F, (expected (c_md c) (c_frames c)). cbn [snd]. unfold tif_of.
  repeat split; try assumption. apply expected_disjoint.
Qed.

(* everything at once, for one file *)
Definition file_good (md : list N) (frs : list frame) (F : list N) : Prop :=
  exists ds,
    decode F = Some ds /\
    map dir_info ds = infos md frs /\
    length ds = length frs /\
    map d_next ds = tl (map d_off ds) ++ [0] /\
    Forall (in_bounds F) (regions ds) /\
    ForallOrdPairs disjoint (regions ds).

Definition cycle_good (json : bool) (c : cycle) (fs : fsys) : Prop :=
  (exists F, tif_of json c fs = Some F /\ file_good (c_md c) (c_frames c) F) /\
  (json = true -> fs_get fs (json_path c) = Some (c_md c)).

Lemma cycle_ok_good json c fs :
  c_frames c <> [] -> frames_ok c -> cycle_ok json c fs -> cycle_good json c fs.
Proof.
  intros Hne Hwf ((F & Hget & Hdec & Hb) & Hm). split; [|exact Hm].
  exists F. split; [exact Hget|]. exists (expected (c_md c) (c_frames c)).
  repeat split; try assumption.
  - now apply infos_ok.
  - apply dirs_length.
  - now apply dirs_links.
  - apply expected_disjoint.
Qed.

Lemma cycles cs d fs :
  dev_state d <> Running ->
  Forall (fun c => valid_cycle (is_json d) c /\ frames_ok c) cs ->
  Forall2 (cycle_good (is_json d)) cs (run_cycles (d, fs) cs).
Proof.
  intros Hd Hv.
  assert (Hv1 : Forall (valid_cycle (is_json d)) cs) by (eapply Forall_impl; [|exact Hv]; cbn; tauto).
  pose proof (cycles_ok cs d fs Hd Hv1) as H.
  revert Hv. clear Hv1. induction H; intros Hv; constructor.
  - inversion Hv; subst. destruct H3 as [(_ & Hne & _) Hwf]. now apply cycle_ok_good.
  - inversion Hv; subst. now apply IHForall2.
Qed.

Lemma side_by_side s fs c :
  s_state s <> Running -> valid_cycle true c -> frames_ok c ->
  let fs' := snd (run all_fixes (DSbs s, fs) (cycle_ops c)) in
  (exists F, fs_get fs' (inner_path (c_path c)) = Some F /\ file_good (c_md c) (c_frames c) F) /\
  fs_get fs' (metadata_path (c_path c)) = Some (c_md c).
Proof.
  intros Hs Hv Hwf fs'.
  destruct (one_cycle (DSbs s) fs c Hs Hv) as (d' & fs1 & Hrun & _ & _ & Hok).
  unfold fs'. rewrite Hrun. cbn [snd].
  destruct Hv as (_ & Hne & _).
  destruct (cycle_ok_good true c fs1 Hne Hwf Hok) as [H1 H2]. split; [exact H1 | now apply H2].
Qed.
