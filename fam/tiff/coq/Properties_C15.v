From Tiff Require Import TiffEnc TiffDec SideBySide.
