(* Properties_C15.v -- C15 "TIFF writers produce valid BigTIFF files that round-trip every frame".
   Only statements (closed by [exact]), Print Assumptions, and non-vacuity Examples.

   Vocabulary (all executable definitions, see the model files):
     run all_fixes (d, fs) ops     the device d (tiff: DTiff, tiff-json: DSbs) and the file system fs after the HAL
                                   calls ops (TiffEnc.v, SideBySide.v; the model of the REPAIRED code, fixes/01..03)
     cycle_ops c                   any earlier storage_set calls (valid or not), the effective storage_set, storage_start,
                                   one storage_append per packet (empty packets allowed), storage_stop
     valid_cycle json c            the effective settings are accepted by the device kind, the cycle appends N >= 1
                                   frames, and the resulting file is smaller than 2^64 bytes
     frames_ok c                   the frame header fields are in the ranges of their C types
     tif_of json c fs              the contents of the .tif file of c (tiff: the URI without file://; tiff-json:
                                   <dir>/data.tif)
     decode                        TiffDec.decode, the independent BigTIFF reader
     infos md frs                  per frame: width, height, bits per sample, sample format, payload, frame id,
                                   hardware frame id, timestamps; the user's metadata md on the first frame iff md is
                                   not empty, none on the others
     regions ds                    header, and per directory: the IFD, the strip, the out-of-line description
   The quantification over d covers every state a stopped device can be in (any stale filename_, metadata,
   offsets, frame counter, inner writer state), and fs is any file system (the target may exist with any contents):
   this is what makes the statements hold for every start/stop cycle of a device's life. *)
From Coq Require Import String Ascii Arith NArith List Bool.
From Tiff Require Import TiffEnc TiffDec SideBySide TiffProps TiffCycles TiffMain TiffSw TiffSwProofs TiffSwMain.
Import ListNotations.
Local Open Scope N_scope.

(* The file decodes to exactly the appended frames, in order: geometry, sample type, payload bytes (hence the
   pixel bytes, its first width*height*bytes_of_type bytes; the strip may carry the frame's <= 7 padding bytes
   after them), ids, timestamps, and the metadata on frame 0 iff present. *)
Theorem C15_roundtrip : forall d fs c,
  dev_state d <> Running -> valid_cycle (is_json d) c -> frames_ok c ->
  exists F ds,
    tif_of (is_json d) c (snd (run all_fixes (d, fs) (cycle_ops c))) = Some F /\
    decode F = Some ds /\
    map dir_info ds = infos (c_md c) (c_frames c) /\
    map pixels_of_info (map dir_info ds) = map pixels_of_frame (c_frames c).
Proof. exact roundtrip. Qed.
Print Assumptions C15_roundtrip.

(* Exactly N directories; every link is the offset of the next directory; the last link is 0. *)
Theorem C15_chain : forall d fs c,
  dev_state d <> Running -> valid_cycle (is_json d) c ->
  exists F ds,
    tif_of (is_json d) c (snd (run all_fixes (d, fs) (cycle_ops c))) = Some F /\
    decode F = Some ds /\
    length ds = length (c_frames c) /\
    map d_next ds = tl (map d_off ds) ++ [0].
Proof. exact chain. Qed.
Print Assumptions C15_chain.

(* Every structure (offset + length) lies inside the file. *)
Theorem C15_in_bounds : forall d fs c,
  dev_state d <> Running -> valid_cycle (is_json d) c ->
  exists F ds,
    tif_of (is_json d) c (snd (run all_fixes (d, fs) (cycle_ops c))) = Some F /\
    decode F = Some ds /\
    Forall (in_bounds F) (regions ds).
Proof. exact bounds. Qed.
Print Assumptions C15_in_bounds.

(* Header, directories, strips and descriptions are pairwise disjoint. *)
Theorem C15_disjoint : forall d fs c,
  dev_state d <> Running -> valid_cycle (is_json d) c ->
  exists F ds,
    tif_of (is_json d) c (snd (run all_fixes (d, fs) (cycle_ops c))) = Some F /\
    decode F = Some ds /\
    ForallOrdPairs disjoint (regions ds).
Proof. exact disjointness. Qed.
Print Assumptions C15_disjoint.

(* Any number of start/stop cycles on one device, each with its own settings (same or different paths):
   after cycle k the files of cycle k satisfy all of the above (cycle_good = decodes to the frames of cycle k
   with the metadata of cycle k, chain, bounds, disjointness; and metadata.json for tiff-json). *)
Theorem C15_cycles : forall cs d fs,
  dev_state d <> Running ->
  Forall (fun c => valid_cycle (is_json d) c /\ frames_ok c) cs ->
  Forall2 (cycle_good (is_json d)) cs (run_cycles (d, fs) cs).
Proof. exact cycles. Qed.
Print Assumptions C15_cycles.

(* tiff-json: data.tif satisfies all of the above and metadata.json holds exactly the metadata string. *)
Theorem C15_side_by_side : forall s fs c,
  s_state s <> Running -> valid_cycle true c -> frames_ok c ->
  let fs' := snd (run all_fixes (DSbs s, fs) (cycle_ops c)) in
  (exists F, fs_get fs' (inner_path (c_path c)) = Some F /\ file_good (c_md c) (c_frames c) F) /\
  fs_get fs' (metadata_path (c_path c)) = Some (c_md c).
Proof. exact side_by_side. Qed.
Print Assumptions C15_side_by_side.

(* The grouping of the frames into packets is irrelevant (every statement above mentions only their concatenation). *)
Theorem C15_grouping : forall json c packets',
  concat packets' = c_frames c ->
  forall fs, cycle_ok json c fs <-> cycle_ok json (mkCycle (c_pre c) (c_props c) packets') fs.
Proof. exact grouping_irrelevant. Qed.
Print Assumptions C15_grouping.

(* ------------------------------------------------------------------------------------------------ *)
(* Short writes.  Everything above is about [run], in which a file_write puts all its bytes at the offset
   ([apply_write]).  The code reaches that through pwrite, which may transfer fewer bytes than asked, and
   the write-all loop of linux/platform.c:file_write.  TiffSw.v models pwrite as an oracle -- a script
   with one answer per pwrite call (everything / at most c bytes / all but c / half / a fraction; c = 0 is
   the zero-length result) -- and file_write as the loop the code contains; [run_sw] and [run_cycles_sw]
   are [run] and [run_cycles] with every write going through it.  The boolean they return is "no
   file_write gave up" (a file_write gives up at its third zero-length result; what the writers do then is
   C16's).  [budget_ok 0 script]: never more than two zero answers between two "everything" answers --
   a condition on the script alone that no grouping of the calls into file_write calls can violate;
   [all_positive script]: no zero answer at all. *)

(* One file_write, ANY oracle state: if it returns 1, the file is what one complete pwrite leaves. *)
Theorem C15_file_write_all : forall o F off bs F' o',
  file_write o F off bs = (F', true, o') -> F' = apply_write F off bs.
Proof. exact file_write_all. Qed.
Print Assumptions C15_file_write_all.

(* ... and it does return 1, with the budget still intact for the next call, within the zero-count budget. *)
Theorem C15_file_write_budget : forall o F off bs,
  budget_ok 0 (os_script o) = true ->
  exists o', file_write o F off bs = (apply_write F off bs, true, o') /\ budget_ok 0 (os_script o') = true.
Proof. exact file_write_budget. Qed.
Print Assumptions C15_file_write_budget.

(* A whole history of HAL calls from any state, ANY script: if no file_write gave up, the device and every
   byte of every file are those of [run] -- they do not depend on the script. *)
Theorem C15_short_writes_any_oracle : forall fx w script ops,
  let '(w', ok, _) := run_sw fx w (os_init script) ops in
  ok = true -> w' = run fx w ops.
Proof. exact run_sw_refines. Qed.
Print Assumptions C15_short_writes_any_oracle.

(* Within the zero-count budget no file_write gives up ... *)
Theorem C15_short_writes : forall fx w script ops,
  budget_ok 0 script = true ->
  exists o', run_sw fx w (os_init script) ops = (run fx w ops, true, o').
Proof. exact run_sw_budget. Qed.
Print Assumptions C15_short_writes.

(* ... in particular when every count is positive. *)
Theorem C15_short_writes_positive : forall fx w script ops,
  all_positive script = true ->
  exists o', run_sw fx w (os_init script) ops = (run fx w ops, true, o').
Proof. exact run_sw_positive. Qed.
Print Assumptions C15_short_writes_positive.

(* Hence C15_cycles (which contains round trip, chain, bounds, disjointness, metadata.json) for the files
   written through the loop, for every script within the budget, the script running on across the cycles. *)
Theorem C15_cycles_short_writes : forall script cs d fs,
  budget_ok 0 script = true ->
  dev_state d <> Running ->
  Forall (fun c => valid_cycle (is_json d) c /\ frames_ok c) cs ->
  snd (run_cycles_sw (d, fs) (os_init script) cs) = true /\
  Forall2 (cycle_good (is_json d)) cs (fst (run_cycles_sw (d, fs) (os_init script) cs)).
Proof. exact cycles_short_writes. Qed.
Print Assumptions C15_cycles_short_writes.

(* The same for ANY script, as long as no file_write gave up. *)
Theorem C15_cycles_any_oracle : forall script cs d fs,
  dev_state d <> Running ->
  Forall (fun c => valid_cycle (is_json d) c /\ frames_ok c) cs ->
  snd (run_cycles_sw (d, fs) (os_init script) cs) = true ->
  Forall2 (cycle_good (is_json d)) cs (fst (run_cycles_sw (d, fs) (os_init script) cs)).
Proof. exact cycles_any_oracle. Qed.
Print Assumptions C15_cycles_any_oracle.

(* C15_roundtrip through the loop. *)
Theorem C15_roundtrip_short_writes : forall script d fs c,
  budget_ok 0 script = true ->
  dev_state d <> Running -> valid_cycle (is_json d) c -> frames_ok c ->
  exists w' o' F ds,
    run_sw all_fixes (d, fs) (os_init script) (cycle_ops c) = (w', true, o') /\
    tif_of (is_json d) c (snd w') = Some F /\
    decode F = Some ds /\
    map dir_info ds = infos (c_md c) (c_frames c) /\
    map pixels_of_info (map dir_info ds) = map pixels_of_frame (c_frames c).
Proof. exact roundtrip_short_writes. Qed.
Print Assumptions C15_roundtrip_short_writes.

(* ------------------------------------------------------------------------------------------------ *)
(* Non-vacuity: the hypotheses are met by reachable, non-trivial states.                             *)

Definition ex_frame (id : N) : frame :=
  mkFrame 3 2 1 id (id / 2) (id / 3) (id - id / 7) [1; 2; 3; 4; 5; 6; 7; 8; 9; 10; 11; 12; 0; 0; 0; 0].

(* an invalid earlier configuration, then a valid one with a file:// URI, metadata and a fractional scale;
   three frames in packets of 2, 0 and 1 *)
Definition ex_cycle1 : cycle :=
  mkCycle [mkProps (TiffEnc.lit "/data/b.tif") (Some (TiffEnc.lit "x")) (1, 1) (1, 1)]
          (mkProps (TiffEnc.lit "file:///data/a.tif") (Some (TiffEnc.lit "{""a"":1}")) (3, 2) (0, 1))
          [[ex_frame 0; ex_frame 1]; []; [ex_frame 2]].

(* a second cycle on the same path with no metadata *)
Definition ex_cycle2 : cycle :=
  mkCycle [] (mkProps (TiffEnc.lit "/data/a.tif") None (1, 1) (1, 1)) [[ex_frame 18446744073709551615]].

Example ex_valid_tiff :
  (valid_cycle false ex_cycle1 /\ frames_ok ex_cycle1) /\ (valid_cycle false ex_cycle2 /\ frames_ok ex_cycle2).
Proof.
  repeat split; try (right; reflexivity); try discriminate; try reflexivity;
    repeat (apply Forall_cons || apply Forall_nil); repeat split; reflexivity.
Qed.

Example ex_valid_json : valid_cycle true ex_cycle1 /\ valid_cycle true ex_cycle2.
Proof. repeat split; try discriminate; reflexivity. Qed.

(* stopped devices: freshly made ones, and the (reachable) state after a complete cycle with stale leftovers *)
Example ex_stopped_fresh : dev_state (dev_init false) <> Running /\ dev_state (dev_init true) <> Running.
Proof. split; discriminate. Qed.

Example ex_stopped_after_cycle :
  dev_state (fst (run all_fixes (dev_init false, []) (cycle_ops ex_cycle1))) <> Running /\
  dev_state (fst (run all_fixes (dev_init true, []) (cycle_ops ex_cycle1))) <> Running.
Proof. split; vm_compute; discriminate. Qed.

(* a test, not a theorem: on the concrete two-cycle history the reader returns 3 directories with the metadata on
   the first one, then 1 directory without metadata although the device saw metadata before (D25 repaired) *)
Example ex_two_cycles_decode :
  map (fun fs => match fs_get fs (TiffEnc.lit "/data/a.tif") with
                 | Some F => option_map (map (fun d => (d_width d, d_height d, d_bits d, j_frame_id (d_desc d),
                                                        match j_metadata (d_desc d) with Some _ => true | None => false end)))
                                        (decode F)
                 | None => None
                 end)
      (run_cycles (dev_init false, []) [ex_cycle1; ex_cycle2]) =
  [ Some [(3, 2, 16, 0, true); (3, 2, 16, 1, false); (3, 2, 16, 2, false)];
    Some [(3, 2, 16, 18446744073709551615, false)] ].
Proof. vm_compute. reflexivity. Qed.

(* short-write scripts: one that dribbles single bytes, answers 0 twice inside one file_write, leaves one byte,
   halves, and answers 0 again after an "everything" -- within the budget; and one without zero answers *)
Definition ex_script : list sw :=
  [SwBytes 1; SwBytes 1; SwBytes 0; SwBytes 3; SwBytes 0; SwAllBut 1; SwFull; SwHalf; SwBytes 0; SwFrac 77; SwBytes 0; SwHalf; SwHalf].

Example ex_script_budget : budget_ok 0 ex_script = true /\ all_positive ex_script = false /\
                           all_positive [SwBytes 1; SwAllBut 1; SwHalf; SwFrac 3] = true.
Proof. repeat split. Qed.

(* tests, not theorems: the loop really runs (the log shows 23 pwrite calls for the 11 file_writes of the first
   cycle on a tiff device, the first header bytes going out one at a time), the flag is true and the world is
   the one of [run]; three zero answers in a row make a file_write give up (the flag the theorems hypothesise) *)
Example ex_script_runs :
  let '(w', ok, o') := run_sw all_fixes (dev_init false, []) (os_init ex_script) (cycle_ops ex_cycle1) in
  ok = true /\ w' = run all_fixes (dev_init false, []) (cycle_ops ex_cycle1) /\
  length (os_log o') = 23%nat /\
  firstn 5 (rev (os_log o')) = [(0, 16, 1); (1, 15, 1); (2, 14, 0); (2, 14, 3); (5, 11, 0)].
Proof. vm_compute. repeat split. Qed.

Example ex_gives_up :
  snd (fst (file_write (os_init [SwBytes 0; SwBytes 1; SwBytes 0; SwBytes 0]) [] 0 [1; 2; 3])) = false /\
  budget_ok 0 [SwBytes 0; SwBytes 1; SwBytes 0; SwBytes 0] = false.
Proof. vm_compute. split; reflexivity. Qed.

Example ex_cycles_short_writes_hyp :
  snd (run_cycles_sw (dev_init true, []) (os_init ex_script) [ex_cycle1; ex_cycle2]) = true.
Proof. vm_compute. reflexivity. Qed.
