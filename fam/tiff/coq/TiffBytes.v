(* TiffBytes.v -- little-endian fields, list slicing, decimal printing: decode-after-encode lemmas. *)
From Coq Require Import String Ascii Arith NArith List Bool Lia.
From Tiff Require Import TiffEnc TiffDec.
Import ListNotations.
Local Open Scope N_scope.

(* ------------------------------------------------------------------------------------------------ *)
(* list slicing                                                                                      *)

Lemma firstn_app_exact {A} (l1 l2 : list A) n : n = length l1 -> firstn n (l1 ++ l2) = l1.
Proof.
  intros ->. rewrite firstn_app, Nat.sub_diag, firstn_all. simpl. apply app_nil_r.
Qed.

Lemma skipn_app_exact {A} (l1 l2 : list A) n : n = length l1 -> skipn n (l1 ++ l2) = l2.
Proof.
  intros ->. rewrite skipn_app, Nat.sub_diag, skipn_all. reflexivity.
Qed.

Lemma sub_app_mid (a b c : list N) off n :
  off = length a -> n = length b -> sub (a ++ b ++ c) off n = b.
Proof.
  intros -> ->. unfold sub. rewrite skipn_app_exact by reflexivity. apply firstn_app_exact; reflexivity.
Qed.

(* ------------------------------------------------------------------------------------------------ *)
(* little-endian                                                                                     *)

Lemma le_length n v : length (le n v) = n.
Proof. revert v; induction n; intros; cbn [le length]; auto. Qed.

Lemma unle_le n : forall v, unle (le n v) = v mod 256 ^ N.of_nat n.
Proof.
  induction n; intros v.
  - cbn [le unle]. change (256 ^ N.of_nat 0) with 1. now rewrite N.mod_1_r.
  - cbn [le unle]. rewrite IHn, Nat2N.inj_succ, N.pow_succ_r'.
    rewrite N.mod_mul_r; [reflexivity | lia | apply N.pow_nonzero; lia].
Qed.

Lemma unle_le2 v : v < two16 -> unle (le 2 v) = v.
Proof. intros. rewrite unle_le. change (256 ^ N.of_nat 2) with two16. now apply N.mod_small. Qed.

Lemma unle_le4 v : v < two32 -> unle (le 4 v) = v.
Proof. intros. rewrite unle_le. change (256 ^ N.of_nat 4) with two32. now apply N.mod_small. Qed.

Lemma unle_le8 v : v < two64 -> unle (le 8 v) = v.
Proof. intros. rewrite unle_le. change (256 ^ N.of_nat 8) with two64. now apply N.mod_small. Qed.

Lemma le_nonnil n v : n <> O -> le n v <> [].
Proof. destruct n; [congruence | cbn [le]; discriminate]. Qed.

(* ------------------------------------------------------------------------------------------------ *)
(* align8                                                                                            *)

Lemma align8_ge v : v <= align8 v.
Proof.
  unfold align8. pose proof (N.div_mod (v + 7) 8 ltac:(lia)). pose proof (N.mod_lt (v + 7) 8 ltac:(lia)).
  set (q := (v + 7) / 8) in *. set (r := (v + 7) mod 8) in *. clearbody q r. lia.
Qed.

Lemma align8_lt v : align8 v < v + 8.
Proof.
  unfold align8. pose proof (N.div_mod (v + 7) 8 ltac:(lia)). pose proof (N.mod_lt (v + 7) 8 ltac:(lia)).
  set (q := (v + 7) / 8) in *. set (r := (v + 7) mod 8) in *. clearbody q r. lia.
Qed.

Lemma align8_idem v : align8 (align8 v) = align8 v.
Proof.
  unfold align8. set (q := (v + 7) / 8). clearbody q.
  replace ((q * 8 + 7) / 8) with q; [reflexivity|].
  apply N.div_unique with 7; lia.
Qed.

Lemma align8_mono a b : a <= b -> align8 a <= align8 b.
Proof.
  intros. unfold align8. apply N.mul_le_mono_r. apply N.div_le_mono; lia.
Qed.

(* ------------------------------------------------------------------------------------------------ *)
(* decimal printing and the reader's digit loop                                                      *)

Definition dval (ds : list N) (acc : N) : N := fold_left (fun a d => 10 * a + (d - 48)) ds acc.

Definition hd_nondigit (l : list N) : bool :=
  match l with
  | c :: _ => negb (is_digit c)
  | [] => false
  end.

Lemma digits_app ds : forall rest acc,
  Forall (fun d => is_digit d = true) ds -> hd_nondigit rest = true ->
  digits (ds ++ rest) acc = (dval ds acc, rest).
Proof.
  induction ds as [|d ds IH]; intros rest acc Hd Hr.
  - cbn [app dval fold_left]. destruct rest as [|c r]; [discriminate|].
    cbn [hd_nondigit] in Hr. cbn [digits]. destruct (is_digit c); [discriminate | reflexivity].
  - inversion Hd; subst. cbn [app digits]. rewrite H1. rewrite IH by assumption. reflexivity.
Qed.

Lemma is_digit_48 n : n < 10 -> is_digit (48 + n) = true.
Proof. intros. unfold is_digit. rewrite andb_true_iff, !N.leb_le. lia. Qed.

Lemma dec_fuel_spec k : forall n, n < 10 ^ N.of_nat (S k) ->
  Forall (fun d => is_digit d = true) (dec_fuel (S k) n) /\ dval (dec_fuel (S k) n) 0 = n /\ dec_fuel (S k) n <> [].
Proof.
  assert (Hsmall : forall n, n < 10 ->
    Forall (fun d => is_digit d = true) [48 + n] /\ dval [48 + n] 0 = n /\ [48 + n] <> []).
  { intros n H. split; [|split].
    - apply Forall_cons; [apply is_digit_48; assumption | apply Forall_nil].
    - unfold dval. cbn [fold_left]. lia.
    - discriminate. }
  induction k; intros n Hn.
  - change (10 ^ N.of_nat 1) with 10 in Hn. cbn [dec_fuel].
    destruct (N.ltb_spec n 10); [|lia]. cbv iota. now apply Hsmall.
  - remember (S k) as k1. cbn [dec_fuel]. destruct (N.ltb_spec n 10); cbv iota.
    + now apply Hsmall.
    + assert (Hq : n / 10 < 10 ^ N.of_nat k1).
      { apply N.div_lt_upper_bound; [lia|]. rewrite <- N.pow_succ_r', <- Nat2N.inj_succ. exact Hn. }
      destruct (IHk _ Hq) as (Hd & Hv & Hne). split; [|split].
      * apply Forall_app; split; [assumption|].
        apply Forall_cons; [|apply Forall_nil]. apply is_digit_48. apply N.mod_lt; lia.
      * unfold dval in *. rewrite fold_left_app, Hv. cbn [fold_left].
        pose proof (N.div_mod n 10 ltac:(lia)).
        set (q := n / 10) in *. set (r := n mod 10) in *. clearbody q r. lia.
      * intros E. apply app_eq_nil in E. destruct E; discriminate.
Qed.

Lemma two64_lt_pow : two64 < 10 ^ N.of_nat 20.
Proof. reflexivity. Qed.

Lemma number_dec64 n p more :
  hd_nondigit p = true ->
  number (dec64 n ++ p ++ more) = Some (n mod two64, p ++ more).
Proof.
  intros Hp. unfold dec64.
  assert (Hn : n mod two64 < 10 ^ N.of_nat 20).
  { eapply N.lt_trans; [apply N.mod_lt; discriminate | apply two64_lt_pow]. }
  destruct (dec_fuel_spec 19 _ Hn) as (Hd & Hv & Hne).
  assert (Hr : hd_nondigit (p ++ more) = true) by (destruct p; [discriminate | exact Hp]).
  unfold number. remember (dec_fuel 20 (n mod two64)) as ds.
  destruct ds as [|d ds]; [congruence|].
  assert (is_digit d = true) by (inversion Hd; assumption).
  change ((d :: ds) ++ p ++ more) with (d :: (ds ++ p ++ more)).
  cbv beta iota. rewrite H. change (d :: (ds ++ p ++ more)) with ((d :: ds) ++ p ++ more).
  rewrite digits_app by assumption. rewrite Hv. reflexivity.
Qed.
