(* TiffEnc.v -- executable model of acquire-driver-common/src/storage/tiff.cpp (the BigTIFF writer),
   of the part of acquire-core-platform/linux/platform.c it uses (file_create / file_write / file_close,
   at the level of file names and file contents) and of the HAL wrappers in device/hal/storage.c that
   maintain Storage::state.  One definition per C/C++ function, one `if` per `if`, same order.

   NO proofs in this file (so that it still extracts when a proof breaks).

   Number model: offsets, sizes, ids are unbounded N.  Every truncation the code performs is written
   explicitly: (uint32_t) on width/height/rows-per-strip, (uint16_t) on bits per sample, the 32-bit
   product 10000 * (uint32_t)scale, %llu printing of a 64-bit value, and the little-endian encoders
   [le n] which keep the low n bytes.  64-bit wrap-around of file offsets is not modelled (the
   theorems assume the file is smaller than 2^64 bytes).

   The model is of the FIXED code (fixes/01..03):
     D6   side_by_side_tiff_start records the inner writer's state (see SideBySide.v)
     D25  Tiff::set clears external_metadata_ when the new settings carry none
     D26  file_create truncates an existing file
   The boolean [fixes] record below switches each repair off so that the check can show, on the
   model, what the unfixed code does; every theorem is about [all_fixes]. *)
From Coq Require Import String Ascii NArith List Bool.
Import ListNotations.
Local Open Scope N_scope.

(* ------------------------------------------------------------------------------------------------ *)
(* bytes, little-endian fields, literals, decimal printing                                           *)

(* A byte is an N below 256 (see [bytes_ok] in TiffRound.v). *)

(* the low [n] bytes of v, least significant first *)
Fixpoint le (n : nat) (v : N) : list N :=
  match n with
  | O => []
  | S k => (v mod 256) :: le k (v / 256)
  end.

Definition len (l : list N) : N := N.of_nat (length l).

Definition lit (s : string) : list N := map N_of_ascii (list_ascii_of_string s).

(* decimal digits, most significant first; [fuel] bounds the number of digits *)
Fixpoint dec_fuel (fuel : nat) (n : N) : list N :=
  match fuel with
  | O => []
  | S k => if n <? 10 then [48 + n] else dec_fuel k (n / 10) ++ [48 + n mod 10]
  end.

Definition two16 : N := 65536.
Definition two32 : N := 4294967296.
Definition two64 : N := 18446744073709551616.

(* vsnprintf("%llu", x) of a 64-bit value: at most 20 digits *)
Definition dec64 (n : N) : list N := dec_fuel 20 (n mod two64).

(* ------------------------------------------------------------------------------------------------ *)
(* struct VideoFrame as the writer sees it                                                           *)

Record frame := mkFrame {
  f_width : N;        (* shape.dims.width  (uint32_t) *)
  f_height : N;       (* shape.dims.height (uint32_t) *)
  f_type : N;         (* shape.type, the enum SampleType code *)
  f_frame_id : N;
  f_hw_frame_id : N;
  f_ts_hw : N;        (* timestamps.hardware   *)
  f_ts_acq : N;       (* timestamps.acq_thread *)
  f_data : list N     (* data[0 .. bytes_of_frame - sizeof(VideoFrame)) *)
}.

(* components.c: bytes_of_type *)
Definition bytes_of_type (ty : N) : N :=
  match ty with
  | 0 => 1 | 1 => 2 | 2 => 1 | 3 => 2 | 4 => 4 | 5 => 2 | 6 => 2 | 7 => 2
  | _ => 0
  end.

(* ------------------------------------------------------------------------------------------------ *)
(* tag_t (packed, 20 bytes) and its constructors                                                     *)

Record tag := mkTag { t_tag : N; t_type : N; t_count : N; t_value : list N (* the 8-byte union *) }.

Definition enc_tag (t : tag) : list N :=
  le 2 (t_tag t) ++ le 2 (t_type t) ++ le 8 (t_count t) ++ t_value t.

Definition as_u64 (tg v : N) : tag := mkTag tg 16 1 (le 8 v).
Definition as_u32 (tg v : N) : tag := mkTag tg 4 1 (le 4 v ++ [0; 0; 0; 0]).
Definition as_u16 (tg v : N) : tag := mkTag tg 3 1 (le 2 v ++ [0; 0; 0; 0; 0; 0]).
Definition as_rational (tg num den : N) : tag := mkTag tg 5 1 (le 4 num ++ le 4 den).

(* StringSection: offset = next string offset within the file, data = bytes reserved so far
   (size = length data; capacity is an allocation detail). *)
Record strsec := mkSS { ss_offset : N; ss_data : list N }.

Definition ss_reset (off : N) : strsec := mkSS off [].

(* tag_t::as_formatted_string, [s] = the text vsnprintf produces (n = length s).
   The realloc failure branch ("memfail") is not modelled. *)
Definition as_formatted_string (ss : strsec) (tg : N) (s : list N) : tag * strsec :=
  let n := len s in
  if 7 <? n then
    (* offset = strings.offset; buf = strings.reserve(n + 1); vsnprintf(buf, n + 1, ...) *)
    (mkTag tg 2 (n + 1) (le 8 (ss_offset ss)),
     mkSS (ss_offset ss + (n + 1)) (ss_data ss ++ s ++ [0]))
  else
    (mkTag tg 2 (n + 1) (s ++ repeat 0 (8 - length s)), ss).

Definition bits_per_sample (b : N) : tag := as_u16 258 b.
Definition image_description (ss : strsec) (s : list N) : tag * strsec := as_formatted_string ss 270 s.
Definition image_width (w : N) : tag := as_u32 256 (w mod two32).
Definition image_length (h : N) : tag := as_u32 257 (h mod two32).
Definition new_subfile_type_multipage : tag := as_u32 254 2.
Definition orientation_top_left : tag := as_u16 274 1.
Definition photometric_interpretation_black_is_zero : tag := as_u16 262 1.
Definition resolution_unit_centimeter : tag := as_u16 296 3.
Definition rows_per_strip (v : N) : tag := as_u32 278 (v mod two32).

Definition sample_format_code (ty : N) : N :=
  match ty with
  | 0 | 5 | 6 | 7 | 1 => 1   (* u8 u10 u12 u14 u16: unsigned *)
  | 2 | 3 => 2               (* i8 i16: signed *)
  | 4 => 3                   (* f32: float *)
  | _ => 4                   (* unknown *)
  end.
Definition sample_format (ty : N) : tag := as_u16 339 (sample_format_code ty).
Definition samples_per_pixel_grayscale : tag := as_u16 277 1.
Definition strip_byte_counts (v : N) : tag := as_u64 279 v.
Definition strip_offsets (v : N) : tag := as_u64 273 v.
Definition uncompressed : tag := as_u16 259 1.

Definition x_resolution (num den : N) : tag :=
  if den =? 0 then as_rational 282 0 1 else as_rational 282 num den.
(* sic: the zero-denominator branch re-uses tag 282 *)
Definition y_resolution (num den : N) : tag :=
  if den =? 0 then as_rational 282 0 1 else as_rational 283 num den.

(* header(): II, 43, offset size 8, 0, first_ifd = sizeof(header_t) = 16 *)
Definition header_bytes : list N := le 2 18761 ++ le 2 43 ++ le 2 8 ++ le 2 0 ++ le 8 16.

Definition sizeof_ifd : N := 336.        (* sizeof(ifd_t<16>) = 8 + 16*20 + 8 *)
Definition offsetof_next : N := 328.     (* offsetof(ifd_t<16>, next) *)

Definition align8 (v : N) : N := (v + 7) / 8 * 8.

(* ------------------------------------------------------------------------------------------------ *)
(* the device object                                                                                 *)

Inductive dstate := Closed | AwaitingConfiguration | Armed | Running.

Definition dstate_eqb (a b : dstate) : bool :=
  match a, b with
  | Closed, Closed | AwaitingConfiguration, AwaitingConfiguration | Armed, Armed | Running, Running => true
  | _, _ => false
  end.

(* struct PixelScale component: the double d is given as the exact fraction p/q (q > 0) it denotes;
   (uint32_t)d truncates towards zero (defined for 0 <= d < 2^32, which the check assumes). *)
Definition scale := (N * N)%type.
Definition u32_of_scale (s : scale) : N := (fst s / snd s) mod two32.

(* struct StorageProperties as far as the TIFF devices read it.
   uri: the bytes before the terminating NUL (str is non-NULL, nbytes = length + 1).
   md:  None = { str = NULL, nbytes = 0 };  Some bs = { str = bs NUL, nbytes = length bs + 1 }. *)
Record props := mkProps { p_uri : list N; p_md : option (list N); p_sx : scale; p_sy : scale }.

Record fixes := mkFixes { fix_d6 : bool; fix_d25 : bool; fix_d26 : bool }.
Definition all_fixes : fixes := mkFixes true true true.

Record tiff := mkTiff {
  t_state : dstate;         (* Storage::state -- written by whoever owns the object (HAL or composite), and by stop() *)
  t_filename : list N;      (* filename_ *)
  t_md : list N;            (* external_metadata_ *)
  t_sx : scale; t_sy : scale;  (* pixel_scale_um_ *)
  t_file : list N;          (* the name under which file_ was opened by the last start() *)
  t_last_offset : N;        (* last_offset_ *)
  t_last_next : N;          (* last_ifd_next_offset_ *)
  t_frame_count : N         (* frame_count_ *)
}.

(* Tiff::Tiff() *)
Definition tiff_init : tiff :=
  mkTiff AwaitingConfiguration [] [] (1, 1) (1, 1) [] 0 0 0.

(* ------------------------------------------------------------------------------------------------ *)
(* files: name -> contents                                                                           *)

Definition fsys := list (list N * list N).

Fixpoint bytes_eqb (a b : list N) : bool :=
  match a, b with
  | [], [] => true
  | x :: a', y :: b' => (x =? y) && bytes_eqb a' b'
  | _, _ => false
  end.

Fixpoint fs_get (fs : fsys) (name : list N) : option (list N) :=
  match fs with
  | [] => None
  | (k, v) :: r => if bytes_eqb k name then Some v else fs_get r name
  end.

Fixpoint fs_put (fs : fsys) (name : list N) (v : list N) : fsys :=
  match fs with
  | [] => [(name, v)]
  | (k, v0) :: r => if bytes_eqb k name then (k, v) :: r else (k, v0) :: fs_put r name v
  end.

(* pwrite of a non-empty buffer at [off]: a gap beyond the end of the file reads as zeros.
   file_write does not call pwrite at all for an empty buffer. *)
Definition apply_write (F : list N) (off : N) (bs : list N) : list N :=
  match bs with
  | [] => F
  | _ :: _ =>
    let o := N.to_nat off in
    firstn o F ++ repeat 0 (o - length F) ++ bs ++ skipn (o + length bs) F
  end.

Definition write := (N * list N)%type.

Definition apply_writes (F : list N) (ws : list write) : list N :=
  fold_left (fun F w => apply_write F (fst w) (snd w)) ws F.

Definition fs_contents (fs : fsys) (name : list N) : list N :=
  match fs_get fs name with Some F => F | None => [] end.

Definition fs_write (fs : fsys) (name : list N) (ws : list write) : fsys :=
  fs_put fs name (apply_writes (fs_contents fs name) ws).

(* linux/platform.c: file_create = open(O_RDWR | O_CREAT) + flock; with fix D26 it also truncates *)
Definition file_create (fx : fixes) (fs : fsys) (name : list N) : fsys :=
  match fs_get fs name with
  | None => fs_put fs name []
  | Some _ => if fix_d26 fx then fs_put fs name [] else fs
  end.

(* ------------------------------------------------------------------------------------------------ *)
(* Tiff::set                                                                                         *)

Fixpoint starts_with (p l : list N) : bool :=
  match p with
  | [] => true
  | c :: p' => match l with d :: l' => (c =? d) && starts_with p' l' | [] => false end
  end.

Definition file_prefix : list N := lit "file://".

(* offset = strlen(uri) >= 7 && strncmp(uri, "file://", 7) == 0 ? 7 : 0 *)
Definition strip_file_prefix (uri : list N) : list N :=
  if starts_with file_prefix uri then skipn 7 uri else uri.

(* validate_json(str, nbytes) for str = bs NUL, nbytes = length bs + 1 (so str[nbytes-1] == 0 holds) *)
Definition validate_json (bs : list N) : bool :=
  (3 <=? len bs + 1) && (nth 0 bs 0 =? 123) && (last bs 0 =? 125).

(* Tiff::set; file_is_writable is assumed to succeed (the generated paths are creatable).
   Returns the object and the int the method returns. *)
Definition tiff_set_m (fx : fixes) (t : tiff) (p : props) : tiff * bool :=
  let filename := strip_file_prefix (p_uri p) in
  let t1 := mkTiff (t_state t) filename (t_md t) (t_sx t) (t_sy t) (t_file t)
                   (t_last_offset t) (t_last_next t) (t_frame_count t) in
  let with_md (md : list N) :=
      (mkTiff (t_state t) filename md (p_sx p) (p_sy p) (t_file t)
              (t_last_offset t) (t_last_next t) (t_frame_count t), true) in
  match p_md p with
  | Some bs =>
      (* str != NULL *)
      if 1 <? len bs + 1 then
        if validate_json bs then with_md bs else (t1, false)
      else if fix_d25 fx then with_md [] else with_md (t_md t)
  | None => if fix_d25 fx then with_md [] else with_md (t_md t)
  end.

(* tiff_set *)
Definition tiff_set (fx : fixes) (t : tiff) (p : props) : tiff * dstate :=
  let '(t', ok) := tiff_set_m fx t p in
  (t', if ok then Armed else AwaitingConfiguration).

(* ------------------------------------------------------------------------------------------------ *)
(* Tiff::start (file_create assumed to succeed)                                                      *)

Definition tiff_start (fx : fixes) (t : tiff) (fs : fsys) : tiff * fsys * dstate :=
  let fs1 := file_create fx fs (t_filename t) in
  let fs2 := fs_write fs1 (t_filename t) [(0, header_bytes)] in
  (mkTiff (t_state t) (t_filename t) (t_md t) (t_sx t) (t_sy t) (t_filename t)
          16 (t_last_next t) 0,
   fs2, Running).

(* ------------------------------------------------------------------------------------------------ *)
(* Tiff::append                                                                                      *)

Definition fmt_with_metadata (fr : frame) (md : list N) : list N :=
  lit "{""frame_id"":" ++ dec64 (f_frame_id fr) ++
  lit ",""hardware_frame_id"":" ++ dec64 (f_hw_frame_id fr) ++
  lit ",""timestamps"":{""runtime"":" ++ dec64 (f_ts_acq fr) ++
  lit ",""hardware"":" ++ dec64 (f_ts_hw fr) ++
  lit "},""metadata"":" ++ md ++ lit "}".

Definition fmt_without_metadata (fr : frame) : list N :=
  lit "{""frame_id"":" ++ dec64 (f_frame_id fr) ++
  lit ",""hardware_frame_id"":" ++ dec64 (f_hw_frame_id fr) ++
  lit ",""timestamps"":{""runtime"":" ++ dec64 (f_ts_acq fr) ++
  lit ",""hardware"":" ++ dec64 (f_ts_hw fr) ++
  lit "}}".

Definition description (frame_count : N) (md : list N) (fr : frame) : list N :=
  if (frame_count =? 0) && (0 <? len md) then fmt_with_metadata fr md else fmt_without_metadata fr.

(* the 16 tags in the order of the initializer list, and the string section after it *)
Definition ifd_tags (t : tiff) (fr : frame) (section_data bytes_of_image : N) (ss0 : strsec)
  : list tag * strsec :=
  let '(desc, ss1) := image_description ss0 (description (t_frame_count t) (t_md t) fr) in
  ([ image_width (f_width fr);
     image_length (f_height fr);
     bits_per_sample ((8 * bytes_of_type (f_type fr)) mod two16);
     uncompressed;
     photometric_interpretation_black_is_zero;
     strip_offsets section_data;
     rows_per_strip (f_height fr);
     strip_byte_counts bytes_of_image;
     x_resolution (10000 * 10000) ((10000 * u32_of_scale (t_sx t)) mod two32);
     y_resolution (10000 * 10000) ((10000 * u32_of_scale (t_sy t)) mod two32);
     resolution_unit_centimeter;
     orientation_top_left;
     sample_format (f_type fr);
     samples_per_pixel_grayscale;
     new_subfile_type_multipage;
     desc ], ss1).

(* one iteration of the loop in Tiff::append: the three writes and the marker update *)
Definition append_frame (t : tiff) (fr : frame) : tiff * list write :=
  let bytes_of_image := len (f_data fr) in
  let section_ifd := align8 (t_last_offset t) in
  let section_data := align8 (section_ifd + sizeof_ifd) in
  let section_strings := align8 (section_data + bytes_of_image) in
  let '(tags, ss1) := ifd_tags t fr section_data bytes_of_image (ss_reset section_strings) in
  let next := align8 (ss_offset ss1) in
  let ifd := le 8 16 ++ concat (map enc_tag tags) ++ le 8 next in
  (mkTiff (t_state t) (t_filename t) (t_md t) (t_sx t) (t_sy t) (t_file t)
          next (section_ifd + offsetof_next) (t_frame_count t + 1),
   [ (section_ifd, ifd); (section_data, f_data fr); (section_strings, ss_data ss1) ]).

(* the loop over the frames of one packet *)
Fixpoint append_frames (t : tiff) (frs : list frame) : tiff * list write :=
  match frs with
  | [] => (t, [])
  | fr :: rest =>
      let '(t1, w1) := append_frame t fr in
      let '(t2, w2) := append_frames t1 rest in
      (t2, w1 ++ w2)
  end.

(* tiff_append (writes assumed to succeed; an empty packet, nbytes = 0, returns at once) *)
Definition tiff_append (t : tiff) (fs : fsys) (frs : list frame) : tiff * fsys * dstate :=
  let '(t', ws) := append_frames t frs in
  (t', fs_write fs (t_file t) ws, Running).

(* ------------------------------------------------------------------------------------------------ *)
(* Tiff::stop / tiff_stop                                                                            *)

Definition terminate_write (t : tiff) : write := (t_last_next t, le 8 0).

Definition tiff_stop (t : tiff) (fs : fsys) : tiff * fsys * dstate :=
  if dstate_eqb (t_state t) Running then
    (mkTiff Armed (t_filename t) (t_md t) (t_sx t) (t_sy t) (t_file t)
            (t_last_offset t) (t_last_next t) 0,
     fs_write fs (t_file t) [terminate_write t], Armed)
  else (t, fs, Armed).

Definition tiff_with_state (t : tiff) (s : dstate) : tiff :=
  mkTiff s (t_filename t) (t_md t) (t_sx t) (t_sy t) (t_file t)
         (t_last_offset t) (t_last_next t) (t_frame_count t).
