(* TiffRound.v -- what the writer's loop leaves in the file is what the reader finds:
   directory entries, one directory, the chain, the whole file. *)
From Coq Require Import String Ascii Arith NArith List Bool Lia.
From Tiff Require Import TiffEnc TiffDec TiffBytes TiffFile TiffDesc.
Import ListNotations.
Local Open Scope N_scope.

(* ------------------------------------------------------------------------------------------------ *)
(* directory entries                                                                                 *)

Definition wf_tag (t : tag) : Prop :=
  t_tag t < two16 /\ t_type t < two16 /\ t_count t < two64 /\ length (t_value t) = 8%nat.

Definition entry_of (t : tag) : entry := mkEntry (t_tag t) (t_type t) (t_count t) (t_value t).

Lemma enc_tag_length t : length (t_value t) = 8%nat -> length (enc_tag t) = 20%nat.
Proof. intros H. unfold enc_tag. rewrite !app_length, !le_length, H. reflexivity. Qed.

Lemma parse_entry_enc t : wf_tag t -> parse_entry (enc_tag t) = entry_of t.
Proof.
  intros (H1 & H2 & H3 & H4). unfold parse_entry, entry_of, enc_tag.
  assert (E1 : sub (le 2 (t_tag t) ++ le 2 (t_type t) ++ le 8 (t_count t) ++ t_value t) 0 2 = le 2 (t_tag t)).
  { apply (sub_app_mid [] (le 2 (t_tag t))); [reflexivity | now rewrite le_length]. }
  assert (E2 : sub (le 2 (t_tag t) ++ le 2 (t_type t) ++ le 8 (t_count t) ++ t_value t) 2 2 = le 2 (t_type t)).
  { apply sub_app_mid; now rewrite le_length. }
  assert (E3 : sub (le 2 (t_tag t) ++ le 2 (t_type t) ++ le 8 (t_count t) ++ t_value t) 4 8 = le 8 (t_count t)).
  { rewrite app_assoc. apply sub_app_mid; [now rewrite app_length, !le_length | now rewrite le_length]. }
  assert (E4 : sub (le 2 (t_tag t) ++ le 2 (t_type t) ++ le 8 (t_count t) ++ t_value t) 12 8 = t_value t).
  { rewrite <- (app_nil_r (t_value t)) at 1. rewrite !app_assoc. rewrite <- app_assoc.
    apply sub_app_mid; [now rewrite !app_length, !le_length | now rewrite H4]. }
  rewrite E1, E2, E3, E4. rewrite !unle_le2, unle_le8 by assumption. reflexivity.
Qed.

Lemma parse_entries_enc ts : Forall wf_tag ts ->
  parse_entries (length ts) (concat (map enc_tag ts)) = map entry_of ts.
Proof.
  induction 1 as [|t ts Ht _ IH]; [reflexivity|].
  cbn [length map concat parse_entries].
  assert (L : 20%nat = length (enc_tag t)) by (symmetry; apply enc_tag_length; apply Ht).
  rewrite firstn_app_exact, skipn_app_exact by exact L.
  rewrite parse_entry_enc by assumption. now rewrite IH.
Qed.

Lemma concat_enc_length ts : Forall wf_tag ts ->
  length (concat (map enc_tag ts)) = (20 * length ts)%nat.
Proof.
  induction 1 as [|t ts Ht _ IH]; [reflexivity|].
  cbn [map concat length]. rewrite app_length, IH, enc_tag_length by apply Ht. lia.
Qed.

Lemma find_tag_hit e r k : e_tag e = k -> find_tag k (e :: r) = Some e.
Proof. intros <-. cbn [find_tag]. now rewrite N.eqb_refl. Qed.

Lemma find_tag_skip e r k : (e_tag e =? k) = false -> find_tag k (e :: r) = find_tag k r.
Proof. intros H. cbn [find_tag]. now rewrite H. Qed.

Lemma scalar_u16 tg v : scalar (entry_of (as_u16 tg v)) = Some (v mod two16).
Proof.
  change (scalar (entry_of (as_u16 tg v))) with (Some (unle (firstn 2 (le 2 v ++ [0; 0; 0; 0; 0; 0])))).
  rewrite firstn_app_exact by now rewrite le_length. now rewrite unle_le.
Qed.

Lemma scalar_u32 tg v : scalar (entry_of (as_u32 tg v)) = Some (v mod two32).
Proof.
  change (scalar (entry_of (as_u32 tg v))) with (Some (unle (firstn 4 (le 4 v ++ [0; 0; 0; 0])))).
  rewrite firstn_app_exact by now rewrite le_length. now rewrite unle_le.
Qed.

Lemma scalar_u64 tg v : scalar (entry_of (as_u64 tg v)) = Some (v mod two64).
Proof.
  change (scalar (entry_of (as_u64 tg v))) with (Some (unle (le 8 v))). now rewrite unle_le.
Qed.

(* ------------------------------------------------------------------------------------------------ *)
(* the layout of one frame, as the writer computes it from its state                                 *)

Definition lay_ifd (t : tiff) : N := align8 (t_last_offset t).
Definition lay_data (t : tiff) : N := align8 (lay_ifd t + sizeof_ifd).
Definition lay_str (t : tiff) (fr : frame) : N := align8 (lay_data t + len (f_data fr)).
Definition desc_of (t : tiff) (fr : frame) : list N := description (t_frame_count t) (t_md t) fr.
Definition lay_next (t : tiff) (fr : frame) : N := align8 (lay_str t fr + (len (desc_of t fr) + 1)).

Definition tags_of (t : tiff) (fr : frame) : list tag :=
  [ image_width (f_width fr);
    image_length (f_height fr);
    bits_per_sample ((8 * bytes_of_type (f_type fr)) mod two16);
    uncompressed;
    photometric_interpretation_black_is_zero;
    strip_offsets (lay_data t);
    rows_per_strip (f_height fr);
    strip_byte_counts (len (f_data fr));
    x_resolution (10000 * 10000) ((10000 * u32_of_scale (t_sx t)) mod two32);
    y_resolution (10000 * 10000) ((10000 * u32_of_scale (t_sy t)) mod two32);
    resolution_unit_centimeter;
    orientation_top_left;
    sample_format (f_type fr);
    samples_per_pixel_grayscale;
    new_subfile_type_multipage;
    mkTag 270 2 (len (desc_of t fr) + 1) (le 8 (lay_str t fr)) ].

Definition ifd_body (t : tiff) (fr : frame) : list N :=
  le 8 16 ++ concat (map enc_tag (tags_of t fr)).

Definition next_state (t : tiff) (fr : frame) : tiff :=
  mkTiff (t_state t) (t_filename t) (t_md t) (t_sx t) (t_sy t) (t_file t)
         (lay_next t fr) (lay_ifd t + offsetof_next) (t_frame_count t + 1).

Lemma append_frame_eq t fr :
  append_frame t fr =
  (next_state t fr,
   [ (lay_ifd t, ifd_body t fr ++ le 8 (lay_next t fr));
     (lay_data t, f_data fr);
     (lay_str t fr, desc_of t fr ++ [0]) ]).
Proof.
  unfold append_frame, ifd_tags, image_description, as_formatted_string.
  fold (lay_ifd t). fold (lay_data t). fold (lay_str t fr). fold (desc_of t fr).
  pose proof (description_long (t_frame_count t) (t_md t) fr) as HL. fold (desc_of t fr) in HL.
  destruct (N.ltb_spec 7 (len (desc_of t fr))); [|lia].
  cbn [ss_offset ss_data ss_reset app]. unfold ifd_body, next_state, lay_next, tags_of.
  rewrite <- app_assoc. reflexivity.
Qed.

(* layout inequalities *)
Lemma lay_ifd_ge t : t_last_offset t <= lay_ifd t.
Proof. apply align8_ge. Qed.
Lemma lay_data_ge t : lay_ifd t + sizeof_ifd <= lay_data t.
Proof. apply align8_ge. Qed.
Lemma lay_str_ge t fr : lay_data t + len (f_data fr) <= lay_str t fr.
Proof. apply align8_ge. Qed.
Lemma lay_next_ge t fr : lay_str t fr + (len (desc_of t fr) + 1) <= lay_next t fr.
Proof. apply align8_ge. Qed.

Lemma lay_ifd_next t fr : lay_ifd (next_state t fr) = lay_next t fr.
Proof. unfold lay_ifd, next_state. cbn [t_last_offset]. unfold lay_next. apply align8_idem. Qed.

(* ------------------------------------------------------------------------------------------------ *)
(* well-formedness of the 16 tags                                                                    *)

Lemma as_u16_wf tg v : tg < two16 -> wf_tag (as_u16 tg v).
Proof. intros. repeat split; try assumption; try reflexivity. Qed.
Lemma as_u32_wf tg v : tg < two16 -> wf_tag (as_u32 tg v).
Proof. intros. repeat split; try assumption; try reflexivity. Qed.
Lemma as_u64_wf tg v : tg < two16 -> wf_tag (as_u64 tg v).
Proof. intros. repeat split; try assumption; try reflexivity. Qed.
Lemma as_rational_wf tg n d : tg < two16 -> wf_tag (as_rational tg n d).
Proof. intros. repeat split; try assumption; try reflexivity. Qed.

Lemma tags_wf t fr : lay_next t fr < two64 -> Forall wf_tag (tags_of t fr).
Proof.
  intros Hn. pose proof (lay_next_ge t fr).
  unfold tags_of.
  repeat (apply Forall_cons; [|]); try apply Forall_nil;
    try (first [apply as_u16_wf | apply as_u32_wf | apply as_u64_wf]; reflexivity).
  - unfold x_resolution. destruct (_ =? 0); apply as_rational_wf; reflexivity.
  - unfold y_resolution. destruct (_ =? 0); apply as_rational_wf; reflexivity.
  - repeat split; try reflexivity. cbn [t_count]. lia.
Qed.

Lemma ifd_body_length t fr : lay_next t fr < two64 -> length (ifd_body t fr) = 328%nat.
Proof.
  intros H. unfold ifd_body. rewrite app_length, le_length, concat_enc_length by now apply tags_wf.
  reflexivity.
Qed.

(* ------------------------------------------------------------------------------------------------ *)
(* tag lookups in the writer's directory                                                             *)

Ltac skip_tag :=
  rewrite find_tag_skip by
    (first [ reflexivity
           | unfold x_resolution; destruct (_ =? 0); reflexivity
           | unfold y_resolution; destruct (_ =? 0); reflexivity ]).

Section Lookups.
  Variables (t : tiff) (fr : frame).
  Let es := map entry_of (tags_of t fr).

  Lemma lookup_256 : scalar_tag 256 es = Some (f_width fr mod two32).
  Proof.
    unfold scalar_tag, es, tags_of. cbn [map]. rewrite find_tag_hit by reflexivity.
    unfold image_width. rewrite scalar_u32. now rewrite N.mod_mod by discriminate.
  Qed.

  Lemma lookup_257 : scalar_tag 257 es = Some (f_height fr mod two32).
  Proof.
    unfold scalar_tag, es, tags_of. cbn [map]. do 1 skip_tag. rewrite find_tag_hit by reflexivity.
    unfold image_length. rewrite scalar_u32. now rewrite N.mod_mod by discriminate.
  Qed.

  Lemma lookup_258 : scalar_tag 258 es = Some ((8 * bytes_of_type (f_type fr)) mod two16).
  Proof.
    unfold scalar_tag, es, tags_of. cbn [map]. do 2 skip_tag. rewrite find_tag_hit by reflexivity.
    unfold bits_per_sample. rewrite scalar_u16. now rewrite N.mod_mod by discriminate.
  Qed.

  Lemma lookup_273 : scalar_tag 273 es = Some (lay_data t mod two64).
  Proof.
    unfold scalar_tag, es, tags_of. cbn [map]. do 5 skip_tag. rewrite find_tag_hit by reflexivity.
    unfold strip_offsets. now rewrite scalar_u64.
  Qed.

  Lemma lookup_279 : scalar_tag 279 es = Some (len (f_data fr) mod two64).
  Proof.
    unfold scalar_tag, es, tags_of. cbn [map]. do 7 skip_tag. rewrite find_tag_hit by reflexivity.
    unfold strip_byte_counts. now rewrite scalar_u64.
  Qed.

  Lemma sample_format_code_small ty : sample_format_code ty < two16.
  Proof.
    unfold sample_format_code.
    repeat match goal with |- context [match ?x with _ => _ end] => destruct x end; reflexivity.
  Qed.

  Lemma lookup_339 : scalar_tag 339 es = Some (sample_format_code (f_type fr)).
  Proof.
    unfold scalar_tag, es, tags_of. cbn [map]. do 12 skip_tag. rewrite find_tag_hit by reflexivity.
    unfold sample_format. rewrite scalar_u16. rewrite N.mod_small by apply sample_format_code_small. reflexivity.
  Qed.

  Lemma lookup_270 :
    find_tag 270 es = Some (entry_of (mkTag 270 2 (len (desc_of t fr) + 1) (le 8 (lay_str t fr)))).
  Proof.
    unfold es, tags_of. cbn [map]. do 15 skip_tag. now rewrite find_tag_hit by reflexivity.
  Qed.
End Lookups.

(* ------------------------------------------------------------------------------------------------ *)
(* one frame in the file                                                                             *)

Definition frame_holds (F : list N) (t : tiff) (fr : frame) (link : N) : Prop :=
  holds F (N.to_nat (lay_ifd t)) (ifd_body t fr) /\
  holds F (N.to_nat (lay_ifd t + offsetof_next)) (le 8 link) /\
  holds F (N.to_nat (lay_data t)) (f_data fr) /\
  holds F (N.to_nat (lay_str t fr)) (desc_of t fr ++ [0]).

(* what the reader is expected to find for that frame *)
Definition dir_of (t : tiff) (fr : frame) (link : N) : dir :=
  mkDir (lay_ifd t) 16 link
        (f_width fr mod two32) (f_height fr mod two32)
        ((8 * bytes_of_type (f_type fr)) mod two16) (sample_format_code (f_type fr))
        (lay_data t) (len (f_data fr)) (f_data fr)
        (lay_str t fr) (len (desc_of t fr) + 1)
        (descr_of (t_frame_count t) (t_md t) fr).

Lemma ascii_field_ok F t fr :
  lay_next t fr < two64 ->
  holds F (N.to_nat (lay_str t fr)) (desc_of t fr ++ [0]) ->
  ascii_field F (entry_of (mkTag 270 2 (len (desc_of t fr) + 1) (le 8 (lay_str t fr)))) =
  Some (lay_str t fr, desc_of t fr).
Proof.
  intros Hn Hs. pose proof (lay_next_ge t fr).
  pose proof (description_long (t_frame_count t) (t_md t) fr) as HL. fold (desc_of t fr) in HL.
  unfold ascii_field. cbn [entry_of e_type e_count e_value t_tag t_type t_count t_value].
  change (negb (2 =? 2)) with false. cbv iota.
  destruct (N.eqb_spec (len (desc_of t fr) + 1) 0); [lia|].
  destruct (N.leb_spec (len (desc_of t fr) + 1) 8); [lia|].
  rewrite unle_le8 by lia.
  rewrite (holds_read F (lay_str t fr) (len (desc_of t fr) + 1) (desc_of t fr ++ [0])); [|exact Hs|].
  - rewrite last_last, N.eqb_refl, removelast_last. reflexivity.
  - unfold len. rewrite app_length. cbn [length]. lia.
Qed.

Lemma read_dir_ok F t fr link :
  frame_holds F t fr link -> lay_next t fr < two64 -> link < two64 ->
  read_dir F (lay_ifd t) = Some (dir_of t fr link).
Proof.
  intros (Hb & Hl & Hd & Hs) Hn Hlk.
  pose proof (lay_data_ge t). pose proof (lay_str_ge t fr). pose proof (lay_next_ge t fr).
  pose proof (tags_wf t fr Hn) as Hwf.
  unfold read_dir.
  (* the count *)
  rewrite (holds_read F (lay_ifd t) 8 (le 8 16)); [| exact (holds_app_l _ _ _ _ Hb) | reflexivity].
  cbv beta iota zeta. rewrite unle_le8 by reflexivity.
  (* the entries *)
  rewrite (holds_read F (lay_ifd t + 8) (20 * 16) (concat (map enc_tag (tags_of t fr)))).
  2:{ replace (N.to_nat (lay_ifd t + 8)) with (N.to_nat (lay_ifd t) + length (le 8 16))%nat
        by (rewrite le_length; lia).
      exact (holds_app_r _ _ _ _ Hb). }
  2:{ unfold len. rewrite concat_enc_length by assumption. reflexivity. }
  (* the link *)
  replace (lay_ifd t + 8 + 20 * 16) with (lay_ifd t + offsetof_next) by (unfold offsetof_next; lia).
  rewrite (holds_read F (lay_ifd t + offsetof_next) 8 (le 8 link)); [| exact Hl | reflexivity].
  cbv beta iota zeta.
  change (N.to_nat 16) with (length (tags_of t fr)).
  rewrite parse_entries_enc by assumption.
  rewrite lookup_256, lookup_257, lookup_258, lookup_339, lookup_273, lookup_279.
  cbv beta iota zeta.
  unfold sizeof_ifd in *.
  rewrite (N.mod_small (lay_data t)) by lia.
  rewrite (N.mod_small (len (f_data fr))) by lia.
  rewrite (holds_read F (lay_data t) (len (f_data fr)) (f_data fr)); [| exact Hd | reflexivity].
  rewrite lookup_270. cbv beta iota zeta.
  rewrite ascii_field_ok by assumption.
  cbv beta iota zeta. unfold desc_of at 1. rewrite parse_description_ok.
  rewrite unle_le8 by assumption.
  reflexivity.
Qed.
