(* TiffChain.v -- the whole loop: the writes of N frames followed by the termination write leave a
   chain of N directories that TiffDec.decode walks; bounds and disjointness of the regions. *)
From Coq Require Import String Ascii Arith NArith List Bool Lia.
From Tiff Require Import TiffEnc TiffDec TiffBytes TiffFile TiffDesc TiffRound.
Import ListNotations.
Local Open Scope N_scope.

(* ------------------------------------------------------------------------------------------------ *)
(* the loop, unrolled                                                                                *)

Definition frame_writes (t : tiff) (fr : frame) : list write :=
  [ (lay_ifd t, ifd_body t fr ++ le 8 (lay_next t fr));
    (lay_data t, f_data fr);
    (lay_str t fr, desc_of t fr ++ [0]) ].

Fixpoint final_state (t : tiff) (frs : list frame) : tiff :=
  match frs with
  | [] => t
  | fr :: rest => final_state (next_state t fr) rest
  end.

Fixpoint all_writes (t : tiff) (frs : list frame) : list write :=
  match frs with
  | [] => []
  | fr :: rest => frame_writes t fr ++ all_writes (next_state t fr) rest
  end.

(* last_offset_ after the loop: the end of everything the file's structures occupy *)
Fixpoint end_of (t : tiff) (frs : list frame) : N :=
  match frs with
  | [] => t_last_offset t
  | fr :: rest => end_of (next_state t fr) rest
  end.

Lemma append_frames_eq frs : forall t, append_frames t frs = (final_state t frs, all_writes t frs).
Proof.
  induction frs as [|fr rest IH]; intros t; [reflexivity|].
  cbn [append_frames final_state all_writes]. rewrite append_frame_eq, IH. reflexivity.
Qed.

Lemma final_state_app a : forall t b, final_state t (a ++ b) = final_state (final_state t a) b.
Proof. induction a; intros; cbn [app final_state]; auto. Qed.

Lemma all_writes_app a : forall t b, all_writes t (a ++ b) = all_writes t a ++ all_writes (final_state t a) b.
Proof.
  induction a; intros; cbn [app all_writes final_state]; [reflexivity|]. now rewrite IHa, app_assoc.
Qed.

Lemma align8_after_ifd x : align8 (align8 x + sizeof_ifd) = align8 x + sizeof_ifd.
Proof.
  unfold align8, sizeof_ifd. set (q := (x + 7) / 8). clearbody q.
  replace ((q * 8 + 336 + 7) / 8) with (q + 42); [lia|].
  apply N.div_unique with 7; lia.
Qed.

Lemma lay_data_eq t : lay_data t = lay_ifd t + sizeof_ifd.
Proof. apply align8_after_ifd. Qed.

Lemma lay_next_le_end t fr rest : lay_next t fr <= end_of (next_state t fr) rest.
Proof.
  change (lay_next t fr) with (t_last_offset (next_state t fr)).
  generalize (next_state t fr). induction rest as [|f r IH]; intros s; cbn [end_of]; [lia|].
  etransitivity; [|apply IH]. cbn [next_state t_last_offset].
  pose proof (lay_ifd_ge s). pose proof (lay_data_ge s). pose proof (lay_str_ge s f). pose proof (lay_next_ge s f).
  unfold sizeof_ifd in *. lia.
Qed.

Lemma lay_chain t fr : lay_ifd t + 336 <= lay_next t fr.
Proof.
  pose proof (lay_data_ge t). pose proof (lay_str_ge t fr). pose proof (lay_next_ge t fr). unfold sizeof_ifd in *. lia.
Qed.

Lemma all_writes_ge frs : forall t,
  Forall (fun w : write => (N.to_nat (lay_ifd t) <= N.to_nat (fst w))%nat) (all_writes t frs).
Proof.
  induction frs as [|fr rest IH]; intros t; cbn [all_writes]; [constructor|].
  pose proof (lay_data_ge t). pose proof (lay_str_ge t fr). pose proof (lay_chain t fr).
  apply Forall_app; split.
  - unfold frame_writes. repeat constructor; cbn [fst]; unfold sizeof_ifd in *; lia.
  - eapply Forall_impl; [|apply IH]. cbn beta. intros w Hw. rewrite lay_ifd_next in Hw. lia.
Qed.

Lemma final_last_next_ge frs : forall t, frs <> [] -> lay_ifd t <= t_last_next (final_state t frs).
Proof.
  induction frs as [|fr rest IH]; intros t Hne; [congruence|].
  cbn [final_state]. destruct rest as [|f2 r].
  - cbn [final_state next_state t_last_next]. lia.
  - etransitivity; [|apply IH; discriminate]. rewrite lay_ifd_next. pose proof (lay_chain t fr). lia.
Qed.

(* ------------------------------------------------------------------------------------------------ *)
(* one frame after its own three writes, and under later writes                                      *)

Lemma ifd_body_nonnil t fr : ifd_body t fr ++ le 8 (lay_next t fr) <> [].
Proof. unfold ifd_body. cbn [le app]. discriminate. Qed.

Lemma frame_own F0 t fr :
  lay_next t fr < two64 ->
  frame_holds (apply_writes F0 (frame_writes t fr)) t fr (lay_next t fr).
Proof.
  intros Hn. pose proof (lay_str_ge t fr) as Hs. pose proof (lay_data_eq t) as Hd.
  pose proof (ifd_body_length t fr Hn) as HbL.
  unfold frame_writes, apply_writes. cbn [fold_left fst snd].
  set (F1 := apply_write F0 (lay_ifd t) (ifd_body t fr ++ le 8 (lay_next t fr))).
  assert (H1 : holds F1 (N.to_nat (lay_ifd t)) (ifd_body t fr ++ le 8 (lay_next t fr)))
    by (apply apply_write_same, ifd_body_nonnil).
  assert (L1 : length (ifd_body t fr ++ le 8 (lay_next t fr)) = 336%nat) by (rewrite app_length, HbL, le_length; reflexivity).
  set (F2 := apply_write F1 (lay_data t) (f_data fr)).
  assert (H1' : holds F2 (N.to_nat (lay_ifd t)) (ifd_body t fr ++ le 8 (lay_next t fr))).
  { apply apply_write_above; [exact H1|]. rewrite L1, Hd. unfold sizeof_ifd. lia. }
  assert (H2 : holds F2 (N.to_nat (lay_data t)) (f_data fr)).
  { destruct (f_data fr) as [|b bs] eqn:E.
    - apply holds_nil. apply holds_length in H1'. rewrite L1 in H1'. rewrite Hd. unfold sizeof_ifd. lia.
    - apply apply_write_same. discriminate. }
  set (F3 := apply_write F2 (lay_str t fr) (desc_of t fr ++ [0])).
  assert (H1'' : holds F3 (N.to_nat (lay_ifd t)) (ifd_body t fr ++ le 8 (lay_next t fr))).
  { apply apply_write_above; [exact H1'|]. rewrite L1. rewrite Hd in Hs. unfold sizeof_ifd in *. lia. }
  assert (H2' : holds F3 (N.to_nat (lay_data t)) (f_data fr)).
  { apply apply_write_above; [exact H2|]. unfold len in Hs. lia. }
  assert (H3 : holds F3 (N.to_nat (lay_str t fr)) (desc_of t fr ++ [0])).
  { apply apply_write_same. intros E. apply app_eq_nil in E. destruct E; discriminate. }
  repeat split; try assumption.
  - exact (holds_app_l _ _ _ _ H1'').
  - replace (N.to_nat (lay_ifd t + offsetof_next)) with (N.to_nat (lay_ifd t) + length (ifd_body t fr))%nat
      by (rewrite HbL; unfold offsetof_next; lia).
    exact (holds_app_r _ _ _ _ H1'').
Qed.

Lemma frame_holds_above F t fr link ws :
  frame_holds F t fr link -> lay_next t fr < two64 ->
  Forall (fun w : write => (N.to_nat (lay_next t fr) <= N.to_nat (fst w))%nat) ws ->
  frame_holds (apply_writes F ws) t fr link.
Proof.
  intros (Hb & Hl & Hd & Hs) Hn Hall.
  pose proof (lay_data_ge t). pose proof (lay_str_ge t fr). pose proof (lay_next_ge t fr).
  pose proof (ifd_body_length t fr Hn) as HbL. unfold frame_holds. unfold sizeof_ifd, offsetof_next, len in *.
  repeat split; (eapply apply_writes_above; [eassumption | | exact Hall]).
  - rewrite HbL. lia.
  - rewrite le_length. lia.
  - lia.
  - rewrite app_length. cbn [length]. lia.
Qed.

Lemma frame_terminated F t fr :
  lay_next t fr < two64 ->
  frame_holds F t fr (lay_next t fr) ->
  frame_holds (apply_write F (lay_ifd t + offsetof_next) (le 8 0)) t fr 0.
Proof.
  intros Hn (Hb & Hl & Hd & Hs).
  pose proof (lay_data_ge t). pose proof (lay_str_ge t fr).
  pose proof (ifd_body_length t fr Hn) as HbL. unfold frame_holds. unfold sizeof_ifd, offsetof_next, len in *.
  repeat split.
  - apply apply_write_above; [exact Hb|]. rewrite HbL. lia.
  - apply apply_write_same. apply le_nonnil. discriminate.
  - apply apply_write_below; [exact Hd|]. rewrite le_length. lia.
  - apply apply_write_below; [exact Hs|]. rewrite le_length. lia.
Qed.

(* ------------------------------------------------------------------------------------------------ *)
(* the chain                                                                                         *)

Definition link_of (t : tiff) (fr : frame) (rest : list frame) : N :=
  match rest with [] => 0 | _ :: _ => lay_next t fr end.

Fixpoint chain_holds (F : list N) (t : tiff) (frs : list frame) : Prop :=
  match frs with
  | [] => True
  | fr :: rest => frame_holds F t fr (link_of t fr rest) /\ chain_holds F (next_state t fr) rest
  end.

(* what the reader is expected to return *)
Fixpoint dirs_of (t : tiff) (frs : list frame) : list dir :=
  match frs with
  | [] => []
  | fr :: rest => dir_of t fr (link_of t fr rest) :: dirs_of (next_state t fr) rest
  end.

Lemma chain_after_writes frs : forall t F0,
  frs <> [] -> end_of t frs < two64 ->
  chain_holds (apply_write (apply_writes F0 (all_writes t frs)) (t_last_next (final_state t frs)) (le 8 0)) t frs.
Proof.
  induction frs as [|fr rest IH]; intros t F0 Hne Hend; [congruence|].
  assert (Hn : lay_next t fr < two64).
  { eapply N.le_lt_trans; [apply (lay_next_le_end t fr rest) | exact Hend]. }
  destruct rest as [|f2 r].
  - cbn [all_writes final_state chain_holds link_of next_state t_last_next]. rewrite app_nil_r.
    split; [|exact I]. apply frame_terminated; [exact Hn|]. now apply frame_own.
  - remember (f2 :: r) as rest. cbn [all_writes final_state chain_holds].
    rewrite apply_writes_app. split.
    + subst rest. cbn [link_of].
      change (apply_write ?X ?o ?z) with (apply_writes X [(o, z)]).
      rewrite <- apply_writes_app.
      apply frame_holds_above; [now apply frame_own | exact Hn |].
      apply Forall_app; split.
      * rewrite <- lay_ifd_next. apply all_writes_ge.
      * constructor; [|constructor]. cbn [fst]. rewrite <- lay_ifd_next.
        pose proof (final_last_next_ge (f2 :: r) (next_state t fr) ltac:(discriminate)). lia.
    + apply IH; [subst; discriminate | exact Hend].
Qed.

Lemma chain_len F frs : forall t,
  frs <> [] -> chain_holds F t frs -> (N.to_nat (lay_ifd t) + 336 * length frs <= length F)%nat.
Proof.
  induction frs as [|fr rest IH]; intros t Hne Hc; [congruence|].
  destruct Hc as [(Hb & Hl & _) Hc]. apply holds_length in Hl. rewrite le_length in Hl.
  unfold offsetof_next in Hl.
  destruct rest as [|f2 r].
  - cbn [length]. lia.
  - specialize (IH (next_state t fr) ltac:(discriminate) Hc). rewrite lay_ifd_next in IH.
    pose proof (lay_chain t fr). cbn [length] in *. lia.
Qed.

Lemma walk_ok F frs : forall t fuel,
  frs <> [] -> chain_holds F t frs -> end_of t frs < two64 -> (length frs <= fuel)%nat ->
  walk fuel F (lay_ifd t) = Some (dirs_of t frs).
Proof.
  induction frs as [|fr rest IH]; intros t fuel Hne Hc Hend Hfuel; [congruence|].
  assert (Hn : lay_next t fr < two64).
  { eapply N.le_lt_trans; [apply (lay_next_le_end t fr rest) | exact Hend]. }
  destruct fuel as [|fuel]; [cbn [length] in Hfuel; lia|].
  destruct Hc as [Hf Hc]. cbn [walk dirs_of].
  rewrite (read_dir_ok F t fr (link_of t fr rest) Hf Hn).
  2:{ destruct rest; cbn [link_of]; [reflexivity | exact Hn]. }
  cbn [d_next dir_of].
  destruct rest as [|f2 r].
  - cbn [link_of dirs_of]. reflexivity.
  - cbn [link_of]. pose proof (lay_chain t fr).
    destruct (N.eqb_spec (lay_next t fr) 0); [lia|].
    rewrite <- lay_ifd_next. rewrite IH; [reflexivity | discriminate | exact Hc | exact Hend |].
    cbn [length] in *. lia.
Qed.

Lemma header_checks :
  (unle (sub header_bytes 0 2) =? 18761) && (unle (sub header_bytes 2 2) =? 43) &&
  (unle (sub header_bytes 4 2) =? 8) && (unle (sub header_bytes 6 2) =? 0) = true /\
  unle (sub header_bytes 8 8) = 16.
Proof. split; reflexivity. Qed.

Lemma decode_ok F t frs :
  holds F 0 header_bytes -> t_last_offset t = 16 ->
  frs <> [] -> chain_holds F t frs -> end_of t frs < two64 ->
  decode F = Some (dirs_of t frs).
Proof.
  intros Hh H16 Hne Hc Hend. unfold decode.
  rewrite (holds_read F 0 16 header_bytes); [| exact Hh | reflexivity].
  destruct header_checks as [-> ->]. change (16 =? 0) with false. cbv iota.
  assert (E : lay_ifd t = 16) by (unfold lay_ifd; rewrite H16; reflexivity).
  rewrite <- E. apply walk_ok; try assumption.
  pose proof (chain_len F frs t Hne Hc). destruct frs; [congruence|]. cbn [length] in *. lia.
Qed.

(* ------------------------------------------------------------------------------------------------ *)
(* the file one start / appends / stop cycle produces, from ANY previous contents of the file         *)

Definition start_state (t : tiff) : tiff :=
  mkTiff (t_state t) (t_filename t) (t_md t) (t_sx t) (t_sy t) (t_filename t) 16 (t_last_next t) 0.

Definition cycle_file (F0 : list N) (t : tiff) (frs : list frame) : list N :=
  apply_write
    (apply_writes (apply_write F0 0 header_bytes) (all_writes (start_state t) frs))
    (t_last_next (final_state (start_state t) frs)) (le 8 0).

Lemma cycle_file_facts F0 t frs :
  frs <> [] -> end_of (start_state t) frs < two64 ->
  holds (cycle_file F0 t frs) 0 header_bytes /\ chain_holds (cycle_file F0 t frs) (start_state t) frs.
Proof.
  intros Hne Hend. set (s := start_state t).
  assert (E16 : lay_ifd s = 16) by reflexivity.
  split.
  - unfold cycle_file. fold s.
    change (apply_write ?X (t_last_next ?a) ?z) with (apply_writes X [(t_last_next a, z)]).
    rewrite <- apply_writes_app.
    apply (apply_writes_above _ _ _ _ 16%nat).
    + apply (apply_write_same F0 0 header_bytes). discriminate.
    + reflexivity.
    + apply Forall_app; split.
      * eapply Forall_impl; [|apply (all_writes_ge frs s)]. cbn beta. intros w Hw. rewrite E16 in Hw. exact Hw.
      * constructor; [|constructor]. cbn [fst].
        pose proof (final_last_next_ge frs s Hne). rewrite E16 in H. lia.
  - unfold cycle_file. fold s. now apply chain_after_writes.
Qed.

Theorem cycle_file_decodes F0 t frs :
  frs <> [] -> end_of (start_state t) frs < two64 ->
  decode (cycle_file F0 t frs) = Some (dirs_of (start_state t) frs).
Proof.
  intros Hne Hend. destruct (cycle_file_facts F0 t frs Hne Hend) as [Hh Hc].
  apply decode_ok; try assumption. reflexivity.
Qed.
