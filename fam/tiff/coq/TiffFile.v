(* TiffFile.v -- files as byte lists: what a region holds, and how pwrite (apply_write) preserves it. *)
From Coq Require Import String Ascii Arith NArith List Bool Lia.
From Tiff Require Import TiffEnc TiffDec TiffBytes.
Import ListNotations.
Local Open Scope nat_scope.

(* the file F contains exactly the bytes bs at offset o *)
Definition holds (F : list N) (o : nat) (bs : list N) : Prop :=
  exists pre post, F = pre ++ bs ++ post /\ length pre = o.

Lemma holds_length F o bs : holds F o bs -> o + length bs <= length F.
Proof.
  intros (pre & post & -> & <-). rewrite !app_length. lia.
Qed.

Lemma holds_nil F o : o <= length F -> holds F o [].
Proof.
  intros H. exists (firstn o F), (skipn o F). split.
  - cbn [app]. symmetry. apply firstn_skipn.
  - apply firstn_length_le; assumption.
Qed.

Lemma holds_app_l F o x y : holds F o (x ++ y) -> holds F o x.
Proof.
  intros (pre & post & -> & <-). exists pre, (y ++ post). split; [|reflexivity].
  now rewrite <- app_assoc.
Qed.

Lemma holds_app_r F o x y : holds F o (x ++ y) -> holds F (o + length x) y.
Proof.
  intros (pre & post & -> & <-). exists (pre ++ x), post. split.
  - now rewrite <- !app_assoc.
  - apply app_length.
Qed.

Lemma holds_read F (o n : N) bs :
  holds F (N.to_nat o) bs -> n = len bs -> read F o n = Some bs.
Proof.
  intros H ->. pose proof (holds_length _ _ _ H) as HL.
  destruct H as (pre & post & -> & Hp). unfold read, len.
  destruct (N.leb_spec (o + N.of_nat (length bs)) (N.of_nat (length (pre ++ bs ++ post)))); [|lia].
  f_equal. rewrite Nat2N.id. rewrite skipn_app_exact by (symmetry; assumption).
  apply firstn_app_exact; reflexivity.
Qed.

(* ---------------------------------------------------------------------------------------------- *)
(* apply_write                                                                                      *)

Lemma apply_write_same F o bs : bs <> [] -> holds (apply_write F o bs) (N.to_nat o) bs.
Proof.
  intros Hne. unfold apply_write. destruct bs as [|b bs]; [congruence|].
  set (n := N.to_nat o).
  exists (firstn n F ++ repeat 0%N (n - length F)), (skipn (n + length (b :: bs)) F). split.
  - now rewrite <- app_assoc.
  - rewrite app_length, repeat_length, firstn_length. lia.
Qed.

(* a write at or above the end of a region leaves the region alone *)
Lemma apply_write_above F o bs o' bs' :
  holds F o bs -> o + length bs <= N.to_nat o' -> holds (apply_write F o' bs') o bs.
Proof.
  intros (pre & post & -> & <-) Hle. unfold apply_write. destruct bs' as [|b' bs']; [now exists pre, post|].
  set (n := N.to_nat o') in *.
  rewrite firstn_app. rewrite (firstn_all2 pre) by lia.
  rewrite firstn_app. rewrite (firstn_all2 bs) by lia.
  eexists pre, _. split; [|reflexivity].
  rewrite <- !app_assoc. reflexivity.
Qed.

(* a write that ends at or below the start of a region (inside the file) leaves the region alone *)
Lemma apply_write_below F o bs o' bs' :
  holds F o bs -> N.to_nat o' + length bs' <= o -> holds (apply_write F o' bs') o bs.
Proof.
  intros (pre & post & -> & <-) Hle. unfold apply_write. destruct bs' as [|b' bs']; [now exists pre, post|].
  set (n := N.to_nat o') in *. set (w := b' :: bs') in *.
  rewrite (skipn_app (n + length w) pre).
  replace (n + length w - length pre) with 0 by lia. cbn [skipn].
  replace (n - length (pre ++ bs ++ post)) with 0 by (rewrite app_length; lia). cbn [repeat app].
  exists (firstn n (pre ++ bs ++ post) ++ w ++ skipn (n + length w) pre), post. split.
  - rewrite <- !app_assoc. reflexivity.
  - rewrite !app_length, firstn_length, skipn_length, !app_length. lia.
Qed.

Lemma apply_writes_app F w1 w2 : apply_writes F (w1 ++ w2) = apply_writes (apply_writes F w1) w2.
Proof. unfold apply_writes. apply fold_left_app. Qed.

Lemma apply_writes_above ws : forall F o bs hi,
  holds F o bs -> o + length bs <= hi ->
  Forall (fun w : write => hi <= N.to_nat (fst w)) ws ->
  holds (apply_writes F ws) o bs.
Proof.
  induction ws as [|w ws IH]; intros F o bs hi H Hle Hall; [exact H|].
  inversion Hall; subst. unfold apply_writes. cbn [fold_left].
  apply (IH _ _ _ hi); [|assumption|assumption].
  apply apply_write_above; [assumption | lia].
Qed.

(* ---------------------------------------------------------------------------------------------- *)
(* the name -> contents map                                                                         *)

Lemma bytes_eqb_refl a : bytes_eqb a a = true.
Proof. induction a; cbn [bytes_eqb]; [reflexivity|]. now rewrite N.eqb_refl. Qed.

Lemma bytes_eqb_eq a : forall b, bytes_eqb a b = true -> a = b.
Proof.
  induction a as [|x a IH]; intros [|y b] H; cbn [bytes_eqb] in H; try discriminate; [reflexivity|].
  apply andb_true_iff in H. destruct H as [H1 H2]. apply N.eqb_eq in H1. subst. f_equal. now apply IH.
Qed.

Lemma bytes_eqb_sym a : forall b, bytes_eqb a b = bytes_eqb b a.
Proof.
  induction a as [|x a IH]; intros [|y b]; cbn [bytes_eqb]; try reflexivity.
  now rewrite N.eqb_sym, IH.
Qed.

Lemma bytes_eqb_app_l p : forall a b, bytes_eqb (p ++ a) (p ++ b) = bytes_eqb a b.
Proof. induction p; intros; cbn [app bytes_eqb]; [reflexivity|]. now rewrite N.eqb_refl, IHp. Qed.

Lemma fs_get_put_same fs n v : fs_get (fs_put fs n v) n = Some v.
Proof.
  induction fs as [|[k v0] r IH]; cbn [fs_put fs_get].
  - now rewrite bytes_eqb_refl.
  - destruct (bytes_eqb k n) eqn:E; cbn [fs_get]; rewrite E; [reflexivity | exact IH].
Qed.

Lemma fs_get_put_other fs n v m : bytes_eqb n m = false -> fs_get (fs_put fs n v) m = fs_get fs m.
Proof.
  intros Hnm. induction fs as [|[k v0] r IH]; cbn [fs_put fs_get].
  - now rewrite Hnm.
  - destruct (bytes_eqb k n) eqn:E; cbn [fs_get].
    + apply bytes_eqb_eq in E. subst k. now rewrite Hnm.
    + destruct (bytes_eqb k m); [reflexivity | exact IH].
Qed.

Lemma fs_contents_put_same fs n v : fs_contents (fs_put fs n v) n = v.
Proof. unfold fs_contents. now rewrite fs_get_put_same. Qed.

Lemma fs_write_write fs n w1 w2 : fs_write (fs_write fs n w1) n w2 = fs_put (fs_write fs n w1) n (apply_writes (fs_contents fs n) (w1 ++ w2)).
Proof.
  unfold fs_write at 1. unfold fs_write at 2. rewrite fs_contents_put_same, apply_writes_app. reflexivity.
Qed.
