(* TiffSwMain.v -- the statements of C15 over the short-write oracle: the cycle theorems of TiffMain.v
   transported along TiffSwProofs.run_sw_refines / run_sw_budget. *)
From Coq Require Import String Ascii Arith NArith List Bool Lia.
From Tiff Require Import TiffEnc TiffDec SideBySide TiffProps TiffCycles TiffMain TiffSw TiffSwProofs.
Import ListNotations.
Local Open Scope N_scope.

(* the file systems after each of a sequence of cycles on one device, the OS state (script, log) carried
   from one cycle into the next; the boolean is "no file_write gave up" *)
Fixpoint run_cycles_sw (w : world) (o : os) (cs : list cycle) : list fsys * bool :=
  match cs with
  | [] => ([], true)
  | c :: r =>
      let '(w', ok, o') := run_sw all_fixes w o (cycle_ops c) in
      let '(l, ok') := run_cycles_sw w' o' r in
      (snd w' :: l, ok && ok')
  end.

Lemma run_cycles_sw_refines cs : forall w o,
  snd (run_cycles_sw w o cs) = true -> fst (run_cycles_sw w o cs) = run_cycles w cs.
Proof.
  induction cs as [|c r IH]; intros w o; [reflexivity|].
  cbn [run_cycles_sw run_cycles].
  pose proof (good_run all_fixes (cycle_ops c) w o) as [G1 _].
  destruct (run_sw all_fixes w o (cycle_ops c)) as [[w' ok] o']. cbn [fst snd] in *.
  pose proof (IH w' o') as H.
  destruct (run_cycles_sw w' o' r) as [l ok']. cbn [fst snd] in *.
  intros Hok. apply andb_true_iff in Hok. destruct Hok as [-> ->].
  rewrite <- (G1 eq_refl). now rewrite (H eq_refl).
Qed.

Lemma run_cycles_sw_budget cs : forall w o,
  budget_ok 0 (os_script o) = true -> run_cycles_sw w o cs = (run_cycles w cs, true).
Proof.
  induction cs as [|c r IH]; intros w o Hb; [reflexivity|].
  cbn [run_cycles_sw run_cycles].
  pose proof (good_run all_fixes (cycle_ops c) w o) as [G1 G2].
  destruct (run_sw all_fixes w o (cycle_ops c)) as [[w' ok] o']. cbn [fst snd] in *.
  destruct (G2 Hb) as [-> Hb']. rewrite (IH w' o' Hb'). now rewrite (G1 eq_refl).
Qed.

(* C15_cycles for every short-write script within the zero-count budget *)
Lemma cycles_short_writes script cs d fs :
  budget_ok 0 script = true ->
  dev_state d <> Running ->
  Forall (fun c => valid_cycle (is_json d) c /\ frames_ok c) cs ->
  snd (run_cycles_sw (d, fs) (os_init script) cs) = true /\
  Forall2 (cycle_good (is_json d)) cs (fst (run_cycles_sw (d, fs) (os_init script) cs)).
Proof.
  intros Hb Hd Hv. rewrite (run_cycles_sw_budget cs (d, fs) (os_init script) Hb). cbn [fst snd].
  split; [reflexivity | now apply cycles].
Qed.

(* ... and for ANY script, as long as no file_write gave up *)
Lemma cycles_any_oracle script cs d fs :
  dev_state d <> Running ->
  Forall (fun c => valid_cycle (is_json d) c /\ frames_ok c) cs ->
  snd (run_cycles_sw (d, fs) (os_init script) cs) = true ->
  Forall2 (cycle_good (is_json d)) cs (fst (run_cycles_sw (d, fs) (os_init script) cs)).
Proof.
  intros Hd Hv Hok. rewrite (run_cycles_sw_refines cs _ _ Hok). now apply cycles.
Qed.

(* C15_roundtrip for every short-write script within the budget *)
Lemma roundtrip_short_writes script d fs c :
  budget_ok 0 script = true ->
  dev_state d <> Running -> valid_cycle (is_json d) c -> frames_ok c ->
  exists w' o' F ds,
    run_sw all_fixes (d, fs) (os_init script) (cycle_ops c) = (w', true, o') /\
    tif_of (is_json d) c (snd w') = Some F /\
    decode F = Some ds /\
    map dir_info ds = infos (c_md c) (c_frames c) /\
    map pixels_of_info (map dir_info ds) = map pixels_of_frame (c_frames c).
Proof.
  intros Hb Hd Hv Hwf.
  destruct (run_sw_budget all_fixes (d, fs) script (cycle_ops c) Hb) as (o' & E).
  destruct (roundtrip d fs c Hd Hv Hwf) as (F & ds & H).
  exists (run all_fixes (d, fs) (cycle_ops c)), o', F, ds. split; [exact E | exact H].
Qed.
