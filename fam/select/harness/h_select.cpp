// h_select.cpp -- line-protocol driver around the REAL device manager (device.manager.cpp), loader (loader.c),
// driver_open_device (driver.c), props/device.c, linux/platform.c (lib_open_by_name, lib_load) and logger.c, all
// compiled from the repository's working tree.  The driver libraries are found by the real lib_open_by_name, i.e.
// as <directory of this executable>/lib<name>.so: the check puts a hard link of this executable into one directory
// per presence configuration.
//
// Protocol: see oracle/main.ml (same operations, same output lines), plus
//   first line   INIT ok|err          (device_manager_init)
//   last line    DESTROY ok|err       (device_manager_destroy, at end of input)
// and, never printed by the model:
//   "<tag> exception <what>"   a C++ exception escaped from the C API into the caller
//   "TERMINATE <op>"           std::terminate was called (exit status 70)
// Every output line is flushed, so that a crash (ASan/UBSan abort, signal) is attributed to the first operation
// without an output line.
#include "device/hal/device.manager.h"
#include "device/hal/driver.h"
#include "logger.h"

#include <cstdio>
#include <cstdlib>
#include <cstring>
#include <exception>
#include <string>
#include <csignal>
#include <fcntl.h>
#include <unistd.h>

static FILE* g_in = nullptr;
static FILE* g_out = nullptr;
static char g_cur[2048] = "(startup)";
static unsigned long g_msgs = 0;
static unsigned long g_msg_bytes = 0;

// Per-operation watchdog.  std::regex's backtracking matcher needs exponential time on patterns such as (.*)*x; that
// is outside C12 (no status, no exception, no crash is involved) and is reported as "TIMEOUT", which the check counts
// but does not treat as a violation.
static unsigned g_watchdog_s = 0;
static void
on_alarm(int)
{
    static const char msg[] = "TIMEOUT\n";
    fflush(g_out);
    ssize_t r = write(fileno(g_out), msg, sizeof(msg) - 1);
    (void)r;
    _exit(71);
}

static void
on_terminate()
{
    fprintf(g_out, "TERMINATE %s\n", g_cur);
    fflush(g_out);
    _exit(70);
}

// The reporter reads every message completely (so that a message that is not a valid C string is an ASan report).
static void
reporter(int is_error, const char* file, int line, const char* function, const char* msg)
{
    (void)is_error;
    (void)line;
    ++g_msgs;
    g_msg_bytes += strlen(msg) + strlen(file) + strlen(function);
}

static int
hexval(char c)
{
    if (c >= '0' && c <= '9')
        return c - '0';
    if (c >= 'a' && c <= 'f')
        return c - 'a' + 10;
    if (c >= 'A' && c <= 'F')
        return c - 'A' + 10;
    return 0;
}

static void
print_hex(const char* s, size_t n)
{
    if (n == 0) {
        fputc('-', g_out);
        return;
    }
    for (size_t i = 0; i < n; ++i)
        fprintf(g_out, "%02x", (unsigned)(unsigned char)s[i]);
}

static void
print_ident(const char* tag, const struct DeviceIdentifier* id)
{
    fprintf(g_out, "%s ok %u %u %u ", tag, (unsigned)id->driver_id, (unsigned)id->device_id, (unsigned)id->kind);
    print_hex(id->name, strnlen(id->name, sizeof(id->name)));
    fputc('\n', g_out);
}

static void
print_sel(enum DeviceStatusCode st, const struct DeviceIdentifier* id)
{
    if (st == Device_Ok)
        print_ident("S", id);
    else if (st == Device_Err)
        fprintf(g_out, "S err\n");
    else
        fprintf(g_out, "S status %d\n", (int)st);
}

static void
do_open(struct DeviceManager* dm, const struct DeviceIdentifier* id)
{
    struct Driver* drv = device_manager_get_driver(dm, id);
    struct Device* dev = nullptr;
    enum DeviceStatusCode st = driver_open_device(drv, id->device_id, &dev);
    if (st == Device_Ok && dev) {
        fprintf(g_out, "O ok %u %u ", (unsigned)dev->identifier.device_id, (unsigned)dev->identifier.kind);
        print_hex(dev->identifier.name, strnlen(dev->identifier.name, sizeof(dev->identifier.name)));
        if (dev->driver != drv)
            fprintf(g_out, " driver-field-mismatch");
        if (driver_close_device(dev) != Device_Ok)
            fprintf(g_out, " close-failed");
        fputc('\n', g_out);
    } else if (st == Device_Ok) {
        fprintf(g_out, "O ok-but-null-device\n");
    } else {
        fprintf(g_out, "O err\n");
    }
}

int
main()
{
    g_in = fdopen(dup(0), "r");
    g_out = fdopen(dup(1), "w");
    {
        // keep descriptor 0 harmless: a storage device that was never started closes descriptor 0 when destroyed
        int nul = open("/dev/null", O_RDONLY);
        if (nul >= 0) {
            dup2(nul, 0);
            if (nul != 0)
                close(nul);
        }
    }
    std::set_terminate(on_terminate);
    logger_set_reporter(reporter);
    if (const char* w = getenv("H_SELECT_WATCHDOG_S")) {
        g_watchdog_s = (unsigned)strtoul(w, 0, 10);
        signal(SIGALRM, on_alarm);
    }

    struct DeviceManager dm = { 0 };
    {
        enum DeviceStatusCode st = Device_Err;
        try {
            st = device_manager_init(&dm, reporter);
            fprintf(g_out, "INIT %s\n", st == Device_Ok ? "ok" : "err");
        } catch (...) {
            fprintf(g_out, "INIT exception\n");
        }
        fflush(g_out);
        if (st != Device_Ok)
            return 3;
    }
    // Two device managers in one process (two runtimes, a tool next to the runtime): A was created first and is destroyed while
    // B lives on; every operation below goes to B and must behave exactly as with a single manager (the driver libraries are shared
    // by both: whatever A's shutdown does to them must not reach B).
    if (getenv("H_SELECT_TWO_MANAGERS")) {
        struct DeviceManager dm2 = { 0 };
        snprintf(g_cur, sizeof(g_cur), "(second manager)");
        if (device_manager_init(&dm2, reporter) != Device_Ok || device_manager_destroy(&dm) != Device_Ok) {
            fprintf(g_out, "SECOND-MANAGER err\n");
            fflush(g_out);
            return 3;
        }
        dm = dm2;
    }

    static char line[4096];
    while (fgets(line, sizeof(line), g_in)) {
        size_t len = strlen(line);
        while (len && (line[len - 1] == '\n' || line[len - 1] == '\r' || line[len - 1] == ' '))
            line[--len] = 0;
        if (!len)
            continue;
        snprintf(g_cur, sizeof(g_cur), "%s", line);
        char op[32] = { 0 };
        char a1[2048] = { 0 };
        char a2[2048] = { 0 };
        int nf = sscanf(line, "%31s %2047s %2047s", op, a1, a2);
        const char* tag = "?";
        if (g_watchdog_s)
            alarm(g_watchdog_s);
        try {
            if (!strcmp(op, "count") && nf == 1) {
                tag = "C";
                fprintf(g_out, "C %u\n", (unsigned)device_manager_count(&dm));
            } else if (!strcmp(op, "get") && nf == 2) {
                tag = "G";
                struct DeviceIdentifier id;
                memset(&id, 0xAB, sizeof(id));
                enum DeviceStatusCode st = device_manager_get(&id, &dm, (uint32_t)strtoul(a1, 0, 10));
                if (st == Device_Ok)
                    print_ident("G", &id);
                else if (st == Device_Err)
                    fprintf(g_out, "G err\n");
                else
                    fprintf(g_out, "G status %d\n", (int)st);
            } else if (!strcmp(op, "sel") && nf == 3) {
                tag = "S";
                unsigned kind = (unsigned)strtoul(a1, 0, 10);
                size_t n = (!strcmp(a2, "-")) ? 0 : strlen(a2) / 2;
                // exactly n bytes on the heap, no terminator: any read past the pattern is an ASan report
                char* buf = (char*)malloc(n);
                for (size_t i = 0; i < n; ++i)
                    buf[i] = (char)(hexval(a2[2 * i]) * 16 + hexval(a2[2 * i + 1]));
                struct DeviceIdentifier id;
                memset(&id, 0xAB, sizeof(id));
                enum DeviceStatusCode st = device_manager_select(&dm, (enum DeviceKind)kind, buf, n, &id);
                print_sel(st, &id);
                free(buf);
            } else if (!strcmp(op, "seln") && nf == 3) {
                tag = "S";
                unsigned kind = (unsigned)strtoul(a1, 0, 10);
                size_t n = (size_t)strtoul(a2, 0, 10);
                struct DeviceIdentifier id;
                memset(&id, 0xAB, sizeof(id));
                enum DeviceStatusCode st = device_manager_select(&dm, (enum DeviceKind)kind, nullptr, n, &id);
                print_sel(st, &id);
            } else if (!strcmp(op, "first") && nf == 2) {
                tag = "S";
                unsigned kind = (unsigned)strtoul(a1, 0, 10);
                struct DeviceIdentifier id;
                memset(&id, 0xAB, sizeof(id));
                enum DeviceStatusCode st = device_manager_select_first(&dm, (enum DeviceKind)kind, &id);
                print_sel(st, &id);
            } else if (!strcmp(op, "default") && nf == 2) {
                tag = "S";
                unsigned kind = (unsigned)strtoul(a1, 0, 10);
                struct DeviceIdentifier id;
                memset(&id, 0xAB, sizeof(id));
                enum DeviceStatusCode st = device_manager_select_default(&dm, (enum DeviceKind)kind, &id);
                print_sel(st, &id);
            } else if (!strcmp(op, "open") && nf == 2) {
                tag = "O";
                struct DeviceIdentifier id;
                memset(&id, 0xAB, sizeof(id));
                if (device_manager_get(&id, &dm, (uint32_t)strtoul(a1, 0, 10)) != Device_Ok)
                    fprintf(g_out, "O err\n");
                else
                    do_open(&dm, &id);
            } else if (!strcmp(op, "openid") && nf == 3) {
                tag = "O";
                struct DeviceIdentifier id;
                memset(&id, 0, sizeof(id));
                id.driver_id = (uint8_t)strtoul(a1, 0, 10);
                id.device_id = (uint8_t)strtoul(a2, 0, 10);
                do_open(&dm, &id);
            } else {
                fprintf(g_out, "BADOP %s\n", line);
            }
        } catch (const std::exception& e) {
            fprintf(g_out, "%s exception %s\n", tag, e.what());
        } catch (...) {
            fprintf(g_out, "%s exception (unknown)\n", tag);
        }
        if (g_watchdog_s)
            alarm(0);
        fflush(g_out);
    }

    snprintf(g_cur, sizeof(g_cur), "(destroy)");
    try {
        enum DeviceStatusCode st = device_manager_destroy(&dm);
        fprintf(g_out, "DESTROY %s msgs=%lu\n", st == Device_Ok ? "ok" : "err", g_msgs);
    } catch (...) {
        fprintf(g_out, "DESTROY exception\n");
    }
    fflush(g_out);
    return 0;
}
