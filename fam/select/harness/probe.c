// probe.c -- ground truth for one driver library, obtained WITHOUT the repository's loader and device manager:
// dlopen the library, call acquire_driver_init_v0, and print what device_count() and describe(i) report.
//   usage: probe /abs/path/libX.so
//   output: "N <count>" then one line per device "D <i> <status> <device_id> <kind> <hexname>", then "END"
// Used by check.py as the per-library input of the model and of the independent enumeration oracle.
#include "device/kit/driver.h"

#include <dlfcn.h>
#include <stdio.h>
#include <string.h>

static void
reporter(int is_error, const char* file, int line, const char* function, const char* msg)
{
    (void)is_error;
    (void)file;
    (void)line;
    (void)function;
    (void)msg;
}

typedef struct Driver* (*init_t)(void (*)(int, const char*, int, const char*, const char*));

int
main(int argc, char** argv)
{
    if (argc < 2)
        return 2;
    void* h = dlopen(argv[1], RTLD_NOW | RTLD_LOCAL);
    if (!h) {
        printf("NOLIB\n");
        return 0;
    }
    init_t init = (init_t)dlsym(h, "acquire_driver_init_v0");
    if (!init) {
        printf("NOENTRY\n");
        return 0;
    }
    struct Driver* d = init(reporter);
    if (!d) {
        printf("INITFAIL\n");
        return 0;
    }
    unsigned n = d->device_count(d);
    printf("N %u\n", n);
    for (unsigned i = 0; i < n; ++i) {
        struct DeviceIdentifier id;
        memset(&id, 0, sizeof(id));
        enum DeviceStatusCode st = d->describe(d, &id, i);
        printf("D %u %d %u %u ", i, (int)st, (unsigned)id.device_id, (unsigned)id.kind);
        size_t len = strnlen(id.name, sizeof(id.name));
        if (!len)
            printf("-");
        for (size_t k = 0; k < len; ++k)
            printf("%02x", (unsigned)(unsigned char)id.name[k]);
        printf("\n");
    }
    printf("END\n");
    d->shutdown(d);
    return 0;
}
