// stub_driver.c -- a minimal well-behaved driver library standing in for one of the optional libraries the device
// manager tries to load (acquire-driver-hdcam, -zarr, -egrabber, -spinnaker, -pvcam).
//
// Compiled once per table with -DSTUB_TABLE=<k>; the device tables come from stub_tables.h, which check.py generates
// from the same Python tables it hands to the model.  Variants:
//   -DSTUB_NOENTRY    the library has no acquire_driver_init_v0 (lib_load fails in driver_load)
//   -DSTUB_INITFAIL   acquire_driver_init_v0 returns NULL
//   -DSTUB_EMPTY      the driver loads but reports device_count() == 0
// Driver contract honoured here (as basics.driver.c does): describe(i) succeeds for i < device_count() and reports
// device_id = i; open(i) succeeds exactly for those i; the driver_id field is left for the device manager.
#include "device/kit/driver.h"

#include <stdlib.h>
#include <string.h>

struct stub_dev
{
    unsigned kind;
    unsigned char name[256];
};

#include "stub_tables.h" // defines: static const struct stub_dev stub_devs[]; static const unsigned stub_n;

struct StubDriver
{
    struct Driver driver;
    int live_devices;
};

static uint32_t
stub_count(struct Driver* self)
{
    (void)self;
#ifdef STUB_EMPTY
    return 0;
#else
    return stub_n;
#endif
}

static enum DeviceStatusCode
stub_describe(const struct Driver* self, struct DeviceIdentifier* identifier, uint64_t i)
{
    (void)self;
#ifdef STUB_EMPTY
    (void)identifier;
    (void)i;
    return Device_Err;
#else
    if (i >= stub_n)
        return Device_Err;
    memset(identifier, 0, sizeof(*identifier));
    identifier->device_id = (uint8_t)i;
    identifier->kind = (enum DeviceKind)stub_devs[i].kind;
    memcpy(identifier->name, stub_devs[i].name, sizeof(identifier->name));
    return Device_Ok;
#endif
}

static enum DeviceStatusCode
stub_open(struct Driver* self_, uint64_t device_id, struct Device** out)
{
    struct StubDriver* self = (struct StubDriver*)self_;
    if (!out)
        return Device_Err;
#ifdef STUB_EMPTY
    (void)device_id;
    return Device_Err;
#else
    if (device_id >= stub_n)
        return Device_Err;
    struct Device* d = (struct Device*)calloc(1, sizeof(*d));
    if (!d)
        return Device_Err;
    *out = d;
    self->live_devices++;
    return Device_Ok;
#endif
}

static enum DeviceStatusCode
stub_close(struct Driver* self_, struct Device* in)
{
    struct StubDriver* self = (struct StubDriver*)self_;
    if (!in)
        return Device_Err;
    free(in);
    self->live_devices--;
    return Device_Ok;
}

static enum DeviceStatusCode
stub_shutdown(struct Driver* self)
{
    free(self);
    return Device_Ok;
}

#ifdef STUB_NOENTRY
struct Driver*
acquire_driver_init_v1_not_the_entry_point(void)
{
    return 0;
}
#else
struct Driver*
acquire_driver_init_v0(void (*reporter)(int is_error, const char* file, int line, const char* function, const char* msg))
{
    (void)reporter;
#ifdef STUB_INITFAIL
    return 0;
#else
    struct StubDriver* self = (struct StubDriver*)calloc(1, sizeof(*self));
    if (!self)
        return 0;
    self->driver.device_count = stub_count;
    self->driver.describe = stub_describe;
    self->driver.open = stub_open;
    self->driver.close = stub_close;
    self->driver.shutdown = stub_shutdown;
    return &self->driver;
#endif
}
#endif
