(* SelectModel.v -- executable model of device enumeration / selection / opening
   (acquire-device-hal: device.manager.cpp, loader.c, driver.c; acquire-driver-common: basics.driver.c).
   Definitions only; the proofs are in Select.v.

   Bytes, kinds, indices and identifiers are [N]. *)
From Coq Require Import NArith List Bool.
From Select Require Import RegexModel ParseModel.
Import ListNotations.
Local Open Scope N_scope.

(* ------------------------------------------------------------------ drivers and enumeration *)
(* What describe(i) of a loaded driver reports for i = 0..device_count-1: a kind and a name; the driver contract
   (honoured by basics.driver.c:71-95 and by the stub drivers) is device_id = i. *)
Record dev : Type := mkdev { dkind : N; dname : list N }.
Definition driver : Type := list dev.

(* struct DeviceIdentifier { driver_id; device_id; kind; name } *)
Record ident : Type := mkid { idrv : N; idev : N; ikind : N; iname : list N }.

Inductive result : Type := Ok (d : ident) | Err.

(* device.manager.cpp:131-139: for i in 0..n-1: describe(i); identifier.driver_id = driver_id *)
Fixpoint describe_all (drv i : N) (ds : list dev) : list ident :=
  match ds with
  | [] => []
  | d :: t => mkid drv i (dkind d) (dname d) :: describe_all drv (i + 1) t
  end.

(* device.manager.cpp:118-142: the driver table has one slot per library in a fixed order; driver_load returns 0
   for a library that is absent / not loadable / without entry point / whose init fails (loader.c:89-134): such a
   slot is [None]; it contributes no identifier but ++driver_id still happens. *)
Fixpoint enumerate_from (drv : N) (slots : list (option driver)) : list ident :=
  match slots with
  | [] => []
  | None :: t => enumerate_from (drv + 1) t
  | Some d :: t => describe_all drv 0 d ++ enumerate_from (drv + 1) t
  end.

Definition enumerate (slots : list (option driver)) : list ident := enumerate_from 0 slots.

(* device_manager_count *)
Definition count (ids : list ident) : N := N.of_nat (length ids).

(* the i-th element, i a binary number (an index may be any uint32_t: no unary conversion) *)
Fixpoint nthN {A : Type} (l : list A) (i : N) : option A :=
  match l with
  | [] => None
  | x :: t => if i =? 0 then Some x else nthN t (N.pred i)
  end.

(* device_manager_get: identifiers_.at(index) -- std::out_of_range is caught at the C boundary -> Device_Err *)
Definition get (ids : list ident) (i : N) : result :=
  match nthN ids i with
  | Some d => Ok d
  | None => Err
  end.

(* ------------------------------------------------------------------ name pre-processing *)
Definition is_nil {A : Type} (l : list A) : bool := match l with [] => true | _ => false end.

(* the C string inside a buffer: everything before the first NUL *)
Fixpoint cut_nul (s : list N) : list N :=
  match s with
  | [] => []
  | c :: t => if c =? 0 then [] else c :: cut_nul t
  end.

(* device_manager_select_inner_, device.manager.cpp:342-357, for name_ != NULL:
     std::string name;
     if (name_ && bytes_of_name) { name.assign(name_, bytes_of_name);
                                   if (name.back() is NUL) name.erase(find(name, '\0'), end); }            *)
Definition prep (p : list N) : list N :=
  if is_nil p then []
  else if last p 1 =? 0 then cut_nul p
  else p.

(* ------------------------------------------------------------------ selection, generic in the regex engine *)
Section Engine.
  (* std::regex is external: the theorems of Select.v hold for ANY engine.
     compile s = None      : std::regex(s, icase|optimize) throws (std::regex_error)
     exec r name = None    : std::regex_match(name, r) throws
     exec r name = Some b  : it returns b                                                              *)
  Variable R : Type.
  Variable compile : list N -> option R.
  Variable exec : R -> list N -> option bool.

  (* DeviceManagerV0::select, device.manager.cpp:206-230, after the regex was built.
     An exception thrown by regex_match leaves through the catch of device_manager_select_inner_: Device_Err. *)
  Fixpoint scan (r : R) (k : N) (anyname : bool) (ids : list ident) : result :=
    match ids with
    | [] => Err
    | d :: t =>
      if ikind d =? k then
        if anyname then Ok d
        else match exec r (iname d) with
             | None => Err
             | Some true => Ok d
             | Some false => scan r k anyname t
             end
      else scan r k anyname t
    end.

  (* device_manager_select(self, kind, name != NULL, bytes_of_name = length p, out).
     The regex is built from name.c_str(), i.e. from the bytes before the first NUL, and it is built BEFORE the loop
     (a malformed pattern is an error even when no device has the kind); emptiness is judged on the whole std::string. *)
  Definition select (ids : list ident) (k : N) (p : list N) : result :=
    let name := prep p in
    match compile (cut_nul name) with
    | None => Err
    | Some r => scan r k (is_nil name) ids
    end.

  (* name == NULL: device_manager_select throws (caught) unless bytes_of_name == 0 *)
  Definition select_nullname (ids : list ident) (k : N) (nbytes : N) : result :=
    if nbytes =? 0 then select ids k [] else Err.

  Definition select_first (ids : list ident) (k : N) : result := select ids k [].

  Definition pat_random : list N := [46; 42; 114; 97; 110; 100; 111; 109; 46; 42].   (* .*random.* *)
  Definition pat_trash : list N := [116; 114; 97; 115; 104].                         (* trash *)

  (* device_manager_select_default *)
  Definition select_default (ids : list ident) (k : N) : result :=
    if k =? 1 then select ids k pat_random
    else if k =? 2 then select ids k pat_trash
    else Err.
End Engine.

(* ------------------------------------------------------------------ opening *)
(* device_manager_get_driver + driver_open_device(driver, identifier.device_id):
   drivers_.at(driver_id) (out of range: caught, NULL), NULL driver -> Device_Err; driver->open(device_id) fails for
   an id the driver does not have; then the device's identifier is what describe(device_id) says. *)
Record opened : Type := mkopened { odev : N; okind : N; oname : list N }.

Definition open_dev (slots : list (option driver)) (drv dv : N) : option opened :=
  match nthN slots drv with
  | Some (Some d) =>
    match nthN d dv with
    | Some x => Some (mkopened dv (dkind x) (dname x))
    | None => None
    end
  | _ => None
  end.

(* ------------------------------------------------------------------ the executable instance *)
Definition frag_compile (s : list N) : option re :=
  match parse s with
  | POk r => Some r
  | _ => None
  end.

Definition frag_exec (r : re) (s : list N) : option bool := Some (matchb r s).

Definition select_frag : list ident -> N -> list N -> result := select re frag_compile frag_exec.

(* What the oracle runs.  None = the pattern is outside the fragment: no exact prediction. *)
Definition select_x (ids : list ident) (k : N) (p : list N) : option result :=
  match parse (cut_nul (prep p)) with
  | POut => None
  | _ => Some (select_frag ids k p)
  end.

Definition select_nullname_x (ids : list ident) (k nbytes : N) : option result :=
  if nbytes =? 0 then select_x ids k [] else Some Err.

Definition select_default_x (ids : list ident) (k : N) : option result :=
  if k =? 1 then select_x ids k pat_random
  else if k =? 2 then select_x ids k pat_trash
  else Some Err.
