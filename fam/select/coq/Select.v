(* Select.v -- proofs about SelectModel.v (C12).  Generic part: for ANY regex engine (Section variables);
   instance part: for the verified derivative matcher of Regex.v behind the fragment parser of ParseModel.v. *)
From Coq Require Import NArith List Bool Lia.
From Select Require Export RegexModel ParseModel SelectModel.
From Select Require Import Regex.
Import ListNotations.
Local Open Scope N_scope.

(* ------------------------------------------------------------------ small list facts *)
Lemma is_nil_true : forall (A : Type) (l : list A), is_nil l = true <-> l = [].
Proof. intros A [|x l]; simpl; split; congruence. Qed.

Lemma is_nil_false : forall (A : Type) (l : list A), is_nil l = false <-> l <> [].
Proof. intros A [|x l]; simpl; split; congruence. Qed.

Lemma nthN_nth_error : forall (A : Type) (l : list A) i, nthN l i = nth_error l (N.to_nat i).
Proof.
  induction l as [|x t IH]; intros i; simpl.
  - destruct (N.to_nat i); reflexivity.
  - destruct (N.eqb_spec i 0) as [-> | Hi]; [reflexivity|].
    rewrite IH. replace (N.to_nat i) with (S (N.to_nat (N.pred i))) by lia. reflexivity.
Qed.

Lemma cut_nul_app_zero : forall p q, cut_nul (p ++ 0 :: q) = cut_nul p.
Proof.
  induction p as [|c p IH]; intros q; simpl; [reflexivity|].
  destruct (c =? 0); [reflexivity | rewrite IH; reflexivity].
Qed.

Lemma cut_nul_idem : forall p, cut_nul (cut_nul p) = cut_nul p.
Proof.
  induction p as [|c p IH]; simpl; [reflexivity|].
  destruct (c =? 0) eqn:E; simpl; [reflexivity | rewrite E, IH; reflexivity].
Qed.

Lemma cut_nul_nozero : forall p, Forall (fun c => c <> 0) p -> cut_nul p = p.
Proof.
  induction 1 as [|c p Hc _ IH]; simpl; [reflexivity|].
  apply N.eqb_neq in Hc. rewrite Hc, IH. reflexivity.
Qed.

Lemma last_nozero : forall p, Forall (fun c => c <> 0) p -> last p 1 <> 0.
Proof.
  induction 1 as [|c p Hc Hp IH]; simpl; [discriminate|].
  destruct p; [exact Hc | exact IH].
Qed.

Lemma last_app_zeros : forall p n, last (p ++ repeat 0 (S n)) 1 = 0.
Proof.
  intros p n. replace (repeat 0 (S n)) with (repeat 0 n ++ [0]).
  - rewrite app_assoc. apply last_last.
  - symmetry. apply (repeat_cons n 0).
Qed.

Lemma cut_prep : forall p, cut_nul (prep p) = cut_nul p.
Proof.
  intros p. unfold prep. destruct (is_nil p) eqn:E.
  - apply is_nil_true in E. subst. reflexivity.
  - destruct (last p 1 =? 0); [apply cut_nul_idem | reflexivity].
Qed.

Lemma prep_padded : forall p n, prep (p ++ repeat 0 (S n)) = cut_nul p.
Proof.
  intros p n. unfold prep.
  destruct (is_nil (p ++ repeat 0 (S n))) eqn:E.
  - apply is_nil_true in E. apply app_eq_nil in E as [_ E]. discriminate E.
  - rewrite last_app_zeros. simpl (0 =? 0). cbv iota.
    change (repeat 0 (S n)) with (0 :: repeat 0 n). apply cut_nul_app_zero.
Qed.

(* A NUL-padded name denotes the same query as the unpadded one unless the unpadded buffer starts with NUL and does
   not end with one (then the unpadded query means "the empty regex" and the padded one "any name"). *)
Definition pad_ok (p : list N) : Prop := p = [] \/ hd 1 p <> 0 \/ last p 1 = 0.

Lemma is_nil_cut_prep : forall p, pad_ok p -> is_nil (cut_nul p) = is_nil (prep p).
Proof.
  intros p H. unfold prep. destruct p as [|c t]; [reflexivity|].
  cbn [is_nil]. destruct (last (c :: t) 1 =? 0) eqn:L; [reflexivity|].
  destruct H as [H | [H | H]].
  - discriminate H.
  - simpl in H. apply N.eqb_neq in H. simpl. rewrite H. reflexivity.
  - apply N.eqb_neq in L. contradiction.
Qed.

(* ------------------------------------------------------------------ enumeration and opening *)
Lemma describe_all_spec : forall ds drv i id,
    In id (describe_all drv i ds) ->
    idrv id = drv /\ exists j, idev id = i + N.of_nat j /\ nth_error ds j = Some (mkdev (ikind id) (iname id)).
Proof.
  induction ds as [|d t IH]; intros drv i id H; simpl in H; [contradiction|].
  destruct H as [H | H].
  - subst id; simpl. split; [reflexivity|]. exists O. split; [simpl; lia|]. destruct d; reflexivity.
  - apply IH in H as [H1 (j & H2 & H3)]. split; [exact H1|]. exists (S j). split; [lia | exact H3].
Qed.

Lemma enumerate_from_spec : forall slots b id,
    In id (enumerate_from b slots) ->
    exists j d, idrv id = b + N.of_nat j /\ nth_error slots j = Some (Some d) /\
                nth_error d (N.to_nat (idev id)) = Some (mkdev (ikind id) (iname id)).
Proof.
  induction slots as [|s t IH]; intros b id H; simpl in H; [contradiction|].
  destruct s as [d|].
  - apply in_app_or in H as [H | H].
    + apply describe_all_spec in H as [H1 (j & H2 & H3)].
      exists O, d. split; [simpl; lia|]. split; [reflexivity|].
      rewrite H2. simpl (0 + _). rewrite Nat2N.id. exact H3.
    + apply IH in H as (j & d' & H1 & H2 & H3). exists (S j), d'. split; [lia|]. split; assumption.
  - apply IH in H as (j & d' & H1 & H2 & H3). exists (S j), d'. split; [lia|]. split; assumption.
Qed.

Lemma get_In : forall ids i d, get ids i = Ok d -> In d ids.
Proof.
  intros ids i d. unfold get. rewrite nthN_nth_error. destruct (nth_error ids (N.to_nat i)) eqn:E; [|discriminate].
  intro H. injection H as ->. eapply nth_error_In. exact E.
Qed.

Lemma open_enumerated : forall slots id,
    In id (enumerate slots) ->
    open_dev slots (idrv id) (idev id) = Some (mkopened (idev id) (ikind id) (iname id)).
Proof.
  intros slots id H. apply enumerate_from_spec in H as (j & d & H1 & H2 & H3).
  unfold open_dev. rewrite nthN_nth_error, H1. simpl (0 + _). rewrite Nat2N.id, H2, nthN_nth_error, H3. reflexivity.
Qed.

(* opening what get(i) returned yields a device with the kind and the name (and the id) get(i) reported *)
Theorem open_agrees : forall slots i id,
    get (enumerate slots) i = Ok id ->
    open_dev slots (idrv id) (idev id) = Some (mkopened (idev id) (ikind id) (iname id)).
Proof. intros slots i id H. apply open_enumerated. eapply get_In. exact H. Qed.

Lemma enumerate_from_absent : forall slots b, (forall s, In s slots -> s = None) -> enumerate_from b slots = [].
Proof.
  induction slots as [|s t IH]; intros b H; simpl; [reflexivity|].
  rewrite (H s (or_introl eq_refl)). apply IH. intros s' Hs'. apply H. right. exact Hs'.
Qed.

Lemma get_out_of_range : forall ids i, count ids <= i -> get ids i = Err.
Proof.
  intros ids i H. unfold get, count in *. rewrite nthN_nth_error.
  destruct (nth_error ids (N.to_nat i)) eqn:E; [|reflexivity].
  assert (G : nth_error ids (N.to_nat i) <> None) by congruence.
  apply nth_error_Some in G. lia.
Qed.

Lemma get_in_range : forall ids i, i < count ids -> exists d, get ids i = Ok d.
Proof.
  intros ids i H. unfold get, count in *. rewrite nthN_nth_error.
  destruct (nth_error ids (N.to_nat i)) eqn:E; [eauto|].
  apply nth_error_None in E. lia.
Qed.

Lemma open_absent : forall (slots : list (option driver)) drv dv,
    nthN slots drv = None \/ nthN slots drv = Some None -> open_dev slots drv dv = None.
Proof. intros slots drv dv [H | H]; unfold open_dev; rewrite H; reflexivity. Qed.

Lemma open_bad_device : forall (slots : list (option driver)) drv dv (d : driver),
    nthN slots drv = Some (Some d) -> N.of_nat (length d) <= dv -> open_dev slots drv dv = None.
Proof.
  intros slots drv dv d H1 H2. unfold open_dev. rewrite H1, nthN_nth_error.
  assert (G : (length d <= N.to_nat dv)%nat) by lia.
  apply nth_error_None in G. rewrite G. reflexivity.
Qed.

(* ------------------------------------------------------------------ selection, any engine *)
Section EngineProofs.
  Variable R : Type.
  Variable compile : list N -> option R.
  Variable exec : R -> list N -> option bool.

  Notation scan := (scan R exec).
  Notation select := (select R compile exec).

  Lemma scan_first : forall r k any ids d,
      scan r k any ids = Ok d <->
      exists pre post, ids = pre ++ d :: post /\ ikind d = k /\
                       (any = true \/ exec r (iname d) = Some true) /\
                       Forall (fun x => ikind x = k -> any = false /\ exec r (iname x) = Some false) pre.
  Proof.
    intros r k any. induction ids as [|x t IH]; intros d.
    - simpl. split; [discriminate|]. intros (pre & post & E & _). destruct pre; discriminate E.
    - simpl. destruct (ikind x =? k) eqn:Ek.
      + apply N.eqb_eq in Ek.
        assert (Hit : (any = true \/ exec r (iname x) = Some true) ->
                      (Ok x = Ok d <->
                       exists pre post, x :: t = pre ++ d :: post /\ ikind d = k /\
                                        (any = true \/ exec r (iname d) = Some true) /\
                                        Forall (fun y => ikind y = k -> any = false /\ exec r (iname y) = Some false) pre)).
        { intros Hg. split.
          - intro H. injection H as <-. exists [], t. repeat split; auto.
          - intros (pre & post & E & _ & _ & Hpre). destruct pre as [|y pre].
            + simpl in E. injection E as -> _. reflexivity.
            + simpl in E. injection E as <- _. apply Forall_inv in Hpre. destruct (Hpre Ek) as [Ha He].
              destruct Hg as [Hg | Hg]; congruence. }
        destruct any.
        * apply Hit. left. reflexivity.
        * destruct (exec r (iname x)) as [[|]|] eqn:Ex.
          -- apply Hit. right. reflexivity.
          -- rewrite IH. split.
             ++ intros (pre & post & -> & Hk & Hg & Hpre). exists (x :: pre), post. repeat split; auto.
             ++ intros (pre & post & E & Hk & Hg & Hpre). destruct pre as [|y pre].
                ** simpl in E. injection E as <- _. destruct Hg as [Hg | Hg]; congruence.
                ** simpl in E. injection E as <- ->. apply Forall_inv_tail in Hpre. exists pre, post. auto.
          -- split; [discriminate|]. intros (pre & post & E & Hk & Hg & Hpre). destruct pre as [|y pre].
             ++ simpl in E. injection E as <- _. destruct Hg as [Hg | Hg]; congruence.
             ++ simpl in E. injection E as <- _. apply Forall_inv in Hpre. destruct (Hpre Ek) as [_ He]. congruence.
      + apply N.eqb_neq in Ek. rewrite IH. split.
        * intros (pre & post & -> & Hk & Hg & Hpre). exists (x :: pre), post. repeat split; auto.
          constructor; [intro; contradiction | exact Hpre].
        * intros (pre & post & E & Hk & Hg & Hpre). destruct pre as [|y pre].
          -- simpl in E. injection E as <- _. contradiction.
          -- simpl in E. injection E as <- ->. apply Forall_inv_tail in Hpre. exists pre, post. auto.
  Qed.

  (* select returns d  iff  the pattern compiles and d is the FIRST enumerated identifier of kind k whose name the
     engine accepts (any name when the pre-processed pattern is empty), every earlier identifier of that kind having
     been rejected without an exception. *)
  Theorem first_match : forall ids k p d,
      select ids k p = Ok d <->
      exists r, compile (cut_nul (prep p)) = Some r /\
      exists pre post, ids = pre ++ d :: post /\ ikind d = k /\
                       (prep p = [] \/ exec r (iname d) = Some true) /\
                       Forall (fun x => ikind x = k -> prep p <> [] /\ exec r (iname x) = Some false) pre.
  Proof.
    intros ids k p d. unfold SelectModel.select.
    destruct (compile (cut_nul (prep p))) as [r|].
    - rewrite scan_first. split.
      + intros (pre & post & E & Hk & Hg & Hpre). exists r. split; [reflexivity|]. exists pre, post.
        repeat split; auto.
        * destruct Hg as [Hg | Hg]; [left; apply is_nil_true; exact Hg | right; exact Hg].
        * eapply Forall_impl; [|exact Hpre]. intros x Hx Hkx. destruct (Hx Hkx) as [Ha He].
          split; [apply is_nil_false; exact Ha | exact He].
      + intros (r' & Er & pre & post & E & Hk & Hg & Hpre). injection Er as <-. exists pre, post.
        repeat split; auto.
        * destruct Hg as [Hg | Hg]; [left; apply is_nil_true; exact Hg | right; exact Hg].
        * eapply Forall_impl; [|exact Hpre]. intros x Hx Hkx. destruct (Hx Hkx) as [Ha He].
          split; [apply is_nil_false; exact Ha | exact He].
    - split; [discriminate|]. intros (r & Er & _). discriminate Er.
  Qed.

  Lemma scan_total : forall r k any ids,
      scan r k any ids = Err \/ exists d, scan r k any ids = Ok d /\ In d ids /\ ikind d = k.
  Proof.
    intros r k any. induction ids as [|x t IH]; simpl; [left; reflexivity|].
    assert (G : scan r k any t = Err \/ exists d, scan r k any t = Ok d /\ (x = d \/ In d t) /\ ikind d = k).
    { destruct IH as [IH | (d & H1 & H2 & H3)]; [left; exact IH | right; exists d; auto]. }
    destruct (ikind x =? k) eqn:Ek; [|exact G].
    apply N.eqb_eq in Ek.
    destruct any; [right; exists x; auto|].
    destruct (exec r (iname x)) as [[|]|]; [right; exists x; auto | exact G | left; reflexivity].
  Qed.

  Lemma scan_no_kind : forall r k any ids, (forall d, In d ids -> ikind d <> k) -> scan r k any ids = Err.
  Proof.
    intros r k any. induction ids as [|x t IH]; intros H; simpl; [reflexivity|].
    assert (Hx : ikind x <> k) by (apply H; left; reflexivity).
    apply N.eqb_neq in Hx. rewrite Hx. apply IH. intros d Hd. apply H. right. exact Hd.
  Qed.

  Lemma scan_no_match : forall r k ids,
      (forall d, In d ids -> ikind d = k -> exec r (iname d) <> Some true) -> scan r k false ids = Err.
  Proof.
    intros r k. induction ids as [|x t IH]; intros H; simpl; [reflexivity|].
    assert (IH' : scan r k false t = Err) by (apply IH; intros d Hd; apply H; right; exact Hd).
    destruct (ikind x =? k) eqn:Ek; [|exact IH'].
    apply N.eqb_eq in Ek.
    destruct (exec r (iname x)) as [[|]|] eqn:Ex; [|exact IH' | reflexivity].
    exfalso. apply (H x (or_introl eq_refl) Ek). exact Ex.
  Qed.

  (* Bad input gives Err, and the model is total: every input leads to Err or to Ok with an enumerated identifier of
     the requested kind -- there is no third outcome. *)
  Theorem errors_total :
    (* total *)
    (forall ids k p, select ids k p = Err \/ exists d, select ids k p = Ok d /\ In d ids /\ ikind d = k) /\
    (* unknown kind: a kind no enumerated identifier has *)
    (forall ids k p, (forall d, In d ids -> ikind d <> k) -> select ids k p = Err) /\
    (* malformed pattern: the regex constructor throws *)
    (forall ids k p, compile (cut_nul (prep p)) = None -> select ids k p = Err) /\
    (* non-matching pattern *)
    (forall ids k p r, compile (cut_nul (prep p)) = Some r -> prep p <> [] ->
                       (forall d, In d ids -> ikind d = k -> exec r (iname d) <> Some true) -> select ids k p = Err) /\
    (* NULL name with a non-zero length; kinds without a default *)
    (forall ids k n, n <> 0 -> select_nullname R compile exec ids k n = Err) /\
    (forall ids k, k <> 1 -> k <> 2 -> select_default R compile exec ids k = Err) /\
    (* index >= count *)
    (forall ids i, count ids <= i -> get ids i = Err) /\
    (* no driver library present: nothing is enumerated, every query fails *)
    (forall slots, (forall s, In s slots -> s = None) ->
                   count (enumerate slots) = 0 /\ (forall i, get (enumerate slots) i = Err) /\
                   (forall k p, select (enumerate slots) k p = Err) /\ (forall drv dv, open_dev slots drv dv = None)) /\
    (* opening through an absent driver slot, a driver id outside the table, or a device id the driver does not have *)
    (forall (slots : list (option driver)) drv dv,
        nthN slots drv = None \/ nthN slots drv = Some None -> open_dev slots drv dv = None) /\
    (forall (slots : list (option driver)) drv dv (d : driver),
        nthN slots drv = Some (Some d) -> N.of_nat (length d) <= dv -> open_dev slots drv dv = None).
  Proof.
    assert (T : forall ids k p, select ids k p = Err \/ exists d, select ids k p = Ok d /\ In d ids /\ ikind d = k).
    { intros ids k p. unfold SelectModel.select. destruct (compile (cut_nul (prep p))); [apply scan_total | left; reflexivity]. }
    assert (K : forall ids k p, (forall d, In d ids -> ikind d <> k) -> select ids k p = Err).
    { intros ids k p H. unfold SelectModel.select.
      destruct (compile (cut_nul (prep p))); [apply scan_no_kind; exact H | reflexivity]. }
    split; [exact T|]. split; [exact K|]. split.
    { intros ids k p H. unfold SelectModel.select. rewrite H. reflexivity. }
    split.
    { intros ids k p r Hc Hn H. unfold SelectModel.select. rewrite Hc.
      apply is_nil_false in Hn. rewrite Hn. apply scan_no_match. exact H. }
    split.
    { intros ids k n Hn. unfold select_nullname. apply N.eqb_neq in Hn. rewrite Hn. reflexivity. }
    split.
    { intros ids k H1 H2. unfold select_default. apply N.eqb_neq in H1, H2. rewrite H1, H2. reflexivity. }
    split; [exact get_out_of_range|]. split.
    { intros slots H. unfold enumerate. rewrite (enumerate_from_absent slots 0 H).
      split; [reflexivity|]. split.
      - intros i. reflexivity.
      - split.
        + intros k p. apply K. intros d Hd. contradiction.
        + intros drv dv. unfold open_dev. destruct (nthN slots drv) as [[d|]|] eqn:E; try reflexivity.
          rewrite nthN_nth_error in E. apply nth_error_In in E. apply H in E. discriminate E. }
    split; [exact open_absent | exact open_bad_device].
  Qed.

  (* NUL padding does not change the query *)
  Theorem nul_padding : forall ids k p n, pad_ok p -> select ids k (p ++ repeat 0 n) = select ids k p.
  Proof.
    intros ids k p [|n] H.
    - simpl. rewrite app_nil_r. reflexivity.
    - unfold SelectModel.select. rewrite prep_padded, cut_nul_idem, cut_prep, (is_nil_cut_prep p H). reflexivity.
  Qed.

  (* what select returns is enumerated, hence can be opened and has the reported kind and name *)
  Theorem select_open_agrees : forall slots k p d,
      select (enumerate slots) k p = Ok d ->
      ikind d = k /\ open_dev slots (idrv d) (idev d) = Some (mkopened (idev d) (ikind d) (iname d)).
  Proof.
    intros slots k p d H. apply first_match in H as (r & _ & pre & post & E & Hk & _).
    split; [exact Hk|]. apply open_enumerated. rewrite E. apply in_or_app. right. left. reflexivity.
  Qed.
End EngineProofs.

(* ------------------------------------------------------------------ the Regex instance *)
Lemma frag_compile_ok : forall s r, frag_compile s = Some r <-> parse s = POk r.
Proof. intros s r. unfold frag_compile. destruct (parse s); split; congruence. Qed.

(* First match, stated with the denotational semantics: select returns d iff the pattern is in the fragment and d is
   the first enumerated identifier of kind k whose WHOLE name is in the language of the pattern (case-insensitively;
   any identifier of the kind when the pre-processed pattern is empty). *)
Theorem first_match_regex : forall ids k p d,
    select_frag ids k p = Ok d <->
    exists r, parse (cut_nul (prep p)) = POk r /\
    exists pre post, ids = pre ++ d :: post /\ ikind d = k /\
                     (prep p = [] \/ matches r (iname d)) /\
                     Forall (fun x => ikind x = k -> prep p <> [] /\ ~ matches r (iname x)) pre.
Proof.
  intros ids k p d. unfold select_frag. rewrite first_match. split.
  - intros (r & Hc & pre & post & E & Hk & Hg & Hpre). apply frag_compile_ok in Hc.
    exists r. split; [exact Hc|]. exists pre, post. repeat split; auto.
    + destruct Hg as [Hg | Hg]; [left; exact Hg | right].
      unfold frag_exec in Hg. injection Hg as Hg. apply matchb_correct. exact Hg.
    + eapply Forall_impl; [|exact Hpre]. intros x Hx Hkx. destruct (Hx Hkx) as [Hn He].
      split; [exact Hn|]. unfold frag_exec in He. injection He as He. rewrite <- matchb_correct. congruence.
  - intros (r & Hc & pre & post & E & Hk & Hg & Hpre). apply frag_compile_ok in Hc.
    exists r. split; [exact Hc|]. exists pre, post. repeat split; auto.
    + destruct Hg as [Hg | Hg]; [left; exact Hg | right].
      unfold frag_exec. f_equal. apply matchb_correct. exact Hg.
    + eapply Forall_impl; [|exact Hpre]. intros x Hx Hkx. destruct (Hx Hkx) as [Hn He].
      split; [exact Hn|]. unfold frag_exec. f_equal. destruct (matchb r (iname x)) eqn:Em; [|reflexivity].
      apply matchb_correct in Em. contradiction.
Qed.

(* Whole-name matching: an identifier whose whole name is not in the language is never selected by a non-empty
   pattern, whatever substrings of the name the pattern matches. *)
Theorem whole_name : forall ids k p r d,
    parse (cut_nul (prep p)) = POk r -> prep p <> [] ->
    select_frag ids k p = Ok d -> matches r (iname d).
Proof.
  intros ids k p r d Hp Hn H. apply first_match_regex in H as (r' & Hp' & pre & post & _ & _ & Hg & _).
  rewrite Hp in Hp'. injection Hp' as <-. destruct Hg as [Hg | Hg]; [contradiction | exact Hg].
Qed.

(* --- plain (metacharacter-free) patterns are literals *)
Lemma plain_facts : forall c,
    plainb c = true ->
    (c =? 94) = false /\ (c =? 36) = false /\ (c =? 92) = false /\ (c =? 46) = false /\ (c =? 42) = false /\
    (c =? 43) = false /\ (c =? 63) = false /\ (c =? 40) = false /\ (c =? 41) = false /\ (c =? 91) = false /\
    (c =? 93) = false /\ (c =? 123) = false /\ (c =? 125) = false /\ (c =? 124) = false /\ (c =? 0) = false.
Proof.
  intros c H. unfold plainb, is_special in H. apply andb_true_iff in H as [H1 H2].
  apply negb_true_iff in H1, H2.
  repeat (apply orb_false_iff in H1 as [H1 ?]).
  repeat split; assumption.
Qed.

Lemma p_quant_plain : forall a t, forallb plainb t = true -> p_quant a t = PRok a t.
Proof.
  intros a [|q t] H; [reflexivity|].
  simpl in H. apply andb_true_iff in H as [H _]. apply plain_facts in H.
  destruct H as (_ & _ & _ & _ & H42 & H43 & H63 & _ & _ & _ & _ & H123 & _).
  unfold p_quant, is_quant. rewrite H42, H43, H63, H123. reflexivity.
Qed.

Lemma p_term_plain : forall f c t,
    plainb c = true -> forallb plainb t = true -> p_term (S f) (c :: t) = PRok (chr c) t.
Proof.
  intros f c t Hc Ht. apply plain_facts in Hc.
  destruct Hc as (H94 & H36 & H92 & H46 & H42 & H43 & H63 & H40 & _ & H91 & _ & H123 & _).
  cbn [p_term]. unfold is_quant. rewrite H46, H40, H91, H92, H42, H43, H63, H94, H36, H123. simpl.
  apply p_quant_plain. exact Ht.
Qed.

Lemma p_seq_plain : forall p fuel,
    forallb plainb p = true -> (3 * length p + 1 <= fuel)%nat -> p_seq fuel p = PRok (lit p) [].
Proof.
  induction p as [|c t IH]; intros fuel Hp Hf.
  - destruct fuel as [|f]; [simpl in Hf; lia | reflexivity].
  - simpl in Hp. apply andb_true_iff in Hp as [Hc Ht].
    destruct fuel as [|f0]; [simpl in Hf; lia|].
    pose proof (plain_facts c Hc) as (_ & _ & _ & _ & _ & _ & _ & _ & H41 & _ & _ & _ & _ & H124 & _).
    cbn [p_seq]. rewrite H41, H124. cbn [orb].
    destruct f0 as [|f]; [simpl in Hf; lia|].
    rewrite (p_term_plain f c t Hc Ht).
    rewrite (IH (S f) Ht); [reflexivity|]. simpl in Hf. lia.
Qed.

Lemma parse_plain : forall p, forallb plainb p = true -> parse p = POk (lit p).
Proof.
  intros p Hp. unfold parse, parse_fuel.
  replace (4 * length p + 8)%nat with (S (4 * length p + 7)) by lia.
  cbn [p_alt]. rewrite (p_seq_plain p _ Hp) by lia. reflexivity.
Qed.

Lemma plain_nozero : forall p, forallb plainb p = true -> Forall (fun c => c <> 0) p.
Proof.
  intros p H. apply Forall_forall. intros c Hc. rewrite forallb_forall in H. apply H in Hc.
  apply plain_facts in Hc. apply N.eqb_neq. tauto.
Qed.

Lemma prep_plain : forall p, forallb plainb p = true -> prep p = p.
Proof.
  intros p H. unfold prep. destruct (is_nil p) eqn:E.
  - apply is_nil_true in E. congruence.
  - pose proof (last_nozero p (plain_nozero p H)) as L. apply N.eqb_neq in L. rewrite L. reflexivity.
Qed.

Definition first_of (f : ident -> bool) (ids : list ident) : result :=
  match find f ids with
  | Some d => Ok d
  | None => Err
  end.

Lemma scan_lit : forall p k ids,
    scan re frag_exec (lit p) k false ids = first_of (fun d => (ikind d =? k) && eqfl p (iname d)) ids.
Proof.
  intros p k. unfold first_of. induction ids as [|x t IH]; simpl; [reflexivity|].
  destruct (ikind x =? k); simpl; [|exact IH].
  unfold frag_exec. rewrite matchb_lit. destruct (eqfl p (iname x)); [reflexivity | exact IH].
Qed.

(* Case folding.  A plain, non-empty pattern selects the first identifier of the kind whose name equals the pattern up
   to ASCII case -- in particular a name that merely CONTAINS the pattern is not selected (the lengths agree). *)
Theorem select_plain : forall ids k p,
    forallb plainb p = true -> p <> [] ->
    select_frag ids k p = first_of (fun d => (ikind d =? k) && eqfl p (iname d)) ids.
Proof.
  intros ids k p Hp Hn. unfold select_frag, SelectModel.select.
  rewrite (prep_plain p Hp), (cut_nul_nozero p (plain_nozero p Hp)).
  unfold frag_compile. rewrite (parse_plain p Hp).
  apply is_nil_false in Hn. rewrite Hn. apply scan_lit.
Qed.

Theorem case_fold :
  (* the case of the name does not matter, for any fragment pattern *)
  (forall r s s', Forall2 (fun a b => lower a = lower b) s s' -> matchb r s = matchb r s') /\
  (* the case of a plain pattern does not matter *)
  (forall ids k p p', forallb plainb p = true -> forallb plainb p' = true -> p <> [] -> eqfl p p' = true ->
                      select_frag ids k p = select_frag ids k p') /\
  (* and a plain pattern selects by equality up to case *)
  (forall ids k p, forallb plainb p = true -> p <> [] ->
                   select_frag ids k p = first_of (fun d => (ikind d =? k) && eqfl p (iname d)) ids).
Proof.
  split; [intros r s s' H; apply matchb_fold; exact H|]. split; [|exact select_plain].
  intros ids k p p' Hp Hp' Hn He.
  assert (Hn' : p' <> []).
  { intro E. subst p'. apply eqfl_length in He. destruct p; [congruence | discriminate He]. }
  rewrite (select_plain ids k p Hp Hn), (select_plain ids k p' Hp' Hn').
  assert (F : forall l, find (fun d => (ikind d =? k) && eqfl p (iname d)) l =
                        find (fun d => (ikind d =? k) && eqfl p' (iname d)) l).
  { induction l as [|x t IH]; simpl; [reflexivity|].
    rewrite (eqfl_eq_l p p' (iname x) He), IH. reflexivity. }
  unfold first_of. rewrite F. reflexivity.
Qed.

(* A plain pattern that occurs inside the selected name IS the whole name. *)
Theorem whole_name_plain : forall ids k p d pre post,
    forallb plainb p = true -> p <> [] ->
    select_frag ids k p = Ok d -> eqfl (pre ++ p ++ post) (iname d) = true -> pre = [] /\ post = [].
Proof.
  intros ids k p d pre post Hp Hn H Hin.
  rewrite (select_plain ids k p Hp Hn) in H. unfold first_of in H.
  destruct (find _ ids) as [d'|] eqn:F; [|discriminate]. injection H as ->.
  apply find_some in F as [_ F]. apply andb_true_iff in F as [_ F].
  apply eqfl_length in F. apply eqfl_length in Hin. rewrite !app_length in Hin.
  destruct pre; destruct post; simpl in *; try lia; auto.
Qed.
