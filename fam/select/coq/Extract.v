From Coq Require Import ExtrOcamlBasic.
From Select Require Import RegexModel ParseModel SelectModel.
Extraction Language OCaml.
Extraction "selectmodel.ml" enumerate count get open_dev select_x select_nullname_x select_default_x parse matchb cut_nul prep.
