(* Regex.v -- correctness of the derivative matcher of RegexModel.v against the denotational semantics,
   and the case-folding facts used by C12.  Main result: matchb_correct. *)
From Coq Require Import NArith List Bool Lia.
From Select Require Export RegexModel.
Import ListNotations.
Local Open Scope N_scope.

(* ------------------------------------------------------------------ inversion lemmas *)
Lemma matches_Emp : forall s, matches Emp s <-> False.
Proof. intros s; split; intro H; [inversion H | contradiction]. Qed.

Lemma matches_Eps : forall s, matches Eps s <-> s = [].
Proof. intros s; split; intro H; [inversion H; reflexivity | subst; constructor]. Qed.

Lemma matches_Sym : forall cs s, matches (Sym cs) s <-> exists x, s = [x] /\ in_cset cs x = true.
Proof.
  intros cs s; split.
  - intro H; inversion H; subst; eauto.
  - intros (x & -> & H); constructor; exact H.
Qed.

Lemma matches_Cat : forall a b s,
    matches (Cat a b) s <-> exists s1 s2, s = s1 ++ s2 /\ matches a s1 /\ matches b s2.
Proof.
  intros a b s; split.
  - intro H; inversion H; subst; eauto.
  - intros (s1 & s2 & -> & H1 & H2); constructor; assumption.
Qed.

Lemma matches_Alt : forall a b s, matches (Alt a b) s <-> matches a s \/ matches b s.
Proof.
  intros a b s; split.
  - intro H; inversion H; subst; auto.
  - intros [H | H]; [apply MAltL | apply MAltR]; exact H.
Qed.

Lemma matches_Star_cons : forall a x s,
    matches (Star a) (x :: s) <-> exists s1 s2, s = s1 ++ s2 /\ matches a (x :: s1) /\ matches (Star a) s2.
Proof.
  intros a x s; split.
  - intro H. remember (Star a) as r eqn:Er. remember (x :: s) as w eqn:Ew.
    revert x s Ew. induction H as [ | | | | | a0 | a0 s0 t H1 _ H2 IH2]; intros x' s' Ew; try discriminate Er.
    + discriminate Ew.
    + injection Er as ->. destruct s0 as [|y s0'].
      * simpl in Ew. apply (IH2 eq_refl _ _ Ew).
      * simpl in Ew. injection Ew as -> <-. exists s0', t. auto.
  - intros (s1 & s2 & -> & H1 & H2). change (x :: s1 ++ s2) with ((x :: s1) ++ s2). apply MStarS; assumption.
Qed.

(* ------------------------------------------------------------------ nullable *)
Lemma nullable_spec : forall r, nullable r = true <-> matches r [].
Proof.
  induction r as [ | | cs | a IHa b IHb | a IHa b IHb | a IHa]; simpl.
  - rewrite matches_Emp. split; [discriminate | contradiction].
  - rewrite matches_Eps. split; reflexivity.
  - rewrite matches_Sym. split; [discriminate | intros (x & E & _); discriminate E].
  - rewrite andb_true_iff, IHa, IHb, matches_Cat. split.
    + intros [H1 H2]. exists [], []. auto.
    + intros (s1 & s2 & E & H1 & H2). symmetry in E. apply app_eq_nil in E as [-> ->]. auto.
  - rewrite orb_true_iff, IHa, IHb, matches_Alt. tauto.
  - split; [intros _; constructor | reflexivity].
Qed.

(* ------------------------------------------------------------------ smart constructors *)
Lemma cat_Emp_l : forall b s, matches (Cat Emp b) s <-> False.
Proof. intros; rewrite matches_Cat; split; [intros (s1 & s2 & _ & H & _); inversion H | contradiction]. Qed.

Lemma cat_Emp_r : forall a s, matches (Cat a Emp) s <-> False.
Proof. intros; rewrite matches_Cat; split; [intros (s1 & s2 & _ & _ & H); inversion H | contradiction]. Qed.

Lemma cat_Eps_l : forall b s, matches (Cat Eps b) s <-> matches b s.
Proof.
  intros; rewrite matches_Cat; split.
  - intros (s1 & s2 & -> & H1 & H2). apply matches_Eps in H1. subst. exact H2.
  - intro H. exists [], s. repeat split; [constructor | exact H].
Qed.

Lemma cat_Eps_r : forall a s, matches (Cat a Eps) s <-> matches a s.
Proof.
  intros; rewrite matches_Cat; split.
  - intros (s1 & s2 & -> & H1 & H2). apply matches_Eps in H2. subst. rewrite app_nil_r. exact H1.
  - intro H. exists s, []. rewrite app_nil_r. repeat split; [exact H | constructor].
Qed.

Lemma mk_cat_spec : forall a b s, matches (mk_cat a b) s <-> matches (Cat a b) s.
Proof.
  intros a b s.
  destruct a; simpl;
    try (rewrite cat_Emp_l, matches_Emp; tauto);
    try (rewrite cat_Eps_l; tauto);
    destruct b; simpl;
      try (rewrite cat_Emp_r, matches_Emp; tauto);
      try (rewrite cat_Eps_r; tauto);
      tauto.
Qed.

Lemma items_eqb_eq : forall a b, items_eqb a b = true -> a = b.
Proof.
  induction a as [|[x1 x2] a IH]; intros [|[y1 y2] b]; simpl; try discriminate; try reflexivity.
  unfold pair_eqb; simpl. rewrite !andb_true_iff, !N.eqb_eq. intros [[-> ->] H]. f_equal. apply IH, H.
Qed.

Lemma cset_eqb_eq : forall a b, cset_eqb a b = true -> a = b.
Proof.
  intros [n1 i1] [n2 i2]; unfold cset_eqb; simpl. rewrite andb_true_iff. intros [H1 H2].
  apply Bool.eqb_prop in H1. apply items_eqb_eq in H2. subst. reflexivity.
Qed.

Lemma re_eqb_eq : forall a b, re_eqb a b = true -> a = b.
Proof.
  induction a as [ | | cs | a1 IH1 a2 IH2 | a1 IH1 a2 IH2 | a1 IH1]; intros b; destruct b; simpl;
    try discriminate; try reflexivity.
  - intro H. apply cset_eqb_eq in H. subst. reflexivity.
  - rewrite andb_true_iff. intros [H1 H2]. apply IH1 in H1. apply IH2 in H2. subst. reflexivity.
  - rewrite andb_true_iff. intros [H1 H2]. apply IH1 in H1. apply IH2 in H2. subst. reflexivity.
  - intro H. apply IH1 in H. subst. reflexivity.
Qed.

Lemma alt_mem_spec : forall a r, alt_mem a r = true -> forall s, matches a s -> matches r s.
Proof.
  intros a r; induction r as [ | | cs | r1 _ r2 _ | r1 _ r2 IH2 | r1 _]; simpl; intros H s Hm;
    try (apply re_eqb_eq in H; subst; exact Hm).
  apply orb_true_iff in H as [H | H].
  - apply re_eqb_eq in H. subst. apply MAltL. exact Hm.
  - apply MAltR. apply IH2; assumption.
Qed.

Definition mk_alt_base (a b : re) : re :=
  match b with
  | Emp => a
  | _ => if alt_mem a b then b else Alt a b
  end.

Lemma mk_alt_base_spec : forall a b s, matches (mk_alt_base a b) s <-> matches a s \/ matches b s.
Proof.
  intros a b s.
  assert (G : matches (if alt_mem a b then b else Alt a b) s <-> matches a s \/ matches b s).
  { destruct (alt_mem a b) eqn:E.
    - split; [auto | intros [H | H]; [eapply alt_mem_spec; eassumption | exact H]].
    - apply matches_Alt. }
  destruct b; simpl; try exact G.
  rewrite matches_Emp. tauto.
Qed.

Lemma mk_alt_spec : forall a b s, matches (mk_alt a b) s <-> matches a s \/ matches b s.
Proof.
  induction a as [ | | cs | a1 _ a2 _ | a1 IH1 a2 IH2 | a1 _]; intros b s.
  - simpl. rewrite matches_Emp. tauto.
  - exact (mk_alt_base_spec Eps b s).
  - exact (mk_alt_base_spec (Sym cs) b s).
  - exact (mk_alt_base_spec (Cat a1 a2) b s).
  - simpl. rewrite IH1, IH2, matches_Alt. tauto.
  - exact (mk_alt_base_spec (Star a1) b s).
Qed.

(* ------------------------------------------------------------------ derivatives *)
Lemma matches_Cat_cons : forall a b x s,
    matches (Cat a b) (x :: s) <->
    (exists s1 s2, s = s1 ++ s2 /\ matches a (x :: s1) /\ matches b s2) \/ (matches a [] /\ matches b (x :: s)).
Proof.
  intros a b x s. rewrite matches_Cat. split.
  - intros (s1 & s2 & E & H1 & H2). destruct s1 as [|y s1].
    + simpl in E. subst s2. right. auto.
    + simpl in E. injection E as <- ->. left. eauto.
  - intros [(s1 & s2 & -> & H1 & H2) | [H1 H2]].
    + exists (x :: s1), s2. auto.
    + exists [], (x :: s). auto.
Qed.

Lemma deriv_spec : forall r x s, matches (deriv x r) s <-> matches r (x :: s).
Proof.
  induction r as [ | | cs | a IHa b IHb | a IHa b IHb | a IHa]; intros x s; simpl.
  - rewrite !matches_Emp. tauto.
  - rewrite matches_Emp, matches_Eps. split; [contradiction | discriminate].
  - rewrite matches_Sym. destruct (in_cset cs x) eqn:E.
    + rewrite matches_Eps. split.
      * intros ->. eauto.
      * intros (y & Ey & _). injection Ey as _ ->. reflexivity.
    + rewrite matches_Emp. split; [contradiction|].
      intros (y & Ey & Hy). injection Ey as -> _. congruence.
  - rewrite matches_Cat_cons. destruct (nullable a) eqn:En.
    + rewrite mk_alt_spec, mk_cat_spec, matches_Cat, IHb.
      apply nullable_spec in En.
      split.
      * intros [(s1 & s2 & E & H1 & H2) | H]; [left | right; auto].
        exists s1, s2. rewrite <- IHa. auto.
      * intros [(s1 & s2 & E & H1 & H2) | [_ H]]; [left | right; exact H].
        exists s1, s2. rewrite IHa. auto.
    + rewrite mk_cat_spec, matches_Cat. split.
      * intros (s1 & s2 & E & H1 & H2). left. exists s1, s2. rewrite <- IHa. auto.
      * intros [(s1 & s2 & E & H1 & H2) | [H _]].
        -- exists s1, s2. rewrite IHa. auto.
        -- apply nullable_spec in H. congruence.
  - rewrite mk_alt_spec, IHa, IHb, matches_Alt. tauto.
  - rewrite mk_cat_spec, matches_Cat, matches_Star_cons. split.
    + intros (s1 & s2 & E & H1 & H2). exists s1, s2. rewrite <- IHa. auto.
    + intros (s1 & s2 & E & H1 & H2). exists s1, s2. rewrite IHa. auto.
Qed.

Lemma derivs_spec : forall s r t, matches (derivs s r) t <-> matches r (s ++ t).
Proof.
  induction s as [|x s IH]; intros r t; simpl; [tauto|].
  rewrite IH, deriv_spec. tauto.
Qed.

(* The executable matcher decides membership of the WHOLE string in the language. *)
Theorem matchb_correct : forall r s, matchb r s = true <-> matches r s.
Proof.
  intros r s. unfold matchb. rewrite nullable_spec, derivs_spec, app_nil_r. tauto.
Qed.

(* ------------------------------------------------------------------ case folding *)
Ltac leb_cases :=
  repeat match goal with
         | H : context [N.leb ?a ?b] |- _ => destruct (N.leb_spec a b)
         | |- context [N.leb ?a ?b] => destruct (N.leb_spec a b)
         end; simpl in *.

Lemma lower_upper_eq : forall x y, lower x = lower y -> upper x = upper y.
Proof. intros x y; unfold lower, upper; leb_cases; lia. Qed.

Lemma lower_idem : forall x, lower (lower x) = lower x.
Proof. intros x; unfold lower; leb_cases; lia. Qed.

Lemma lower_upper : forall x, lower (upper x) = lower x.
Proof. intros x; unfold lower, upper; leb_cases; lia. Qed.

Lemma in_item_fold : forall x y it, lower x = lower y -> in_item x it = in_item y it.
Proof. intros x y it H. unfold in_item. rewrite H, (lower_upper_eq _ _ H). reflexivity. Qed.

Lemma in_cset_fold : forall cs x y, lower x = lower y -> in_cset cs x = in_cset cs y.
Proof.
  intros cs x y H. unfold in_cset. f_equal.
  induction (citems cs) as [|it l IH]; simpl; [reflexivity|].
  rewrite (in_item_fold _ _ it H), IH. reflexivity.
Qed.

Lemma deriv_fold : forall r x y, lower x = lower y -> deriv x r = deriv y r.
Proof.
  induction r as [ | | cs | a IHa b IHb | a IHa b IHb | a IHa]; intros x y H; simpl; try reflexivity.
  - rewrite (in_cset_fold cs x y H). reflexivity.
  - rewrite (IHa x y H), (IHb x y H). reflexivity.
  - rewrite (IHa x y H), (IHb x y H). reflexivity.
  - rewrite (IHa x y H). reflexivity.
Qed.

(* the case of the NAME does not matter *)
Lemma matchb_fold : forall s s', Forall2 (fun a b => lower a = lower b) s s' -> forall r, matchb r s = matchb r s'.
Proof.
  unfold matchb. induction 1 as [|x y s s' Hxy _ IH]; intros r; simpl; [reflexivity|].
  rewrite (deriv_fold r x y Hxy). apply IH.
Qed.

(* a literal (or a one-character bracket item) matches exactly the bytes equal to it up to case *)
Lemma chr_in_cset : forall c x, in_cset (mkcset false [(c, c)]) x = eqfold x c.
Proof.
  intros c x. unfold in_cset. cbn [cneg citems existsb]. rewrite xorb_false_l, orb_false_r.
  unfold in_item, eqfold. cbn [fst snd].
  apply eq_true_iff_eq.
  rewrite orb_true_iff, !andb_true_iff, !N.leb_le, N.eqb_eq.
  unfold lower, upper; leb_cases; lia.
Qed.

Lemma eqfold_sym : forall a b, eqfold a b = eqfold b a.
Proof. intros; unfold eqfold; apply N.eqb_sym. Qed.

Lemma matches_lit : forall p s, matches (lit p) s <-> eqfl p s = true.
Proof.
  induction p as [|c p IH]; intros s; simpl.
  - rewrite matches_Eps. destruct s; split; congruence.
  - unfold chr. rewrite matches_Cat. split.
    + intros (s1 & s2 & -> & H1 & H2). apply matches_Sym in H1 as (x & -> & Hx).
      simpl. rewrite chr_in_cset in Hx. rewrite eqfold_sym, Hx. apply IH, H2.
    + destruct s as [|x s]; [discriminate|]. rewrite andb_true_iff. intros [Hx Hs].
      exists [x], s. repeat split.
      * apply MSym. rewrite chr_in_cset, eqfold_sym. exact Hx.
      * apply IH, Hs.
Qed.

(* the case of a literal PATTERN does not matter either: only the folded bytes are compared *)
Lemma matchb_lit : forall p s, matchb (lit p) s = eqfl p s.
Proof. intros p s. apply eq_true_iff_eq. rewrite matchb_correct. apply matches_lit. Qed.

Lemma eqfl_length : forall a b, eqfl a b = true -> length a = length b.
Proof.
  induction a as [|x a IH]; intros [|y b]; simpl; try discriminate; try reflexivity.
  rewrite andb_true_iff. intros [_ H]. f_equal. apply IH, H.
Qed.

Lemma eqfl_trans : forall a b c, eqfl a b = true -> eqfl b c = true -> eqfl a c = true.
Proof.
  induction a as [|x a IH]; intros [|y b] [|z c]; simpl; try discriminate; try reflexivity.
  unfold eqfold. rewrite !andb_true_iff, !N.eqb_eq. intros [H1 H2] [H3 H4]. split; [congruence | eapply IH; eassumption].
Qed.

Lemma eqfl_sym : forall a b, eqfl a b = eqfl b a.
Proof.
  induction a as [|x a IH]; intros [|y b]; simpl; try reflexivity.
  rewrite eqfold_sym, IH. reflexivity.
Qed.

Lemma eqfl_eq_l : forall a a' b, eqfl a a' = true -> eqfl a b = eqfl a' b.
Proof.
  intros a a' b H. apply eq_true_iff_eq. split; intro G.
  - eapply eqfl_trans; [rewrite eqfl_sym; exact H | exact G].
  - eapply eqfl_trans; eassumption.
Qed.
