(* RegexModel.v -- regular expressions over bytes: syntax, denotational semantics, and an executable
   Brzozowski-derivative matcher.  Definitions only (proofs are in Regex.v) so that the model still
   extracts when a proof breaks.

   Bytes are [N] (the theorems hold for every N, the code only ever sees 0..255).

   Case folding mirrors what libstdc++'s std::regex does under regex_constants::icase in the "C" locale
   (bits/regex_compiler.h):
     - a literal c matches x        iff  tolower x = tolower c          (_CharMatcher / _M_translate)
     - a bracket range [l-h] matches x  iff  l <= tolower x <= h  or  l <= toupper x <= h   (_M_in_range_icase)
     - a single bracket character is the range [c-c] (shown equivalent to the literal rule in Regex.v)
     - '.' matches every byte except '\n' (10) and '\r' (13)           (_AnyMatcher<.., true(ecma), ..>)
   so "folded on both sides": neither the case of the pattern nor the case of the name matters. *)
From Coq Require Import NArith List Bool.
Import ListNotations.
Local Open Scope N_scope.

Definition lower (c : N) : N := if (65 <=? c) && (c <=? 90) then c + 32 else c.
Definition upper (c : N) : N := if (97 <=? c) && (c <=? 122) then c - 32 else c.
Definition eqfold (a b : N) : bool := lower a =? lower b.

(* equality of two byte strings up to ASCII case *)
Fixpoint eqfl (a b : list N) : bool :=
  match a, b with
  | [], [] => true
  | x :: a', y :: b' => eqfold x y && eqfl a' b'
  | _, _ => false
  end.

(* a character set: a list of inclusive ranges, possibly negated *)
Record cset := mkcset { cneg : bool; citems : list (N * N) }.

Definition in_item (x : N) (it : N * N) : bool :=
  ((fst it <=? lower x) && (lower x <=? snd it)) || ((fst it <=? upper x) && (upper x <=? snd it)).

Definition in_cset (cs : cset) (x : N) : bool := xorb (cneg cs) (existsb (in_item x) (citems cs)).

Inductive re : Type :=
| Emp                      (* matches nothing *)
| Eps                      (* matches the empty string *)
| Sym (cs : cset)          (* one byte out of a set: literal, '.', [...] *)
| Cat (a b : re)
| Alt (a b : re)
| Star (a : re).

Definition chr (c : N) : re := Sym (mkcset false [(c, c)]).
Definition anychar : re := Sym (mkcset true [(10, 10); (13, 13)]).
Definition plus (a : re) : re := Cat a (Star a).
Definition opt (a : re) : re := Alt a Eps.
Fixpoint lit (s : list N) : re := match s with [] => Eps | c :: t => Cat (chr c) (lit t) end.

(* denotational semantics: the WHOLE string is in the language of r *)
Inductive matches : re -> list N -> Prop :=
| MEps : matches Eps []
| MSym : forall cs x, in_cset cs x = true -> matches (Sym cs) [x]
| MCat : forall a b s t, matches a s -> matches b t -> matches (Cat a b) (s ++ t)
| MAltL : forall a b s, matches a s -> matches (Alt a b) s
| MAltR : forall a b s, matches b s -> matches (Alt a b) s
| MStar0 : forall a, matches (Star a) []
| MStarS : forall a s t, matches a s -> matches (Star a) t -> matches (Star a) (s ++ t).

(* ------------------------------------------------------------------ executable matcher *)
Fixpoint nullable (r : re) : bool :=
  match r with
  | Emp => false
  | Eps => true
  | Sym _ => false
  | Cat a b => nullable a && nullable b
  | Alt a b => nullable a || nullable b
  | Star _ => true
  end.

Definition pair_eqb (a b : N * N) : bool := (fst a =? fst b) && (snd a =? snd b).

Fixpoint items_eqb (a b : list (N * N)) : bool :=
  match a, b with
  | [], [] => true
  | x :: a', y :: b' => pair_eqb x y && items_eqb a' b'
  | _, _ => false
  end.

Definition cset_eqb (a b : cset) : bool := Bool.eqb (cneg a) (cneg b) && items_eqb (citems a) (citems b).

Fixpoint re_eqb (a b : re) : bool :=
  match a, b with
  | Emp, Emp => true
  | Eps, Eps => true
  | Sym x, Sym y => cset_eqb x y
  | Cat a1 a2, Cat b1 b2 => re_eqb a1 b1 && re_eqb a2 b2
  | Alt a1 a2, Alt b1 b2 => re_eqb a1 b1 && re_eqb a2 b2
  | Star a1, Star b1 => re_eqb a1 b1
  | _, _ => false
  end.

(* smart constructors: keep derivatives small (similarity: Emp/Eps units, right-nested duplicate-free sums) *)
Definition mk_cat (a b : re) : re :=
  match a with
  | Emp => Emp
  | Eps => b
  | _ => match b with Emp => Emp | Eps => a | _ => Cat a b end
  end.

Fixpoint alt_mem (a r : re) : bool :=
  match r with
  | Alt x y => re_eqb a x || alt_mem a y
  | _ => re_eqb a r
  end.

Fixpoint mk_alt (a b : re) : re :=
  match a with
  | Emp => b
  | Alt x y => mk_alt x (mk_alt y b)
  | _ => match b with
         | Emp => a
         | _ => if alt_mem a b then b else Alt a b
         end
  end.

Fixpoint deriv (x : N) (r : re) : re :=
  match r with
  | Emp => Emp
  | Eps => Emp
  | Sym cs => if in_cset cs x then Eps else Emp
  | Cat a b => if nullable a then mk_alt (mk_cat (deriv x a) b) (deriv x b) else mk_cat (deriv x a) b
  | Alt a b => mk_alt (deriv x a) (deriv x b)
  | Star a => mk_cat (deriv x a) (Star a)
  end.

Fixpoint derivs (s : list N) (r : re) : re :=
  match s with
  | [] => r
  | x :: t => derivs t (deriv x r)
  end.

Definition matchb (r : re) (s : list N) : bool := nullable (derivs s r).
