(* ParseModel.v -- a parser from pattern bytes (the C string handed to std::regex, ECMAScript grammar, icase)
   to the regular expressions of RegexModel.v, for the FRAGMENT on which the model predicts std::regex exactly:

     alternation  a|b          groups (a) (?:a)        concatenation, empty alternatives
     atoms        literal byte, '.', \<ASCII punctuation> (identity escape), [...] and [^...] with single
                  characters, escaped punctuation and ranges lo-hi
     quantifiers  one of * + ? per atom

   Three outcomes (this is a model of what libstdc++'s _Scanner/_Compiler do, read from
   /usr/include/c++/12/bits/regex_scanner.tcc and regex_compiler.tcc):

     POk r   the pattern is in the fragment; std::regex accepts it and its language is [matches r]
     PErr    the pattern is malformed in a way std::regex certainly rejects with std::regex_error, everything to the
             left of the error being inside the fragment: unbalanced ( ) or [ ], a quantifier with nothing to repeat,
             a trailing backslash, \x / \u without enough hex digits, \c at the end, a reversed ASCII range,
             (? not followed by : = !
     POut    the pattern uses something outside the fragment (anchors, {m,n}, lazy or stacked quantifiers,
             back-references, \d \w \s \b, named classes, '-' or '[' or bytes >= 128 inside brackets, empty
             brackets, ...): the model makes no exact prediction (only "Err, or Ok with an enumerated identifier of
             that kind") -- also returned when the fuel runs out, which it does not for fuel = 4*length+8.

   No proofs here. *)
From Coq Require Import NArith List Bool.
From Select Require Import RegexModel.
Import ListNotations.
Local Open Scope N_scope.

Inductive pres (A : Type) : Type :=
| PRok (a : A) (rest : list N)
| PRerr
| PRout.
Arguments PRok {A} a rest.
Arguments PRerr {A}.
Arguments PRout {A}.

Inductive presult : Type := POk (r : re) | PErr | POut.

(* byte classes *)
Definition is_quant (c : N) : bool := (c =? 42) || (c =? 43) || (c =? 63).          (* * + ? *)
Definition is_punct (c : N) : bool :=
  ((33 <=? c) && (c <=? 47)) || ((58 <=? c) && (c <=? 64)) || ((91 <=? c) && (c <=? 96)) || ((123 <=? c) && (c <=? 126)).
Definition is_hex (c : N) : bool :=
  ((48 <=? c) && (c <=? 57)) || ((65 <=? c) && (c <=? 70)) || ((97 <=? c) && (c <=? 102)).
(* the characters std::regex's ECMAScript scanner treats specially outside brackets:  ^ $ \ . * + ? ( ) [ ] { } |  *)
Definition is_special (c : N) : bool :=
  (c =? 94) || (c =? 36) || (c =? 92) || (c =? 46) || (c =? 42) || (c =? 43) || (c =? 63) ||
  (c =? 40) || (c =? 41) || (c =? 91) || (c =? 93) || (c =? 123) || (c =? 125) || (c =? 124).
(* a "plain" byte: not special and not NUL -- a pattern made of plain bytes is a literal *)
Definition plainb (c : N) : bool := negb (is_special c) && negb (c =? 0).

Fixpoint all_hex (n : nat) (s : list N) : bool :=
  match n with
  | O => true
  | S n' => match s with c :: t => is_hex c && all_hex n' t | [] => false end
  end.

(* what follows a backslash (outside or inside brackets) *)
Definition p_escape (s : list N) : pres N :=
  match s with
  | [] => PRerr                                             (* "Invalid escape at end of regular expression" *)
  | c :: t =>
    if is_punct c then PRok c t                             (* identity escape *)
    else if c =? 120 then (if all_hex 2 t then PRout else PRerr)   (* \xNN *)
    else if c =? 117 then (if all_hex 4 t then PRout else PRerr)   (* \uNNNN *)
    else if c =? 99 then (match t with [] => PRerr | _ => PRout end) (* \cX *)
    else PRout                                              (* \d \w \s \b \1 \n \t ... *)
  end.

(* one character inside brackets *)
Definition p_cchar (s : list N) : pres N :=
  match s with
  | [] => PRerr                                             (* unterminated bracket expression *)
  | c :: t =>
    if c =? 92 then p_escape t
    else if (c =? 93) || (c =? 91) || (c =? 45) || (128 <=? c) then PRout
    else PRok c t
  end.

(* the items of a bracket expression, after '[' or '[^' *)
Fixpoint p_items (fuel : nat) (s : list N) (acc : list (N * N)) : pres (list (N * N)) :=
  match fuel with
  | O => PRout
  | S f =>
    match s with
    | [] => PRerr
    | c :: t =>
      if c =? 93 then (match acc with [] => PRout | _ => PRok (rev acc) t end)
      else
        match p_cchar s with
        | PRok lo t1 =>
          match t1 with
          | d :: t2 =>
            if d =? 45 then
              match t2 with
              | e :: _ =>
                if e =? 93 then PRout
                else match p_cchar t2 with
                     | PRok hi t3 => if hi <? lo then PRerr else p_items f t3 ((lo, hi) :: acc)
                     | PRerr => PRerr
                     | PRout => PRout
                     end
              | [] => PRerr
              end
            else p_items f t1 ((lo, lo) :: acc)
          | [] => PRerr
          end
        | PRerr => PRerr
        | PRout => PRout
        end
    end
  end.

Definition p_class (s : list N) : pres re :=
  let body neg t :=
      match p_items (S (length t)) t [] with
      | PRok items rest => PRok (Sym (mkcset neg items)) rest
      | PRerr => PRerr
      | PRout => PRout
      end in
  match s with
  | c :: t => if c =? 94 then body true t else body false s
  | [] => PRerr
  end.

(* an optional quantifier after an atom *)
Definition p_quant (a : re) (rest : list N) : pres re :=
  match rest with
  | q :: t =>
    if is_quant q then
      let r := if q =? 42 then Star a else if q =? 43 then plus a else opt a in
      match t with
      | q2 :: _ => if is_quant q2 || (q2 =? 123) then PRout else PRok r t
      | [] => PRok r t
      end
    else if q =? 123 then PRout
    else PRok a rest
  | [] => PRok a rest
  end.

Fixpoint p_alt (fuel : nat) (s : list N) : pres re :=
  match fuel with
  | O => PRout
  | S f =>
    match p_seq f s with
    | PRok a rest =>
      match rest with
      | c :: t =>
        if c =? 124 then
          match p_alt f t with
          | PRok b r2 => PRok (Alt a b) r2
          | PRerr => PRerr
          | PRout => PRout
          end
        else PRok a rest
      | [] => PRok a rest
      end
    | PRerr => PRerr
    | PRout => PRout
    end
  end
with p_seq (fuel : nat) (s : list N) : pres re :=
  match fuel with
  | O => PRout
  | S f =>
    match s with
    | [] => PRok Eps []
    | c :: _ =>
      if (c =? 41) || (c =? 124) then PRok Eps s
      else
        match p_term f s with
        | PRok a rest =>
          match p_seq f rest with
          | PRok b r2 => PRok (Cat a b) r2
          | PRerr => PRerr
          | PRout => PRout
          end
        | PRerr => PRerr
        | PRout => PRout
        end
    end
  end
with p_term (fuel : nat) (s : list N) : pres re :=
  match fuel with
  | O => PRout
  | S f =>
    match s with
    | [] => PRerr
    | c :: t =>
      if c =? 46 then p_quant anychar t
      else if c =? 40 then
        let group body :=
            match p_alt f body with
            | PRok r rest =>
              match rest with
              | e :: r2 => if e =? 41 then p_quant r r2 else PRerr
              | [] => PRerr                                  (* missing ')' *)
              end
            | PRerr => PRerr
            | PRout => PRout
            end in
        match t with
        | q :: t1 =>
          if q =? 63 then
            match t1 with
            | d :: t2 =>
              if d =? 58 then group t2
              else if (d =? 61) || (d =? 33) then PRout      (* look-ahead *)
              else PRerr                                     (* "Invalid '(?...)' zero-width assertion" *)
            | [] => PRerr
            end
          else group t
        | [] => PRerr
        end
      else if c =? 91 then
        match p_class t with
        | PRok r rest => p_quant r rest
        | PRerr => PRerr
        | PRout => PRout
        end
      else if c =? 92 then
        match p_escape t with
        | PRok x rest => p_quant (chr x) rest
        | PRerr => PRerr
        | PRout => PRout
        end
      else if is_quant c then PRerr                          (* nothing to repeat *)
      else if (c =? 94) || (c =? 36) || (c =? 123) then PRout (* ^ $ { *)
      else p_quant (chr c) t                                 (* ordinary character, including ] and } *)
    end
  end.

Definition parse_fuel (s : list N) : nat := (4 * length s + 8)%nat.

Definition parse (s : list N) : presult :=
  match p_alt (parse_fuel s) s with
  | PRok r [] => POk r
  | PRok _ (_ :: _) => PErr                                  (* an unmatched ')' *)
  | PRerr => PErr
  | PRout => POut
  end.
